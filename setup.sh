#!/bin/sh
# Build the framework from files on disk only (offline).
set -e
cd "$(dirname "$0")"
mkdir -p .cache/tmp .cache/empty-cargo-home evidence replays
python3 - <<'PY'
import sys
sys.path.insert(0, 'tools')
import common
print('harness:', common.build_harness())
import glob, os
targets = sorted(p[len('coq/'):-2] + '.vo' for p in glob.glob('coq/Props/*.v') + glob.glob('coq/Corr/*.v'))
ok, log, st = common.coq_build(targets)
print(log[-2000:])
if not ok:
    sys.exit(1)
PY
