#!/bin/bash
# run from this directory
/tmp/r3-GD/target/debug/examples/probe --ts in.asn; echo; echo '--- rasn backend on the same input marks all of them extensible:'; /tmp/r3-GD/target/debug/examples/probe in.asn | grep -o 'non_exhaustive\] pub struct [A-Za-z]*'
