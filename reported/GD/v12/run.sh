#!/bin/bash
# run from this directory
echo '--- diff sugared vs expanded (generated Rust, item per line)'; ../cmp.sh sugared.asn expanded.asn; echo '--- type-check of the sugared output:'; LINES_MAX=12 ../check.sh sugared.asn | cut -c1-200
