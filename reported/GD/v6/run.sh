#!/bin/bash
# run from this directory
LINES_MAX=24 ../check.sh in.asn; echo '--- TypeScript backend:'; /tmp/r3-GD/target/debug/examples/probe --ts in.asn | grep -v '^\s*$'
