#!/bin/bash
# run from this directory
echo '=== default (opaque_open_types = true)'; ../check.sh in.asn; echo '=== opaque_open_types = false'; LINES_MAX=12 ../check.sh --open in.asn | cut -c1-220
