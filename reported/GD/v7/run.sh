#!/bin/bash
# run from this directory
echo '=== default config'; ../check.sh in.asn; echo '=== generate_from_impls = true'; LINES_MAX=12 ../check.sh --from in.asn; /tmp/r3-GD/target/debug/examples/probe --from in.asn | grep -o 'impl From < [^>]*> for Top'
