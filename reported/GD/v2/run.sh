#!/bin/bash
# run from this directory
/tmp/r3-GD/target/debug/examples/probe --ts in.asn
