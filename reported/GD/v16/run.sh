#!/bin/bash
# run from this directory
echo '=== default config'; ../check.sh in.asn; echo '=== default_wildcard_imports = true'; LINES_MAX=10 ../check.sh --wild in.asn | cut -c1-220
