#!/bin/bash
# run from this directory
/tmp/r3-GD/target/debug/examples/probe in.asn >/dev/null; echo "compile exit=$? (no warnings above)"; LINES_MAX=14 ../check.sh in.asn | cut -c1-200
