#!/bin/bash
# run from this directory
echo '=== in.asn (a type called Option)'; LINES_MAX=10 ../check.sh in.asn | cut -c1-200; echo '=== in2.asn (types called Integer and String)'; LINES_MAX=16 ../check.sh in2.asn | cut -c1-200
