#!/bin/bash
# run from this directory
bash cmd.sh
