#!/bin/bash
# run from this directory
../cmp.sh sugared.asn expanded.asn | cut -c1-330
