//! Verification harness: runs the real rasn-compiler (built from /repo's working
//! tree, feature `verif-hooks`) on cases read from stdin, one JSON object per line,
//! and prints one JSON result per line.  Every case runs under `catch_unwind`.

use std::io::{BufRead, Write};
use std::panic;

use rasn_compiler::prelude::*;
use serde_json::{json, Value};

mod ir;
mod ops;
mod proj;

fn str_of(v: &Value, k: &str) -> String {
    v.get(k).and_then(|x| x.as_str()).unwrap_or("").to_string()
}

fn rasn_config(v: &Value) -> RasnConfig {
    let mut c = RasnConfig::default();
    if let Some(cfg) = v.get("config") {
        if let Some(b) = cfg.get("opaque_open_types").and_then(|x| x.as_bool()) {
            c.opaque_open_types = b;
        }
        if let Some(b) = cfg.get("default_wildcard_imports").and_then(|x| x.as_bool()) {
            c.default_wildcard_imports = b;
        }
        if let Some(b) = cfg.get("generate_from_impls").and_then(|x| x.as_bool()) {
            c.generate_from_impls = b;
        }
        if let Some(b) = cfg.get("no_std_compliant_bindings").and_then(|x| x.as_bool()) {
            c.no_std_compliant_bindings = b;
        }
        if let Some(a) = cfg.get("custom_imports").and_then(|x| x.as_array()) {
            c.custom_imports = a.iter().filter_map(|x| x.as_str().map(String::from)).collect();
        }
        if let Some(a) = cfg.get("type_annotations").and_then(|x| x.as_array()) {
            c.type_annotations = a.iter().filter_map(|x| x.as_str().map(String::from)).collect();
        }
    }
    c
}

pub fn compile_case(v: &Value) -> Value {
    let sources: Vec<String> = v
        .get("sources")
        .and_then(|x| x.as_array())
        .map(|a| a.iter().filter_map(|s| s.as_str().map(String::from)).collect())
        .unwrap_or_default();
    let backend = str_of(v, "backend");
    let want_proj = v.get("proj").and_then(|x| x.as_bool()).unwrap_or(true);
    let want_text = v.get("text").and_then(|x| x.as_bool()).unwrap_or(false);
    let render = v.get("render").and_then(|x| x.as_bool()).unwrap_or(true);
    let first = sources.first().cloned().unwrap_or_default();
    // sources given as files: written to a scratch directory and passed by path
    let as_file = v.get("as_file").and_then(|x| x.as_bool()).unwrap_or(false);
    let mut paths: Vec<std::path::PathBuf> = vec![];
    if as_file {
        let dir = std::env::temp_dir().join(format!("verif-harness-{}", std::process::id()));
        let _ = std::fs::create_dir_all(&dir);
        for (i, s) in sources.iter().enumerate() {
            let p = dir.join(format!("src{i}.asn1"));
            let _ = std::fs::write(&p, s);
            paths.push(p);
        }
    }
    let res = if as_file && backend != "ts" {
        Compiler::<RasnBackend, _>::new_with_config(rasn_config(v))
            .add_asn_sources_by_path(paths.iter())
            .compile_to_string()
    } else if backend == "ts" {
        let mut c = Compiler::<TypescriptBackend, _>::new().add_asn_literal(first.clone());
        for s in sources.iter().skip(1) {
            c = c.add_asn_literal(s.clone());
        }
        c.compile_to_string()
    } else {
        let mut c = Compiler::<RasnBackend, _>::new_with_config(rasn_config(v))
            .add_asn_literal(first.clone());
        for s in sources.iter().skip(1) {
            c = c.add_asn_literal(s.clone());
        }
        c.compile_to_string()
    };
    match res {
        Ok(r) => {
            let warnings: Vec<String> = r.warnings.iter().map(|w| w.to_string()).collect();
            if render {
                for w in r.warnings.iter() {
                    let _ = w.contextualize(&first);
                }
            }
            let mut out = json!({"ok": true, "warnings": warnings});
            if want_text || backend == "ts" {
                out["generated"] = json!(r.generated);
            }
            if want_proj && backend != "ts" {
                match proj::project(&r.generated) {
                    Ok(p) => out["items"] = p,
                    Err(e) => {
                        out["syn_error"] = json!(e);
                        out["generated"] = json!(r.generated);
                    }
                }
            }
            out
        }
        Err(e) => {
            let disp = e.to_string();
            let ctx = if render { e.contextualize(&first) } else { String::new() };
            let mut out = json!({"ok": false, "err": disp, "ctx": ctx});
            if let CompilerError::Lexer(le) = &e {
                out["lexer"] = ops::lexer_error_json(le);
            }
            out
        }
    }
}

fn main() {
    // silence the default panic message; the payload is reported in the result
    panic::set_hook(Box::new(|_| {}));
    let stdin = std::io::stdin();
    let stdout = std::io::stdout();
    let mut out = stdout.lock();
    for line in stdin.lock().lines() {
        let line = match line {
            Ok(l) => l,
            Err(_) => break,
        };
        if line.trim().is_empty() {
            continue;
        }
        let v: Value = match serde_json::from_str(&line) {
            Ok(v) => v,
            Err(e) => {
                writeln!(out, "{}", json!({"harness_error": e.to_string()})).unwrap();
                out.flush().unwrap();
                continue;
            }
        };
        let loc = std::sync::Arc::new(std::sync::Mutex::new(String::new()));
        let loc2 = loc.clone();
        panic::set_hook(Box::new(move |info| {
            if let Some(l) = info.location() {
                *loc2.lock().unwrap() = format!("{}:{}", l.file(), l.line());
            }
        }));
        let r = panic::catch_unwind(|| ops::dispatch(&v));
        let res = match r {
            Ok(x) => x,
            Err(p) => {
                let msg = if let Some(s) = p.downcast_ref::<&str>() {
                    s.to_string()
                } else if let Some(s) = p.downcast_ref::<String>() {
                    s.clone()
                } else {
                    "panic".to_string()
                };
                json!({"panic": msg, "at": loc.lock().unwrap().clone()})
            }
        };
        writeln!(out, "{}", res).unwrap();
        out.flush().unwrap();
    }
}
