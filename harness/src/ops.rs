//! Operation dispatch.

use rasn_compiler::prelude::*;
use rasn_compiler::verif as hk;
use serde_json::{json, Value};

fn s(v: &Value, k: &str) -> String {
    v.get(k).and_then(|x| x.as_str()).unwrap_or("").to_string()
}

fn opt_i128(v: &Value, k: &str) -> Option<i128> {
    match v.get(k) {
        Some(Value::String(t)) => t.parse::<i128>().ok(),
        Some(Value::Number(n)) => n.as_i64().map(|x| x as i128),
        _ => None,
    }
}

pub fn lexer_error_json(le: &LexerError) -> Value {
    match &le.kind {
        LexerErrorType::MatchingError(r) => json!({
            "kind":"matching","src_file": r.src_file, "context_start_line": r.context_start_line,
            "context_start_offset": r.context_start_offset, "line": r.line, "offset": r.offset,
            "column": r.column, "reason": r.reason, "unexpected_eof": r.unexpected_eof}),
        LexerErrorType::NotEnoughData(n) => json!({"kind":"not_enough","needed": n}),
        LexerErrorType::IO(e) => json!({"kind":"io","reason": e}),
    }
}

pub fn dispatch(v: &Value) -> Value {
    let op = s(v, "op");
    match op.as_str() {
        "compile" => crate::compile_case(v),
        "names" => {
            let n = s(v, "s");
            // each conversion separately so that one panic does not hide the others
            let f = |g: &dyn Fn(&str) -> String| -> Value {
                let n2 = n.clone();
                match std::panic::catch_unwind(std::panic::AssertUnwindSafe(|| g(&n2))) {
                    Ok(x) => json!(x),
                    Err(_) => json!({"panic": true}),
                }
            };
            json!({
                "snake": f(&|x| hk::rust_snake_case(x)),
                "const": f(&|x| hk::rust_const_case(x)),
                "enum": f(&|x| hk::rust_enum_identifier(x)),
                "title": f(&|x| hk::rust_title_case(x)),
            })
        }
        "int_type_token" => {
            json!({"ty": hk::int_type_token(opt_i128(v, "min"), opt_i128(v, "max"),
                     v.get("ext").and_then(|x| x.as_bool()).unwrap_or(false))})
        }
        "int_constraint" => {
            // Constraint::integer_constraints on a single value-range constraint (public API)
            use rasn_compiler::prelude::ir::*;
            let c = Constraint::Subtype(ElementSetSpecs {
                set: ElementOrSetOperation::Element(SubtypeElements::ValueRange {
                    min: opt_i128(v, "min").map(ASN1Value::Integer),
                    max: opt_i128(v, "max").map(ASN1Value::Integer),
                    extensible: v.get("ext").and_then(|x| x.as_bool()).unwrap_or(false),
                }),
                extensible: v.get("ext_spec").and_then(|x| x.as_bool()).unwrap_or(false),
            });
            json!({"ty": format!("{:?}", c.integer_constraints())})
        }
        "max_restrictive" => {
            use rasn_compiler::prelude::ir::IntegerType;
            let p = |t: &str| match t {
                "Int8" => IntegerType::Int8,
                "Uint8" => IntegerType::Uint8,
                "Int16" => IntegerType::Int16,
                "Uint16" => IntegerType::Uint16,
                "Int32" => IntegerType::Int32,
                "Uint32" => IntegerType::Uint32,
                "Int64" => IntegerType::Int64,
                "Uint64" => IntegerType::Uint64,
                _ => IntegerType::Unbounded,
            };
            json!({"ty": format!("{:?}", p(&s(v, "a")).max_restrictive(p(&s(v, "b"))))})
        }
        "pv_fold" => {
            // fold_constraint_set (hook) on a SetOperation
            let set = crate::ir::setop(&v["set"]);
            let st = crate::ir::string_type(v.get("cs"));
            let rc = v.get("rc").and_then(|x| x.as_bool()).unwrap_or(true);
            match hk::fold_constraint_set(&set, st, rc) {
                Ok(None) => json!({"ok": null}),
                Ok(Some(e)) => json!({"ok": crate::ir::elem_json(&e)}),
                Err(_) => json!({"err": true}),
            }
        }
        "pv_range" => {
            // per_visible_range_constraints (public API) on a list of serial constraints
            use rasn_compiler::prelude::ir::*;
            let cs: Vec<Constraint> = v["constraints"].as_array().map(|a| a.iter().map(crate::ir::constraint).collect()).unwrap_or_default();
            let signed = v.get("signed").and_then(|x| x.as_bool()).unwrap_or(true);
            match per_visible_range_constraints(signed, &cs) {
                Ok(r) => json!({"ok": {"min": r.min::<i128>().map(|x| x.to_string()), "max": r.max::<i128>().map(|x| x.to_string()),
                                        "ext": r.is_extensible(), "size": r.is_size_constraint()}}),
                Err(_) => json!({"err": true}),
            }
        }
        "parse_constraints" => {
            use rasn_compiler::prelude::ir::*;
            match hk::parse_constraints(&s(v, "text")) {
                Ok(cs) => json!({"ok": cs.iter().map(|c| match c {
                    Constraint::Subtype(e) => json!({"set": crate::ir::eos_json(&e.set), "ext": e.extensible}),
                    _ => json!({"other": true}),
                }).collect::<Vec<_>>()}),
                Err(e) => json!({"err": e}),
            }
        }
        "alphabet" => {
            // Rasn::format_alphabet_annotations (hook) on serial constraints of a string type
            use rasn_compiler::prelude::ir::*;
            let cs: Vec<Constraint> = v["constraints"].as_array().map(|a| a.iter().map(crate::ir::constraint).collect()).unwrap_or_default();
            let st = crate::ir::string_type(v.get("cs")).unwrap();
            match hk::format_alphabet_annotations(st, &cs) {
                Ok(t) => json!({"ok": crate::proj::norm(&t)}),
                Err(e) => json!({"err": e.chars().take(200).collect::<String>()}),
            }
        }
        "input_ops" => {
            let src = s(v, "src");
            let ops: Vec<Option<(usize, usize)>> = v["ops"].as_array().map(|a| a.iter().map(|o| {
                o.as_array().map(|p| (p[0].as_u64().unwrap() as usize, p[1].as_u64().unwrap() as usize))
            }).collect()).unwrap_or_default();
            let out = hk::input_ops(&src, &ops);
            json!({"ok": out.iter().map(|t| json!([t.0, t.1, t.2, t.3, t.4, t.5])).collect::<Vec<_>>()})
        }
        "skip_trivia" => {
            let src = s(v, "src");
            json!({"rest": hk::skip_trivia(&src), "comment": hk::comment(&src).map(|(c, n)| json!([c, n]))})
        }
        "hex" => {
            // every char code given -> 4 bools
            let out: Vec<Value> = v["chars"].as_array().unwrap().iter().map(|c| {
                let ch = char::from_u32(c.as_u64().unwrap() as u32).unwrap_or('\u{fffd}');
                json!(hk::hex_to_bools(ch).to_vec())
            }).collect();
            json!({"ok": out})
        }
        "bit_string_value" => {
            let src = s(v, "src");
            match hk::bit_string_value(&src) {
                None => json!({"none": true}),
                Some((Ok(bits), rest)) => json!({"bits": bits, "rest": rest}),
                Some((Err(names), rest)) => json!({"names": names, "rest": rest}),
            }
        }
        "cstring" => {
            let src = s(v, "src");
            match hk::cstring(&src) {
                None => json!({"none": true}),
                Some((st, rest)) => json!({"chars": st.chars().map(|c| c as u32).collect::<Vec<_>>(), "rest": rest}),
            }
        }
        "octets_to_bits" => {
            let bytes: Vec<u8> = v["bytes"].as_array().unwrap().iter().map(|b| b.as_u64().unwrap() as u8).collect();
            json!({"bits": hk::octets_to_bits(&bytes)})
        }
        "bits_to_octets" => {
            let bits: Vec<bool> = v["bits"].as_array().unwrap().iter().map(|b| b.as_bool().unwrap()).collect();
            json!({"bytes": hk::bits_to_octets(&bits)})
        }
        "named_bits" => {
            let highest = v["highest"].as_i64().unwrap() as i128;
            let chosen: Vec<String> = v["chosen"].as_array().unwrap().iter().map(|x| x.as_str().unwrap().to_string()).collect();
            let dist: Vec<(String, i128)> = v["dist"].as_array().unwrap().iter().map(|x| (x[0].as_str().unwrap().to_string(), x[1].as_i64().unwrap() as i128)).collect();
            json!({"bits": hk::named_bits(highest, &chosen, &dist)})
        }
        "oid_well_known" => {
            let name = v.get("name").and_then(|x| x.as_str()).map(|x| x.to_string());
            let root = v.get("root").and_then(|x| x.as_u64()).map(|x| x as u8);
            json!({"arc": hk::oid_well_known(name.as_ref(), root).map(|x| x as u64)})
        }
        "deliver" => {
            // compile() with a file / directory / no-output destination prepared by the caller, next to the reference
            // compile_to_string() on the same sources.  stdout mode is observed through the CLI only.
            use rasn_compiler::prelude::*;
            use rasn_compiler::OutputMode;
            let paths: Vec<std::path::PathBuf> = v["paths"].as_array().map(|a| a.iter().filter_map(|x| x.as_str().map(std::path::PathBuf::from)).collect()).unwrap_or_default();
            let literals: Vec<String> = v["literals"].as_array().map(|a| a.iter().filter_map(|x| x.as_str().map(String::from)).collect()).unwrap_or_default();
            let dest = s(v, "dest");
            let mode_s = s(v, "mode");
            let ts = s(v, "backend") == "ts";
            let mode = || match mode_s.as_str() {
                "file" => OutputMode::SingleFile(std::path::PathBuf::from(&dest)),
                _ => OutputMode::NoOutput,
            };
            fn outcome(r: Result<Vec<CompilerError>, CompilerError>) -> Value {
                match r {
                    Ok(w) => json!({"ok": true, "warnings": w.iter().map(|x| x.to_string()).collect::<Vec<_>>()}),
                    Err(e) => json!({"ok": false, "err": e.to_string()}),
                }
            }
            fn reference(r: Result<CompileResult, CompilerError>) -> Value {
                match r {
                    Ok(c) => json!({"ok": true, "text": c.generated, "warnings": c.warnings.iter().map(|x| x.to_string()).collect::<Vec<_>>()}),
                    Err(e) => json!({"ok": false, "err": e.to_string()}),
                }
            }
            macro_rules! run {
                ($b:ty) => {{
                    let mk = || {
                        let mut c = Compiler::<$b, _>::new().add_asn_sources_by_path(paths.iter());
                        for l in literals.iter() {
                            c = c.add_asn_literal(l.clone());
                        }
                        c
                    };
                    let r = reference(mk().compile_to_string());
                    let o = outcome(mk().set_output_mode(mode()).compile());
                    json!({"reference": r, "outcome": o})
                }};
            }
            if ts { run!(TypescriptBackend) } else { run!(RasnBackend) }
        }
        "compile_many" => {
            // C11: preceding compilations in this process, then the jobs spread over `threads` threads running concurrently
            use rasn_compiler::prelude::*;
            fn one(sources: &[String], ts: bool) -> Value {
                macro_rules! go {
                    ($b:ty) => {{
                        let mut it = sources.iter();
                        let mut c = Compiler::<$b, _>::new().add_asn_literal(it.next().cloned().unwrap_or_default());
                        for s in it {
                            c = c.add_asn_literal(s.clone());
                        }
                        match c.compile_to_string() {
                            Ok(r) => {
                                let mut w: Vec<String> = r.warnings.iter().map(|x| x.to_string()).collect();
                                w.sort();
                                json!({"ok": true, "generated": r.generated, "warnings": w})
                            }
                            Err(e) => json!({"ok": false, "err": e.to_string()}),
                        }
                    }};
                }
                if ts { go!(TypescriptBackend) } else { go!(RasnBackend) }
            }
            let parse = |x: &Value| -> (Vec<String>, bool) {
                (x["sources"].as_array().map(|a| a.iter().filter_map(|s| s.as_str().map(String::from)).collect()).unwrap_or_default(),
                 x["backend"].as_str() == Some("ts"))
            };
            for w in v["warmup"].as_array().cloned().unwrap_or_default().iter() {
                let (src, ts) = parse(w);
                let _ = std::panic::catch_unwind(|| one(&src, ts));
            }
            let jobs: Vec<(Vec<String>, bool)> = v["jobs"].as_array().cloned().unwrap_or_default().iter().map(parse).collect();
            let threads = v["threads"].as_u64().unwrap_or(1).max(1) as usize;
            let results = std::sync::Mutex::new(vec![Value::Null; jobs.len()]);
            let next = std::sync::atomic::AtomicUsize::new(0);
            std::thread::scope(|sc| {
                for _ in 0..threads {
                    sc.spawn(|| loop {
                        let i = next.fetch_add(1, std::sync::atomic::Ordering::SeqCst);
                        if i >= jobs.len() {
                            break;
                        }
                        let (src, ts) = &jobs[i];
                        let r = std::panic::catch_unwind(|| one(src, *ts)).unwrap_or_else(|_| json!({"panic": true}));
                        results.lock().unwrap()[i] = r;
                    });
                }
            });
            json!({"results": results.into_inner().unwrap()})
        }
        "charset" => {
            let st = crate::ir::string_type(v.get("cs")).unwrap();
            let cs: Vec<u32> = hk::character_set(st).into_iter().map(|c| c as u32).collect();
            json!({"len": cs.len(), "all": cs})
        }
        _ => json!({"harness_error": format!("unknown op {op}")}),
    }
}
