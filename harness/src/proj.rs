//! syn projection of generated Rust into a JSON item tree.

use quote::ToTokens;
use serde_json::{json, Value};

/// Normalise a token string: drop whitespace except between two identifier characters;
/// string literals are copied verbatim.
pub fn norm(s: &str) -> String {
    let cs: Vec<char> = s.chars().collect();
    let mut out = String::with_capacity(cs.len());
    let mut i = 0;
    let isw = |c: char| c.is_alphanumeric() || c == '_';
    while i < cs.len() {
        let c = cs[i];
        if c == '"' {
            out.push(c);
            i += 1;
            while i < cs.len() {
                let d = cs[i];
                out.push(d);
                i += 1;
                if d == '\\' && i < cs.len() {
                    out.push(cs[i]);
                    i += 1;
                } else if d == '"' {
                    break;
                }
            }
            continue;
        }
        if c.is_whitespace() {
            let mut j = i;
            while j < cs.len() && cs[j].is_whitespace() {
                j += 1;
            }
            let prev = out.chars().last();
            if let (Some(p), Some(&n)) = (prev, cs.get(j)) {
                if isw(p) && isw(n) {
                    out.push(' ');
                }
            }
            i = j;
            continue;
        }
        out.push(c);
        i += 1;
    }
    out
}

fn toks<T: ToTokens>(t: &T) -> String {
    norm(&t.to_token_stream().to_string())
}

fn attrs(a: &[syn::Attribute]) -> (Vec<String>, Vec<String>) {
    let mut rest = vec![];
    let mut docs = vec![];
    for at in a {
        let s = norm(&at.meta.to_token_stream().to_string());
        if at.path().is_ident("doc") {
            docs.push(s);
        } else {
            rest.push(s);
        }
    }
    (rest, docs)
}

fn fields(f: &syn::Fields) -> Value {
    let it: Vec<&syn::Field> = match f {
        syn::Fields::Named(n) => n.named.iter().collect(),
        syn::Fields::Unnamed(u) => u.unnamed.iter().collect(),
        syn::Fields::Unit => vec![],
    };
    Value::Array(
        it.into_iter()
            .map(|fd| {
                let (a, d) = attrs(&fd.attrs);
                json!({
                    "name": fd.ident.as_ref().map(|i| i.to_string()),
                    "ty": toks(&fd.ty),
                    "attrs": a,
                    "docs": d,
                    "vis": toks(&fd.vis),
                })
            })
            .collect(),
    )
}

fn item(i: &syn::Item) -> Value {
    match i {
        syn::Item::Mod(m) => {
            let (a, d) = attrs(&m.attrs);
            let items = m
                .content
                .as_ref()
                .map(|(_, its)| its.iter().map(item).collect::<Vec<_>>())
                .unwrap_or_default();
            json!({"kind":"mod","name":m.ident.to_string(),"attrs":a,"docs":d,"items":items})
        }
        syn::Item::Struct(s) => {
            let (a, d) = attrs(&s.attrs);
            let shape = match &s.fields {
                syn::Fields::Named(_) => "named",
                syn::Fields::Unnamed(_) => "tuple",
                syn::Fields::Unit => "unit",
            };
            json!({"kind":"struct","name":s.ident.to_string(),"attrs":a,"docs":d,
                   "shape":shape,"fields":fields(&s.fields),"generics":toks(&s.generics)})
        }
        syn::Item::Enum(e) => {
            let (a, d) = attrs(&e.attrs);
            let vs: Vec<Value> = e
                .variants
                .iter()
                .map(|v| {
                    let (va, vd) = attrs(&v.attrs);
                    json!({"name": v.ident.to_string(),
                           "disc": v.discriminant.as_ref().map(|(_, x)| toks(x)),
                           "attrs": va, "docs": vd, "fields": fields(&v.fields)})
                })
                .collect();
            json!({"kind":"enum","name":e.ident.to_string(),"attrs":a,"docs":d,"variants":vs})
        }
        syn::Item::Const(c) => {
            let (a, d) = attrs(&c.attrs);
            json!({"kind":"const","name":c.ident.to_string(),"attrs":a,"docs":d,
                   "ty":toks(&c.ty),"expr":toks(&c.expr)})
        }
        syn::Item::Static(c) => {
            let (a, d) = attrs(&c.attrs);
            json!({"kind":"static","name":c.ident.to_string(),"attrs":a,"docs":d,
                   "ty":toks(&c.ty),"expr":toks(&c.expr)})
        }
        syn::Item::Fn(f) => {
            let (a, d) = attrs(&f.attrs);
            let ret = match &f.sig.output {
                syn::ReturnType::Default => String::new(),
                syn::ReturnType::Type(_, t) => toks(t),
            };
            let body: Vec<String> = f.block.stmts.iter().map(|s| toks(s)).collect();
            json!({"kind":"fn","name":f.sig.ident.to_string(),"attrs":a,"docs":d,
                   "ret":ret,"inputs":toks(&f.sig.inputs),"body":body})
        }
        syn::Item::Impl(im) => {
            let (a, d) = attrs(&im.attrs);
            let tr = im.trait_.as_ref().map(|(_, p, _)| toks(p));
            let items: Vec<Value> = im
                .items
                .iter()
                .map(|ii| match ii {
                    syn::ImplItem::Fn(f) => {
                        let ret = match &f.sig.output {
                            syn::ReturnType::Default => String::new(),
                            syn::ReturnType::Type(_, t) => toks(t),
                        };
                        json!({"kind":"fn","name":f.sig.ident.to_string(),"ret":ret,
                               "inputs":toks(&f.sig.inputs),"body":toks(&f.block)})
                    }
                    other => json!({"kind":"other","tokens":toks(other)}),
                })
                .collect();
            json!({"kind":"impl","trait":tr,"self_ty":toks(&im.self_ty),"attrs":a,"docs":d,"items":items})
        }
        syn::Item::Use(u) => {
            let (a, d) = attrs(&u.attrs);
            json!({"kind":"use","tree":toks(&u.tree),"attrs":a,"docs":d,"vis":toks(&u.vis)})
        }
        syn::Item::Macro(m) => {
            json!({"kind":"macro","path":toks(&m.mac.path),"tokens":norm(&m.mac.tokens.to_string())})
        }
        syn::Item::ExternCrate(e) => json!({"kind":"extern_crate","name":e.ident.to_string()}),
        syn::Item::Type(t) => json!({"kind":"type","name":t.ident.to_string(),"ty":toks(&t.ty)}),
        other => json!({"kind":"other","tokens":toks(other)}),
    }
}

pub fn project(src: &str) -> Result<Value, String> {
    let f = syn::parse_file(src).map_err(|e| e.to_string())?;
    Ok(Value::Array(f.items.iter().map(item).collect()))
}
