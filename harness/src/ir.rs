//! Build IR constraint values from JSON descriptions and print results back.

use rasn_compiler::prelude::ir::*;
use serde_json::{json, Value};

pub fn aval(v: &Value) -> ASN1Value {
    if let Some(i) = v.get("i") {
        let n = match i {
            Value::String(s) => s.parse::<i128>().unwrap(),
            Value::Number(n) => n.as_i64().unwrap() as i128,
            _ => panic!("bad int"),
        };
        ASN1Value::Integer(n)
    } else if let Some(s) = v.get("s").and_then(|x| x.as_str()) {
        ASN1Value::String(s.to_string())
    } else {
        ASN1Value::Boolean(true)
    }
}

fn oaval(v: Option<&Value>) -> Option<ASN1Value> {
    match v {
        None | Some(Value::Null) => None,
        Some(x) => Some(aval(x)),
    }
}

pub fn elem(v: &Value) -> SubtypeElements {
    let k = v.get("k").and_then(|x| x.as_str()).unwrap_or("");
    let x = v.get("x").and_then(|x| x.as_bool()).unwrap_or(false);
    match k {
        "single" => SubtypeElements::SingleValue { value: aval(&v["v"]), extensible: x },
        "range" => SubtypeElements::ValueRange { min: oaval(v.get("lo")), max: oaval(v.get("hi")), extensible: x },
        "size" => SubtypeElements::SizeConstraint(Box::new(eos(&v["inner"]))),
        "alpha" => SubtypeElements::PermittedAlphabet(Box::new(eos(&v["inner"]))),
        "contained" => SubtypeElements::ContainedSubtype {
            subtype: ASN1Type::Boolean(Boolean { constraints: vec![] }),
            extensible: x,
        },
        _ => SubtypeElements::PatternConstraint(PatternConstraint { pattern: "x".into() }),
    }
}

pub fn op(v: &Value) -> SetOperator {
    match v.as_str().unwrap_or("") {
        "union" => SetOperator::Union,
        "inter" => SetOperator::Intersection,
        _ => SetOperator::Except,
    }
}

pub fn eos(v: &Value) -> ElementOrSetOperation {
    if let Some(e) = v.get("e") {
        ElementOrSetOperation::Element(elem(e))
    } else {
        ElementOrSetOperation::SetOperation(setop(v))
    }
}

pub fn setop(v: &Value) -> SetOperation {
    SetOperation { base: elem(&v["base"]), operator: op(&v["op"]), operant: Box::new(eos(&v["operant"])) }
}

pub fn constraint(v: &Value) -> Constraint {
    Constraint::Subtype(ElementSetSpecs {
        set: eos(&v["set"]),
        extensible: v.get("ext").and_then(|x| x.as_bool()).unwrap_or(false),
    })
}

pub fn string_type(v: Option<&Value>) -> Option<CharacterStringType> {
    match v.and_then(|x| x.as_str()) {
        Some("NumericString") => Some(CharacterStringType::NumericString),
        Some("PrintableString") => Some(CharacterStringType::PrintableString),
        Some("VisibleString") => Some(CharacterStringType::VisibleString),
        Some("IA5String") => Some(CharacterStringType::IA5String),
        Some("BMPString") => Some(CharacterStringType::BMPString),
        Some("UniversalString") => Some(CharacterStringType::UniversalString),
        Some("UTF8String") => Some(CharacterStringType::UTF8String),
        Some("TeletexString") => Some(CharacterStringType::TeletexString),
        Some("GeneralString") => Some(CharacterStringType::GeneralString),
        Some("GraphicString") => Some(CharacterStringType::GraphicString),
        Some("VideotexString") => Some(CharacterStringType::VideotexString),
        _ => None,
    }
}

fn aval_json(v: &ASN1Value) -> Value {
    match v {
        ASN1Value::Integer(i) => json!({"i": i.to_string()}),
        ASN1Value::String(s) => json!({"s": s}),
        other => json!({"other": format!("{other:?}")}),
    }
}

pub fn elem_json(e: &SubtypeElements) -> Value {
    match e {
        SubtypeElements::SingleValue { value, extensible } => json!({"k":"single","v":aval_json(value),"x":extensible}),
        SubtypeElements::ValueRange { min, max, extensible } => json!({"k":"range",
            "lo": min.as_ref().map(aval_json), "hi": max.as_ref().map(aval_json), "x": extensible}),
        SubtypeElements::SizeConstraint(i) => json!({"k":"size","inner":eos_json(i)}),
        SubtypeElements::PermittedAlphabet(i) => json!({"k":"alpha","inner":eos_json(i)}),
        SubtypeElements::ContainedSubtype { .. } => json!({"k":"contained"}),
        _ => json!({"k":"notpv"}),
    }
}

pub fn eos_json(e: &ElementOrSetOperation) -> Value {
    match e {
        ElementOrSetOperation::Element(e) => json!({"e": elem_json(e)}),
        ElementOrSetOperation::SetOperation(s) => json!({"base": elem_json(&s.base),
            "op": match s.operator { SetOperator::Union => "union", SetOperator::Intersection => "inter", SetOperator::Except => "except" },
            "operant": eos_json(&s.operant)}),
    }
}
