(* Specification side of C07: what the value notations of X.680 denote.  Independent of the code. *)
From Coq Require Import ZArith NArith Arith List Bool.
Require Import RasnV.Model.Base.
Import ListNotations.

(* X.680 12.12: value of a hexadecimal digit *)
Definition hexval (c : N) : N := if ((48 <=? c) && (c <=? 57))%N then (c - 48)%N else (c - 55)%N.

(* the w-bit big-endian expansion of n (most significant bit first) *)
Definition bits_be (w : nat) (n : N) : list bool :=
  map (fun i => N.testbit n (N.of_nat (w - 1 - i))) (seq 0 w).

(* X.680 12.14: a quotation mark inside a cstring is written twice *)
Definition escape (s : list N) : list N :=
  flat_map (fun c => if N.eqb c 34 then [34; 34]%N else [c]) s.

(* ---------- X.660 / X.680 32: arcs that may be written as a bare name ---------- *)
Definition x660_root : list (str * N) :=
  [ ([105; 116; 117; 45; 116]%N, 0%N);                                                   (* itu-t *)
    ([99; 99; 105; 116; 116]%N, 0%N);                                                     (* ccitt *)
    ([105; 115; 111]%N, 1%N);                                                             (* iso *)
    ([106; 111; 105; 110; 116; 45; 105; 115; 111; 45; 105; 116; 117; 45; 116]%N, 2%N);    (* joint-iso-itu-t *)
    ([106; 111; 105; 110; 116; 45; 105; 115; 111; 45; 99; 99; 105; 116; 116]%N, 2%N) ].   (* joint-iso-ccitt *)

Definition x660_itu : list (str * N) :=
  [ ([114; 101; 99; 111; 109; 109; 101; 110; 100; 97; 116; 105; 111; 110]%N, 0%N);                      (* recommendation *)
    ([113; 117; 101; 115; 116; 105; 111; 110]%N, 1%N);                                                   (* question *)
    ([97; 100; 109; 105; 110; 105; 115; 116; 114; 97; 116; 105; 111; 110]%N, 2%N);                       (* administration *)
    ([110; 101; 116; 119; 111; 114; 107; 45; 111; 112; 101; 114; 97; 116; 111; 114]%N, 3%N);             (* network-operator *)
    ([105; 100; 101; 110; 116; 105; 102; 105; 101; 100; 45; 111; 114; 103; 97; 110; 105; 122; 97; 116; 105; 111; 110]%N, 4%N); (* identified-organization *)
    ([114; 45; 114; 101; 99; 111; 109; 109; 101; 110; 100; 97; 116; 105; 111; 110]%N, 5%N) ].           (* r-recommendation *)

Definition x660_iso : list (str * N) :=
  [ ([115; 116; 97; 110; 100; 97; 114; 100]%N, 0%N);                                                     (* standard *)
    ([114; 101; 103; 105; 115; 116; 114; 97; 116; 105; 111; 110; 45; 97; 117; 116; 104; 111; 114; 105; 116; 121]%N, 1%N); (* registration-authority *)
    ([109; 101; 109; 98; 101; 114; 45; 98; 111; 100; 121]%N, 2%N);                                       (* member-body *)
    ([105; 100; 101; 110; 116; 105; 102; 105; 101; 100; 45; 111; 114; 103; 97; 110; 105; 122; 97; 116; 105; 111; 110]%N, 3%N) ]. (* identified-organization *)

Fixpoint lookup (n : str) (tbl : list (str * N)) : option N :=
  match tbl with
  | [] => None
  | (k, v) :: r => if str_eqb n k then Some v else lookup n r
  end.

Definition x660_second (root : N) : list (str * N) :=
  if N.eqb root 0 then x660_itu else if N.eqb root 1 then x660_iso else [].

(* under { itu-t recommendation }: a(1) .. z(26) *)
Definition x660_letter (n : str) : option N :=
  match n with
  | [c] => if ((97 <=? c) && (c <=? 122))%N then Some (c - 96)%N else None
  | _ => None
  end.

(* an arc as written: optional name, optional number *)
Definition src_arc := (option str * option N)%type.

(* the arcs an ObjectIdentifierValue without value references denotes; None when a bare name is not one of the
   names the standard assigns at that position (then it is a value reference or an error, which this spec does not cover) *)
Fixpoint oid_sem_from (pos : nat) (sofar : list N) (arcs : list src_arc) : option (list N) :=
  match arcs with
  | [] => Some (rev sofar)
  | (_, Some n) :: r => oid_sem_from (S pos) (n :: sofar) r
  | (Some name, None) :: r =>
      let v :=
        match pos, rev sofar with
        | 0, _ => lookup name x660_root
        | 1, [a0] => lookup name (x660_second a0)
        | 2, [a0; a1] => if (N.eqb a0 0 && N.eqb a1 0)%bool then x660_letter name else None
        | _, _ => None
        end in
      match v with
      | Some n => oid_sem_from (S pos) (n :: sofar) r
      | None => None
      end
  | (None, None) :: _ => None
  end.
Definition oid_sem (arcs : list src_arc) : option (list N) := oid_sem_from 0 [] arcs.

(* the known class: a letter arc a..z written as a bare name *)
Definition has_bare_letter (arcs : list src_arc) : bool :=
  match arcs with
  | _ :: _ :: (Some _, None) :: _ => true
  | _ => false
  end.
