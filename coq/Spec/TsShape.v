(* Specification side of C18: the JER (X.697) shape of a type and its canonical TypeScript notation. *)
From Coq Require Import NArith List Bool.
Require Import RasnV.Model.Base RasnV.Model.TsGen.
Import ListNotations.

Inductive shape :=
| SNull | SBool | SNumber | SString | SAny
| SStrOrObj                                      (* a top-level OCTET STRING: hex string, or the contained value *)
| SBitsObj                                       (* { value: string, length: number } *)
| SLits (l : list str)                           (* union of string literal types: the enumeral names as written *)
| SKeys (l : list (str * shape))                 (* union of single-key objects *)
| SObj (members : list (str * bool * shape)) (index : bool)   (* key, `?`, shape; index signature *)
| SArr (e : shape)
| SName (n : str).

Fixpoint jer_shape (t : ty) : shape :=
  match t with
  | TNull => SNull
  | TBool => SBool
  | TNum => SNumber
  | TBitsFixed => SString
  | TBitsVar => SBitsObj
  | TOctets => SString
  | TStrLike => SString
  | TEnum names => SLits names
  | TChoice alts =>
      SKeys ((fix go (l : list (str * ty)) : list (str * shape) :=
                match l with [] => [] | (n, a) :: r => (to_jer n, jer_shape a) :: go r end) alts)
  | TStruct members ext =>
      SObj ((fix go (l : list (str * bool * ty)) : list (str * bool * shape) :=
               match l with [] => [] | (n, o, a) :: r => (to_jer n, o, jer_shape a) :: go r end) members) ext
  | TOf e => SArr (jer_shape e)
  | TRef n => SName (to_jer n)
  | TAny => SAny
  end.

Definition is_union (s : shape) : bool := match s with SLits _ | SKeys _ => true | _ => false end.

(* canonical notation: `[]` binds tighter than `|`, so a union in element position is parenthesised *)
Fixpoint print_shape (s : shape) : list tok :=
  match s with
  | SNull => [k_null]
  | SBool => [k_boolean]
  | SNumber => [k_number]
  | SString => [k_string]
  | SAny => [k_any]
  | SStrOrObj => [k_string; t_bar; k_object]
  | SBitsObj => bits_obj
  | SLits l => join_bar (map (fun n => [strlit n]) l)
  | SKeys l =>
      join_bar ((fix go (l : list (str * shape)) : list (list tok) :=
                   match l with
                   | [] => []
                   | (k, a) :: r => ([t_lbrace; k; t_colon] ++ print_shape a ++ [t_rbrace]) :: go r
                   end) l)
  | SObj members index =>
      [t_lbrace] ++
      (fix go (l : list (str * bool * shape)) : list tok :=
         match l with
         | [] => []
         | (k, o, a) :: r => (k :: (if o then [t_quest] else []) ++ [t_colon] ++ print_shape a ++ [t_comma]) ++ go r
         end) members ++
      (if index then [t_lbrack; k_key; t_colon; k_string; t_rbrack; t_colon; k_any] else []) ++
      [t_rbrace]
  | SArr e =>
      if is_union e then [t_lparen] ++ print_shape e ++ [t_rparen; t_lbrack; t_rbrack]
      else print_shape e ++ [t_lbrack; t_rbrack]
  | SName n => [n]
  end.

(* a top-level declaration *)
Inductive decl :=
| DType (name : str) (s : shape)
| DEnum (name : str) (members : list (str * str)).     (* member identifier, string value *)

Definition jer_decl (name : str) (t : ty) : decl :=
  match t with
  | TEnum names => DEnum (to_jer name) (map (fun n => (to_jer n, n)) names)
  | TOctets => DType (to_jer name) SStrOrObj
  | _ => DType (to_jer name) (jer_shape t)
  end.

Definition print_decl (d : decl) : list tok :=
  match d with
  | DType n s => [k_export; k_type; n; t_eq] ++ print_shape s ++ [t_semi]
  | DEnum n ms => [k_export; k_enum; n; t_lbrace] ++ flat_map (fun m => [fst m; t_eq; strlit (snd m); t_comma]) ms ++ [t_rbrace; t_semi]
  end.

(* delimiter balance over tokens *)
Definition closer_of (t : tok) : option tok :=
  if str_eqb t t_lbrace then Some t_rbrace
  else if str_eqb t t_lbrack then Some t_rbrack
  else if str_eqb t t_lparen then Some t_rparen
  else None.
Definition is_closer (t : tok) : bool := str_eqb t t_rbrace || str_eqb t t_rbrack || str_eqb t t_rparen.

Fixpoint bal (stack : list tok) (l : list tok) : bool :=
  match l with
  | [] => match stack with [] => true | _ => false end
  | t :: r =>
      match closer_of t with
      | Some c => bal (c :: stack) r
      | None =>
          if is_closer t then
            match stack with
            | c :: s => str_eqb c t && bal s r
            | [] => false
            end
          else bal stack r
      end
  end.

(* names are identifiers: they begin with a letter *)
Definition is_letter (c : N) : bool := ((65 <=? c) && (c <=? 90) || (97 <=? c) && (c <=? 122))%N.
Definition ident_like (n : str) : bool := match n with c :: _ => is_letter c | [] => false end.

Fixpoint wf_names (t : ty) : bool :=
  match t with
  | TChoice alts =>
      (fix go (l : list (str * ty)) : bool :=
         match l with [] => true | (n, a) :: r => ident_like n && wf_names a && go r end) alts
  | TStruct members _ =>
      (fix go (l : list (str * bool * ty)) : bool :=
         match l with [] => true | (n, _, a) :: r => ident_like n && wf_names a && go r end) members
  | TOf e => wf_names e
  | TRef n => ident_like n
  | TEnum names => forallb ident_like names
  | _ => true
  end.
