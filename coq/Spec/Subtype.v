(* Reference semantics for C04 on integer-valued element sets:
   - [sem_eos]: the set of integers an element set denotes (X.680 §50), on the tree the
     implementation folds (the parser's right-nested tree);
   - [pv_eos]: the PER-visible effective constraint by the book (X.691 §10.3.21): unions take the
     hull and are not visible if a part is not visible, intersections intersect the visible parts,
     EXCEPT and what follows is ignored;
   - [sem_prec3]/[pv_prec3]: X.680 operator precedence (EXCEPT > ^ > |) for three operands. *)
From Coq Require Import ZArith List Bool.
Require Import RasnV.Model.Base RasnV.Model.PerVisible.
Import ListNotations.
Local Open Scope Z_scope.

Definition pure_bound (o : option aval) : bool :=
  match o with None | Some (VInt _) => true | _ => false end.

Definition pure_elem (e : elem) : bool :=
  match e with
  | Single (VInt _) _ => true
  | Range lo hi _ => pure_bound lo && pure_bound hi
  | NotPV => true
  | _ => false
  end.

Fixpoint pure_eos (s : eos) : bool :=
  match s with
  | El e => pure_elem e
  | SetOp b _ r => pure_elem b && pure_eos r
  end.

Definition ge_opt (lo : option Z) (z : Z) : Prop := match lo with Some l => l <= z | None => True end.
Definition le_opt (z : Z) (hi : option Z) : Prop := match hi with Some h => z <= h | None => True end.

Section Sem.
  Variable rho : Z -> Prop.     (* what the non-PER-visible elements (PATTERN, ...) permit: arbitrary *)

  Definition sem_elem (e : elem) (z : Z) : Prop :=
    match e with
    | Single (VInt v) _ => z = v
    | Range lo hi _ => ge_opt (as_int lo) z /\ le_opt z (as_int hi)
    | NotPV => rho z
    | _ => True
    end.

  Fixpoint sem_eos (s : eos) (z : Z) : Prop :=
    match s with
    | El e => sem_elem e z
    | SetOp b Union r => sem_elem b z \/ sem_eos r z
    | SetOp b Inter r => sem_elem b z /\ sem_eos r z
    | SetOp b Except r => sem_elem b z /\ ~ sem_eos r z
    end.

  (* X.680 precedence for e1 o1 e2 o2 e3 *)
  Definition sem_prec3 (e1 : elem) (o1 : sop) (e2 : elem) (o2 : sop) (e3 : elem) (z : Z) : Prop :=
    let s1 := sem_elem e1 z in let s2 := sem_elem e2 z in let s3 := sem_elem e3 z in
    match o1, o2 with
    | Union, Union => s1 \/ s2 \/ s3
    | Union, Inter => s1 \/ (s2 /\ s3)
    | Union, Except => s1 \/ (s2 /\ ~ s3)
    | Inter, Union => (s1 /\ s2) \/ s3
    | Inter, Inter => s1 /\ s2 /\ s3
    | Inter, Except => s1 /\ (s2 /\ ~ s3)
    | Except, Union => (s1 /\ ~ s2) \/ s3
    | Except, Inter => (s1 /\ ~ s2) /\ s3
    | Except, Except => s1 /\ ~ s2          (* not grammatical; never generated *)
    end.
End Sem.

(* what a folded element permits *)
Definition in_result (r : option elem) (z : Z) : Prop :=
  match r with
  | None => True
  | Some (Single (VInt v) _) => z = v
  | Some (Range lo hi _) => ge_opt (as_int lo) z /\ le_opt z (as_int hi)
  | Some _ => True
  end.

Definition in_range (r : range) (z : Z) : Prop := ge_opt (rmin r) z /\ le_opt z (rmax r).

(* ---- PER-visible effective constraint, by the book *)
Inductive piv := NV | IV (lo hi : option Z).

Definition hull_lo (a b : option Z) := match a, b with Some x, Some y => Some (Z.min x y) | _, _ => None end.
Definition hull_hi (a b : option Z) := match a, b with Some x, Some y => Some (Z.max x y) | _, _ => None end.
Definition meet_lo (a b : option Z) := match a, b with Some x, Some y => Some (Z.max x y) | Some x, None | None, Some x => Some x | None, None => None end.
Definition meet_hi (a b : option Z) := match a, b with Some x, Some y => Some (Z.min x y) | Some x, None | None, Some x => Some x | None, None => None end.

Definition pv_elem (e : elem) : piv :=
  match e with
  | Single (VInt v) _ => IV (Some v) (Some v)
  | Range lo hi _ => IV (as_int lo) (as_int hi)
  | _ => NV
  end.

Definition pv_combine (o : sop) (a b : piv) : piv :=
  match o with
  | Union => match a, b with IV l1 h1, IV l2 h2 => IV (hull_lo l1 l2) (hull_hi h1 h2) | _, _ => NV end
  | Inter => match a, b with
             | IV l1 h1, IV l2 h2 => IV (meet_lo l1 l2) (meet_hi h1 h2)
             | IV l h, NV | NV, IV l h => IV l h
             | NV, NV => NV
             end
  | Except => a
  end.

Fixpoint pv_eos (s : eos) : piv :=
  match s with
  | El e => pv_elem e
  | SetOp b o r => pv_combine o (pv_elem b) (pv_eos r)
  end.

Definition pv_prec3 (e1 : elem) (o1 : sop) (e2 : elem) (o2 : sop) (e3 : elem) : piv :=
  let p1 := pv_elem e1 in let p2 := pv_elem e2 in let p3 := pv_elem e3 in
  match o1, o2 with
  | Inter, Union => pv_combine Union (pv_combine Inter p1 p2) p3
  | Except, Union => pv_combine Union p1 p3
  | Except, Inter => pv_combine Inter p1 p3
  | Except, Except => p1
  | _, _ => pv_combine o1 p1 (pv_combine o2 p2 p3)
  end.

Definition to_piv (r : option elem) : piv :=
  match r with
  | None => NV
  | Some e => pv_elem e
  end.

Definition nonempty_iv (p : piv) : bool :=
  match p with
  | IV (Some l) (Some h) => Z.leb l h
  | _ => true
  end.

(* every intersection node of the set denotes a non-empty interval (otherwise the source is
   ill-formed: X.680 50.x requires a non-empty result) *)
Fixpoint nonempty_inters (s : eos) : bool :=
  match s with
  | El _ => true
  | SetOp b o r => nonempty_inters r && match o with Inter => nonempty_iv (pv_eos s) | _ => true end
  end.

Definition elem_x (e : elem) : bool :=
  match e with Single _ x => x | Range _ _ x => x | _ => false end.

Fixpoint no_elem_marker (s : eos) : bool :=
  match s with
  | El e => negb (elem_x e)
  | SetOp b _ r => negb (elem_x b) && no_elem_marker r
  end.

(* precedence-monotone operator sequences: the right-nested tree is the X.680 parse tree *)
Definition prec (o : sop) : nat := match o with Union => 0 | Inter => 1 | Except => 2 end.
Definition monotone3 (o1 o2 : sop) : bool := Nat.leb (prec o1) (prec o2) && negb (Nat.eqb (prec o1) 2).
