(* X.680 §20 numbering as the property C14 words it -- an executable reference that does not
   share the algorithm of the model. *)
From Coq Require Import ZArith List Bool.
Require Import RasnV.Model.Base RasnV.Model.Enum.
Import ListNotations.
Local Open Scope Z_scope.

(* the first k naturals that are not in [used] *)
Definition free_nats (used : list Z) (k : nat) : list Z :=
  firstn k (filter (fun z => negb (zmem z used)) (map Z.of_nat (seq 0 (k + length used)))).

(* root numbering by the book: explicit kept, identifier-only ones take the free naturals in order *)
Fixpoint assign (items : list item) (free : list Z) : list Z :=
  match items with
  | [] => []
  | (_, Some z) :: r => z :: assign r free
  | (_, None) :: r => match free with f :: fs => f :: assign r fs | [] => [] end
  end.

Definition count_implicit (items : list item) : nat :=
  length (filter (fun it => match snd it with None => true | Some _ => false end) items).

Definition spec_root_numbers (items : list item) : list Z :=
  assign items (free_nats (explicit_numbers items) (count_implicit items)).

(* every element differs from everything before it *)
Fixpoint fresh_each (seen : list Z) (l : list Z) : bool :=
  match l with
  | [] => true
  | x :: r => negb (zmem x seen) && fresh_each (x :: seen) r
  end.

Fixpoint kept (items : list item) (nums : list Z) : bool :=
  match items, nums with
  | [], [] => true
  | (_, Some z) :: r, n :: ns => Z.eqb z n && kept r ns
  | (_, None) :: r, _ :: ns => kept r ns
  | _, _ => false
  end.

(* valid input for the distinctness clause: explicit numbers never repeat an earlier number
   (explicit root numbers pairwise distinct; X.680 20.5 for additions is about the *assigned*
   numbers, so it is checked on the output by the oracle below) *)
Definition explicit_root_nodup (items : list item) : bool := fresh_each [] (explicit_numbers items).

(* oracle on an observed numbering (names, numbers) of root ++ additions *)
Definition oracle (root adds : list item) (obs : list (str * Z)) : bool :=
  let nums := map snd obs in
  let rn := firstn (length root) nums in
  let an := skipn (length root) nums in
  list_eqb str_eqb (map fst obs) (map fst (root ++ adds))            (* identifiers preserved in order *)
  && Nat.eqb (length obs) (length (root ++ adds))
  && kept (root ++ adds) nums                                            (* explicit numbers kept *)
  && list_eqb Z.eqb rn (spec_root_numbers root)                          (* root: successive from 0, skipping *)
  && (* identifier-only additions never reuse a number *)
     (fix go (seen : list Z) (its : list item) (ns : list Z) : bool :=
        match its, ns with
        | (_, None) :: r, n :: ns' => negb (zmem n seen) && go (n :: seen) r ns'
        | (_, Some _) :: r, n :: ns' => go (n :: seen) r ns'
        | _, _ => true
        end) rn adds an.
