(* Reference semantics for C15: the characters a FROM expression permits (X.680 51.7, read with the
   operators it was written with) and the characters an emitted annotation denotes. *)
From Coq Require Import ZArith NArith List Bool.
Require Import RasnV.Model.Base RasnV.Model.PerVisible RasnV.Model.Alphabet.
Import ListNotations.

Definition str_char (v : option aval) : option N := match v with Some (VStr [c]) => Some c | _ => None end.

Definition semb_alpha_elem (e : elem) (c : N) : bool :=
  match e with
  | Single (VStr s) _ => str_contains s c
  | Range lo hi _ =>
      (match str_char lo with Some l => N.leb l c | None => true end)
      && (match str_char hi with Some h => N.leb c h | None => true end)
  | _ => true
  end.

Fixpoint semb_alpha_rn (s : eos) (c : N) : bool :=
  match s with
  | El e => semb_alpha_elem e c
  | SetOp b Union r => semb_alpha_elem b c || semb_alpha_rn r c
  | SetOp b Inter r => semb_alpha_elem b c && semb_alpha_rn r c
  | SetOp b Except r => semb_alpha_elem b c && negb (semb_alpha_rn r c)
  end.

Definition denote (l : list subset) (c : N) : bool :=
  existsb (fun s => match s with
                    | SSingle x => N.eqb x c
                    | SRange (Some f) (Some t) => N.leb f c && N.leb c t
                    | _ => false
                    end) l.

Fixpoint union_only (s : eos) : bool :=
  match s with El _ => true | SetOp _ Union r => union_only r | SetOp _ _ _ => false end.

(* operands the theorems speak about: a character string, or a range between two single characters *)
Definition simple_alpha_elem (e : elem) : bool :=
  match e with
  | Single (VStr _) false => true
  | Range (Some (VStr [_])) (Some (VStr [_])) false => true
  | _ => false
  end.

Fixpoint simple_alpha (s : eos) : bool :=
  match s with
  | El e => simple_alpha_elem e
  | SetOp b _ r => simple_alpha_elem b && simple_alpha r
  end.

Definition subset_chars_in (cs : charset) (s : subset) : bool :=
  match s with
  | SSingle c => existsb (N.eqb c) cs
  | SRange (Some f) (Some t) => existsb (N.eqb f) cs && existsb (N.eqb t) cs
  | _ => false
  end.
