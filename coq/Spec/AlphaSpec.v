(* Reference semantics for C15: the characters a FROM expression permits (X.680 51.7, read with the
   operators it was written with) and the characters an emitted annotation denotes. *)
From Coq Require Import ZArith NArith List Bool.
Require Import RasnV.Model.Base RasnV.Model.PerVisible RasnV.Gen.T03 RasnV.Model.Alphabet.
Import ListNotations.

Definition str_char (v : option aval) : option N := match v with Some (VStr [c]) => Some c | _ => None end.

Definition semb_alpha_elem (e : elem) (c : N) : bool :=
  match e with
  | Single (VStr s) _ => str_contains s c
  | Range lo hi _ =>
      (match str_char lo with Some l => N.leb l c | None => true end)
      && (match str_char hi with Some h => N.leb c h | None => true end)
  | _ => true
  end.

Fixpoint semb_alpha_rn (s : eos) (c : N) : bool :=
  match s with
  | El e => semb_alpha_elem e c
  | SetOp b Union r => semb_alpha_elem b c || semb_alpha_rn r c
  | SetOp b Inter r => semb_alpha_elem b c && semb_alpha_rn r c
  | SetOp b Except r => semb_alpha_elem b c && negb (semb_alpha_rn r c)
  end.

Definition denote (l : list subset) (c : N) : bool :=
  existsb (fun s => match s with
                    | SSingle x => N.eqb x c
                    | SRange (Some f) (Some t) => N.leb f c && N.leb c t
                    | _ => false
                    end) l.

Fixpoint union_only (s : eos) : bool :=
  match s with El _ => true | SetOp _ Union r => union_only r | SetOp _ _ _ => false end.

(* operands the theorems speak about: a character string, or a range between two single characters *)
Definition simple_alpha_elem (e : elem) : bool :=
  match e with
  | Single (VStr _) false => true
  | Range (Some (VStr [_])) (Some (VStr [_])) false => true
  | _ => false
  end.

Fixpoint simple_alpha (s : eos) : bool :=
  match s with
  | El e => simple_alpha_elem e
  | SetOp b _ r => simple_alpha_elem b && simple_alpha r
  end.

Definition subset_chars_in (cs : charset) (s : subset) : bool :=
  match s with
  | SSingle c => existsb (N.eqb c) cs
  | SRange (Some f) (Some t) => existsb (N.eqb f) cs && existsb (N.eqb t) cs
  | _ => false
  end.

(* ---- the base alphabets as X.680 defines them (41.4 table 8 / 9, ISO 646 for VisibleString and IA5String) *)
Definition in_rng (lo hi c : N) : bool := N.leb lo c && N.leb c hi.
Definition x680_alphabet (t : string_type) (c : N) : option bool :=
  match t with
  | NumericString => Some (N.eqb c 32 || in_rng 48 57 c)
  | PrintableString =>
      Some (in_rng 65 90 c || in_rng 97 122 c || in_rng 48 57 c || N.eqb c 32 || in_rng 39 41 c || in_rng 43 47 c
            || N.eqb c 58 || N.eqb c 61 || N.eqb c 63)
  | VisibleString => Some (in_rng 32 126 c)
  | IA5String => Some (in_rng 0 127 c)
  | _ => None
  end.

Fixpoint nodupb (l : list N) : bool :=
  match l with [] => true | x :: r => negb (existsb (N.eqb x) r) && nodupb r end.

(* the table of the type lists exactly that alphabet, each character once (checked for every code point below 256;
   every entry of the four tables is below 256) *)
Definition table_matches (t : string_type) : bool :=
  match x680_alphabet t 0 with
  | None => true
  | Some _ =>
      let cs := character_set t in
      forallb (fun c => N.ltb c 256) cs && nodupb cs
      && forallb (fun n => let c := N.of_nat n in
                           match x680_alphabet t c with Some b => Bool.eqb (existsb (N.eqb c) cs) b | None => true end) (seq 0 256)
  end.
