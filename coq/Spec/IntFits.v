(* Reference semantics for C06: which mathematical integers a Rust integer type holds,
   and which integers a (serial list of) simple INTEGER constraint(s) permits. *)
From Coq Require Import ZArith List Bool.
Require Import RasnV.Model.Base RasnV.Model.IntWidth.
Import ListNotations.
Local Open Scope Z_scope.

Definition ty_range (t : int_ty) : option (Z * Z) :=
  match t with
  | Int8 => Some (-128, 127)           | Uint8 => Some (0, 255)
  | Int16 => Some (-32768, 32767)      | Uint16 => Some (0, 65535)
  | Int32 => Some (-2147483648, 2147483647) | Uint32 => Some (0, 4294967295)
  | Int64 => Some (-9223372036854775808, 9223372036854775807)
  | Uint64 => Some (0, 18446744073709551615)
  | Unbounded => None
  end.

Definition fits (t : int_ty) (z : Z) : Prop :=
  match ty_range t with Some (lo, hi) => lo <= z <= hi | None => True end.

Definition fitsb (t : int_ty) (z : Z) : bool :=
  match ty_range t with Some (lo, hi) => Z.leb lo z && Z.leb z hi | None => true end.

Definition in_i128 (z : Z) : Prop := i128_min <= z <= i128_max.

Definition ge_opt (lo : option Z) (z : Z) : Prop := match lo with Some l => l <= z | None => True end.
Definition le_opt (z : Z) (hi : option Z) : Prop := match hi with Some h => z <= h | None => True end.

(* X.680: an extensible constraint permits (as extension additions) values outside its root. *)
Definition permits (c : int_constraint) (z : Z) : Prop :=
  match c with
  | CRange lo hi ext sext => ext = true \/ sext = true \/ (ge_opt lo z /\ le_opt z hi)
  | CSingle v ext sext => ext = true \/ sext = true \/ z = v
  | COther _ => True
  end.

Definition finite_nonext (c : int_constraint) : Prop :=
  match c with
  | CRange (Some _) (Some _) false false => True
  | CSingle _ false false => True
  | _ => False
  end.
