(* X.680 31.2.7 (explicit vs implicit tagging) and 25.3 / 29.2 (automatic tagging), as C03 words them. *)
From Coq Require Import NArith List Bool.
Require Import RasnV.Model.Base RasnV.Model.Tagging.
Import ListNotations.

(* a written tag is explicit iff: EXPLICIT keyword; or no keyword in a module whose default is EXPLICIT TAGS
   (also the default when no TAGS clause is given); or the tagged type is a CHOICE or an open type *)
Definition spec_explicit (clause : option tenv) (kw : option tenv) (kind : tkind) : bool :=
  match kw with
  | Some Explicit => true
  | Some _ => match kind with RefChoice | InlineChoice | OpenType => true | _ => false end
  | None =>
      match clause with
      | Some Explicit | None => true
      | _ => match kind with RefChoice | InlineChoice | OpenType => true | _ => false end
      end
  end.

Definition spec_automatic (clause : option tenv) (component_tagged : list bool) : bool :=
  match clause with Some Automatic => forallb negb component_tagged | _ => false end.

(* whether the explicitness of the attribute is observable: rasn itself wraps CHOICE and open types *)
Definition attr_observable (pos : position) (kind : tkind) : bool :=
  match kind with
  | Primitive | RefSequence => true
  | InlineChoice => match pos with TypeAssignment => true | _ => false end
  | _ => false
  end.

(* X.680 31.2.7: "IMPLICIT shall not be used if the type is an untagged choice type or an open type" *)
Definition legal_tag (kw : option tenv) (kind : tkind) : bool :=
  match kw, kind with
  | Some Implicit, (RefChoice | InlineChoice | OpenType) => false
  | _, _ => true
  end.

Definition all_clauses : list (option tenv) := [Some Explicit; Some Implicit; Some Automatic; None].
Definition all_kws : list (option tenv) := [None; Some Implicit; Some Explicit].
Definition all_classes : list tclass := [Context; Application; Private; Universal].
Definition all_positions : list position := [TypeAssignment; Component; Alternative; NestedComponent; ElementOf].
Definition all_kinds : list tkind := [Primitive; RefSequence; RefChoice; InlineChoice; OpenType].

(* the known class: the tag written on the element of SEQUENCE OF / SET OF is dropped *)
Definition known_element (pos : position) : bool := match pos with ElementOf => true | _ => false end.

(* the known class: no TAGS clause is read as IMPLICIT TAGS *)
Definition known_no_clause (clause : option tenv) (kw : option tenv) : bool :=
  match clause, kw with None, None => true | _, _ => false end.
