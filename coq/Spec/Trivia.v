(* X.680 12.6: white-space and the three comment forms, as byte strings. *)
From Coq Require Import NArith Arith List Bool.
Require Import RasnV.Model.Base RasnV.Model.Scan.
Import ListNotations.
Local Open Scope N_scope.

(* no line break and no "--" inside *)
Fixpoint plain_line (s : list N) : bool :=
  match s with
  | [] => true
  | x :: r => negb (N.eqb x 10) && negb (starts2 45 45 s) && plain_line r
  end.

(* no "/*" and no "*/" inside; a block comment body at nesting depth 0 *)
Fixpoint plain_block (s : list N) : bool :=
  match s with
  | [] => true
  | x :: r => negb (starts2 47 42 s) && negb (starts2 42 47 s) && plain_block r
  end.

Definition last_is (b : N) (s : list N) : bool :=
  match rev s with x :: _ => N.eqb x b | [] => false end.

Inductive piece : list N -> Prop :=
| P_ws b : is_ws b = true -> piece [b]
(* `-- text --` : the text neither ends with '-' nor contains a line break or "--" *)
| P_inline body : plain_line body = true -> last_is 45 body = false -> piece (45 :: 45 :: body ++ [45; 45])
(* `-- text` up to the end of the line (the line break itself is white-space) *)
| P_line body : plain_line body = true -> last_is 45 body = false -> piece (45 :: 45 :: body ++ [10])
(* `/* text */` ; nesting is covered by P_nested *)
| P_block body : plain_block body = true -> last_is 47 body = false -> last_is 42 body = false ->
                 piece (47 :: 42 :: body ++ [42; 47])
(* one level of nesting: `/* a /* b */ c */` *)
| P_nested a b c : plain_block a = true -> plain_block b = true -> plain_block c = true ->
                   last_is 47 a = false -> last_is 42 a = false -> last_is 47 b = false -> last_is 42 b = false ->
                   last_is 47 c = false -> last_is 42 c = false ->
                   piece (47 :: 42 :: a ++ [47; 42] ++ b ++ [42; 47] ++ c ++ [42; 47]).

Inductive trivia : list N -> Prop :=
| T_nil : trivia []
| T_cons p t : piece p -> trivia t -> trivia (p ++ t).

(* what follows the trivia is a token: it starts neither white-space nor a comment *)
Definition starts_token (r : list N) : bool :=
  match r with
  | [] => true
  | b :: _ => negb (is_ws b) && negb (starts2 45 45 r) && negb (starts2 47 42 r)
  end.
