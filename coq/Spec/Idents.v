(* Reference notions for C16: ASN.1 identifiers (X.680 12.2/12.3), legal non-keyword Rust
   identifiers (Rust reference, edition 2021: strict + reserved keywords), skeleton of a name. *)
From Coq Require Import NArith List Bool.
Require Import RasnV.Model.Base RasnV.Model.Names.
Import ListNotations.
Local Open Scope N_scope.

Definition is_letter c := is_lower c || is_upper c.
Definition is_alnum c := is_letter c || is_digit c.

(* letters, digits, single hyphens; starts with a letter; no trailing hyphen *)
Fixpoint asn1_tail (s : str) : bool :=
  match s with
  | [] => true
  | c :: r => if c =? hyphen then (match r with n :: _ => is_alnum n | [] => false end) && asn1_tail r
              else is_alnum c && asn1_tail r
  end.
Definition asn1_ident (s : str) : bool :=
  match s with c :: r => is_letter c && asn1_tail r | [] => false end.

Definition ident_char c := is_alnum c || (c =? underscore).

(* strict and reserved keywords of edition 2021 (weak keywords such as union, macro_rules are legal identifiers) *)
Definition spec_keywords : list str :=
  [
    [97;115]  (* as *);
    [98;114;101;97;107]  (* break *);
    [99;111;110;115;116]  (* const *);
    [99;111;110;116;105;110;117;101]  (* continue *);
    [99;114;97;116;101]  (* crate *);
    [101;108;115;101]  (* else *);
    [101;110;117;109]  (* enum *);
    [101;120;116;101;114;110]  (* extern *);
    [102;97;108;115;101]  (* false *);
    [102;110]  (* fn *);
    [102;111;114]  (* for *);
    [105;102]  (* if *);
    [105;109;112;108]  (* impl *);
    [105;110]  (* in *);
    [108;101;116]  (* let *);
    [108;111;111;112]  (* loop *);
    [109;97;116;99;104]  (* match *);
    [109;111;100]  (* mod *);
    [109;111;118;101]  (* move *);
    [109;117;116]  (* mut *);
    [112;117;98]  (* pub *);
    [114;101;102]  (* ref *);
    [114;101;116;117;114;110]  (* return *);
    [115;101;108;102]  (* self *);
    [83;101;108;102]  (* Self *);
    [115;116;97;116;105;99]  (* static *);
    [115;116;114;117;99;116]  (* struct *);
    [115;117;112;101;114]  (* super *);
    [116;114;97;105;116]  (* trait *);
    [116;114;117;101]  (* true *);
    [116;121;112;101]  (* type *);
    [117;110;115;97;102;101]  (* unsafe *);
    [117;115;101]  (* use *);
    [119;104;101;114;101]  (* where *);
    [119;104;105;108;101]  (* while *);
    [97;115;121;110;99]  (* async *);
    [97;119;97;105;116]  (* await *);
    [100;121;110]  (* dyn *);
    [97;98;115;116;114;97;99;116]  (* abstract *);
    [98;101;99;111;109;101]  (* become *);
    [98;111;120]  (* box *);
    [100;111]  (* do *);
    [102;105;110;97;108]  (* final *);
    [109;97;99;114;111]  (* macro *);
    [111;118;101;114;114;105;100;101]  (* override *);
    [112;114;105;118]  (* priv *);
    [116;121;112;101;111;102]  (* typeof *);
    [117;110;115;105;122;101;100]  (* unsized *);
    [118;105;114;116;117;97;108]  (* virtual *);
    [121;105;101;108;100]  (* yield *);
    [116;114;121]  (* try *) ].

Definition rust_ident_ok (s : str) : bool :=
  match s with
  | c :: r => (is_letter c || ((c =? underscore) && negb (match r with [] => true | _ => false end)))
              && forallb ident_char s && negb (str_in s spec_keywords)
  | [] => false
  end.

(* what survives mangling: the alphanumerics, case-folded *)
Definition skeleton (s : str) : str := map to_lower (filter is_alnum s).
