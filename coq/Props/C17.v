(* C17 -- Syntax errors are reported at the malformed definition, consistently.  Statements only.
   Model: Model/InputPos.v (input.rs bookkeeping; the numbers Display / contextualize print).
   The location clause in full generality is about the whole combinator grammar and nom's error
   selection and is decided by the search (single-token corruptions); what is proved is that the
   reported numbers are meaningful for EVERY sequence of slicing / context operations on EVERY source. *)
From Coq Require Import NArith Arith List Bool.
Require Import RasnV.Model.Base RasnV.Model.InputPos.
Require RasnV.Proofs.C17.
Import ListNotations.

(* the invariant holds initially and is preserved by every operation *)
Theorem C17_invariant :
  forall src ops i, run (init src) ops = Some i -> Proofs.C17.Inv src i.
Proof. intros src ops i H. exact (Proofs.C17.inv_run src ops (init src) i (Proofs.C17.inv_init src) H). Qed.

(* the byte offset lies within the input; the line number is one plus the number of line breaks
   before that offset; the context starts at or before the error and its line is consistent too *)
Theorem C17_report_meaningful :
  forall src ops i,
    run (init src) ops = Some i ->
    let r := report_of i in
    r_offset r <= length src
    /\ r_line r = 1 + count_nl (firstn (r_offset r) src)
    /\ r_ctx_offset r <= r_offset r
    /\ r_ctx_line r = 1 + count_nl (firstn (r_ctx_offset r) src).
Proof. exact Proofs.C17.report_meaningful. Qed.

(* Display, contextualize and the structured report agree on the line *)
Theorem C17_lines_agree :
  forall src ops i n,
    run (init src) ops = Some i ->
    let r := report_of i in
    display_line r = r_line r /\ (forall m, marked_line r n = Some m -> m = r_line r) /\ r_ctx_line r <= r_line r.
Proof. exact Proofs.C17.lines_agree. Qed.

(* non-vacuity: "ab\ncd\n\nxyz" sliced three times with a context reset *)
Example C17_example :
  option_map report_of (run (init [97;98;10;99;100;10;10;120;121;122]%N) [OSlice 1 10; OSlice 3 9; OReset; OSlice 2 5])
  = Some {| r_line := 3; r_offset := 6; r_column := 2; r_ctx_line := 2; r_ctx_offset := 4 |}.
Proof. vm_compute. reflexivity. Qed.
