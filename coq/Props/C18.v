(* C18 -- TypeScript declarations have the JER shape of each type.  Statements only.
   Model: Model/TsGen.v (type_to_tokens, array_of, the member / option formatters and the per-kind templates, as token
   sequences); reference: Spec/TsShape.v (the X.697 shape of a type and its canonical TypeScript notation).
   That each type assignment yields exactly one declaration in its namespace, that every mentioned name is declared or
   imported, and that the real output tokenises to the model's tokens are decided by the correspondence and the search. *)
From Coq Require Import NArith List Bool.
Require Import RasnV.Model.Base RasnV.Model.TsGen RasnV.Spec.TsShape.
Require RasnV.Proofs.C18.
Import ListNotations.

(* for every type, of any nesting depth and width: the rendered declaration is the canonical notation of the type's
   JER shape -- members in order with `?` exactly where the component is OPTIONAL or DEFAULT, arrays for SEQUENCE OF /
   SET OF (a union element parenthesised), string literal unions of the enumeral names as written, a union of
   single-key objects for CHOICE, the index signature exactly when the SEQUENCE / SET is extensible, hyphens mangled
   in every identifier *)
Theorem C18_declaration_is_jer_shape :
  forall name t, decl_tokens name t = print_decl (jer_decl name t).
Proof. exact Proofs.C18.decl_canonical. Qed.

Theorem C18_type_is_jer_shape :
  forall t, type_tokens t = print_shape (jer_shape t).
Proof. exact Proofs.C18.render_canonical. Qed.

(* braces, brackets and parentheses of every declaration are balanced *)
Theorem C18_balanced :
  forall name t, ident_like name = true -> wf_names t = true -> bal [] (decl_tokens name t) = true.
Proof. exact Proofs.C18.decl_balanced. Qed.

(* non-vacuity: A-b ::= SEQUENCE { x-y INTEGER, o BOOLEAN OPTIONAL, l SEQUENCE OF CHOICE { u NULL }, ... } *)
Example C18_example :
  let t := TStruct [([120;45;121]%N, false, TNum); ([111]%N, true, TBool);
                    ([108]%N, false, TOf (TChoice [([117]%N, TNull)]))] true in
  wf_names t = true /\
  jer_shape t = SObj [([120;95;121]%N, false, SNumber); ([111]%N, true, SBool);
                      ([108]%N, false, SArr (SKeys [([117]%N, SNull)]))] true /\
  bal [] (decl_tokens [65;45;98]%N t) = true.
Proof. vm_compute. repeat split. Qed.
