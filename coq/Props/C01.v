(* C01 -- Warning-free compilations yield Rust bindings that type-check against rasn.  Statements only.
   Type checking is rustc's; no model here stands for it.  What is modelled (Model/WellFormed.v) is the fragment of
   Rust's static semantics the generator can violate by construction of names and nesting: unique item / member names,
   resolution of every mentioned type name, finite size.  The theorems say what the checker's verdict guarantees; the
   correspondence runs the checker on the real bindings next to `cargo check` against the rasn crate and compares the
   verdicts for exactly these error classes; the search for failing inputs is `cargo check` itself on generator outputs
   under every configuration. *)
From Coq Require Import NArith Arith List Bool.
Require Import RasnV.Model.Base RasnV.Model.WellFormed.
Require RasnV.Proofs.C01 RasnV.Proofs.Hoist.
Require Import RasnV.Model.Hoist.
Import ListNotations.

Theorem C01_names_unique_partial :
  forall items others, names_unique items others = true ->
    NoDup (map i_name items ++ others) /\ forall it, In it items -> NoDup (i_members it).
Proof. exact Proofs.C01.names_unique_sound. Qed.

Theorem C01_names_resolve_partial :
  forall items universe, resolved items universe = true ->
    forall it n, In it items -> In n (i_mentions it) -> In n (map i_name items) \/ In n universe.
Proof. exact Proofs.C01.resolved_sound. Qed.

(* an ordering in which every by-value containment goes strictly backwards exists only if no item contains itself,
   through any number of other items: every struct and enum has finite size *)
Theorem C01_finite_size_partial :
  forall order items, finite_by order items = true -> (forall it, In it items -> In (i_name it) order) ->
    forall a, ~ Proofs.C01.contains items a a.
Proof. exact Proofs.C01.no_infinite_size. Qed.

(* the generator's side of name resolution, for types written in place to any depth (SEQUENCE / SET / CHOICE / ENUMERATED
   inside one another): every name a generated item mentions is the name of an item emitted with it, or a prelude type, or
   a referenced assignment -- the member is written with exactly the name its in-place type is emitted under.  (The tie of
   this emission model to the code is C02's correspondence, which follows the same inner names through the real bindings.) *)
Theorem C01_in_place_types_resolve_partial :
  forall t name, resolved (emit name t) (externals t) = true.
Proof. exact Proofs.Hoist.emit_resolved. Qed.

(* non-vacuity: Node { next: Option<Box<Node>> } is fine, Bad { inner: Bad } is not *)
Example C01_example :
  finite_by [[78]%N] [mkitem [78]%N [[110]%N] [[78]%N] []] = true /\
  finite_by [[66]%N] [mkitem [66]%N [[105]%N] [[66]%N] [[66]%N]] = false.
Proof. vm_compute. split; reflexivity. Qed.
