(* C07 -- Value assignments and DEFAULTs denote the source abstract value.  Statements only.
   Model: Model/Values.v (literal lexers, bit/octet conversions, named bits, OID arc resolution) over the generated
   tables Gen/T04.v (hex_to_bools) and Gen/T05.v (ObjectIdentifierArc::well_known); reference: Spec/ValSpec.v.
   The composition of these leaves through the linker and the generator (value references, governing types, CHOICE /
   SEQUENCE / SEQUENCE OF values, DEFAULTs) is decided by the search: a symbolic evaluation of every generated
   initialiser against the value written in the source. *)
From Coq Require Import ZArith NArith Arith List Bool.
Require Import RasnV.Model.Base RasnV.Model.Scan RasnV.Gen.T04 RasnV.Gen.T05 RasnV.Model.Values RasnV.Spec.ValSpec.
Require RasnV.Proofs.C07 RasnV.Proofs.C07Lines.
Import ListNotations.

(* an hstring of any length denotes, digit by digit, the 4-bit big-endian expansion of each digit *)
Theorem C07_hstring :
  forall ds rest, forallb is_hexdigit ds = true ->
    lex_bits (APOS :: ds ++ APOS :: 72%N :: rest) = Some (flat_map (fun c => bits_be 4 (hexval c)) ds, rest).
Proof. exact Proofs.C07.hstring_denotes. Qed.

(* a bstring of any length denotes bit i = (digit i is `1`) *)
Theorem C07_bstring :
  forall ds rest, forallb is_hexdigit ds = true ->
    exists bits, lex_bits (APOS :: ds ++ APOS :: 66%N :: rest) = Some (bits, rest) /\
      length bits = length ds /\
      forall i, (i < length ds)%nat -> nth i bits false = N.eqb (nth i ds 0%N) 49.
Proof. exact Proofs.C07.bstring_denotes. Qed.

(* octets -> bits: every octet becomes its 8-bit big-endian expansion; and back, losing nothing, both ways *)
Theorem C07_octets_to_bits :
  forall bs, Forall (fun b => (b < 256)%N) bs -> octets_to_bits bs = flat_map (bits_be 8) bs.
Proof. exact Proofs.C07.octets_to_bits_spec. Qed.

Theorem C07_octets_roundtrip :
  forall bs, Forall (fun b => (b < 256)%N) bs -> bits_to_octets (octets_to_bits bs) = Some bs.
Proof. exact Proofs.C07.bits_to_octets_roundtrip. Qed.

Theorem C07_bits_to_octets_exact :
  forall bits bs, bits_to_octets bits = Some bs ->
    octets_to_bits bs = bits /\ Forall (fun b => (b < 256)%N) bs.
Proof. exact Proofs.C07.bits_to_octets_inv. Qed.

(* a named-bit list denotes ones exactly at the positions of the chosen names (and has highest+1 bits; trailing zero
   bits are not significant for a type with named bits, X.680 22.7) *)
Theorem C07_named_bits :
  forall h chosen dist, NoDup (map snd dist) ->
    length (named_bits h chosen dist) = Z.to_nat (h + 1) /\
    forall i, (0 <= i <= h)%Z ->
      (nth (Z.to_nat i) (named_bits h chosen dist) false = true <-> exists n, In n chosen /\ In (n, i) dist).
Proof. exact Proofs.C07.named_bits_denotes. Qed.

(* a cstring on one line: any text s, written with its quotation marks doubled, followed by anything that does not
   begin with a quotation mark, lexes to exactly s and leaves exactly the rest *)
Theorem C07_cstring :
  forall s rest, Proofs.C07.no_nl s -> N.eqb (hd 0%N rest) QUOTE = false ->
    cstring (QUOTE :: escape s ++ QUOTE :: rest) = Some (s, rest).
Proof. exact Proofs.C07.cstring_spec. Qed.

(* a cstring broken over two lines: the line break and the spacing around it are not part of the value (X.680 12.14.1).
   One break here; any number of breaks in C07_cstring_lines below. *)
Theorem C07_cstring_two_lines :
  forall a b sp1 nl sp2 rest,
    Proofs.C07.no_nl a -> Proofs.C07.no_nl b -> Proofs.C07.spacing sp1 -> Proofs.C07.spacing sp2 -> is_nl nl = true ->
    is_sp (last a 0%N) = false -> is_sp (hd 0%N b) = false ->
    N.eqb (hd 0%N rest) QUOTE = false ->
    cstring (QUOTE :: (escape a ++ sp1 ++ nl :: sp2 ++ escape b) ++ QUOTE :: rest) = Some (a ++ b, rest).
Proof. exact Proofs.C07.cstring_two_lines. Qed.

(* any number of continuation lines, each `spacing, line break, spacing, text`: the literal denotes the concatenation of
   the texts; a text may be empty (a blank line), inner texts neither begin nor end with spacing (that spacing would be
   indistinguishable from the spacing around the break, which X.680 12.14.1 removes) *)
Theorem C07_cstring_lines :
  forall a segs rest,
    Proofs.C07.no_nl a -> (segs <> [] -> is_sp (last a 0%N) = false) -> Proofs.C07Lines.good_segs segs ->
    N.eqb (hd 0%N rest) QUOTE = false ->
    cstring (QUOTE :: (escape a ++ Proofs.C07Lines.src_rest segs) ++ QUOTE :: rest)
    = Some (a ++ Proofs.C07Lines.texts segs, rest).
Proof. exact Proofs.C07Lines.cstring_lines. Qed.

(* ab SP LF TAB c QUOTE QUOTE d CR LF SP SP e between quotation marks -- three breaks, an empty text between CR and LF,
   a doubled quotation mark -- denotes a b c QUOTE d e *)
Example C07_cstring_lines_applies :
  let segs := [Proofs.C07Lines.mkseg [32] 10 [9] [99; 34; 100]; Proofs.C07Lines.mkseg [] 13 [] []; Proofs.C07Lines.mkseg [] 10 [32; 32] [101]]%N in
  and (Proofs.C07Lines.good_segs segs)
      (cstring (QUOTE :: ([97%N; 98%N] ++ Proofs.C07Lines.src_rest segs) ++ QUOTE :: [32%N]) = Some ([97; 98; 99; 34; 100; 101]%N, [32%N])).
Proof.
  split.
  - cbn. repeat split; try (repeat constructor); intros; try reflexivity; try discriminate.
  - vm_compute. reflexivity.
Qed.

(* OBJECT IDENTIFIER values without value references: every arc resolves to the number X.660 assigns, for the
   number, name(number) and bare-name forms; the bare letter arcs a..z under {itu-t recommendation} are the known
   finding C07-oid-letter-arcs and are excluded *)
Theorem C07_oid :
  forall (arcs : list src_arc) ns,
    match arcs with a :: _ => Proofs.C07.wf_first a = true | [] => True end ->
    has_bare_letter arcs = false ->
    oid_sem arcs = Some ns ->
    oid_numbers (map Proofs.C07.to_arc arcs) = Some ns.
Proof. exact Proofs.C07.oid_numbers_spec. Qed.

(* non-vacuity *)
Example C07_example_hstring :
  lex_bits [39; 65; 53; 39; 72; 32]%N = Some ([true; false; true; false; false; true; false; true], [32]%N).
Proof. vm_compute. reflexivity. Qed.

Example C07_example_cstring :    (* quote a quote quote b quote space x  ->  a quote b *)
  cstring [34; 97; 34; 34; 98; 34; 32; 120]%N = Some ([97; 34; 98]%N, [32; 120]%N).
Proof. vm_compute. reflexivity. Qed.

Example C07_example_cstring_later_doubled :   (* two strings, the second holding a doubled quotation mark: the first ends at its own quotation mark *)
  cstring [34; 120; 34; 32; 34; 121; 34; 34; 122; 34]%N = Some ([120]%N, [32; 34; 121; 34; 34; 122; 34]%N).
Proof. vm_compute. reflexivity. Qed.

Example C07_example_cstring_lines :   (* quote a b space space LF space space c d quote  ->  a b c d *)
  cstring [34; 97; 98; 32; 32; 10; 32; 32; 99; 100; 34]%N = Some ([97; 98; 99; 100]%N, []).
Proof. vm_compute. reflexivity. Qed.

Example C07_example_oid :   (* { iso standard 8571 } *)
  oid_sem [(Some [105; 115; 111]%N, None); (Some [115; 116; 97; 110; 100; 97; 114; 100]%N, None); (None, Some 8571%N)]
  = Some [1; 0; 8571]%N.
Proof. vm_compute. reflexivity. Qed.

Example C07_example_named_bits :
  named_bits 7 [[102]%N; [108]%N] [([102]%N, 0%Z); ([116]%N, 2%Z); ([108]%N, 7%Z)]
  = [true; false; false; false; false; false; false; true].
Proof. vm_compute. reflexivity. Qed.
