(* C06 -- The chosen Rust integer type can hold every permitted value.
   Statements only; proofs live in Proofs/C06.v. The ladders are Gen/T06.v and Gen/T07.v,
   re-translated from /repo on every run. *)
From Coq Require Import ZArith List Bool.
Require Import RasnV.Model.Base RasnV.Gen.T06 RasnV.Gen.T07 RasnV.Model.IntWidth RasnV.Spec.IntFits.
Require RasnV.Proofs.C06.
Import ListNotations.
Local Open Scope Z_scope.

(* components / elements / constrained references: width from the folded PER-visible range *)
Theorem C06_component_width_sound :
  forall (omin omax : option Z) (ext : bool) (z : Z),
    ge_opt omin z -> le_opt z omax -> fits (int_type_token omin omax ext) z.
Proof. exact Proofs.C06.token_sound. Qed.

Theorem C06_component_fixed_only_if :
  forall omin omax ext, int_type_token omin omax ext <> Unbounded ->
    ext = false /\ exists lo hi, omin = Some lo /\ omax = Some hi.
Proof. exact Proofs.C06.token_fixed_only_if. Qed.

(* type assignments and linked values: per-constraint width, most restrictive wins *)
Theorem C06_assignment_width_sound :
  forall (cs : list int_constraint) (z : Z),
    in_i128 z -> Forall (fun c => permits c z) cs -> fits (int_type cs) z.
Proof. exact Proofs.C06.int_type_sound. Qed.

(* a fixed-width type needs a finite, unmarked serial constraint AND an unmarked last constraint -- the one that decides
   whether the resulting type is extensible (X.680 50.8).  The second half was false of the code until the fix of
   C06-serial-extensible-fixed-width: `INTEGER (0..10)(2..5, ...)` got u8. *)
Theorem C06_assignment_fixed_only_if :
  forall cs, int_type cs <> Unbounded -> Exists finite_nonext cs /\ last_extensible cs = false.
Proof. exact Proofs.C06.int_type_fixed_only_if. Qed.

Example C06_example_serial_extensible :
  int_type [CRange (Some 0) (Some 10) false false; CRange (Some 2) (Some 5) true false] = Unbounded /\
  int_type [CRange (Some 0) (Some 10) true false; CRange (Some 2) (Some 5) false false] = Uint8.
Proof. split; reflexivity. Qed.

Theorem C06_max_restrictive_sound :
  forall a b z, fits a z -> fits b z -> fits (max_restrictive a b) z.
Proof. exact Proofs.C06.max_restrictive_sound. Qed.

Theorem C06_max_restrictive_unbounded :
  forall a b, max_restrictive a b = Unbounded -> a = Unbounded /\ b = Unbounded.
Proof. exact Proofs.C06.max_restrictive_unbounded. Qed.

(* non-vacuity: concrete non-trivial instances *)
Example C06_example_component : int_type_token (Some (-129)) (Some 127) false = Int16 /\ fits Int16 (-129).
Proof. split; [reflexivity | cbv; split; discriminate]. Qed.

Example C06_example_assignment :
  int_type [CRange (Some 0) (Some 70000) false false; CRange (Some 5) (Some 300) false false] = Uint16
  /\ Forall (fun c => permits c 300) [CRange (Some 0) (Some 70000) false false; CRange (Some 5) (Some 300) false false].
Proof.
  split; [reflexivity|].
  constructor; [right; right; cbn; split; discriminate|].
  constructor; [right; right; cbn; split; discriminate|]. constructor.
Qed.
