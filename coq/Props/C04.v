(* C04 -- Emitted value and size bounds equal the PER-visible effective constraint.
   Statements only.  Model: Model/PerVisible.v (a transcription of fold_constraint_set and the
   PerVisibleRangeConstraints conversions, tied to the code by the correspondence H5).
   Domain of the theorems: element sets over integer single values, integer ranges (MIN/MAX
   allowed) and non-PER-visible elements, of any length and with any operators, alone or inside
   SIZE(...), in any number of serial constraints.  [rho] is what the non-PER-visible elements
   permit (arbitrary). *)
From Coq Require Import ZArith List Bool.
Require Import RasnV.Model.Base RasnV.Model.PerVisible RasnV.Spec.Subtype.
Require RasnV.Proofs.C04.
Import ListNotations.
Local Open Scope Z_scope.

(* the folded element never excludes a value of the set that is folded *)
Theorem C04_fold_never_excludes :
  forall rho fuel s r z,
    pure_eos s = true -> fold_eos fuel s None true = Ok r -> sem_eos rho s z -> in_result r z.
Proof. exact Proofs.C04.fold_eos_never_excludes. Qed.

(* it is exactly the X.691 10.3.21 effective constraint: unions hull, intersections intersect the
   visible parts, EXCEPT ignored -- for every set whose intersections are non-empty *)
Theorem C04_fold_exact :
  forall fuel s r,
    pure_eos s = true -> nonempty_inters s = true -> fold_eos fuel s None true = Ok r ->
    to_piv r = pv_eos s.
Proof. exact Proofs.C04.fold_eos_exact. Qed.

(* the fuel of the model is not what makes these hold: size-many steps always suffice *)
Theorem C04_fold_terminates :
  forall operant fuel base o,
    pure_elem base = true -> pure_eos operant = true -> (eos_size operant < fuel)%nat ->
    fold fuel base o operant None true <> OutOfFuel.
Proof. exact Proofs.C04.fold_fuel. Qed.

(* one constraint, value or SIZE(...): the emitted bounds contain every permitted value / length *)
Theorem C04_constraint_never_excludes :
  forall rho fuel c rg z,
    Proofs.C04.constraint_pure c = true -> range_of_constraint fuel c = Ok rg ->
    Proofs.C04.constraint_sem rho c z -> in_range rg z.
Proof. exact Proofs.C04.range_of_constraint_never_excludes. Qed.

(* serial constraints intersect, and still never exclude *)
Theorem C04_serial_never_excludes :
  forall rho fuel signed cs rg z,
    Forall (fun c => Proofs.C04.constraint_pure c = true /\ Proofs.C04.constraint_sem rho c z) cs ->
    (signed = false -> 0 <= z) ->
    per_visible_range_constraints fuel signed cs = Ok rg -> in_range rg z.
Proof. exact Proofs.C04.per_visible_never_excludes. Qed.

(* flagged extensible exactly when the constraint carries a marker (and bounds anything at all) *)
Theorem C04_extensible_iff_marker :
  forall fuel c rg,
    Proofs.C04.constraint_pure c = true -> Proofs.C04.constraint_unmarked_elems c = true ->
    range_of_constraint fuel c = Ok rg -> rext rg = cext c && Proofs.C04.bounded rg.
Proof. exact Proofs.C04.constraint_extensible_iff. Qed.

(* operator precedence.  The IR can only nest to the right, so `a ^ b | c` is folded as
   `a ^ (b | c)`: the X.680 reading is refuted by a witness (known finding C04-precedence),
   and holds for operator sequences of non-decreasing precedence, where both readings coincide. *)
Theorem C04_precedence_refuted :
  exists e1 e2 e3 z r,
    sem_prec3 (fun _ => True) e1 Inter e2 Union e3 z
    /\ fold 10 e1 Inter (SetOp e2 Union (El e3)) None true = Ok r /\ ~ in_result r z.
Proof. exact Proofs.C04.precedence_refuted. Qed.

Theorem C04_except_precedence_refuted :
  exists e1 e2 e3 z r,
    sem_prec3 (fun _ => True) e1 Except e2 Union e3 z
    /\ fold 10 e1 Except (SetOp e2 Union (El e3)) None true = Ok r /\ ~ in_result r z.
Proof. exact Proofs.C04.except_precedence_refuted. Qed.

Theorem C04_monotone_is_x680 :
  forall rho e1 o1 e2 o2 e3 z,
    monotone3 o1 o2 = true ->
    (sem_prec3 rho e1 o1 e2 o2 e3 z <-> sem_eos rho (SetOp e1 o1 (SetOp e2 o2 (El e3))) z).
Proof. exact Proofs.C04.monotone3_sem. Qed.

Theorem C04_monotone_pv_is_x680 :
  forall e1 o1 e2 o2 e3,
    monotone3 o1 o2 = true ->
    pv_prec3 e1 o1 e2 o2 e3 = pv_eos (SetOp e1 o1 (SetOp e2 o2 (El e3))).
Proof. exact Proofs.C04.monotone3_pv. Qed.

(* non-vacuity: (MIN..5 | 10..20) ^ ... : INTEGER (3 | MIN..1 ^ -5..7)(0..MAX, ...) *)
Example C04_example :
  let c1 := {| cset := SetOp (Single (VInt 3) false) Union
                        (SetOp (Range None (Some (VInt 1)) false) Inter (El (Range (Some (VInt (-5))) (Some (VInt 7)) false)));
               cext := false |} in
  let c2 := {| cset := El (Range (Some (VInt 0)) None false); cext := true |} in
  per_visible_range_constraints 20 true [c1; c2]
  = Ok {| rmin := Some 0; rmax := Some 3; rext := true; rsize := false |}
  /\ Proofs.C04.constraint_pure c1 = true /\ nonempty_inters (cset c1) = true
  /\ Proofs.C04.constraint_sem (fun _ => True) c1 1.
Proof.
  cbv zeta. split; [vm_compute; reflexivity|]. split; [reflexivity|]. split; [vm_compute; reflexivity|].
  unfold Proofs.C04.constraint_sem. cbn. unfold ge_opt, le_opt. cbn. right. repeat split; discriminate.
Qed.

(* the marker written after the last element of a set (where the lexer keeps it) is never lost: whatever the fold keeps or drops --
   non-PER-visible parts, contained subtypes, the ignored part of EXCEPT -- a bounded result is flagged extensible (fix ba5357f) *)
Theorem C04_trailing_marker_never_lost :
  forall fuel b o r cx rg,
    range_of_constraint fuel {| cset := SetOp b o r; cext := cx |} = Ok rg ->
    trailing_marker r = true -> Proofs.C04.bounded rg = true -> rext rg = true.
Proof. exact Proofs.C04.trailing_marker_flagged. Qed.

(* non-vacuity: (0..5 ^ <contained subtype> EXCEPT 7..9, ...) -- the fold drops the whole operant, the marker stays *)
Example C04_trailing_marker_example :
  let r := SetOp Contained Except (El (Range (Some (VInt 7)) (Some (VInt 9)) true)) in
  range_of_constraint 12 {| cset := SetOp (Range (Some (VInt 0)) (Some (VInt 5)) false) Inter r; cext := false |}
  = Ok {| rmin := Some 0; rmax := Some 5; rext := true; rsize := false |} /\ trailing_marker r = true.
Proof. vm_compute. split; reflexivity. Qed.
