(* C08 -- Compilation and error rendering are total: no panic, abort or hang.  Statements only.
   What is proved: the two hand-written pieces of index arithmetic that the property names --
   the nestable-comment scanner and the error excerpt -- never leave the input, for every input.
   Everything else (nom, the linker's recursion, the generators) is decided by the worker-process
   search; stack depth and time are runtime facts the model cannot exhibit. *)
From Coq Require Import NArith Arith List Bool.
Require Import RasnV.Model.Base RasnV.Model.InputPos RasnV.Model.Scan RasnV.Model.Excerpt.
Require RasnV.Proofs.C13 RasnV.Proofs.C08.
Import ListNotations.

(* take_until_unbalanced: whatever the input, the tags and the fuel, no slice is out of range *)
Theorem C08_block_scanner_total :
  forall fuel s o1 o2 c1 c2 index counter, tub fuel s o1 o2 c1 c2 index counter <> Panic.
Proof. exact Proofs.C13.tub_no_panic. Qed.

(* until_next_unindented: both slices are in range and on character boundaries, for any byte string,
   any (even absurd) at_least_until and fallback length *)
Theorem C08_excerpt_in_range :
  forall input at_least_until fallback_len, snd (until_next_unindented input at_least_until fallback_len) = true.
Proof. exact Proofs.C08.until_next_unindented_ok. Qed.

(* contextualize: for every report the position bookkeeping can produce, the slices it makes are legal *)
Theorem C08_contextualize_in_range :
  forall src ops i,
    run (init src) ops = Some i -> is_boundary src (ctx_offset i) = true ->
    contextualize_slices src (report_of i) = true.
Proof. exact Proofs.C08.contextualize_in_range. Qed.

(* non-vacuity: an error right before a three-byte character, excerpt longer than the fallback *)
Example C08_example :
  until_next_unindented [65;32;226;130;172;32;66]%N 3 4 = (5, true)
  /\ tub 20 [47;42;32;226;130;172]%N 47 42 42 47 2 0 = Fail.
Proof. vm_compute. split; reflexivity. Qed.
