(* C15 -- Permitted-alphabet annotations denote exactly the FROM constraint.  Statements only.
   Model: Model/Alphabet.v over Model/PerVisible.v; tables Gen/T03.v (re-translated every run).
   Theorem domain: one FROM constraint whose operands (character strings of any length, ranges
   between two characters) are combined with `|`; the other operators are the known finding
   C15-operators-in-from (refutation below). *)
From Coq Require Import ZArith NArith List Bool.
Require Import RasnV.Model.Base RasnV.Model.PerVisible RasnV.Gen.T03 RasnV.Model.Alphabet RasnV.Spec.AlphaSpec.
Require RasnV.Proofs.C15.
Import ListNotations.

(* string types that are not known-multiplier get no alphabet annotation, whatever their constraints *)
Theorem C15_none_for_unknown_multiplier :
  forall fuel t cs, known_multiplier t = false -> alphabet_annotation fuel t cs = Ok None.
Proof. exact Proofs.C15.none_for_unknown. Qed.

(* the annotation (after sorting) denotes exactly the characters the FROM expression permits *)
Theorem C15_union_exact :
  forall fuel t inner ann,
    known_multiplier t = true -> union_only inner = true -> simple_alpha inner = true ->
    alphabet_annotation fuel t [{| cset := El (Alpha inner); cext := false |}] = Ok ann ->
    forall c, denote (match ann with Some l => l | None => [] end) c = semb_alpha_rn inner c.
Proof. exact Proofs.C15.annotation_union_exact. Qed.

(* every single character, and both ends of every range, belong to the base alphabet *)
Theorem C15_within_base :
  forall cs e l,
    simple_alpha_elem e = true -> from_elem cs e = Ok (Some l) -> forallb (subset_chars_in cs) l = true.
Proof. exact Proofs.C15.from_elem_within_base. Qed.

(* sorting by first character (finalize) is irrelevant to the denoted set *)
Theorem C15_order_irrelevant : forall l c, denote (sort_subsets l) c = denote l c.
Proof. exact Proofs.C15.denote_sort. Qed.

(* known finding: `^` and EXCEPT inside FROM are read as `|` *)
Theorem C15_operators_refuted :
  exists inner l c,
    from_alpha_inner ia5_charset inner = Ok l /\ simple_alpha inner = true
    /\ denote l c = true /\ semb_alpha_rn inner c = false.
Proof. exact Proofs.C15.operators_refuted. Qed.

(* non-vacuity: IA5String (FROM ("AB" | "x".."z")) *)
Example C15_example :
  let inner := SetOp (Single (VStr [65; 66]%N) false) Union (El (Range (Some (VStr [120]%N)) (Some (VStr [122]%N)) false)) in
  alphabet_annotation 10 IA5String [{| cset := El (Alpha inner); cext := false |}]
  = Ok (Some [SSingle 65%N; SSingle 66%N; SRange (Some 120%N) (Some 122%N)])
  /\ known_multiplier IA5String = true /\ union_only inner = true /\ simple_alpha inner = true.
Proof. vm_compute. repeat split; reflexivity. Qed.

(* inclusion of another constrained string type as the whole constraint (`B ::= IA5String (A)`, `(INCLUDES A)`): the
   annotation is the one of the included type's own constraints, hence exact under the same conditions *)
Theorem C15_inclusion_is_included :
  forall fuel t t' c cs', known_multiplier t = true ->
    alphabet_annotation_a fuel t [AIncl t' (c :: cs')] = alphabet_annotation fuel t' (c :: cs').
Proof. exact Proofs.C15.inclusion_is_included. Qed.

Theorem C15_inclusion_exact :
  forall fuel t t' inner ann,
    known_multiplier t = true -> known_multiplier t' = true -> union_only inner = true -> simple_alpha inner = true ->
    alphabet_annotation_a fuel t [AIncl t' [{| cset := El (Alpha inner); cext := false |}]] = Ok ann ->
    forall c, denote (match ann with Some l => l | None => [] end) c = semb_alpha_rn inner c.
Proof. exact Proofs.C15.inclusion_exact. Qed.

(* known finding C15-inclusion-in-set-operation: as an operand of `|` the included type is not folded in; the result is
   no annotation at all (a superset, never the exact set) *)
Theorem C15_inclusion_in_union_not_exact :
  let s := El (Single (VStr [120%N]) false) in
  try_new 6 IA5String {| cset := SetOp Contained Union (El (Alpha s)); cext := false |} = Ok None /\
  try_new 6 IA5String {| cset := SetOp (Alpha s) Union (El Contained); cext := false |} = Ok None.
Proof. exact Proofs.C15.inclusion_in_union_ignored. Qed.

(* non-vacuity: B ::= NumericString (A) with A ::= NumericString (FROM ("0".."3" | "7")) *)
Example C15_inclusion_example :
  let inner := SetOp (Range (Some (VStr [48]%N)) (Some (VStr [51]%N)) false) Union (El (Single (VStr [55]%N) false)) in
  alphabet_annotation_a 10 IA5String [AIncl NumericString [{| cset := El (Alpha inner); cext := false |}]]
  = Ok (Some [SRange (Some 48%N) (Some 51%N); SSingle 55%N]).
Proof. vm_compute. reflexivity. Qed.

(* the character tables the annotations are computed from (re-translated from the source on every run) are the alphabets
   X.680 defines for NumericString, PrintableString, VisibleString and IA5String: a character of any code point is in the
   table exactly when it is in the alphabet *)
Theorem C15_tables_are_x680 :
  forall t b c, In t [NumericString; PrintableString; VisibleString; IA5String] ->
    x680_alphabet t c = Some b -> existsb (N.eqb c) (character_set t) = b.
Proof. exact Proofs.C15.table_is_x680. Qed.

(* an extensible permitted-alphabet constraint -- `(FROM ("a".."c"), ...)` -- is not PER-visible (X.691 10.3.10): alone it
   yields no annotation, next to other constraints it contributes nothing (a closed alphabet was emitted until the fix of
   C15-extensible-from-emitted) *)
Theorem C15_extensible_alone_no_annotation :
  forall fuel t s, alphabet_annotation fuel t [{| cset := s; cext := true |}] = Ok None.
Proof. exact Proofs.C15.extensible_alone_no_annotation. Qed.

Theorem C15_extensible_ignored :
  forall fuel t s cs, collect fuel t ({| cset := s; cext := true |} :: cs) = collect fuel t cs.
Proof. exact Proofs.C15.extensible_ignored. Qed.

(* the marker written inside the parentheses of FROM -- `FROM ("a".."c" | "x", ...)` -- makes the permitted alphabet extensible as
   well: no closed alphabet (until the fix of this defect the marked last operand was skipped and the rest emitted as closed) *)
Theorem C15_from_ending_with_marker_no_annotation :
  forall fuel t inner,
    ends_with_marker inner = true ->
    alphabet_annotation fuel t [{| cset := El (Alpha inner); cext := false |}] = Ok None.
Proof. exact Proofs.C15.from_ending_with_marker_no_annotation. Qed.
