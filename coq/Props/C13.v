(* C13 -- Whitespace, line endings and comments between tokens do not matter.  Statements only.
   Model: Model/Scan.v (the hand-written trivia scanners); reference: Spec/Trivia.v (X.680 12.6).
   The theorem is about the skipper every token parser is wrapped in; that every token boundary of
   the grammar is wrapped in it is measured by the search (each boundary, each trivia form). *)
From Coq Require Import NArith Arith List Bool.
Require Import RasnV.Model.Base RasnV.Model.Scan RasnV.Spec.Trivia.
Require RasnV.Proofs.C13.
Import ListNotations.

(* any trivia -- white-space, `-- ... --`, `-- ... EOL`, `/* ... */` also nested, with any text inside
   (quotes, braces, keywords, non-ASCII bytes), in any number and order -- in front of a token is
   removed exactly, for every length *)
Theorem C13_skipper_removes_trivia :
  forall n t r fuel,
    (length t <= n)%nat -> trivia t -> starts_token r = true -> (length (t ++ r) <= fuel)%nat ->
    skipper fuel (t ++ r) = r.
Proof. exact Proofs.C13.skipper_removes_trivia. Qed.

(* the scanner of block comments never reads outside the input (totality, shared with C08) *)
Theorem C13_block_scanner_total :
  forall fuel s o1 o2 c1 c2 index counter, tub fuel s o1 o2 c1 c2 index counter <> Panic.
Proof. exact Proofs.C13.tub_no_panic. Qed.

(* non-vacuity: `  -- hi -- /* a /* b */ c */` LF `--x` LF `Foo` *)
Example C13_example :
  skipper 100 [32;32;45;45;32;104;105;32;45;45;32;47;42;32;97;32;47;42;32;98;32;42;47;32;99;32;42;47;10;45;45;120;10;70;111;111]%N
  = [70;111;111]%N.
Proof. vm_compute. reflexivity. Qed.
