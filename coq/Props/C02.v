(* C02 -- Constructed types keep every component, in order, with the right shape.  Statements only.
   Model: Model/Components.v (assembly of the parsed component lists; one field / variant per member; the written
   type of a member) over the name conversions of Model/Names.v.  That the parser delivers the component lists it is
   given in source order, that nested anonymous types are emitted under the inner name, and the SET markers are decided
   by the correspondence and the search on real bindings. *)
From Coq Require Import NArith Arith List Bool.
Require Import RasnV.Model.Base RasnV.Model.Names RasnV.Model.Components.
Require RasnV.Proofs.C02.
Import ListNotations.

(* SEQUENCE / SET, any number of components before and after the extension marker (or no marker): exactly one field per
   component, in source order; each field has the component's converted name, its written type wrapped in Option<_>
   exactly when it is OPTIONAL (or an extension group), a default function exactly when it is DEFAULT, and is an
   extension addition exactly when it was written after the marker *)
Theorem C02_fields :
  forall parent r marker a,
    fields_of parent (assemble (map CMember r) marker (map CMember a)) =
    map (Proofs.C02.spec_field parent false) r ++ map (Proofs.C02.spec_field parent marker) a.
Proof. exact Proofs.C02.fields_of_assembled. Qed.

(* CHOICE: exactly one variant per alternative, in source order *)
Theorem C02_variants :
  forall parent r marker a,
    variants_of parent (assemble (map CMember r) marker (map CMember a)) =
    map (Proofs.C02.spec_variant parent false) r ++ map (Proofs.C02.spec_variant parent marker) a.
Proof. exact Proofs.C02.variants_of_assembled. Qed.

(* nothing is added, dropped, duplicated or reordered *)
Theorem C02_names_in_order :
  forall parent r marker a,
    map f_name (fields_of parent (assemble (map CMember r) marker (map CMember a))) = map (fun m => snake (m_name m)) (r ++ a).
Proof. exact Proofs.C02.field_names_in_order. Qed.

Theorem C02_default_exactly :
  forall parent add m, f_default (Proofs.C02.spec_field parent add m) <> None <-> m_opt m = Default.
Proof. exact Proofs.C02.spec_field_default. Qed.

(* recursive components written in place or by reference are boxed *)
Theorem C02_recursive_boxed :
  forall name parent t,
    match t with KNested | KRef _ _ => True | _ => needs_unnesting t = true end ->
    exists inner, written_type t name parent true = s_box_l ++ inner ++ s_gt.
Proof. exact Proofs.C02.written_type_boxed. Qed.

(* the plain-member hypothesis of C02_fields is needed: a COMPONENTS OF entry in the root is counted in the index of the
   first addition, so the addition after it is not marked (known finding C02-components-of-extension-index) *)
Theorem C02_components_of_index_refuted :
  let s := assemble [CComponentsOf [88]%N; CMember Proofs.C02.mA] true [CMember Proofs.C02.mB] in
  members s = [Proofs.C02.mA; Proofs.C02.mB] /\ extensible s = Some 2%nat /\
  map f_ext (fields_of [80]%N s) = [0%N; 0%N].
Proof. exact Proofs.C02.components_of_index_refuted. Qed.
