(* C02 -- Constructed types keep every component, in order, with the right shape.  Statements only.
   Model: Model/Components.v (assembly of the parsed component lists; one field / variant per member; the written
   type of a member) over the name conversions of Model/Names.v.  That the parser delivers the component lists it is
   given in source order, that nested anonymous types are emitted under the inner name, and the SET markers are decided
   by the correspondence and the search on real bindings. *)
From Coq Require Import NArith Arith List Bool.
Require Import RasnV.Model.Base RasnV.Model.Names RasnV.Model.Components.
Require RasnV.Model.Expansion RasnV.Proofs.C02 RasnV.Proofs.C02Link.
Import ListNotations.

(* SEQUENCE / SET, any number of components before and after the extension marker (or no marker): exactly one field per
   component, in source order; each field has the component's converted name, its written type wrapped in Option<_>
   exactly when it is OPTIONAL (or an extension group), a default function exactly when it is DEFAULT, and is an
   extension addition exactly when it was written after the marker *)
Theorem C02_fields :
  forall parent r marker a,
    fields_of parent (assemble (map CMember r) marker (map CMember a)) =
    map (Proofs.C02.spec_field parent false) r ++ map (Proofs.C02.spec_field parent marker) a.
Proof. exact Proofs.C02.fields_of_assembled. Qed.

(* CHOICE: exactly one variant per alternative, in source order *)
Theorem C02_variants :
  forall parent r marker a,
    variants_of parent (assemble (map CMember r) marker (map CMember a)) =
    map (Proofs.C02.spec_variant parent false) r ++ map (Proofs.C02.spec_variant parent marker) a.
Proof. exact Proofs.C02.variants_of_assembled. Qed.

(* nothing is added, dropped, duplicated or reordered *)
Theorem C02_names_in_order :
  forall parent r marker a,
    map f_name (fields_of parent (assemble (map CMember r) marker (map CMember a))) = map (fun m => snake (m_name m)) (r ++ a).
Proof. exact Proofs.C02.field_names_in_order. Qed.

Theorem C02_default_exactly :
  forall parent add m, f_default (Proofs.C02.spec_field parent add m) <> None <-> m_opt m = Default.
Proof. exact Proofs.C02.spec_field_default. Qed.

(* recursive components written in place or by reference are boxed *)
Theorem C02_recursive_boxed :
  forall name parent t,
    match t with KNested | KRef _ _ => True | _ => needs_unnesting t = true end ->
    exists inner, written_type t name parent true = s_box_l ++ inner ++ s_gt.
Proof. exact Proofs.C02.written_type_boxed. Qed.

(* the plain-member hypothesis of C02_fields is not needed for the type's own components: COMPONENTS OF entries, wherever
   they are written, change neither the order nor the root / addition status of the components around them (refuted until
   the fix of C02-components-of-extension-index, when an entry in the root was counted in the index of the first addition) *)
Theorem C02_fields_around_components_of :
  forall parent root marker adds,
    fields_of parent (assemble root marker adds) =
    map (Proofs.C02.spec_field parent false) (only_members root) ++ map (Proofs.C02.spec_field parent marker) (only_members adds).
Proof. exact Proofs.C02.fields_of_assembled_any. Qed.

Example C02_components_of_index_example :
  let s := assemble [CComponentsOf [88]%N; CMember Proofs.C02.mA] true [CMember Proofs.C02.mB] in
  members s = [Proofs.C02.mA; Proofs.C02.mB] /\ extensible s = Some 1%nat /\
  map f_ext (fields_of [80]%N s) = [0%N; 1%N].
Proof. exact Proofs.C02.components_of_index_example. Qed.

(* across the linker: the components copied for COMPONENTS OF join the extension root of the including type, in order,
   behind its own root components, and the type's own additions -- all of them and nothing else -- stay additions
   (that they stand behind the own root components instead of at the place of the notation is the known finding
   C09-components-of-appended; their root / addition status is right) *)
Theorem C02_copied_components_join_root :
  forall own_root own_adds copied,
    Expansion.link_marked own_root own_adds copied true =
    map (fun x => (x, false)) (own_root ++ copied) ++ map (fun x => (x, true)) own_adds.
Proof. exact Proofs.C02Link.link_marked_with_marker. Qed.

Theorem C02_copied_components_without_marker :
  forall own_root own_adds copied,
    Expansion.link_marked own_root own_adds copied false = map (fun x => (x, false)) ((own_root ++ own_adds) ++ copied).
Proof. exact Proofs.C02Link.link_marked_without_marker. Qed.

Example C02_copied_components_example :
  Expansion.link_marked [[97]%N] [[98]%N] [[120]%N; [121]%N] true =
  [([97]%N, false); ([120]%N, false); ([121]%N, false); ([98]%N, true)].
Proof. exact Proofs.C02Link.link_marked_example. Qed.
