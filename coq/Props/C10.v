(* C10 -- No definition is lost silently; warnings are local; Err carries nothing.  Statements only.
   Model: Model/Driver.v.  What linker and generator make of one definition is abstracted to its outcome
   ([outcome : def -> status], any function); the theorems are about the driver's own data flow: the map keyed by bare
   name, the grouping by module, the emission, the warning list.  That the real pipeline follows the model, and that the
   bindings of an unrelated definition stay byte-identical when another one is replaced by an unsupported one, are
   decided by the correspondence and the search.  "A failed compilation returns no bindings" holds by the type of
   compile_to_string (Result<CompileResult, CompilerError>) and is observed on every malformed input. *)
From Coq Require Import NArith List Bool.
Require Import RasnV.Model.Base RasnV.Model.Driver.
Require RasnV.Proofs.Driver.
Import ListNotations.

(* for any number of sources, modules and assignments with distinct bare names and ANY behaviour of linker and
   generator: every assignment is represented in its module's block, or is the subject of a warning, or is of a kind
   that produces no output *)
Theorem C10_accounted :
  forall outcome s d, NoDup (map d_name (flatten s)) -> In d (flatten s) ->
    Proofs.Driver.represented outcome s d \/ In (d_name d) (warning_subjects outcome s) \/ outcome d = NoOutput.
Proof. exact Proofs.Driver.accounted. Qed.

(* and nothing is represented that is not an assignment of the input with bindings *)
Theorem C10_nothing_invented :
  forall outcome s m n, (exists names, In (m, names) (blocks outcome s) /\ In n names) ->
    exists d, In d (flatten s) /\ d_mod d = m /\ d_name d = n /\ has_bindings (outcome d) = true.
Proof. exact Proofs.Driver.represented_only_if. Qed.

(* a change of what happens to one assignment (it becomes unsupported, say) leaves every other assignment represented
   exactly as before *)
Theorem C10_locality :
  forall outcome outcome' s d, NoDup (map d_name (flatten s)) ->
    (forall x, x <> d -> outcome x = outcome' x) ->
    forall d', In d' (flatten s) -> d' <> d ->
      (Proofs.Driver.represented outcome s d' <-> Proofs.Driver.represented outcome' s d').
Proof. exact Proofs.Driver.locality. Qed.

(* the hypothesis of distinct bare names is needed: assignments of the same name in different modules collide in the
   map and the earlier one disappears without a warning (known finding C10-duplicate-bare-names) *)
Definition mA : str := [77; 49]%N.   Definition mB : str := [77; 50]%N.   Definition nA : str := [65]%N.
Theorem C10_duplicate_names_refuted :
  let s := [[[mkdef mA nA 1]; [mkdef mB nA 2]]] in
  blocks (fun _ => Present) s = [(mB, [nA])] /\ warning_subjects (fun _ => Present) s = [].
Proof. vm_compute. split; reflexivity. Qed.

(* non-vacuity *)
Example C10_example :
  blocks (fun d => if N.eqb (d_id d) 2 then WarnedGen else Present)
         [[[mkdef mA nA 1; mkdef mA [66]%N 2]; [mkdef mB [67]%N 3]]]
  = [(mA, [nA]); (mB, [[67]%N])].
Proof. vm_compute. reflexivity. Qed.
