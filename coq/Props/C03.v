(* C03 -- Tags and tagging mode follow X.680 under the module's tagging environment.  Statements only.
   Model: Model/Tagging.v; reference: Spec/TagSpec.v (X.680 31.2.7, 25.3, 29.2). *)
From Coq Require Import NArith List Bool.
Require Import RasnV.Model.Base RasnV.Model.Tagging RasnV.Spec.TagSpec.
Require RasnV.Proofs.C03.
Import ListNotations.

(* class and number of every written tag reach the generated attribute, whatever the configuration *)
Theorem C03_class_and_number_kept :
  forall clause kw cls n pos kind,
    known_element pos = false -> exists e, render_tag clause kw cls n pos kind = Some (e, cls, n).
Proof. exact Proofs.C03.class_and_number_kept. Qed.

(* known finding: the tag on the element of SEQUENCE OF / SET OF never reaches the bindings (pinned by
   the snapshot test structured_types::tagged_prefix_type) *)
Theorem C03_element_tag_refuted :
  exists clause kw cls n kind, render_tag clause kw cls n ElementOf kind = None.
Proof. exact Proofs.C03.element_tag_refuted. Qed.

(* the tag is applied explicitly exactly when X.680 31.2.7 says so: the property's whole
   4 x 3 x 4 x 5 x 5 configuration space, closed by computation and lifted to a statement;
   outside the known class "no TAGS clause" and the combination X.680 forbids (IMPLICIT on a
   CHOICE / open type), wherever the attribute is observable *)
Theorem C03_mode_correct :
  forall clause kw cls pos kind,
    In kw all_kws -> known_no_clause clause kw = false -> known_element pos = false -> legal_tag kw kind = true ->
    attr_observable pos kind = true ->
    exists c n, render_tag clause kw cls 7%N pos kind = Some (spec_explicit clause kw kind, c, n).
Proof. exact Proofs.C03.mode_correct. Qed.

Theorem C03_number_irrelevant :
  forall clause kw cls n m pos kind,
    option_map (fun x => fst (fst x)) (render_tag clause kw cls n pos kind)
    = option_map (fun x => fst (fst x)) (render_tag clause kw cls m pos kind).
Proof. exact Proofs.C03.render_number_irrelevant. Qed.

(* known finding: a module without TAGS clause is treated as IMPLICIT TAGS (pinned by the unit test
   lexer::module_header::tests::parses_iri_value) *)
Theorem C03_no_clause_refuted :
  exists kw cls pos kind e,
    render_tag None kw cls 0%N pos kind = Some (e, cls, 0%N) /\ e <> spec_explicit None kw kind
    /\ attr_observable pos kind = true.
Proof. exact Proofs.C03.no_clause_refuted. Qed.

(* at every nesting depth: the module default reaches every tag of a type *)
Theorem C03_every_depth :
  forall env t x,
    In x (tags_of (apply_rec env t)) ->
    exists w, In w (tags_of t) /\ tcls x = tcls w /\ tnum x = tnum w
              /\ tenvironment x = env_add env (tenvironment w).
Proof. exact Proofs.C03.apply_rec_every_depth. Qed.

(* automatic tagging: exactly when the module says AUTOMATIC TAGS and no component is tagged *)
Theorem C03_automatic_iff :
  forall clause tagged,
    automatic_tags clause tagged = true <-> (clause = Some Automatic /\ forall b, In b tagged -> b = false).
Proof. exact Proofs.C03.automatic_iff. Qed.

Theorem C03_automatic_matches_spec :
  forall clause tagged, automatic_tags clause tagged = spec_automatic clause tagged.
Proof. exact Proofs.C03.automatic_matches_spec. Qed.

Example C03_example :
  render_tag (Some Explicit) None Application 3%N NestedComponent Primitive = Some (true, Application, 3%N)
  /\ render_tag (Some Automatic) None Context 1%N TypeAssignment InlineChoice = Some (true, Context, 1%N)
  /\ automatic_tags (Some Automatic) [false; false] = true /\ automatic_tags (Some Automatic) [false; true] = false.
Proof. vm_compute. repeat split; reflexivity. Qed.
