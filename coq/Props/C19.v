(* C19 -- Backend options change only what they document.  Statements only.
   Model: Model/Config.v over the regenerated constants of Gen/T19.v (REQUIRED_DERIVES, COPY_DERIVE).
   "Type definitions, tags, constraints and values are identical across configurations" is a statement about the whole
   generator and is decided by the search: the item-level difference between the bindings under any two
   configurations is confined to the documented places. *)
From Coq Require Import NArith Arith List Bool.
Require Import RasnV.Model.Base RasnV.Model.Config.
Require RasnV.Gen.T19 RasnV.Proofs.C19.
Import ListNotations.

(* type_annotations: for any annotations -- derives listed once, twice or not at all, in any order -- the derive list
   starts with the derives rasn needs, unchanged and in place, contains every derive the user asked for, and contains
   nothing twice *)
Theorem C19_derives :
  forall user,
    NoDup (merge_derives Gen.T19.required_derives user) /\
    (forall x, In x (merge_derives Gen.T19.required_derives user) <-> In x Gen.T19.required_derives \/ In x (concat user)) /\
    exists t, merge_derives Gen.T19.required_derives user = Gen.T19.required_derives ++ t.
Proof.
  intro user. apply Proofs.C19.merge_derives_spec.
  (* the required derives are pairwise distinct: checked on the regenerated table *)
  assert (H : forall l : list str, (fix nd (l : list str) : bool := match l with [] => true | x :: r => negb (str_in x r) && nd r end) l = true -> NoDup l).
  { induction l as [|x r IH]; [constructor|]. intro E. apply andb_true_iff in E as [E1 E2]. constructor; [|now apply IH].
    intro Hin. apply str_in_In in Hin. rewrite Hin in E1. discriminate. }
  apply H. vm_compute. reflexivity.
Qed.

(* generate_from_impls: a From impl exactly for the alternatives whose payload type is unique within their CHOICE *)
Theorem C19_from_impls :
  forall alts a, In a (from_impl_alts alts) <-> In a alts /\ count_ty (snd a) (map snd alts) = 1%nat.
Proof. exact Proofs.C19.from_impl_spec. Qed.

Example C19_example :
  from_impl_alts [([97]%N, [73]%N); ([98]%N, [66]%N); ([99]%N, [73]%N)] = [([98]%N, [66]%N)].
Proof. vm_compute. reflexivity. Qed.
