(* C16 -- Generated identifiers are legal and keep the ASN.1 name recoverable.  Statements only.
   Roles: module, component -> snake; type -> title; alternative, enumeral -> enum_ident; value -> const_case.
   The keyword table rust_keywords is Gen.T02 (re-translated from the source on every run). *)
From Coq Require Import NArith List Bool.
Require Import RasnV.Model.Base RasnV.Gen.T02 RasnV.Model.Names RasnV.Spec.Idents.
Require RasnV.Proofs.C16.
Import ListNotations.
Local Open Scope N_scope.

(* legality, for ASN.1 identifiers of any length *)
Theorem C16_legal_snake : forall s, asn1_ident s = true -> rust_ident_ok (snake s) = true.
Proof. exact Proofs.C16.snake_legal. Qed.
Theorem C16_legal_const : forall s, asn1_ident s = true -> rust_ident_ok (const_case s) = true.
Proof. exact Proofs.C16.const_legal. Qed.
Theorem C16_legal_title : forall s, asn1_ident s = true -> rust_ident_ok (title s) = true.
Proof. exact Proofs.C16.title_legal. Qed.
Theorem C16_legal_enum : forall s, asn1_ident s = true -> rust_ident_ok (enum_ident s) = true.
Proof. exact Proofs.C16.enum_legal. Qed.

(* the escape table of the generator covers every strict and reserved keyword *)
Theorem C16_escape_complete : forallb (fun k => str_in k rust_keywords) spec_keywords = true.
Proof. exact Proofs.C16.spec_subset_table. Qed.

(* the ASN.1 name stays recoverable: same alphanumerics in the same order, up to case, separators
   and the r_/R_ keyword escape *)
Theorem C16_skeleton_snake : forall s, skeleton (snake s) = skeleton s \/ skeleton (snake s) = 114 :: skeleton s.
Proof. exact Proofs.C16.snake_skeleton. Qed.
Theorem C16_skeleton_const : forall s, skeleton (const_case s) = skeleton s \/ skeleton (const_case s) = 114 :: skeleton s.
Proof. exact Proofs.C16.const_skeleton. Qed.
Theorem C16_skeleton_title : forall s, skeleton (title s) = skeleton s \/ skeleton (title s) = 114 :: skeleton s.
Proof. exact Proofs.C16.title_skeleton. Qed.
Theorem C16_skeleton_enum : forall s, skeleton (enum_ident s) = skeleton s \/ skeleton (enum_ident s) = 114 :: skeleton s.
Proof. exact Proofs.C16.enum_skeleton. Qed.

(* an identifier annotation carries the original spelling exactly when the names differ *)
Theorem C16_annotation :
  forall m o, (identifier_attr m o = None <-> m = o) /\ (m <> o -> identifier_attr m o = Some o).
Proof. exact Proofs.C16.identifier_attr_spec. Qed.

(* non-vacuity: `fn`, `Self`, `a-bC` are ASN.1 identifiers; their manglings *)
Example C16_example :
  asn1_ident [102;110] = true /\ snake [102;110] = [114;95;102;110]
  /\ asn1_ident [115;101;108;102] = true /\ title [115;101;108;102] = [82;95;83;101;108;102]
  /\ snake [97;45;98;67] = [97;95;98;95;99] /\ enum_ident [97;45;98;67] = [97;95;98;67].
Proof. vm_compute. repeat split; reflexivity. Qed.
