(* C09 -- Notations defined by expansion compile like their hand-expanded form.  Statements only.
   Model: Model/Expansion.v (the linker's COMPONENTS OF pass and the selection type, next to the meaning of the
   notations).  The proved part: the whole pass yields the expansion for every chain of COMPONENTS OF that is not circular
   and whose notations come last in their lists (any depth, any name order, SEQUENCE or SET); one linking step; the
   selection type picks the named alternative.  For a notation that does not come last the statement is FALSE of the code
   (one refuted theorem = the known finding C09-components-of-appended; two more, COMPONENTS OF a SET type and chains whose
   middle type is linked late, were repaired in /repo and are now Examples); value references in constraints,
   parameterized types and class field types are decided by the search (sugared module versus hand-expanded module). *)
From Coq Require Import NArith List Bool.
Require Import RasnV.Model.Base RasnV.Model.Driver RasnV.Model.Expansion.
Require RasnV.Proofs.C09 RasnV.Proofs.C09Chain RasnV.Proofs.C09Perm.
From Coq Require Import Permutation.
Import ListNotations.

Theorem C09_components_of_step_partial :
  forall f fuel ds st v n k own refs,
    (forall r, In r refs -> mem_str r v = false /\ exists d t,
         find_def r ds = Some d /\ t_is_seq d = k /\ find_state r st = Some t /\ l_refs t = [] /\
         l_members t = expand f ds k (t_items d)) ->
    l_members (link_full (S fuel) st v (init_state (mktdef n k (map Own own ++ map ComponentsOf refs)))) =
    expand (S f) ds k (map Own own ++ map ComponentsOf refs).
Proof. exact Proofs.C09.link_full_meets_spec. Qed.

Theorem C09_selection :
  forall alts alt t, NoDup (map fst alts) -> In (alt, t) alts -> select alts alt = Some t.
Proof. exact Proofs.C09.select_first. Qed.

(* the full statement -- linked_members ds n = expanded_members ds n for every definition -- does not hold: *)
Theorem C09_components_of_appended_refuted :
  let ds := [mktdef Proofs.C09.nS true [Own Proofs.C09.na]; mktdef Proofs.C09.nT true [ComponentsOf Proofs.C09.nS; Own Proofs.C09.ne]] in
  expanded_members ds Proofs.C09.nT = Some [Proofs.C09.na; Proofs.C09.ne] /\
  linked_members ds Proofs.C09.nT = Some [Proofs.C09.ne; Proofs.C09.na].
Proof. exact Proofs.C09.components_of_appended_refuted. Qed.

(* a chain whose middle type is linked after the type that includes it: refuted until the fix of
   C09-components-of-chain-order (the outer type got [flag; label]), now an instance of C09_pass_acyclic_chain *)
Example C09_components_of_chain_linked :
  let ds := [mktdef Proofs.C09.nA true [Own Proofs.C09.n_id];
             mktdef Proofs.C09.nM true [Own Proofs.C09.n_label; ComponentsOf Proofs.C09.nA];
             mktdef Proofs.C09.nZ true [Own Proofs.C09.n_flag; ComponentsOf Proofs.C09.nM]] in
  expanded_members ds Proofs.C09.nZ = Some [Proofs.C09.n_flag; Proofs.C09.n_label; Proofs.C09.n_id] /\
  linked_members ds Proofs.C09.nZ = Some [Proofs.C09.n_flag; Proofs.C09.n_label; Proofs.C09.n_id].
Proof. exact Proofs.C09.components_of_chain_linked. Qed.

(* COMPONENTS OF a SET type: refuted until the fix of the SET case, now an instance of C09_pass_depth_one with k = false *)
Example C09_components_of_set_linked :
  let ds := [mktdef Proofs.C09.nS false [Own Proofs.C09.na]; mktdef Proofs.C09.nT false [Own Proofs.C09.ne; ComponentsOf Proofs.C09.nS]] in
  expanded_members ds Proofs.C09.nT = Some [Proofs.C09.ne; Proofs.C09.na] /\ linked_members ds Proofs.C09.nT = Some [Proofs.C09.ne; Proofs.C09.na].
Proof. exact Proofs.C09.components_of_set_linked. Qed.

(* ... but it does hold, for the whole pass over any module and any processing order the names induce, whenever the
   COMPONENTS OF entries come last and refer to types of the same kind (k: SEQUENCE / SET) that use no COMPONENTS OF themselves: *)
Theorem C09_pass_depth_one :
  forall ds n k own refs,
    NoDup (map t_name ds) ->
    find_def n ds = Some (mktdef n k (map Own own ++ map ComponentsOf refs)) ->
    (forall r, In r refs -> r <> n /\ exists dr, find_def r ds = Some dr /\ t_is_seq dr = k /\ refs_of (t_items dr) = []) ->
    linked_members ds n = expanded_members ds n.
Proof. exact Proofs.C09.link_pass_depth_one. Qed.

Example C09_pass_depth_one_applies :
  let ds := [mktdef Proofs.C09.nS true [Own Proofs.C09.na]; mktdef Proofs.C09.nT true [Own Proofs.C09.ne; ComponentsOf Proofs.C09.nS]] in
  linked_members ds Proofs.C09.nT = Some [Proofs.C09.ne; Proofs.C09.na] /\
  expanded_members ds Proofs.C09.nT = Some [Proofs.C09.ne; Proofs.C09.na].
Proof. vm_compute. split; reflexivity. Qed.

(* ... and for chains of ANY depth in ANY name order, SEQUENCE or SET: whenever the chain headed by n is not circular -- there
   is a rank that decreases along the references, bounded by the number of definitions as the height of a type in its chain
   is -- and the COMPONENTS OF entries come last in every list of the chain.  Invariant over the fold: every definition is
   either as parsed or finished (nothing pending, members = expansion); a referenced type that is not finished is linked on
   a copy first, and the rank shows that neither the visiting list nor the removed entry ever hides a reference. *)
Theorem C09_pass_acyclic_chain :
  forall ds (rank : str -> nat),
    (forall y, rank y <= length ds) ->
    forall n, NoDup (map t_name ds) -> acyclic_chain ds rank n -> linked_members ds n = expanded_members ds n.
Proof. exact Proofs.C09Chain.link_pass_acyclic. Qed.

Example C09_pass_acyclic_chain_applies :
  NoDup (map t_name Proofs.C09Chain.ds_chain) /\ (forall y, Proofs.C09Chain.rank_chain y <= length Proofs.C09Chain.ds_chain) /\
  acyclic_chain Proofs.C09Chain.ds_chain Proofs.C09Chain.rank_chain Proofs.C09.nZ /\
  linked_members Proofs.C09Chain.ds_chain Proofs.C09.nZ = Some [Proofs.C09.n_flag; Proofs.C09.n_label; Proofs.C09.n_id].
Proof. exact Proofs.C09Chain.acyclic_chain_applies. Qed.

(* ... and with the notations at ANY position the pass loses, adds and duplicates nothing: for every chain that is not circular
   the linked fields are a permutation of the meaning of the notation -- exactly the type's own components followed by what each
   notation stands for, in the order of the notations.  The known finding C09-components-of-appended is about order only. *)
Theorem C09_pass_permutation :
  forall ds (rank : str -> nat),
    (forall y, rank y <= length ds) ->
    forall n, NoDup (map t_name ds) -> any_chain ds rank n ->
    exists l e, linked_members ds n = Some l /\ expanded_members ds n = Some e /\ Permutation e l.
Proof. exact Proofs.C09Perm.link_pass_permutation. Qed.

Theorem C09_pass_appended_exactly :
  forall ds (rank : str -> nat),
    (forall y, rank y <= length ds) ->
    forall n d, NoDup (map t_name ds) -> any_chain ds rank n -> find_def n ds = Some d ->
    linked_members ds n = Some (appended (length ds) ds (t_is_seq d) (t_items d)).
Proof. exact Proofs.C09Perm.link_pass_appended. Qed.

Example C09_pass_permutation_applies :
  NoDup (map t_name Proofs.C09Perm.ds_front) /\ (forall y, Proofs.C09Perm.rank_front y <= length Proofs.C09Perm.ds_front) /\
  any_chain Proofs.C09Perm.ds_front Proofs.C09Perm.rank_front Proofs.C09.nT /\
  linked_members Proofs.C09Perm.ds_front Proofs.C09.nT = Some [Proofs.C09.ne; Proofs.C09.na] /\
  expanded_members Proofs.C09Perm.ds_front Proofs.C09.nT = Some [Proofs.C09.na; Proofs.C09.ne].
Proof. exact Proofs.C09Perm.permutation_applies. Qed.
