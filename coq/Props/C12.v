(* C12 -- Modules compile independently of their neighbours; IMPORTS become use lines.  Statements only.
   Model: Model/Driver.v (data flow) and Model/Imports.v (the use line of one IMPORTS clause, over the name conversions
   of Model/Names.v).  That linking a definition reads only the modules it imports from, and that tagging /
   extensibility defaults do not leak between modules, are properties of linker and generator internals and are
   decided by the search (every module compiled with its imports only versus together with the others). *)
From Coq Require Import NArith List Bool.
Require Import RasnV.Model.Base RasnV.Model.Names RasnV.Model.Driver RasnV.Model.Imports.
Require RasnV.Proofs.Driver RasnV.Proofs.C12.
Import ListNotations.

(* which definitions of a module reach the generator, and in which order, does not depend on the other modules
   compiled with it *)
Theorem C12_module_definitions_independent :
  forall s s' M, NoDup (map d_name (flatten s)) -> NoDup (map d_name (flatten s')) ->
    (forall d, d_mod d = M -> (In d (flatten s) <-> In d (flatten s'))) ->
    filter (fun p => str_eqb (d_mod (snd p)) M) (tld_map s) = filter (fun p => str_eqb (d_mod (snd p)) M) (tld_map s').
Proof. exact Proofs.Driver.module_defs_independent. Qed.

(* an IMPORTS clause of type and value references only becomes a use line of exactly these symbols, each under the
   name its definition gets (title case for types, constant case for values), in order *)
Theorem C12_use_line_exact :
  forall symbols,
    forallb (fun u => negb (has_braces u) && negb (class_like u)) symbols = true ->
    forallb (fun u => match u with c :: _ => is_lower c || is_upper c | [] => false end) symbols = true ->
    use_of_clause symbols =
    Items (map (fun u => match u with c :: _ => if is_lower c then const_case u else title u | [] => u end) symbols).
Proof. exact Proofs.C12.use_line_exact. Qed.

(* a clause naming an information object class or a parameterized reference becomes a wildcard import
   (known finding C12-wildcard-on-class-import: more than the imported symbols) *)
Theorem C12_use_line_wildcard :
  forall symbols, existsb (fun u => has_braces u || class_like u) symbols = true -> use_of_clause symbols = Wildcard.
Proof. exact Proofs.C12.use_line_wildcard. Qed.
