(* C14 -- ENUMERATED items get the numbers X.680 §20 assigns.  Statements only. *)
From Coq Require Import ZArith List Bool Sorted.
Require Import RasnV.Model.Base RasnV.Model.Enum RasnV.Spec.EnumSpec.
Require RasnV.Proofs.C14.
Import ListNotations.
Local Open Scope Z_scope.

(* the original identifiers are preserved, in order; nothing is added or dropped *)
Theorem C14_names_in_order :
  forall root marker adds,
    map fst (members (build_enumerated root marker adds)) = map fst (root ++ adds).
Proof. exact Proofs.C14.names_in_order. Qed.

(* explicit numbers are kept (any integer, negative ones included) *)
Theorem C14_explicit_kept :
  forall root marker adds,
    kept (root ++ adds) (map snd (members (build_enumerated root marker adds))) = true.
Proof. exact Proofs.C14.explicit_kept. Qed.

(* identifier-only root items get successive integers from 0 that skip the explicitly used
   numbers: non-negative, unused, strictly increasing in source order, and gap-free *)
Theorem C14_root_skips_used :
  forall root,
    let vs := Proofs.C14.implicit_values root (map snd (number_root root)) in
    let used := explicit_numbers root in
    Forall (fun v => 0 <= v /\ ~ In v used) vs
    /\ StronglySorted Z.lt vs
    /\ (forall m v, In v vs -> 0 <= m < v -> In m used \/ In m vs).
Proof. exact Proofs.C14.root_skips_used. Qed.

(* an identifier-only addition never reuses a number: it is outside the root and above every
   earlier addition *)
Theorem C14_additions_fresh :
  forall root adds i n,
    nth_error adds i = Some (n, None) ->
    exists v, nth_error (map snd (number_adds (number_root root) adds)) i = Some v
              /\ ~ In v (map snd (number_root root))
              /\ (forall p, In p (firstn i (map snd (number_adds (number_root root) adds))) -> p < v).
Proof. exact Proofs.C14.additions_fresh. Qed.

(* all numbers of one type are distinct, for every input whose explicit numbers are legal
   (distinct in the root; an explicit addition differs from everything before it, X.680 20.5) *)
Theorem C14_distinct :
  forall root adds,
    NoDup (explicit_numbers root) ->
    (forall i n z, nth_error adds i = Some (n, Some z) ->
       ~ In z (map snd (number_root root) ++ firstn i (map snd (number_adds (number_root root) adds)))) ->
    NoDup (Proofs.C14.all_numbers root adds).
Proof. exact Proofs.C14.distinct. Qed.

Theorem C14_first_addition_index :
  forall root marker adds,
    extensible (build_enumerated root marker adds) = if marker then Some (length root) else None.
Proof. exact Proofs.C14.extensible_index. Qed.

(* non-vacuity: { a(1), b, c(0), ..., d, e(7), f } *)
Example C14_example :
  let root := [([97%N], Some 1); ([98%N], None); ([99%N], Some 0)] in
  let adds := [([100%N], None); ([101%N], Some 7); ([102%N], None)] in
  map snd (members (build_enumerated root true adds)) = [1; 2; 0; 3; 7; 8]
  /\ NoDup (explicit_numbers root).
Proof.
  split; [vm_compute; reflexivity|].
  cbn. repeat constructor; cbn; intuition discriminate.
Qed.
