(* C05 -- Extension markers, additions and addition groups are preserved.  Statements only.
   Model: Model/Ext.v.  Component lists without COMPONENTS OF (its interplay with the marker index
   is part of C09).  Identifier hypotheses are the X.680 lexical rules (Spec/Idents.v): they make a
   written component distinguishable from the synthetic `ext_group_...` member. *)
From Coq Require Import NArith List Bool.
Require Import RasnV.Model.Base RasnV.Model.Ext RasnV.Spec.Idents.
Require RasnV.Proofs.C05.
Import ListNotations.

(* members: the written root components, then one member per addition / group, in source order *)
Theorem C05_members_in_order :
  forall root marker adds,
    map iname (members (build_seq root marker adds))
    = map mname root ++ map (fun a => iname (of_addition a)) adds.
Proof. exact Proofs.C05.seq_members_order. Qed.

(* the components after the marker, and only those, are marked as extension additions *)
Theorem C05_additions_exactly_after_marker :
  forall root adds k f,
    Forall (fun m => asn1_ident (mname m) = true) root ->
    nth_error (render_seq (build_seq root true adds)) k = Some f ->
    (fann f <> NoAnn <-> length root <= k).
Proof. exact Proofs.C05.seq_marked_iff. Qed.

Theorem C05_no_marker_no_additions :
  forall root adds k f,
    nth_error (render_seq (build_seq root false adds)) k = Some f -> fann f = NoAnn.
Proof. exact Proofs.C05.seq_unmarked. Qed.

(* a root component keeps its name and optionality and carries no extension annotation *)
Theorem C05_root_component :
  forall root marker adds k m,
    nth_error root k = Some m -> asn1_ident (mname m) = true ->
    nth_error (render_seq (build_seq root marker adds)) k
    = Some {| fname := mname m; foption := match mopt m with Optional => true | _ => false end;
              fann := NoAnn; finner := None |}.
Proof. exact Proofs.C05.seq_root_member. Qed.

(* a plain addition is an extension addition *)
Theorem C05_plain_addition :
  forall root adds j m,
    nth_error adds j = Some (AMember m) -> asn1_ident (mname m) = true ->
    nth_error (render_seq (build_seq root true adds)) (length root + j)
    = Some {| fname := mname m; foption := match mopt m with Optional => true | _ => false end;
              fann := ExtAddition; finner := None |}.
Proof. exact Proofs.C05.seq_plain_addition. Qed.

(* each [[ ]] group is one optional extension-addition-group member holding exactly the grouped
   components, in order *)
Theorem C05_group_member :
  forall root adds j v f r,
    nth_error adds j = Some (AGroup v f r) -> asn1_ident (mname f) = true ->
    nth_error (render_seq (build_seq root true adds)) (length root + j)
    = Some {| fname := group_prefix ++ mname f; foption := true; fann := ExtGroup;
              finner := Some (inner_fields (f :: r)) |}.
Proof. exact Proofs.C05.seq_group_member. Qed.

(* CHOICE: alternatives in order (version brackets flattened); exactly those after the marker are additions *)
Theorem C05_choice_alternatives_in_order :
  forall root marker adds,
    map fst (render_choice (build_choice root marker adds)) = map mname (root ++ flat_map choice_alts adds).
Proof. exact Proofs.C05.choice_names. Qed.

Theorem C05_choice_additions_exactly_after_marker :
  forall root adds k nm a,
    Forall (fun m => asn1_ident (mname m) = true) (root ++ flat_map choice_alts adds) ->
    nth_error (render_choice (build_choice root true adds)) k = Some (nm, a) ->
    (a = ExtAddition <-> length root <= k) /\ (a = NoAnn <-> k < length root).
Proof. exact Proofs.C05.choice_marked_iff. Qed.

(* generated as extensible exactly when marked or EXTENSIBILITY IMPLIED *)
Theorem C05_extensible_iff :
  forall marker implied, non_exhaustive marker implied = true <-> marker = true \/ implied = true.
Proof. exact Proofs.C05.non_exhaustive_iff. Qed.

(* non-vacuity: { a, b OPTIONAL, ..., c, [[ 2: d, e OPTIONAL ]], g } *)
Example C05_example :
  let mk n o := {| mname := [n]; mopt := o |} in
  map (fun f => (fname f, foption f, fann f))
      (render_seq (build_seq [mk 97%N Required; mk 98%N Optional] true
                             [AMember (mk 99%N Required); AGroup (Some 2%N) (mk 100%N Required) [mk 101%N Optional]; AMember (mk 103%N Required)]))
  = [([97%N], false, NoAnn); ([98%N], true, NoAnn); ([99%N], false, ExtAddition);
     (group_prefix ++ [100%N], true, ExtGroup); ([103%N], false, ExtAddition)].
Proof. vm_compute. reflexivity. Qed.
