(* C20 -- compile() delivers exactly the compiled text, and nothing on failure.  Statements only.
   Model: Model/Deliver.v.  The file system is abstracted to the places compile() can touch; that the real compile(),
   the command-line tool and the asn1! wrapper behave as the model on real destinations is decided by the correspondence
   (real directories, real child processes). *)
From Coq Require Import NArith List Bool.
Require Import RasnV.Model.Base RasnV.Model.Deliver.
Require RasnV.Proofs.C20.
Import ListNotations.

(* when compilation fails nothing is written or overwritten, in any output mode and any destination state *)
Theorem C20_failure_writes_nothing : forall m f, compile m f None = (f, [], Err).
Proof. exact Proofs.C20.failure_writes_nothing. Qed.

(* file mode, writable destination: exactly the text, at the path or at generated.<ext> inside a directory; the
   bystander and everything else stay as they were; nothing on standard output *)
Theorem C20_single_file_delivers :
  forall f text, Proofs.C20.writable f = true ->
    exists f', compile MSingleFile f (Some text) = (f', [], Ok) /\
      Proofs.C20.delivered_at f' = File text /\
      bystander f' = bystander f /\
      (dest f = Dir -> dest f' = Dir) /\
      (dest f <> Dir -> dest_gen f' = dest_gen f).
Proof. exact Proofs.C20.single_file_delivers. Qed.

(* an unwritable destination is an Err and changes nothing *)
Theorem C20_unwritable_is_err :
  forall f text, Proofs.C20.writable f = false -> compile MSingleFile f (Some text) = (f, [], Err).
Proof. exact Proofs.C20.unwritable_is_err. Qed.

Theorem C20_stdout_delivers : forall f text, compile MStdout f (Some text) = (f, text, Ok).
Proof. exact Proofs.C20.stdout_delivers. Qed.

Theorem C20_no_output : forall f text, compile MNoOutput f (Some text) = (f, [], Ok).
Proof. exact Proofs.C20.no_output_delivers_nothing. Qed.

(* the command-line tool succeeds exactly when it has modules and the library returns Ok; it picks up exactly the
   files ending in .asn or .asn1 *)
Theorem C20_cli_exit : forall have o, cli_exit have o = 0%N <-> (have = true /\ o = Ok).
Proof. exact Proofs.C20.cli_exit_spec. Qed.

Theorem C20_cli_module_files :
  forall name, is_module_file name = true <-> (exists p, name = p ++ dot_asn) \/ (exists p, name = p ++ dot_asn1).
Proof. exact Proofs.C20.module_file_spec. Qed.

(* non-vacuity: an existing file with other content is replaced by exactly the text *)
Example C20_example :
  compile MSingleFile (mkfs true (File [111;108;100]%N) Absent (File [98]%N)) (Some [110;101;119]%N)
  = (mkfs true (File [110;101;119]%N) Absent (File [98]%N), [], Ok).
Proof. reflexivity. Qed.

(* asn1!: a snippet without the word BEGIN is compiled inside the dummy module of the derive crate (header and footer
   re-read from rasn-compiler-derive on every run: Gen/T20.v, which also pins the expansion to
   compile_to_string().unwrap().generated.parse().unwrap() of the rasn back end); anything else is compiled as given *)
Require RasnV.Gen.T20.
Theorem C20_macro_source :
  forall v, macro_source Gen.T20.macro_header Gen.T20.macro_footer v =
            if contains kw_begin v then v else Gen.T20.macro_header ++ v ++ Gen.T20.macro_footer.
Proof. reflexivity. Qed.
