(* C11 -- The result is a deterministic function of the set of definitions.  Statements only.
   Model: Model/Driver.v.  The theorems cover the order in which definitions arrive (the part that holds for every
   input at once); that linker and generator are functions of their arguments -- no hashed iteration, no process-wide
   mutable state, no dependence on thread or history -- is decided by the search (repetition, concurrency, preceding
   compilations). *)
From Coq Require Import NArith List Bool Permutation.
Require Import RasnV.Model.Base RasnV.Model.Driver.
Require RasnV.Proofs.Driver.
Import ListNotations.

(* with distinct bare names, blocks and warnings depend only on the SET of definitions, for any behaviour of linker and
   generator and any number of sources, modules and assignments *)
Theorem C11_function_of_the_set :
  forall outcome s s', Permutation (flatten s) (flatten s') -> NoDup (map d_name (flatten s)) ->
    blocks outcome s = blocks outcome s' /\ warning_subjects outcome s = warning_subjects outcome s'.
Proof. exact Proofs.Driver.driver_perm. Qed.

(* each of the three re-orderings of an input is such a permutation *)
Theorem C11_sources_permuted : forall s s', Permutation s s' -> Permutation (flatten s) (flatten s').
Proof. exact Proofs.Driver.flatten_perm_sources. Qed.

Theorem C11_modules_permuted :
  forall s s', Forall2 (@Permutation (list def)) s s' -> Permutation (flatten s) (flatten s').
Proof. exact Proofs.Driver.flatten_perm_modules. Qed.

Theorem C11_assignments_permuted :
  forall s s', Forall2 (Forall2 (@Permutation def)) s s' -> Permutation (flatten s) (flatten s').
Proof. exact Proofs.Driver.flatten_perm_assignments. Qed.

(* the map itself: insertion order is irrelevant when keys are distinct *)
Theorem C11_map_canonical :
  forall (l l' : list def), Permutation l l' -> NoDup (map d_name l) -> from_list d_name l = from_list d_name l'.
Proof. exact (@Proofs.Driver.from_list_perm def d_name). Qed.

(* with equal bare names in two modules the order decides which one survives (known finding C10-duplicate-bare-names) *)
Theorem C11_duplicate_names_refuted :
  let a := mkdef [77; 49]%N [65]%N 1 in let b := mkdef [77; 50]%N [65]%N 2 in
  blocks (fun _ => Present) [[[a]; [b]]] <> blocks (fun _ => Present) [[[b]; [a]]].
Proof. vm_compute. discriminate. Qed.
