From Coq Require Import NArith List Bool.
Require Import RasnV.Model.Base RasnV.Model.Driver RasnV.Model.Expansion.
Import ListNotations.

Lemma own_names_app a b : own_names (a ++ b) = own_names a ++ own_names b.
Proof. induction a as [|[n|r] a IH]; cbn; [reflexivity | now rewrite IH | exact IH]. Qed.

Lemma refs_of_app a b : refs_of (a ++ b) = refs_of a ++ refs_of b.
Proof. induction a as [|[n|r] a IH]; cbn; [reflexivity | exact IH | now rewrite IH]. Qed.

Lemma own_names_owns l : own_names (map Own l) = l.
Proof. induction l as [|x l IH]; cbn; [reflexivity | now rewrite IH]. Qed.

Lemma own_names_refs l : own_names (map ComponentsOf l) = [].
Proof. induction l as [|x l IH]; cbn; [reflexivity | exact IH]. Qed.

Lemma refs_of_owns l : refs_of (map Own l) = [].
Proof. induction l as [|x l IH]; cbn; [reflexivity | exact IH]. Qed.

Lemma refs_of_refs l : refs_of (map ComponentsOf l) = l.
Proof. induction l as [|x l IH]; cbn; [reflexivity | now rewrite IH]. Qed.

(* the meaning of a component list whose COMPONENTS OF entries come last *)
Lemma expand_trailing f ds k own refs :
  expand (S f) ds k (map Own own ++ map ComponentsOf refs) =
  own ++ flat_map (fun r => match find_def r ds with
                            | Some d => if Bool.eqb (t_is_seq d) k then expand f ds k (t_items d) else []
                            | None => []
                            end) refs.
Proof.
  cbn [expand]. rewrite flat_map_app. f_equal.
  - induction own as [|x l IH]; cbn; [reflexivity | now rewrite IH].
  - induction refs as [|x l IH]; cbn [map flat_map]; [reflexivity | now rewrite IH].
Qed.

(* one linking step is right when the notation comes last and the referenced SEQUENCE types are already in their
   expanded state *)
Theorem link_one_meets_spec f ds st n own refs :
  (forall r, In r refs -> exists d t,
       find_def r ds = Some d /\ t_is_seq d = true /\ find_state r st = Some t /\ l_is_seq t = true /\
       l_members t = expand f ds true (t_items d)) ->
  l_members (link_one st (init_state (mktdef n true (map Own own ++ map ComponentsOf refs)))) =
  expand (S f) ds true (map Own own ++ map ComponentsOf refs).
Proof.
  intro H. rewrite expand_trailing. unfold link_one, init_state. cbn [l_members l_refs t_items t_name t_is_seq].
  rewrite own_names_app, own_names_owns, own_names_refs, app_nil_r.
  rewrite refs_of_app, refs_of_owns, refs_of_refs. cbn [app]. f_equal.
  induction refs as [|r l IH]; [reflexivity|]. cbn [flat_map].
  destruct (H r (or_introl eq_refl)) as [d [t [Hd [Hk [Ht [Hs Hm]]]]]].
  rewrite Hd, Ht, Hs, Hk, Hm. cbn [Bool.eqb]. f_equal. apply IH. intros r' Hr'. apply H. now right.
Qed.

(* the selection type picks the alternative of that name *)
Lemma select_spec alts alt t :
  select alts alt = Some t -> exists n, In (n, t) alts /\ n = alt.
Proof.
  unfold select. induction alts as [|[n u] r IH]; [discriminate|].
  destruct (str_eqb n alt) eqn:E.
  - intro H. inversion H; subst. apply str_eqb_eq in E. exists n. split; [now left | exact E].
  - intro H. destruct (IH H) as [m [Hin Hm]]. exists m. split; [now right | exact Hm].
Qed.

Lemma select_first alts alt t :
  NoDup (map fst alts) -> In (alt, t) alts -> select alts alt = Some t.
Proof.
  unfold select. induction alts as [|[n u] r IH]; cbn [In map]; [tauto|].
  intros Hnd [E|Hin].
  - inversion E; subst. assert (str_eqb alt alt = true) as -> by (apply str_eqb_eq; reflexivity). reflexivity.
  - inversion Hnd as [|? ? Hn Hr]; subst. destruct (str_eqb n alt) eqn:E.
    + apply str_eqb_eq in E. subst. exfalso. apply Hn. apply in_map_iff. exists (alt, t). now split.
    + now apply IH.
Qed.

(* ---- where the linker departs from the meaning (known findings) ---- *)
Definition nS : str := [83]%N.   Definition nT : str := [84]%N.
Definition na : str := [97]%N.   Definition ne : str := [101]%N.

(* T ::= SEQUENCE { COMPONENTS OF S, e }   S ::= SEQUENCE { a } *)
Theorem components_of_appended_refuted :
  let ds := [mktdef nS true [Own na]; mktdef nT true [ComponentsOf nS; Own ne]] in
  expanded_members ds nT = Some [na; ne] /\ linked_members ds nT = Some [ne; na].
Proof. vm_compute. split; reflexivity. Qed.

(* Zz { COMPONENTS OF Mm, flag }   Mm { COMPONENTS OF Aa, label }   Aa { id }: the outer type is linked first *)
Definition nZ : str := [90;122]%N.  Definition nM : str := [77;109]%N.  Definition nA : str := [65;97]%N.
Definition n_id : str := [105;100]%N.  Definition n_label : str := [108]%N.  Definition n_flag : str := [102]%N.
Theorem components_of_chain_refuted :
  let ds := [mktdef nA true [Own n_id]; mktdef nM true [Own n_label; ComponentsOf nA]; mktdef nZ true [Own n_flag; ComponentsOf nM]] in
  expanded_members ds nZ = Some [n_flag; n_label; n_id] /\ linked_members ds nZ = Some [n_flag; n_label].
Proof. vm_compute. split; reflexivity. Qed.

(* the same chain with the names in the other order is linked completely *)
Theorem components_of_chain_other_names :
  let ds := [mktdef nZ true [Own n_id]; mktdef nM true [Own n_label; ComponentsOf nZ]; mktdef nA true [Own n_flag; ComponentsOf nM]] in
  linked_members ds nA = Some [n_flag; n_label; n_id].
Proof. vm_compute. reflexivity. Qed.

(* COMPONENTS OF a SET type *)
Theorem components_of_set_refuted :
  let ds := [mktdef nS false [Own na]; mktdef nT false [Own ne; ComponentsOf nS]] in
  expanded_members ds nT = Some [ne; na] /\ linked_members ds nT = Some [ne].
Proof. vm_compute. split; reflexivity. Qed.
