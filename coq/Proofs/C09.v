From Coq Require Import NArith List Bool.
Require Import RasnV.Model.Base RasnV.Model.Driver RasnV.Model.Expansion.
Import ListNotations.

Lemma own_names_app a b : own_names (a ++ b) = own_names a ++ own_names b.
Proof. induction a as [|[n|r] a IH]; cbn; [reflexivity | now rewrite IH | exact IH]. Qed.

Lemma refs_of_app a b : refs_of (a ++ b) = refs_of a ++ refs_of b.
Proof. induction a as [|[n|r] a IH]; cbn; [reflexivity | exact IH | now rewrite IH]. Qed.

Lemma own_names_owns l : own_names (map Own l) = l.
Proof. induction l as [|x l IH]; cbn; [reflexivity | now rewrite IH]. Qed.

Lemma own_names_refs l : own_names (map ComponentsOf l) = [].
Proof. induction l as [|x l IH]; cbn; [reflexivity | exact IH]. Qed.

Lemma refs_of_owns l : refs_of (map Own l) = [].
Proof. induction l as [|x l IH]; cbn; [reflexivity | exact IH]. Qed.

Lemma refs_of_refs l : refs_of (map ComponentsOf l) = l.
Proof. induction l as [|x l IH]; cbn; [reflexivity | now rewrite IH]. Qed.

(* the meaning of a component list whose COMPONENTS OF entries come last *)
Lemma expand_trailing f ds k own refs :
  expand (S f) ds k (map Own own ++ map ComponentsOf refs) =
  own ++ flat_map (fun r => match find_def r ds with
                            | Some d => if Bool.eqb (t_is_seq d) k then expand f ds k (t_items d) else []
                            | None => []
                            end) refs.
Proof.
  cbn [expand]. rewrite flat_map_app. f_equal.
  - induction own as [|x l IH]; cbn; [reflexivity | now rewrite IH].
  - induction refs as [|x l IH]; cbn [map flat_map]; [reflexivity | now rewrite IH].
Qed.

(* a type without pending references is copied as it is, whatever the fuel *)
Lemma link_full_resolved fuel st v t : l_refs t = [] -> l_members (link_full fuel st v t) = l_members t.
Proof. intro H. destruct fuel; [reflexivity|]. cbn [link_full l_members]. rewrite H. cbn. apply app_nil_r. Qed.

(* one linking step is right when the notation comes last and the referenced types, of the kind (SEQUENCE / SET) of the
   including one, are not being visited and are already in their expanded state *)
Theorem link_full_meets_spec f fuel ds st v n k own refs :
  (forall r, In r refs -> mem_str r v = false /\ exists d t,
       find_def r ds = Some d /\ t_is_seq d = k /\ find_state r st = Some t /\ l_refs t = [] /\
       l_members t = expand f ds k (t_items d)) ->
  l_members (link_full (S fuel) st v (init_state (mktdef n k (map Own own ++ map ComponentsOf refs)))) =
  expand (S f) ds k (map Own own ++ map ComponentsOf refs).
Proof.
  intro H. rewrite expand_trailing. unfold init_state. cbn [link_full l_members l_refs t_items t_name t_is_seq].
  rewrite own_names_app, own_names_owns, own_names_refs, app_nil_r.
  rewrite refs_of_app, refs_of_owns, refs_of_refs. cbn [app]. f_equal.
  induction refs as [|r l IH]; [reflexivity|]. cbn [flat_map].
  destruct (H r (or_introl eq_refl)) as [Hv [d [t [Hd [Hk [Ht [Hr Hm]]]]]]].
  rewrite Hv, Ht, (link_full_resolved _ _ _ _ Hr), Hd, Hk, Hm, Bool.eqb_reflx. f_equal. apply IH. intros r' Hr'. apply H. now right.
Qed.

(* the selection type picks the alternative of that name *)
Lemma select_spec alts alt t :
  select alts alt = Some t -> exists n, In (n, t) alts /\ n = alt.
Proof.
  unfold select. induction alts as [|[n u] r IH]; [discriminate|].
  destruct (str_eqb n alt) eqn:E.
  - intro H. inversion H; subst. apply str_eqb_eq in E. exists n. split; [now left | exact E].
  - intro H. destruct (IH H) as [m [Hin Hm]]. exists m. split; [now right | exact Hm].
Qed.

Lemma select_first alts alt t :
  NoDup (map fst alts) -> In (alt, t) alts -> select alts alt = Some t.
Proof.
  unfold select. induction alts as [|[n u] r IH]; cbn [In map]; [tauto|].
  intros Hnd [E|Hin].
  - inversion E; subst. assert (str_eqb alt alt = true) as -> by (apply str_eqb_eq; reflexivity). reflexivity.
  - inversion Hnd as [|? ? Hn Hr]; subst. destruct (str_eqb n alt) eqn:E.
    + apply str_eqb_eq in E. subst. exfalso. apply Hn. apply in_map_iff. exists (alt, t). now split.
    + now apply IH.
Qed.

(* ---- where the linker departs from the meaning (known findings) ---- *)
Definition nS : str := [83]%N.   Definition nT : str := [84]%N.
Definition na : str := [97]%N.   Definition ne : str := [101]%N.

(* T ::= SEQUENCE { COMPONENTS OF S, e }   S ::= SEQUENCE { a } *)
Theorem components_of_appended_refuted :
  let ds := [mktdef nS true [Own na]; mktdef nT true [ComponentsOf nS; Own ne]] in
  expanded_members ds nT = Some [na; ne] /\ linked_members ds nT = Some [ne; na].
Proof. vm_compute. split; reflexivity. Qed.

(* Zz { flag, COMPONENTS OF Mm }   Mm { label, COMPONENTS OF Aa }   Aa { id }: the outer type is linked first; until the fix of
   C09-components-of-chain-order it copied the middle type before that was linked ([flag; label]) *)
Definition nZ : str := [90;122]%N.  Definition nM : str := [77;109]%N.  Definition nA : str := [65;97]%N.
Definition n_id : str := [105;100]%N.  Definition n_label : str := [108]%N.  Definition n_flag : str := [102]%N.
Theorem components_of_chain_linked :
  let ds := [mktdef nA true [Own n_id]; mktdef nM true [Own n_label; ComponentsOf nA]; mktdef nZ true [Own n_flag; ComponentsOf nM]] in
  expanded_members ds nZ = Some [n_flag; n_label; n_id] /\ linked_members ds nZ = Some [n_flag; n_label; n_id].
Proof. vm_compute. split; reflexivity. Qed.

(* the same chain with the names in the other order is linked completely *)
Theorem components_of_chain_other_names :
  let ds := [mktdef nZ true [Own n_id]; mktdef nM true [Own n_label; ComponentsOf nZ]; mktdef nA true [Own n_flag; ComponentsOf nM]] in
  linked_members ds nA = Some [n_flag; n_label; n_id].
Proof. vm_compute. reflexivity. Qed.

(* COMPONENTS OF a SET type (copied nothing before the fix of the SET case; now linked like a SEQUENCE) *)
Theorem components_of_set_linked :
  let ds := [mktdef nS false [Own na]; mktdef nT false [Own ne; ComponentsOf nS]] in
  expanded_members ds nT = Some [ne; na] /\ linked_members ds nT = Some [ne; na].
Proof. vm_compute. split; reflexivity. Qed.

(* ================= the whole pass, for chains of depth one ================= *)
Require Import RasnV.Proofs.Driver.
From Coq Require Import Sorting.Sorted Permutation.

Definition step := link_step.

Lemma link_pass_fold order st : link_pass order st = fold_left step order st.
Proof. reflexivity. Qed.

Lemma find_state_name k st s : find_state k st = Some s -> l_name s = k.
Proof.
  induction st as [|x r IH]; cbn; [discriminate|].
  destruct (str_eqb k (l_name x)) eqn:E; [intro H; inversion H; subst; apply str_eqb_eq in E; now symmetry | exact IH].
Qed.

Lemma str_eqb_refl a : str_eqb a a = true.
Proof. apply str_eqb_eq. reflexivity. Qed.

Lemma str_eqb_neq a b : a <> b -> str_eqb a b = false.
Proof. intro H. destruct (str_eqb a b) eqn:E; [apply str_eqb_eq in E; contradiction | reflexivity]. Qed.

Lemma find_replace_other s st k : l_name s <> k -> find_state k (replace_state s st) = find_state k st.
Proof.
  intro Hne. induction st as [|x r IH]; cbn; [reflexivity|].
  destruct (str_eqb (l_name s) (l_name x)) eqn:E.
  - apply str_eqb_eq in E. cbn. rewrite <- E. rewrite (str_eqb_neq k (l_name s)) by congruence. reflexivity.
  - cbn. destruct (str_eqb k (l_name x)); [reflexivity | exact IH].
Qed.

Lemma find_replace_same s st old : find_state (l_name s) st = Some old -> find_state (l_name s) (replace_state s st) = Some s.
Proof.
  induction st as [|x r IH]; cbn; [discriminate|].
  destruct (str_eqb (l_name s) (l_name x)) eqn:E.
  - intros _. cbn. now rewrite str_eqb_refl.
  - intro H. cbn. rewrite E. now apply IH.
Qed.

Lemma find_replace_key s st k old : l_name s = k -> find_state k st = Some old -> find_state k (replace_state s st) = Some s.
Proof. intros <- H. exact (find_replace_same s st old H). Qed.

Lemma step_other st x k : x <> k -> find_state k (step st x) = find_state k st.
Proof.
  intro Hne. unfold step, link_step. destruct (find_state x st) as [s|] eqn:E; [|reflexivity].
  apply find_replace_other. cbn. rewrite (find_state_name _ _ _ E). exact Hne.
Qed.

Lemma fold_other l : forall st k, ~ In k l -> find_state k (fold_left step l st) = find_state k st.
Proof.
  induction l as [|x l IH]; intros st k Hk; [reflexivity|]. cbn [fold_left].
  rewrite IH by (intro; apply Hk; now right). apply step_other. intro; apply Hk; now left.
Qed.

Lemma link_full_norefs f st v s : l_refs s = [] -> link_full f st v s = s.
Proof. intro H. destruct f; [reflexivity|]. cbn [link_full]. rewrite H. cbn. rewrite app_nil_r. destruct s; cbn in *; now subst. Qed.

Lemma find_remove_other n st k : n <> k -> find_state k (remove_state n st) = find_state k st.
Proof.
  intro Hne. induction st as [|x r IH]; cbn; [reflexivity|].
  destruct (str_eqb n (l_name x)) eqn:E.
  - apply str_eqb_eq in E. rewrite <- E. rewrite (str_eqb_neq k n) by congruence. exact IH.
  - cbn. destruct (str_eqb k (l_name x)); [reflexivity | exact IH].
Qed.

Lemma step_norefs st r s : find_state r st = Some s -> l_refs s = [] -> find_state r (step st r) = Some s.
Proof.
  intros Hf Hr. unfold step, link_step. rewrite Hf, (link_full_norefs _ _ _ s Hr).
  rewrite <- (find_state_name _ _ _ Hf). now apply (find_replace_same s st s); rewrite (find_state_name _ _ _ Hf).
Qed.

Lemma fold_stable l : forall st r s, find_state r st = Some s -> l_refs s = [] -> find_state r (fold_left step l st) = Some s.
Proof.
  induction l as [|x l IH]; intros st r s Hf Hr; [exact Hf|]. cbn [fold_left]. apply IH; [|exact Hr].
  destruct (str_eqb x r) eqn:E.
  - apply str_eqb_eq in E. subst x. now apply step_norefs.
  - rewrite step_other; [exact Hf|]. intro Hx. subst. rewrite str_eqb_refl in E. discriminate.
Qed.

Lemma find_init ds n d : find_def n ds = Some d -> find_state n (map init_state ds) = Some (init_state d).
Proof.
  induction ds as [|x r IH]; cbn; [discriminate|]. unfold init_state at 1. cbn [l_name].
  destruct (str_eqb n (t_name x)); [intro H; now inversion H | exact IH].
Qed.

Lemma expand_owns f ds k items : refs_of items = [] -> expand f ds k items = own_names items.
Proof.
  intro H. destruct f; [reflexivity|]. cbn [expand].
  induction items as [|[n|r] l IH]; cbn in *; [reflexivity | now rewrite IH | discriminate].
Qed.

Lemma sorted_keys_nodup {V} (m : list (str * V)) : sorted m -> NoDup (map fst m).
Proof.
  induction 1 as [|p r Hs IH Hall]; cbn; constructor; [|exact IH].
  intro Hin. apply in_map_iff in Hin as [q [Hq Hin]]. rewrite Forall_forall in Hall. specialize (Hall q Hin).
  unfold klt in Hall. rewrite Hq in Hall. exact (lt_irrefl _ Hall).
Qed.

Lemma descending_nodup ds : NoDup (descending ds).
Proof.
  unfold descending. apply NoDup_rev. apply sorted_keys_nodup. rewrite from_list_rev. apply from_list_r_sorted.
Qed.

Lemma find_def_in ds n d : find_def n ds = Some d -> In d ds /\ t_name d = n.
Proof.
  induction ds as [|x r IH]; cbn; [discriminate|]. destruct (str_eqb n (t_name x)) eqn:E.
  - intro H. inversion H; subst. apply str_eqb_eq in E. split; [now left | now symmetry].
  - intro H. destruct (IH H). split; [now right | assumption].
Qed.

Lemma descending_in ds n d : NoDup (map t_name ds) -> find_def n ds = Some d -> In n (descending ds).
Proof.
  intros Hnd Hf. destruct (find_def_in _ _ _ Hf) as [Hin Hn]. unfold descending. apply -> in_rev.
  apply in_map_iff. exists (t_name d, d). split; [exact Hn|]. now apply in_from_list.
Qed.

(* for every definition whose COMPONENTS OF entries come last and refer to types of its kind that use no COMPONENTS OF
   themselves, whatever else the module contains and however the names sort, the pass yields the expansion *)
Theorem link_pass_depth_one ds n k own refs :
  NoDup (map t_name ds) ->
  find_def n ds = Some (mktdef n k (map Own own ++ map ComponentsOf refs)) ->
  (forall r, In r refs -> r <> n /\ exists dr, find_def r ds = Some dr /\ t_is_seq dr = k /\ refs_of (t_items dr) = []) ->
  linked_members ds n = expanded_members ds n.
Proof.
  intros Hnd Hd Hrefs. unfold linked_members, expanded_members. rewrite Hd. cbn [option_map t_is_seq t_items].
  rewrite link_pass_fold.
  destruct (in_split _ _ (descending_in ds n _ Hnd Hd)) as [a [b Hsplit]].
  pose proof (descending_nodup ds) as Hnodup. rewrite Hsplit in Hnodup.
  assert (Hna : ~ In n a) by (apply NoDup_remove_2 in Hnodup; intro; apply Hnodup; apply in_or_app; now left).
  assert (Hnb : ~ In n b) by (apply NoDup_remove_2 in Hnodup; intro; apply Hnodup; apply in_or_app; now right).
  rewrite Hsplit, fold_left_app. cbn [fold_left].
  set (st0 := map init_state ds). set (st1 := fold_left step a st0).
  rewrite (fold_other b _ n Hnb).
  assert (Hn1 : find_state n st1 = Some (init_state (mktdef n k (map Own own ++ map ComponentsOf refs)))).
  { unfold st1. rewrite (fold_other a st0 n Hna). now apply find_init. }
  assert (Hr1 : forall r, In r refs -> exists dr, find_def r ds = Some dr /\ t_is_seq dr = k /\ refs_of (t_items dr) = [] /\
                                               find_state r st1 = Some (init_state dr)).
  { intros r Hr. destruct (Hrefs r Hr) as [_ [dr [Hf [Hk Hn0]]]]. exists dr. repeat split; try assumption.
    unfold st1. apply fold_stable; [now apply find_init | exact Hn0]. }
  unfold step, link_step. rewrite Hn1.
  match goal with |- context [replace_state ?s st1] =>
    assert (Hnm : l_name s = n) by reflexivity;
    assert (Hsame : find_state n (replace_state s st1) = Some s)
      by (exact (find_replace_key s st1 n _ Hnm Hn1))
  end.
  rewrite Hsame. cbn [option_map]. f_equal.
  destruct ds as [|d0 ds']; [discriminate|]. cbn [length].
  rewrite expand_trailing. unfold init_state at 1. cbn [link_full l_members l_refs t_items t_name t_is_seq].
  rewrite own_names_app, own_names_owns, own_names_refs, app_nil_r, refs_of_app, refs_of_owns, refs_of_refs. cbn [app]. f_equal.
  clear Hn1 Hd Hsplit Hnodup Hna Hnb Hsame Hnm. induction refs as [|r l IH]; [reflexivity|]. cbn [flat_map mem_str existsb].
  destruct (Hr1 r (or_introl eq_refl)) as [dr [Hf [Hk [Hn0 Hs]]]].
  destruct (Hrefs r (or_introl eq_refl)) as [Hrn _].
  rewrite (find_remove_other n st1 r) by congruence.
  rewrite Hs, Hf, Hk, Bool.eqb_reflx. rewrite link_full_resolved by exact Hn0. cbn [init_state l_members].
  rewrite (expand_owns _ _ _ _ Hn0). f_equal. apply IH.
  - intros r' Hr'. apply Hrefs. now right.
  - intros r' Hr'. apply Hr1. now right.
Qed.
