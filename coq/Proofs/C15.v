From Coq Require Import ZArith NArith List Bool Lia.
Require Import RasnV.Model.Base RasnV.Model.PerVisible RasnV.Gen.T03 RasnV.Model.Alphabet.
Import ListNotations.

(* string types that are not known-multiplier get no alphabet annotation *)
Lemma collect_unknown fuel t cs : known_multiplier t = false -> collect fuel t cs = Ok [].
Proof.
  intro H. induction cs as [|c r IH]; cbn [collect]; [reflexivity|].
  unfold try_new. rewrite H. cbn [negb bind]. rewrite IH. reflexivity.
Qed.

Lemma none_for_unknown fuel t cs : known_multiplier t = false -> alphabet_annotation fuel t cs = Ok None.
Proof.
  intro H. unfold alphabet_annotation. destruct cs as [|c r]; [reflexivity|].
  rewrite (collect_unknown fuel t (c :: r) H). reflexivity.
Qed.

Require Import RasnV.Spec.AlphaSpec.

(* ---- FROM with `|` only: the annotation denotes exactly the permitted characters *)
Lemma denote_app l1 l2 c : denote (l1 ++ l2) c = denote l1 c || denote l2 c.
Proof. unfold denote. apply existsb_app. Qed.

Lemma denote_singles s c : denote (map SSingle s) c = str_contains s c.
Proof.
  unfold denote, str_contains. induction s as [|x s IH]; cbn; [reflexivity|].
  rewrite IH. rewrite (N.eqb_sym x c). reflexivity.
Qed.

Lemma find_index_from_nth cs c : forall i k, find_index_from i cs c = Some k ->
  (i <= k)%nat /\ nth_error cs (k - i) = Some c.
Proof.
  induction cs as [|d r IH]; intros i k H; cbn in H; [discriminate|].
  destruct (N.eqb c d) eqn:E.
  - inversion H; subst. apply N.eqb_eq in E. subst. split; [lia|]. rewrite Nat.sub_diag. reflexivity.
  - destruct (IH (S i) k H) as [Hle Hn]. split; [lia|].
    replace (k - i)%nat with (S (k - S i)) by lia. exact Hn.
Qed.

Lemma find_char_index_nth cs c k : find_char_index cs c = Some k -> nth_error cs k = Some c.
Proof.
  unfold find_char_index. intro H. destruct (find_index_from_nth cs c 0 k H) as [_ Hn].
  rewrite Nat.sub_0_r in Hn. exact Hn.
Qed.

Lemma from_elem_simple cs e o :
  simple_alpha_elem e = true -> from_elem cs e = Ok o ->
  exists l, o = Some l /\ forall c, denote l c = semb_alpha_elem e c.
Proof.
  intros Hs Hf. destruct e as [[z|s|] [|] | [[z|[|a [|a2 s]]|]|] [[z2|[|b [|b2 s2]]|]|] [|] | | | | ];
    cbn in Hs; try discriminate Hs.
  - (* Single (VStr s) false *)
    cbn [from_elem] in Hf. destruct (forallb _ s); [|discriminate Hf]. inversion Hf; subst.
    eexists. split; [reflexivity|]. intro c. apply denote_singles.
  - (* Range [a] [b] *)
    cbn [from_elem first_char_index] in Hf.
    destruct (find_char_index cs a) as [i|] eqn:Ea; cbn [bind] in Hf; [|discriminate Hf].
    destruct (find_char_index cs b) as [j|] eqn:Eb; cbn [bind] in Hf; [|discriminate Hf].
    destruct (Nat.ltb j i); [discriminate Hf|]. inversion Hf; subst.
    rewrite (find_char_index_nth cs a i Ea), (find_char_index_nth cs b j Eb).
    eexists. split; [reflexivity|]. intro c. cbn. rewrite orb_false_r. reflexivity.
Qed.

Lemma from_alpha_union_exact cs : forall inner l,
  union_only inner = true -> simple_alpha inner = true -> from_alpha_inner cs inner = Ok l ->
  forall c, denote l c = semb_alpha_rn inner c.
Proof.
  induction inner as [e | b o r IH]; intros l Hu Hs Hf c.
  - cbn [from_alpha_inner] in Hf. cbn [simple_alpha] in Hs.
    destruct (from_elem cs e) as [o| | |] eqn:E; cbn [bind] in Hf; try discriminate Hf.
    destruct (from_elem_simple cs e o Hs E) as [l' [-> Hd]]. inversion Hf; subst. apply Hd.
  - destruct o; cbn [union_only] in Hu; try discriminate Hu.
    cbn [simple_alpha] in Hs. apply andb_true_iff in Hs as [Hsb Hsr].
    cbn [from_alpha_inner] in Hf.
    destruct (from_elem cs b) as [ob| | |] eqn:E; cbn [bind] in Hf; try discriminate Hf.
    destruct (from_alpha_inner cs r) as [l2| | |] eqn:E2; cbn [bind] in Hf; try discriminate Hf.
    destruct (from_elem_simple cs b ob Hsb E) as [l1 [-> Hd]]. inversion Hf; subst.
    rewrite denote_app, Hd, (IH l2 Hu Hsr eq_refl). reflexivity.
Qed.

(* sorting (finalize) does not change what is denoted *)
Lemma denote_insert x l c : denote (insert_sorted x l) c = denote (x :: l) c.
Proof.
  induction l as [|y r IH]; [reflexivity|]. cbn [insert_sorted].
  destruct (N.ltb (subset_key x) (subset_key y)); [reflexivity|].
  change (denote (y :: insert_sorted x r) c) with
    ((match y with SSingle z => N.eqb z c | SRange (Some f) (Some t) => N.leb f c && N.leb c t | _ => false end)
     || denote (insert_sorted x r) c).
  rewrite IH. cbn [denote existsb]. rewrite !orb_assoc. f_equal. apply orb_comm.
Qed.

Lemma denote_sort_from l : forall acc c,
  denote (fold_left (fun a x => insert_sorted x a) l acc) c = denote l c || denote acc c.
Proof.
  induction l as [|x l IH]; intros acc c; cbn [fold_left]; [reflexivity|].
  rewrite IH, denote_insert. cbn [denote existsb]. rewrite !orb_assoc. f_equal. apply orb_comm.
Qed.

Lemma denote_sort l c : denote (sort_subsets l) c = denote l c.
Proof. unfold sort_subsets. rewrite denote_sort_from. cbn. apply orb_false_r. Qed.

(* elements written without a marker: the set inside FROM does not end with one *)
Lemma simple_elem_unmarked e : simple_alpha_elem e = true -> elem_marked e = false.
Proof. destruct e as [[z|s|] [|] | [[z|[|a [|a2 s]]|]|] [[z2|[|b [|b2 s2]]|]|] [|] | | | | ]; cbn; intro H; try discriminate H; reflexivity. Qed.

Lemma simple_alpha_unmarked inner : simple_alpha inner = true -> ends_with_marker inner = false.
Proof.
  induction inner as [e | b o r IH]; cbn [simple_alpha ends_with_marker]; intro H.
  - now apply simple_elem_unmarked.
  - apply andb_true_iff in H as [_ Hr]. now apply IH.
Qed.

(* the whole path for one FROM constraint *)
Lemma annotation_union_exact fuel t inner ann :
  known_multiplier t = true -> union_only inner = true -> simple_alpha inner = true ->
  alphabet_annotation fuel t [{| cset := El (Alpha inner); cext := false |}] = Ok ann ->
  forall c, denote (match ann with Some l => l | None => [] end) c = semb_alpha_rn inner c.
Proof.
  intros Hk Hu Hs Ha c. unfold alphabet_annotation in Ha. cbn [collect] in Ha.
  unfold try_new in Ha. rewrite Hk in Ha. cbn [negb cset cext from_elem] in Ha. rewrite (simple_alpha_unmarked inner Hs) in Ha.
  destruct (from_alpha_inner (character_set t) inner) as [l| | |] eqn:E; cbn [bind] in Ha; try discriminate Ha.
  inversion Ha; subst. rewrite app_nil_r.
  rewrite <- (from_alpha_union_exact (character_set t) inner l Hu Hs E c).
  destruct (sort_subsets l) eqn:Es.
  - rewrite <- (denote_sort l c), Es. reflexivity.
  - rewrite <- (denote_sort l c), Es. reflexivity.
Qed.

(* every character of an annotation belongs to the base alphabet: single characters always,
   ranges at their end points *)
Lemma find_char_index_in cs c k : find_char_index cs c = Some k -> existsb (N.eqb c) cs = true.
Proof.
  intro H. apply find_char_index_nth in H. apply nth_error_In in H.
  apply existsb_exists. exists c. split; [exact H | apply N.eqb_refl].
Qed.

Lemma from_elem_within_base cs e l :
  simple_alpha_elem e = true -> from_elem cs e = Ok (Some l) -> forallb (subset_chars_in cs) l = true.
Proof.
  intros Hs Hf. destruct e as [[z|s|] [|] | [[z|[|a [|a2 s]]|]|] [[z2|[|b [|b2 s2]]|]|] [|] | | | | ];
    cbn in Hs; try discriminate Hs.
  - cbn [from_elem] in Hf.
    destruct (forallb (fun c => match find_char_index cs c with Some _ => true | None => false end) s) eqn:E; [|discriminate Hf].
    inversion Hf; subst. clear Hf. induction s as [|x s IH]; [reflexivity|].
    cbn [forallb] in E. apply andb_true_iff in E as [E1 E2]. cbn [map forallb]. rewrite (IH E2), andb_true_r.
    cbn. destruct (find_char_index cs x) eqn:Ex; [|discriminate E1]. exact (find_char_index_in cs x n Ex).
  - cbn [from_elem first_char_index] in Hf.
    destruct (find_char_index cs a) as [i|] eqn:Ea; cbn [bind] in Hf; [|discriminate Hf].
    destruct (find_char_index cs b) as [j|] eqn:Eb; cbn [bind] in Hf; [|discriminate Hf].
    destruct (Nat.ltb j i); [discriminate Hf|]. inversion Hf; subst.
    rewrite (find_char_index_nth cs a i Ea), (find_char_index_nth cs b j Eb). cbn.
    rewrite (find_char_index_in cs a i Ea), (find_char_index_in cs b j Eb). reflexivity.
Qed.

(* the operators inside FROM are not evaluated: a machine-checked witness *)
Lemma operators_refuted :
  exists inner l c,
    from_alpha_inner ia5_charset inner = Ok l /\ simple_alpha inner = true
    /\ denote l c = true /\ semb_alpha_rn inner c = false.
Proof.
  exists (SetOp (Single (VStr [65; 66]%N) false) Inter (El (Single (VStr [66; 67]%N) false))).
  eexists. exists 65%N. split; [vm_compute; reflexivity|]. repeat split; reflexivity.
Qed.

(* ---- inclusion of another constrained string type as the whole constraint *)
Lemma collect_a_cons fuel t cs : collect_a fuel t (map ACons cs) = collect fuel t cs.
Proof. induction cs as [|c r IH]; [reflexivity|]. cbn [map collect_a collect try_new_a]. now rewrite IH. Qed.

Lemma annotation_a_cons fuel t cs : alphabet_annotation_a fuel t (map ACons cs) = alphabet_annotation fuel t cs.
Proof. destruct cs as [|c r]; [reflexivity|]. unfold alphabet_annotation_a, alphabet_annotation. cbn [map]. now rewrite <- collect_a_cons. Qed.

(* the annotation of `T (Included)` is the annotation of the included type's own constraints *)
Lemma inclusion_is_included fuel t t' c cs' :
  known_multiplier t = true ->
  alphabet_annotation_a fuel t [AIncl t' (c :: cs')] = alphabet_annotation fuel t' (c :: cs').
Proof.
  intro Hk. unfold alphabet_annotation_a, alphabet_annotation. cbn [collect_a try_new_a]. rewrite Hk. cbn [negb].
  destruct (collect fuel t' (c :: cs')) as [l| | |]; cbn [bind]; try reflexivity. now rewrite app_nil_r.
Qed.

Lemma inclusion_exact fuel t t' inner ann :
  known_multiplier t = true -> known_multiplier t' = true -> union_only inner = true -> simple_alpha inner = true ->
  alphabet_annotation_a fuel t [AIncl t' [{| cset := El (Alpha inner); cext := false |}]] = Ok ann ->
  forall c, denote (match ann with Some l => l | None => [] end) c = semb_alpha_rn inner c.
Proof.
  intros Hk Hk' Hu Hs Ha. rewrite (inclusion_is_included fuel t t' _ [] Hk) in Ha.
  exact (annotation_union_exact fuel t' inner ann Hk' Hu Hs Ha).
Qed.

Lemma inclusion_none_for_unknown fuel t t' cs' : known_multiplier t = false -> alphabet_annotation_a fuel t [AIncl t' cs'] = Ok None.
Proof. intro H. unfold alphabet_annotation_a. cbn [collect_a try_new_a]. rewrite H. reflexivity. Qed.

(* inside a set operation the included type contributes nothing: whatever it permits, `Included | FROM (s)` and
   `FROM (s) | Included` come out as FROM (s) before e27a721 and as no annotation at all since *)
Lemma inclusion_in_union_ignored :
  let s := El (Single (VStr [120%N]) false) in
  try_new 6 IA5String {| cset := SetOp Contained Union (El (Alpha s)); cext := false |} = Ok None /\
  try_new 6 IA5String {| cset := SetOp (Alpha s) Union (El Contained); cext := false |} = Ok None.
Proof. vm_compute. split; reflexivity. Qed.

(* ---- the tables are the X.680 alphabets *)
Lemma tables_match_all : forallb table_matches [NumericString; PrintableString; VisibleString; IA5String] = true.
Proof. vm_compute. reflexivity. Qed.

Lemma x680_defined t b c : x680_alphabet t c = Some b -> exists b0, x680_alphabet t 0 = Some b0.
Proof. destruct t; cbn [x680_alphabet]; intro H; try discriminate H; eexists; reflexivity. Qed.

Lemma x680_small t b c : x680_alphabet t c = Some b -> (256 <= c)%N -> b = false.
Proof.
  intros Hb Hc. destruct t; cbn [x680_alphabet] in Hb; try discriminate Hb; inversion Hb; subst; unfold in_rng;
    repeat match goal with
           | |- context [N.eqb c ?k] => replace (N.eqb c k) with false by (symmetry; apply N.eqb_neq; lia)
           | |- context [N.leb c ?k] => replace (N.leb c k) with false by (symmetry; apply N.leb_gt; lia)
           end; rewrite ?andb_false_r, ?orb_false_r; reflexivity.
Qed.

Lemma table_is_x680 t b c :
  In t [NumericString; PrintableString; VisibleString; IA5String] ->
  x680_alphabet t c = Some b -> existsb (N.eqb c) (character_set t) = b.
Proof.
  intros Ht Hb.
  destruct (x680_defined t b c Hb) as [b0 Hb0].
  assert (Hm : table_matches t = true).
  { pose proof tables_match_all as H. rewrite forallb_forall in H. exact (H t Ht). }
  unfold table_matches in Hm. rewrite Hb0 in Hm.
  apply andb_true_iff in Hm as [Hm Hall]. apply andb_true_iff in Hm as [Hlt _].
  destruct (N.ltb c 256) eqn:Hc.
  - apply N.ltb_lt in Hc. rewrite forallb_forall in Hall.
    assert (Hin : In (N.to_nat c) (seq 0 256)) by (apply in_seq; lia).
    specialize (Hall (N.to_nat c) Hin). rewrite N2Nat.id in Hall. rewrite Hb in Hall.
    now apply Bool.eqb_prop in Hall.
  - apply N.ltb_ge in Hc. rewrite (x680_small t b c Hb Hc).
    apply Bool.not_true_is_false. intro He. apply existsb_exists in He as [x [Hx Hxc]].
    apply N.eqb_eq in Hxc. subst x. rewrite forallb_forall in Hlt. specialize (Hlt c Hx). apply N.ltb_lt in Hlt. lia.
Qed.

(* an extensible constraint contributes no permitted alphabet (X.691 10.3.10), whatever it contains *)
Lemma try_new_extensible fuel t s : try_new fuel t {| cset := s; cext := true |} = Ok None.
Proof. unfold try_new. destruct (negb (known_multiplier t)); reflexivity. Qed.

Theorem extensible_alone_no_annotation fuel t s :
  alphabet_annotation fuel t [{| cset := s; cext := true |}] = Ok None.
Proof. unfold alphabet_annotation. cbn [collect]. rewrite try_new_extensible. reflexivity. Qed.

(* ... and next to other constraints it changes nothing *)
Theorem extensible_ignored fuel t s cs :
  collect fuel t ({| cset := s; cext := true |} :: cs) = collect fuel t cs.
Proof. cbn [collect]. rewrite try_new_extensible. cbn [bind]. destruct (collect fuel t cs); reflexivity. Qed.

(* ... and so does a FROM whose inner set ends with the marker, `FROM ("a".."c" | "x", ...)`: no closed alphabet is emitted *)
Theorem from_ending_with_marker_no_annotation fuel t inner :
  ends_with_marker inner = true ->
  alphabet_annotation fuel t [{| cset := El (Alpha inner); cext := false |}] = Ok None.
Proof.
  intro H. unfold alphabet_annotation. cbn [collect]. unfold try_new.
  destruct (negb (known_multiplier t)); [reflexivity|]. cbn [cext cset from_elem]. rewrite H. reflexivity.
Qed.
