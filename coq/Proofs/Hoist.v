From Coq Require Import NArith List Bool.
Require Import RasnV.Model.Base RasnV.Model.Names RasnV.Model.Components RasnV.Model.WellFormed RasnV.Model.Hoist.
Import ListNotations.

Section rty_ind_nested.
  Variable P : rty -> Prop.
  Hypothesis HPlain : forall t, P (RPlain t).
  Hypothesis HRef : forall n, P (RRef n).
  Hypothesis HEnum : forall ns, P (REnum ns).
  Hypothesis HStruct : forall ms, Forall (fun p => P (snd p)) ms -> P (RStruct ms).
  Hypothesis HChoice : forall ms, Forall (fun p => P (snd p)) ms -> P (RChoice ms).
  Fixpoint rty_ind_nested (t : rty) : P t :=
    match t with
    | RPlain x => HPlain x
    | RRef n => HRef n
    | REnum ns => HEnum ns
    | RStruct ms => HStruct ms ((fix go (l : list (str * rty)) : Forall (fun p => P (snd p)) l :=
                                   match l with [] => Forall_nil _ | p :: r => Forall_cons p (rty_ind_nested (snd p)) (go r) end) ms)
    | RChoice ms => HChoice ms ((fix go (l : list (str * rty)) : Forall (fun p => P (snd p)) l :=
                                   match l with [] => Forall_nil _ | p :: r => Forall_cons p (rty_ind_nested (snd p)) (go r) end) ms)
    end.
End rty_ind_nested.

(* the first emitted item carries the requested name *)
Lemma emit_head name t : exists it r, emit name t = it :: r /\ i_name it = name.
Proof. destruct t; cbn [emit]; eexists; eexists; split; reflexivity. Qed.

Lemma emit_name_in name t : In name (map i_name (emit name t)).
Proof. destruct (emit_head name t) as [it [r [-> <-]]]. now left. Qed.

(* every name an emitted item mentions is emitted itself, or is one of the type's externals *)
Definition closed_for (name : str) (t : rty) : Prop :=
  forall it n, In it (emit name t) -> In n (i_mentions it) -> In n (map i_name (emit name t)) \/ In n (externals t).

Lemma members_closed name ms :
  Forall (fun p => forall nm, closed_for nm (snd p)) ms ->
  forall (mk : list (str * rty) -> item),
    (forall n, In n (i_mentions (mk ms)) -> exists m, In m ms /\ n = written (snd m) (fst m) name) ->
    forall it n,
      In it (mk ms :: (fix go (l : list (str * rty)) : list item :=
                         match l with [] => [] | (n0, t') :: r => (if nests t' then emit (inner_name n0 name) t' else []) ++ go r end) ms) ->
      In n (i_mentions it) ->
      In n (map i_name (mk ms :: (fix go (l : list (str * rty)) : list item :=
                         match l with [] => [] | (n0, t') :: r => (if nests t' then emit (inner_name n0 name) t' else []) ++ go r end) ms)) \/
      In n ((fix go (l : list (str * rty)) : list str := match l with [] => [] | (_, t') :: r => externals t' ++ go r end) ms).
Proof.
  intros Hall mk Hmk it n Hit Hn.
  set (go := fix go (l : list (str * rty)) : list item :=
         match l with [] => [] | (n0, t') :: r => (if nests t' then emit (inner_name n0 name) t' else []) ++ go r end).
  set (ex := fix go (l : list (str * rty)) : list str := match l with [] => [] | (_, t') :: r => externals t' ++ go r end).
  fold go in Hit |- *. fold ex.
  (* facts about the nested emission, by induction over the member list *)
  assert (Hnested : forall l, Forall (fun p => forall nm, closed_for nm (snd p)) l ->
            forall it0 n0, In it0 (go l) -> In n0 (i_mentions it0) -> In n0 (map i_name (go l)) \/ In n0 (ex l)).
  { induction 1 as [|[m t'] r Hp _ IHr]; intros it0 n0 Hi Hm; [contradiction|].
    cbn [go] in Hi |- *. cbn [ex]. rewrite map_app. apply in_app_or in Hi as [Hi|Hi].
    - destruct (nests t') eqn:E; [|contradiction].
      destruct (Hp (inner_name m name) it0 n0 Hi Hm) as [H|H]; [left; apply in_or_app; now left | right; apply in_or_app; now left].
    - destruct (IHr it0 n0 Hi Hm) as [H|H]; [left; apply in_or_app; now right | right; apply in_or_app; now right]. }
  assert (Hwritten : forall l m, In m l -> In (written (snd m) (fst m) name) (map i_name (go l)) \/ In (written (snd m) (fst m) name) (ex l)).
  { induction l as [|[m0 t0] r IHr]; intros m Hm; [contradiction|]. cbn [go ex]. rewrite map_app.
    destruct Hm as [<-|Hm].
    - cbn [fst snd]. destruct t0; cbn [written nests externals].
      + right. apply in_or_app. left. now left.
      + right. apply in_or_app. left. now left.
      + left. apply in_or_app. left. apply emit_name_in.
      + left. apply in_or_app. left. apply emit_name_in.
      + left. apply in_or_app. left. apply emit_name_in.
    - destruct (IHr m Hm) as [H|H]; [left; apply in_or_app; now right | right; apply in_or_app; now right]. }
  destruct Hit as [<-|Hit].
  - destruct (Hmk n Hn) as [m [Hm ->]]. destruct (Hwritten ms m Hm) as [H|H]; [left; right; exact H | right; exact H].
  - destruct (Hnested ms Hall it n Hit Hn) as [H|H]; [left; right; exact H | right; exact H].
Qed.

Theorem emit_closed : forall t name, closed_for name t.
Proof.
  induction t using rty_ind_nested; intro name; unfold closed_for.
  - intros it m [<-|[]] Hm. right. exact Hm.
  - intros it m [<-|[]] Hm. right. exact Hm.
  - intros it m [<-|[]] Hm. contradiction.
  - cbn [emit externals]. intros it n0 Hit Hn.
    refine (members_closed name ms H (fun l => mkitem name (map (fun m => snake (fst m)) l) (map (fun m => written (snd m) (fst m) name) l) []) _ it n0 Hit Hn).
    cbn [i_mentions]. intros n1 Hn1. apply in_map_iff in Hn1 as [m [<- Hm]]. exists m. split; [exact Hm | reflexivity].
  - cbn [emit externals]. intros it n0 Hit Hn.
    refine (members_closed name ms H (fun l => mkitem name (map (fun m => enum_ident (fst m)) l) (map (fun m => written (snd m) (fst m) name) l) []) _ it n0 Hit Hn).
    cbn [i_mentions]. intros n1 Hn1. apply in_map_iff in Hn1 as [m [<- Hm]]. exists m. split; [exact Hm | reflexivity].
Qed.

(* in WellFormed's terms: the emitted items resolve against the type's externals *)
Theorem emit_resolved t name : resolved (emit name t) (externals t) = true.
Proof.
  unfold resolved. apply forallb_forall. intros it Hit. apply forallb_forall. intros n Hn.
  destruct (emit_closed t name it n Hit Hn) as [H|H]; apply orb_true_iff; [left | right]; now apply str_in_In.
Qed.
