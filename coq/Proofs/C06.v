From Coq Require Import ZArith List Bool Lia.
Require Import RasnV.Model.Base RasnV.Gen.T06 RasnV.Gen.T07 RasnV.Model.IntWidth RasnV.Spec.IntFits.
Import ListNotations.
Local Open Scope Z_scope.

(* shape-generic: destruct every guard of a ladder, then linear arithmetic *)
Ltac ladder :=
  repeat match goal with
         | |- context [if ?c then _ else _] => let E := fresh "E" in destruct c eqn:E
         end;
  cbn [fits ty_range] in *; try lia.

Ltac boolarith :=
  repeat match goal with
         | H : orb _ _ = true |- _ => apply orb_true_iff in H; destruct H
         | H : orb _ _ = false |- _ => apply orb_false_iff in H; destruct H
         | H : andb _ _ = true |- _ => apply andb_true_iff in H; destruct H
         | H : andb _ _ = false |- _ => apply andb_false_iff in H; destruct H
         | H : Z.leb _ _ = true |- _ => apply Z.leb_le in H
         | H : Z.leb _ _ = false |- _ => apply Z.leb_gt in H
         | H : Z.geb _ _ = true |- _ => apply Z.geb_le in H
         | H : Z.geb _ _ = false |- _ => rewrite Z.geb_leb in H; apply Z.leb_gt in H
         | H : Z.gtb _ _ = true |- _ => rewrite Z.gtb_ltb in H; apply Z.ltb_lt in H
         | H : Z.gtb _ _ = false |- _ => rewrite Z.gtb_ltb in H; apply Z.ltb_ge in H
         | H : Z.ltb _ _ = true |- _ => apply Z.ltb_lt in H
         | H : Z.ltb _ _ = false |- _ => apply Z.ltb_ge in H
         end.

Lemma token_ladder_sound lo hi ext z :
  lo <= z <= hi -> fits (int_type_token_ladder lo hi ext) z.
Proof.
  intro H. unfold int_type_token_ladder.
  repeat match goal with
         | |- context [if ?c then _ else _] => let E := fresh "E" in destruct c eqn:E
         end; boolarith; cbn [fits ty_range]; try lia; exact I.
Qed.

Lemma token_ladder_ext lo hi : int_type_token_ladder lo hi true = Unbounded.
Proof. reflexivity. Qed.

Lemma constraints_ladder_sound lo hi ext z :
  ext = true \/ hi < lo \/ lo <= z <= hi -> fits (integer_constraints_ladder lo hi ext) z.
Proof.
  intro H. unfold integer_constraints_ladder.
  repeat match goal with
         | |- context [if ?c then _ else _] => let E := fresh "E" in destruct c eqn:E
         end; boolarith; cbn [fits ty_range]; try exact I; try lia;
    destruct H as [H|[H|H]]; try congruence; try lia.
Qed.

Lemma constraints_ladder_fixed lo hi ext :
  integer_constraints_ladder lo hi ext <> Unbounded -> ext = false /\ lo <= hi.
Proof.
  unfold integer_constraints_ladder.
  destruct (Z.gtb lo hi || ext) eqn:E; [congruence|].
  intros _. boolarith. split; [assumption | lia].
Qed.

Lemma token_fixed_only_if omin omax ext :
  int_type_token omin omax ext <> Unbounded ->
  ext = false /\ exists lo hi, omin = Some lo /\ omax = Some hi.
Proof.
  unfold int_type_token. destruct omin as [lo|], omax as [hi|]; try congruence.
  intro H. split.
  - destruct ext; [rewrite token_ladder_ext in H; congruence | reflexivity].
  - eauto.
Qed.

Lemma token_sound omin omax ext z :
  ge_opt omin z -> le_opt z omax -> fits (int_type_token omin omax ext) z.
Proof.
  unfold int_type_token. destruct omin as [lo|], omax as [hi|]; cbn; intros; try exact I.
  apply token_ladder_sound. lia.
Qed.

Lemma integer_constraints_sound c z :
  in_i128 z -> permits c z -> fits (integer_constraints c) z.
Proof.
  unfold in_i128. intros Hz Hp.
  destruct c as [lo hi ext sext | v ext sext | ]; cbn [integer_constraints permits] in *;
    unfold integer_constraints_ladder.
  - destruct Hp as [Hp|[Hp|[H1 H2]]].
    + subst. rewrite orb_true_r. exact I.
    + subst. rewrite !orb_true_r. exact I.
    + destruct lo, hi; unfold ge_opt, le_opt, i128_max, i128_min in *;
        repeat match goal with
               | |- context [if ?c then _ else _] => let E := fresh "E" in destruct c eqn:E
               end; boolarith; cbn [fits ty_range]; try exact I; lia.
  - destruct Hp as [Hp|[Hp|Hp]].
    + subst. rewrite orb_true_r. exact I.
    + subst. rewrite !orb_true_r. exact I.
    + subst. unfold i128_max, i128_min in *;
        repeat match goal with
               | |- context [if ?c then _ else _] => let E := fresh "E" in destruct c eqn:E
               end; boolarith; cbn [fits ty_range]; try exact I; lia.
  - unfold i128_max, i128_min. cbn. exact I.
Qed.

Lemma integer_constraints_fixed_only_if c :
  integer_constraints c <> Unbounded -> finite_nonext c.
Proof.
  destruct c as [lo hi ext sext | v ext sext | ]; cbn [integer_constraints finite_nonext].
  - destruct ext, sext; cbn [orb];
      try (unfold integer_constraints_ladder; rewrite orb_true_r; congruence).
    destruct lo, hi; try (intros _; exact I); unfold integer_constraints_ladder, i128_max, i128_min;
        repeat match goal with
               | |- context [if ?c then _ else _] => let E := fresh "E" in destruct c eqn:E
               end; try congruence; boolarith; lia.
  - intro H. apply constraints_ladder_fixed in H as [He _].
    apply orb_false_iff in He as [-> ->]. exact I.
  - unfold integer_constraints_ladder, i128_max, i128_min. cbn. congruence.
Qed.

Lemma max_restrictive_either a b : max_restrictive a b = a \/ max_restrictive a b = b.
Proof. destruct a, b; cbn; auto. Qed.

Lemma max_restrictive_sound a b z : fits a z -> fits b z -> fits (max_restrictive a b) z.
Proof. intros Ha Hb. destruct (max_restrictive_either a b) as [E|E]; rewrite E; assumption. Qed.

Lemma max_restrictive_unbounded a b : max_restrictive a b = Unbounded -> a = Unbounded /\ b = Unbounded.
Proof. destruct a, b; cbn; intro H; try discriminate; auto. Qed.

Lemma fold_sound cs z acc :
  in_i128 z -> fits acc z -> Forall (fun c => permits c z) cs ->
  fits (fold_left (fun acc c => max_restrictive (integer_constraints c) acc) cs acc) z.
Proof.
  intros Hz. revert acc. induction cs as [|c cs IH]; cbn [fold_left]; intros acc Hacc Hall.
  - exact Hacc.
  - inversion Hall as [|c' cs' Hc Hcs]; subst. apply IH; [|exact Hcs].
    apply max_restrictive_sound; [apply integer_constraints_sound; assumption | exact Hacc].
Qed.

Lemma int_type_sound cs z :
  in_i128 z -> Forall (fun c => permits c z) cs -> fits (int_type cs) z.
Proof. intros Hz H. unfold int_type. destruct (last_extensible cs); [exact I|]. apply fold_sound; [exact Hz | exact I | exact H]. Qed.

Lemma fold_fixed cs acc :
  fold_left (fun acc c => max_restrictive (integer_constraints c) acc) cs acc <> Unbounded ->
  acc <> Unbounded \/ Exists finite_nonext cs.
Proof.
  revert acc. induction cs as [|c cs IH]; cbn [fold_left]; intros acc H.
  - left. exact H.
  - apply IH in H. destruct H as [H|H].
    + destruct (int_ty_eqb (integer_constraints c) Unbounded) eqn:E.
      * apply int_ty_eqb_eq in E. destruct (int_ty_eqb acc Unbounded) eqn:E2.
        -- apply int_ty_eqb_eq in E2. rewrite E, E2 in H. cbn in H. congruence.
        -- left. intro Hc. rewrite Hc in E2. cbn in E2. discriminate.
      * right. left. apply integer_constraints_fixed_only_if. intro Hc. rewrite Hc in E. cbn in E. discriminate.
    + right. right. exact H.
Qed.

Lemma int_type_fixed_only_if cs : int_type cs <> Unbounded -> Exists finite_nonext cs /\ last_extensible cs = false.
Proof.
  unfold int_type. destruct (last_extensible cs); [congruence|]. intro H. split; [|reflexivity].
  apply fold_fixed in H. destruct H as [H|H]; [congruence | exact H].
Qed.

Lemma fitsb_fits t z : fitsb t z = true <-> fits t z.
Proof.
  unfold fitsb, fits. destruct (ty_range t) as [[lo hi]|]; [|tauto].
  rewrite andb_true_iff, !Z.leb_le. tauto.
Qed.
