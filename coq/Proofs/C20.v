From Coq Require Import NArith List Bool.
Require Import RasnV.Model.Base RasnV.Model.Deliver.
Import ListNotations.

Lemma failure_writes_nothing m f : compile m f None = (f, [], Err).
Proof. reflexivity. Qed.

Definition writable (f : fs) : bool :=
  can_write f && match dest f with
                 | Dir => match dest_gen f with Dir => false | _ => true end
                 | _ => true
                 end.

(* where the text ends up *)
Definition delivered_at (f : fs) : entry := match dest f with Dir => dest_gen f | e => e end.

Lemma single_file_delivers f text :
  writable f = true ->
  exists f', compile MSingleFile f (Some text) = (f', [], Ok) /\
    delivered_at f' = File text /\
    bystander f' = bystander f /\
    (dest f = Dir -> dest f' = Dir) /\
    (dest f <> Dir -> dest_gen f' = dest_gen f).
Proof.
  unfold writable, compile, write, delivered_at. intro H. apply andb_true_iff in H as [Hc H].
  destruct (dest f) eqn:Ed.
  - rewrite Hc. eexists. split; [reflexivity|]. cbn. repeat split; congruence.
  - rewrite Hc. eexists. split; [reflexivity|]. cbn. repeat split; congruence.
  - destruct (dest_gen f) eqn:Eg; try discriminate; rewrite Hc; eexists; (split; [reflexivity|]); cbn; repeat split; congruence.
Qed.

Lemma unwritable_is_err f text :
  writable f = false -> compile MSingleFile f (Some text) = (f, [], Err).
Proof.
  unfold writable, compile, write. intro H. apply andb_false_iff in H.
  destruct (dest f) eqn:Ed.
  - destruct H as [H|H]; [now rewrite H | discriminate].
  - destruct H as [H|H]; [now rewrite H | discriminate].
  - destruct (dest_gen f); try reflexivity; destruct H as [H|H]; try discriminate; now rewrite H.
Qed.

Lemma stdout_delivers f text : compile MStdout f (Some text) = (f, text, Ok).
Proof. reflexivity. Qed.

Lemma no_output_delivers_nothing f text : compile MNoOutput f (Some text) = (f, [], Ok).
Proof. reflexivity. Qed.

Lemma cli_exit_spec have o : cli_exit have o = 0%N <-> (have = true /\ o = Ok).
Proof. unfold cli_exit. destruct have, o; split; intro H; try discriminate; try (destruct H; discriminate); auto. Qed.

Lemma ends_with_app suffix p : ends_with suffix (p ++ suffix) = true.
Proof.
  induction p as [|c p IH]; cbn [app].
  - destruct suffix; cbn; [reflexivity|]. rewrite N.eqb_refl. cbn.
    assert (H : forall s, str_eqb s s = true) by (intro s; apply str_eqb_eq; reflexivity). now rewrite H.
  - cbn [ends_with]. rewrite IH. destruct (str_eqb (c :: p ++ suffix) suffix); reflexivity.
Qed.

Lemma ends_with_inv suffix s : ends_with suffix s = true -> exists p, s = p ++ suffix.
Proof.
  induction s as [|c s IH]; cbn [ends_with].
  - destruct (str_eqb [] suffix) eqn:E; [|discriminate]. apply str_eqb_eq in E. subst. intros _. exists []. reflexivity.
  - destruct (str_eqb (c :: s) suffix) eqn:E.
    + apply str_eqb_eq in E. intros _. exists []. now rewrite E.
    + intro H. destruct (IH H) as [p ->]. exists (c :: p). reflexivity.
Qed.

Lemma module_file_spec name :
  is_module_file name = true <-> (exists p, name = p ++ dot_asn) \/ (exists p, name = p ++ dot_asn1).
Proof.
  unfold is_module_file. rewrite orb_true_iff. split.
  - intros [H|H]; [left | right]; now apply ends_with_inv.
  - intros [[p ->]|[p ->]]; [left | right]; apply ends_with_app.
Qed.
