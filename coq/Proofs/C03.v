From Coq Require Import NArith List Bool.
Require Import RasnV.Model.Base RasnV.Model.Tagging RasnV.Spec.TagSpec.
Import ListNotations.

Definition tclass_eqb (a b : tclass) : bool :=
  match a, b with
  | Universal, Universal | Application, Application | Private, Private | Context, Context => true
  | _, _ => false
  end.

(* class and number of every written tag reach the output, in every configuration *)
Lemma class_and_number_kept clause kw cls n pos kind :
  known_element pos = false ->
  exists e, render_tag clause kw cls n pos kind = Some (e, cls, n).
Proof.
  unfold render_tag. destruct pos, kind; cbn; intro H; try discriminate H; try (eexists; reflexivity).
  destruct (tenv_eqb (header_env clause) Explicit); eexists; reflexivity.
Qed.

Lemma element_tag_refuted : exists clause kw cls n kind, render_tag clause kw cls n ElementOf kind = None.
Proof. exists (Some Explicit), None, Context, 5%N, Primitive. reflexivity. Qed.

Definition config_ok (clause kw : option tenv) (cls : tclass) (pos : position) (kind : tkind) : bool :=
  if known_no_clause clause kw || known_element pos then true
  else if negb (legal_tag kw kind) then true
  else if negb (attr_observable pos kind) then true
  else match render_tag clause kw cls 7%N pos kind with
       | Some (e, c, n) => Bool.eqb e (spec_explicit clause kw kind) && tclass_eqb c cls && N.eqb n 7
       | None => false
       end.

(* the whole configuration space of the property, closed by computation *)
Lemma config_space :
  forallb (fun clause => forallb (fun kw => forallb (fun cls => forallb (fun pos => forallb (fun kind =>
    config_ok clause kw cls pos kind) all_kinds) all_positions) all_classes) all_kws) all_clauses = true.
Proof. vm_compute. reflexivity. Qed.

Lemma all_clauses_complete c : In c all_clauses.
Proof. destruct c as [[| |]|]; cbn; tauto. Qed.
Lemma all_kws_complete k : In k all_kws \/ k = Some Automatic.
Proof. destruct k as [[| |]|]; cbn; tauto. Qed.
Lemma all_classes_complete c : In c all_classes. Proof. destruct c; cbn; tauto. Qed.
Lemma all_positions_complete p : In p all_positions. Proof. destruct p; cbn; tauto. Qed.
Lemma all_kinds_complete k : In k all_kinds. Proof. destruct k; cbn; tauto. Qed.

Lemma mode_correct clause kw cls pos kind :
  In kw all_kws -> known_no_clause clause kw = false -> known_element pos = false ->
  legal_tag kw kind = true -> attr_observable pos kind = true ->
  exists c n, render_tag clause kw cls 7%N pos kind = Some (spec_explicit clause kw kind, c, n).
Proof.
  intros Hkw Hk He Hl Ho. pose proof config_space as H.
  rewrite forallb_forall in H. specialize (H clause (all_clauses_complete clause)).
  rewrite forallb_forall in H. specialize (H kw Hkw).
  rewrite forallb_forall in H. specialize (H cls (all_classes_complete cls)).
  rewrite forallb_forall in H. specialize (H pos (all_positions_complete pos)).
  rewrite forallb_forall in H. specialize (H kind (all_kinds_complete kind)).
  unfold config_ok in H. rewrite Hk, He, Hl, Ho in H. cbn [negb orb] in H.
  destruct (render_tag clause kw cls 7 pos kind) as [[[e c] n]|]; [|discriminate].
  apply andb_true_iff in H as [H _]. apply andb_true_iff in H as [H _].
  apply eqb_prop in H. subst. eauto.
Qed.

(* the number plays no role *)
Lemma render_number_irrelevant clause kw cls n m pos kind :
  option_map (fun x => fst (fst x)) (render_tag clause kw cls n pos kind)
  = option_map (fun x => fst (fst x)) (render_tag clause kw cls m pos kind).
Proof.
  unfold render_tag. destruct pos, kind; cbn; try reflexivity.
  destruct (tenv_eqb (header_env clause) Explicit); reflexivity.
Qed.

Lemma no_clause_refuted :
  exists kw cls pos kind e,
    render_tag None kw cls 0%N pos kind = Some (e, cls, 0%N) /\ e <> spec_explicit None kw kind
    /\ attr_observable pos kind = true.
Proof. exists None, Context, Component, Primitive, false. repeat split; discriminate. Qed.

Lemma automatic_iff clause tagged :
  automatic_tags clause tagged = true <-> (clause = Some Automatic /\ forall b, In b tagged -> b = false).
Proof.
  unfold automatic_tags. rewrite andb_true_iff, negb_true_iff. split.
  - intros [H1 H2]. split.
    + destruct clause as [[| |]|]; cbn in H1; try discriminate; reflexivity.
    + intros b Hb. destruct b; [|reflexivity]. exfalso.
      assert (existsb (fun b => b) tagged = true) by (apply existsb_exists; exists true; auto). congruence.
  - intros [-> H]. split; [reflexivity|].
    destruct (existsb (fun b => b) tagged) eqn:E; [|reflexivity].
    apply existsb_exists in E as [x [Hx Hx2]]. subst. specialize (H true Hx). discriminate.
Qed.

Lemma automatic_matches_spec clause tagged : automatic_tags clause tagged = spec_automatic clause tagged.
Proof.
  unfold automatic_tags, spec_automatic.
  destruct clause as [[| |]|]; cbn; try reflexivity.
  induction tagged as [|b r IH]; cbn; [reflexivity|]. destruct b; cbn; [reflexivity | exact IH].
Qed.

(* apply is idempotent and independent of what it is applied to earlier: env + (env + t) = env + t *)
Lemma env_add_idem env t : env_add env (env_add env t) = env_add env t.
Proof. destruct env, t; reflexivity. Qed.

(* ---- every depth: the module default reaches every tag of a type, however deeply nested *)
Scheme tty_ind2 := Induction for tty Sort Prop
  with tlist_ind2 := Induction for tlist Sort Prop.
Combined Scheme tty_tlist_ind from tty_ind2, tlist_ind2.

Lemma apply_rec_tags env :
  (forall t, tags_of (apply_rec env t) = map (apply_env env) (tags_of t)) /\
  (forall l, tags_of_list (apply_list env l) = map (apply_env env) (tags_of_list l)).
Proof.
  apply tty_tlist_ind; cbn [apply_rec apply_list tags_of tags_of_list]; intros; auto.
  rewrite !map_app, H, H0. destruct t; reflexivity.
Qed.

Lemma apply_rec_every_depth env t x :
  In x (tags_of (apply_rec env t)) ->
  exists w, In w (tags_of t) /\ tcls x = tcls w /\ tnum x = tnum w
            /\ tenvironment x = env_add env (tenvironment w).
Proof.
  rewrite (proj1 (apply_rec_tags env)). intro H. apply in_map_iff in H as [w [Hw Hin]].
  exists w. subst x. auto.
Qed.
