From Coq Require Import NArith Arith List Bool Lia.
Require Import RasnV.Model.Base RasnV.Model.Config.
Import ListNotations.

Lemma add_derive_incl acc d x : In x acc -> In x (add_derive acc d).
Proof. unfold add_derive. destruct (str_in d acc); [auto | intro; apply in_or_app; now left]. Qed.

Lemma add_derive_in acc d : In d (add_derive acc d).
Proof.
  unfold add_derive. destruct (str_in d acc) eqn:E; [now apply str_in_In | apply in_or_app; right; now left].
Qed.

Lemma add_derive_nodup acc d : NoDup acc -> NoDup (add_derive acc d).
Proof.
  unfold add_derive. intro H. destruct (str_in d acc) eqn:E; [exact H|].
  assert (Hn : ~ In d acc) by (intro Hin; apply str_in_In in Hin; congruence).
  clear E. induction acc as [|a r IH]; cbn [app]; [repeat constructor; tauto|].
  inversion H as [|? ? Ha Hr]; subst. constructor.
  - intro Hin. apply in_app_or in Hin as [Hin|[Hin|[]]]; [tauto | subst; apply Hn; now left].
  - apply IH; [exact Hr | intro Hin; apply Hn; now right].
Qed.

Lemma add_derive_prefix acc d : exists t, add_derive acc d = acc ++ t.
Proof. unfold add_derive. destruct (str_in d acc); [exists []; now rewrite app_nil_r | now exists [d]]. Qed.

Lemma add_derive_only acc d x : In x (add_derive acc d) -> In x acc \/ x = d.
Proof.
  unfold add_derive. destruct (str_in d acc); [tauto|]. intro H. apply in_app_or in H as [H|[H|[]]]; [now left | right; now symmetry].
Qed.

Lemma fold_add_spec l : forall acc,
  NoDup acc ->
  NoDup (fold_left add_derive l acc) /\
  (forall x, In x (fold_left add_derive l acc) <-> In x acc \/ In x l) /\
  exists t, fold_left add_derive l acc = acc ++ t.
Proof.
  induction l as [|d l IH]; intros acc Hnd; cbn [fold_left].
  - split; [exact Hnd|]. split; [intro x; cbn; tauto | exists []; now rewrite app_nil_r].
  - destruct (IH (add_derive acc d) (add_derive_nodup acc d Hnd)) as [H1 [H2 [t Ht]]].
    split; [exact H1|]. split.
    + intro x. rewrite H2. cbn [In]. split.
      * intros [H|H]; [apply add_derive_only in H as [H|H]; [now left | right; left; now symmetry] | right; now right].
      * intros [H|[H|H]]; [left; now apply add_derive_incl | left; subst; apply add_derive_in | now right].
    + destruct (add_derive_prefix acc d) as [t0 Ht0]. exists (t0 ++ t). rewrite Ht, Ht0. now rewrite app_assoc.
Qed.

Theorem merge_derives_spec required user :
  NoDup required ->
  NoDup (merge_derives required user) /\
  (forall x, In x (merge_derives required user) <-> In x required \/ In x (concat user)) /\
  exists t, merge_derives required user = required ++ t.
Proof. intro H. unfold merge_derives. now apply fold_add_spec. Qed.

Lemma count_ty_pos t l : (0 < count_ty t l)%nat <-> In t l.
Proof.
  induction l as [|x r IH]; cbn [count_ty In]; [split; [lia | tauto]|].
  destruct (str_eqb t x) eqn:E.
  - apply str_eqb_eq in E. subst. split; [intros _; now left | intros _; lia].
  - split.
    + intro H. right. apply IH. lia.
    + intros [H|H]; [subst; exfalso; assert (str_eqb t t = true) by (apply str_eqb_eq; reflexivity); congruence | apply IH in H; lia].
Qed.

Theorem from_impl_spec alts a :
  In a (from_impl_alts alts) <-> In a alts /\ count_ty (snd a) (map snd alts) = 1%nat.
Proof.
  unfold from_impl_alts. rewrite filter_In. split; intros [H1 H2]; (split; [exact H1|]).
  - now apply Nat.eqb_eq.
  - now apply Nat.eqb_eq.
Qed.
