From Coq Require Import NArith List Bool Lia ZifyBool ZifyN.
Require Import RasnV.Model.Base RasnV.Gen.T02 RasnV.Model.Names RasnV.Spec.Idents.
Import ListNotations.
Local Open Scope N_scope.

Ltac chars :=
  unfold to_lower, to_upper, ident_char, is_alnum, is_letter in *;
  unfold is_lower, is_upper, is_digit, hyphen, underscore in *;
  repeat match goal with
         | |- context [if ?b then _ else _] => destruct b eqn:?
         | H : context [if ?b then _ else _] |- _ => destruct b eqn:?
         end;
  lia.

(* ---------- keyword facts, recomputed against the translated table on every run *)

Definition starts_with (p s : str) : bool := str_eqb p (firstn (length p) s).

Lemma spec_subset_table : forallb (fun k => str_in k rust_keywords) spec_keywords = true.
Proof. vm_compute. reflexivity. Qed.

Lemma spec_no_prefix :
  forallb (fun k => negb (starts_with [114; 95] k) && negb (starts_with [82; 95] k)) spec_keywords = true.
Proof. vm_compute. reflexivity. Qed.

Lemma spec_no_underscore : forallb (fun k => negb (existsb (N.eqb underscore) k)) spec_keywords = true.
Proof. vm_compute. reflexivity. Qed.

Lemma spec_has_lower : forallb (fun k => existsb is_lower k) spec_keywords = true.
Proof. vm_compute. reflexivity. Qed.

Lemma spec_in_table s : str_in s spec_keywords = true -> str_in s rust_keywords = true.
Proof.
  intro H. apply str_in_In in H. pose proof spec_subset_table as K.
  rewrite forallb_forall in K. exact (K s H).
Qed.

Lemma prefixed_r_not_kw l : str_in (114 :: 95 :: l) spec_keywords = false.
Proof.
  destruct (str_in (114 :: 95 :: l) spec_keywords) eqn:E; [|reflexivity].
  apply str_in_In in E. pose proof spec_no_prefix as K. rewrite forallb_forall in K.
  specialize (K _ E). apply andb_true_iff in K as [K _].
  unfold starts_with in K. cbn in K. discriminate.
Qed.

Lemma prefixed_R_not_kw l : str_in (82 :: 95 :: l) spec_keywords = false.
Proof.
  destruct (str_in (82 :: 95 :: l) spec_keywords) eqn:E; [|reflexivity].
  apply str_in_In in E. pose proof spec_no_prefix as K. rewrite forallb_forall in K.
  specialize (K _ E). apply andb_true_iff in K as [_ K].
  unfold starts_with in K. cbn in K. discriminate.
Qed.

Lemma not_table_not_kw s : str_in s rust_keywords = false -> str_in s spec_keywords = false.
Proof.
  intro H. destruct (str_in s spec_keywords) eqn:E; [|reflexivity].
  apply spec_in_table in E. congruence.
Qed.

(* ---------- ASN.1 identifiers *)

Definition asn_char c := is_alnum c || (c =? hyphen).

Lemma asn1_tail_chars s : asn1_tail s = true -> forallb asn_char s = true.
Proof.
  induction s as [|c r IH]; cbn [asn1_tail forallb]; intro H; [reflexivity|].
  destruct (c =? hyphen) eqn:E.
  - apply andb_true_iff in H as [_ H]. rewrite (IH H). unfold asn_char. rewrite E, orb_true_r. reflexivity.
  - apply andb_true_iff in H as [H1 H]. rewrite (IH H). unfold asn_char. rewrite H1. reflexivity.
Qed.

Lemma asn1_ident_inv s :
  asn1_ident s = true -> exists c r, s = c :: r /\ is_letter c = true /\ forallb asn_char r = true.
Proof.
  destruct s as [|c r]; cbn [asn1_ident]; intro H; [discriminate|].
  apply andb_true_iff in H as [H1 H2]. exists c, r. repeat split; auto using asn1_tail_chars.
Qed.

Lemma replace_hyphen_cons c r :
  replace_hyphen (c :: r) = (if c =? hyphen then underscore else c) :: replace_hyphen r.
Proof. reflexivity. Qed.

Lemma replace_hyphen_chars s : forallb asn_char s = true -> forallb ident_char (replace_hyphen s) = true.
Proof.
  induction s as [|c r IH]; intro H; [reflexivity|].
  cbn [forallb] in H. apply andb_true_iff in H as [H1 H2].
  rewrite replace_hyphen_cons. cbn [forallb]. rewrite (IH H2), andb_true_r.
  unfold asn_char in H1. destruct (c =? hyphen) eqn:E; chars.
Qed.

Lemma replace_hyphen_letter c : is_letter c = true -> (if c =? hyphen then underscore else c) = c.
Proof. intro H. destruct (c =? hyphen) eqn:E; [chars | reflexivity]. Qed.

Lemma forallb_prefix2 (p : N -> bool) a b l :
  p a = true -> p b = true -> forallb p l = true -> forallb p (a :: b :: l) = true.
Proof. intros Ha Hb Hl. cbn [forallb]. rewrite Ha, Hb, Hl. reflexivity. Qed.

Lemma ok_assemble c r :
  is_letter c = true -> forallb ident_char (c :: r) = true -> str_in (c :: r) spec_keywords = false ->
  rust_ident_ok (c :: r) = true.
Proof. intros H1 H2 H3. unfold rust_ident_ok. rewrite H1, H2, H3. reflexivity. Qed.

(* ---------- snake case *)

Definition snake_char c := is_lower c || is_digit c || (c =? underscore).

Lemma snake_body_chars s : forallb ident_char s = true -> forallb snake_char (snake_body s) = true.
Proof.
  induction s as [|c r IH]; cbn [forallb snake_body]; intro H; [reflexivity|].
  apply andb_true_iff in H as [H1 H2]. specialize (IH H2).
  destruct (is_lower c || (c =? underscore) || is_digit c) eqn:E.
  - destruct (negb (c =? underscore) && match r with n :: _ => is_upper n | [] => false end);
      cbn [forallb]; rewrite IH, ?andb_true_r; unfold snake_char; try (cbn; chars); chars.
  - cbn [forallb]. rewrite IH, andb_true_r. unfold snake_char. chars.
Qed.

Lemma snake_char_ident c : snake_char c = true -> ident_char c = true.
Proof. unfold snake_char. chars. Qed.

Lemma forallb_impl {A} (p q : A -> bool) l :
  (forall x, p x = true -> q x = true) -> forallb p l = true -> forallb q l = true.
Proof.
  intros Hpq. induction l as [|x l IH]; cbn; [auto|]. intro H. apply andb_true_iff in H as [H1 H2].
  rewrite (Hpq _ H1), (IH H2). reflexivity.
Qed.

Lemma snake_body_first c r :
  is_letter c = true -> exists c' t, snake_body (c :: r) = c' :: t /\ is_lower c' = true.
Proof.
  intro H. cbn [snake_body].
  destruct (is_lower c || (c =? underscore) || is_digit c) eqn:E.
  - assert (is_lower c = true) by chars.
    destruct (negb (c =? underscore) && match r with n :: _ => is_upper n | [] => false end); eauto.
  - exists (to_lower c), (snake_body r). split; [reflexivity | chars].
Qed.

Lemma snake_legal s : asn1_ident s = true -> rust_ident_ok (snake s) = true.
Proof.
  intro H. apply asn1_ident_inv in H as [c [r [-> [Hc Hr]]]].
  unfold snake. rewrite replace_hyphen_cons, (replace_hyphen_letter c Hc).
  assert (Hchars : forallb ident_char (c :: replace_hyphen r) = true).
  { cbn [forallb]. rewrite (replace_hyphen_chars r Hr), andb_true_r. chars. }
  pose proof (snake_body_chars _ Hchars) as Hs.
  destruct (snake_body_first c (replace_hyphen r) Hc) as [c' [t [Et Hc']]].
  rewrite Et in *.
  destruct (str_in (c' :: t) rust_keywords) eqn:E.
  - apply ok_assemble; [reflexivity | | apply prefixed_r_not_kw].
    apply forallb_prefix2; [reflexivity | reflexivity | apply (forallb_impl _ _ _ snake_char_ident Hs)].
  - apply ok_assemble; [chars | apply (forallb_impl _ _ _ snake_char_ident Hs) | apply not_table_not_kw; exact E].
Qed.

(* ---------- const case *)

Lemma no_lower_not_kw s : existsb is_lower s = false -> str_in s spec_keywords = false.
Proof.
  intro H. destruct (str_in s spec_keywords) eqn:E; [|reflexivity].
  apply str_in_In in E. pose proof spec_has_lower as K. rewrite forallb_forall in K.
  rewrite (K _ E) in H. discriminate.
Qed.

Lemma upper_no_lower l : forallb snake_char l = true -> existsb is_lower (map to_upper l) = false.
Proof.
  induction l as [|c l IH]; cbn [forallb map existsb]; intro H; [reflexivity|].
  apply andb_true_iff in H as [H1 H2]. rewrite (IH H2), orb_false_r. unfold snake_char in H1. chars.
Qed.

Lemma upper_ident l : forallb snake_char l = true -> forallb ident_char (map to_upper l) = true.
Proof.
  induction l as [|c l IH]; cbn [forallb map]; intro H; [reflexivity|].
  apply andb_true_iff in H as [H1 H2]. rewrite (IH H2), andb_true_r. unfold snake_char in H1. chars.
Qed.

Lemma const_legal s : asn1_ident s = true -> rust_ident_ok (const_case s) = true.
Proof.
  intro H. apply asn1_ident_inv in H as [c [r [-> [Hc Hr]]]].
  unfold const_case, snake. rewrite replace_hyphen_cons, (replace_hyphen_letter c Hc).
  assert (Hchars : forallb ident_char (c :: replace_hyphen r) = true).
  { cbn [forallb]. rewrite (replace_hyphen_chars r Hr), andb_true_r. chars. }
  pose proof (snake_body_chars _ Hchars) as Hs.
  destruct (snake_body_first c (replace_hyphen r) Hc) as [c' [t [Et Hc']]].
  rewrite Et in *.
  destruct (str_in (c' :: t) rust_keywords) eqn:E.
  - assert (Hs' : forallb snake_char (114 :: 95 :: c' :: t) = true) by (apply forallb_prefix2; [reflexivity | reflexivity | exact Hs]).
    change (map to_upper (114 :: 95 :: c' :: t)) with (to_upper 114 :: map to_upper (95 :: c' :: t)).
    apply ok_assemble; [reflexivity | apply (upper_ident _ Hs') | apply no_lower_not_kw, (upper_no_lower _ Hs')].
  - cbn [map]. apply ok_assemble; [chars | apply (upper_ident _ Hs) | apply no_lower_not_kw, (upper_no_lower _ Hs)].
Qed.

(* ---------- enum identifiers *)

Lemma replace_hyphen_id s : existsb (N.eqb underscore) (replace_hyphen s) = false -> replace_hyphen s = s.
Proof.
  induction s as [|c r IH]; intro H; [reflexivity|].
  rewrite replace_hyphen_cons in *. cbn [existsb] in H.
  apply orb_false_iff in H as [H1 H2]. rewrite (IH H2).
  destruct (c =? hyphen) eqn:E; [|reflexivity]. unfold underscore in H1. cbn in H1. discriminate.
Qed.

Lemma enum_legal s : asn1_ident s = true -> rust_ident_ok (enum_ident s) = true.
Proof.
  intro H. pose proof H as Hid. apply asn1_ident_inv in H as [c [r [-> [Hc Hr]]]].
  unfold enum_ident.
  assert (Hchars : forallb ident_char (replace_hyphen (c :: r)) = true).
  { apply replace_hyphen_chars. cbn [forallb]. rewrite Hr, andb_true_r. unfold asn_char. chars. }
  destruct (str_in (c :: r) rust_keywords) eqn:E.
  - apply ok_assemble; [reflexivity | apply forallb_prefix2; [reflexivity | reflexivity | exact Hchars] | apply prefixed_R_not_kw].
  - rewrite replace_hyphen_cons, (replace_hyphen_letter c Hc) in *.
    apply ok_assemble; [exact Hc | exact Hchars |].
    destruct (str_in (c :: replace_hyphen r) spec_keywords) eqn:K; [|reflexivity].
    exfalso. pose proof K as K'. apply str_in_In in K'.
    pose proof spec_no_underscore as U. rewrite forallb_forall in U. specialize (U _ K').
    apply negb_true_iff in U. cbn [existsb] in U. apply orb_false_iff in U as [_ U].
    rewrite (replace_hyphen_id r U) in K. apply spec_in_table in K. congruence.
Qed.

(* ---------- title case *)

Lemma title_fold_chars s : forall acc,
  forallb ident_char acc = true -> forallb ident_char s = true ->
  forallb ident_char (title_fold acc s) = true.
Proof.
  induction s as [|c r IH]; intros acc Ha Hs; cbn [title_fold].
  - rewrite forallb_forall in *. intros x Hx. apply Ha. apply in_rev. exact Hx.
  - cbn [forallb] in Hs. apply andb_true_iff in Hs as [Hc Hr].
    destruct acc as [|l acc'].
    + destruct (is_lower c); apply IH; auto; cbn [forallb]; rewrite andb_true_r; chars.
    + cbn [forallb] in Ha. apply andb_true_iff in Ha as [Hl Ha'].
      destruct (l =? underscore); apply IH; auto; cbn [forallb].
      * rewrite Ha', andb_true_r. chars.
      * rewrite Hc, Hl, Ha'. reflexivity.
Qed.

Lemma title_fold_first s : forall acc0 f,
  is_letter f = true -> exists t, title_fold (acc0 ++ [f]) s = f :: t.
Proof.
  induction s as [|c r IH]; intros acc0 f Hf; cbn [title_fold].
  - rewrite rev_app_distr. cbn. eauto.
  - destruct acc0 as [|l a']; cbn [app].
    + assert ((f =? underscore) = false) as -> by chars.
      apply (IH [c] f Hf).
    + destruct (l =? underscore).
      * apply (IH (to_upper c :: a') f Hf).
      * apply (IH (c :: l :: a') f Hf).
Qed.

Lemma title_legal s : asn1_ident s = true -> rust_ident_ok (title s) = true.
Proof.
  intro H. apply asn1_ident_inv in H as [c [r [-> [Hc Hr]]]].
  unfold title. rewrite replace_hyphen_cons, (replace_hyphen_letter c Hc).
  cbn [title_fold].
  set (f := if is_lower c then to_upper c else c).
  assert (Hf : is_letter f = true) by (unfold f; destruct (is_lower c) eqn:E; chars).
  assert (Efold : (if is_lower c then title_fold [to_upper c] (replace_hyphen r) else title_fold [c] (replace_hyphen r))
                  = title_fold ([] ++ [f]) (replace_hyphen r)) by (unfold f; destruct (is_lower c); reflexivity).
  rewrite Efold.
  destruct (title_fold_first (replace_hyphen r) [] f Hf) as [t Et].
  assert (Hchars : forallb ident_char (title_fold ([] ++ [f]) (replace_hyphen r)) = true).
  { apply title_fold_chars; [cbn; rewrite andb_true_r; chars | apply replace_hyphen_chars; exact Hr]. }
  rewrite Et in *.
  destruct (str_in (f :: t) rust_keywords) eqn:E.
  - apply ok_assemble; [reflexivity | apply forallb_prefix2; [reflexivity | reflexivity | exact Hchars] | apply prefixed_R_not_kw].
  - apply ok_assemble; [exact Hf | exact Hchars | apply not_table_not_kw; exact E].
Qed.

(* ---------- skeleton: the ASN.1 name stays recoverable up to case, separators and the r_/R_ escape *)

Lemma skeleton_app a b : skeleton (a ++ b) = skeleton a ++ skeleton b.
Proof. unfold skeleton. rewrite filter_app, map_app. reflexivity. Qed.

Lemma skeleton_cons_alnum c s : is_alnum c = true -> skeleton (c :: s) = to_lower c :: skeleton s.
Proof. intro H. unfold skeleton. cbn [filter]. rewrite H. reflexivity. Qed.

Lemma skeleton_cons_drop c s : is_alnum c = false -> skeleton (c :: s) = skeleton s.
Proof. intro H. unfold skeleton. cbn [filter]. rewrite H. reflexivity. Qed.

Lemma skeleton_replace_hyphen s : skeleton (replace_hyphen s) = skeleton s.
Proof.
  induction s as [|c r IH]; [reflexivity|]. rewrite replace_hyphen_cons.
  destruct (c =? hyphen) eqn:E.
  - assert (A : is_alnum c = false) by chars.
    rewrite (skeleton_cons_drop underscore) by reflexivity. rewrite (skeleton_cons_drop c r A). exact IH.
  - destruct (is_alnum c) eqn:A.
    + rewrite (skeleton_cons_alnum c (replace_hyphen r) A), (skeleton_cons_alnum c r A). f_equal. exact IH.
    + rewrite (skeleton_cons_drop c (replace_hyphen r) A), (skeleton_cons_drop c r A). exact IH.
Qed.

Lemma skeleton_snake_body s : skeleton (snake_body s) = skeleton s.
Proof.
  induction s as [|c r IH]; [reflexivity|]. cbn [snake_body].
  destruct (is_lower c || (c =? underscore) || is_digit c) eqn:E.
  - destruct (negb (c =? underscore) && match r with n :: _ => is_upper n | [] => false end).
    + destruct (is_alnum c) eqn:A.
      * rewrite (skeleton_cons_alnum c (underscore :: snake_body r) A), (skeleton_cons_alnum c r A).
        rewrite (skeleton_cons_drop underscore) by reflexivity. f_equal. exact IH.
      * rewrite (skeleton_cons_drop c (underscore :: snake_body r) A), (skeleton_cons_drop c r A).
        rewrite (skeleton_cons_drop underscore) by reflexivity. exact IH.
    + destruct (is_alnum c) eqn:A.
      * rewrite (skeleton_cons_alnum c (snake_body r) A), (skeleton_cons_alnum c r A). f_equal. exact IH.
      * rewrite (skeleton_cons_drop c (snake_body r) A), (skeleton_cons_drop c r A). exact IH.
  - destruct (is_alnum c) eqn:A.
    + assert (A' : is_alnum (to_lower c) = true) by chars.
      rewrite (skeleton_cons_alnum (to_lower c) (snake_body r) A'), (skeleton_cons_alnum c r A).
      f_equal; [chars | exact IH].
    + assert (to_lower c = c) as -> by chars.
      rewrite (skeleton_cons_drop c (snake_body r) A), (skeleton_cons_drop c r A). exact IH.
Qed.

Lemma snake_skeleton s : skeleton (snake s) = skeleton s \/ skeleton (snake s) = 114 :: skeleton s.
Proof.
  unfold snake. destruct (str_in _ rust_keywords).
  - right. rewrite skeleton_cons_alnum by reflexivity. rewrite skeleton_cons_drop by reflexivity.
    rewrite skeleton_snake_body, skeleton_replace_hyphen. reflexivity.
  - left. rewrite skeleton_snake_body, skeleton_replace_hyphen. reflexivity.
Qed.

Lemma skeleton_map_upper l : skeleton (map to_upper l) = skeleton l.
Proof.
  induction l as [|c l IH]; [reflexivity|]. cbn [map].
  destruct (is_alnum c) eqn:A.
  - assert (A' : is_alnum (to_upper c) = true) by chars.
    rewrite (skeleton_cons_alnum (to_upper c) (map to_upper l) A'), (skeleton_cons_alnum c l A).
    f_equal; [chars | exact IH].
  - assert (to_upper c = c) as -> by chars.
    rewrite (skeleton_cons_drop c (map to_upper l) A), (skeleton_cons_drop c l A). exact IH.
Qed.

Lemma const_skeleton s : skeleton (const_case s) = skeleton s \/ skeleton (const_case s) = 114 :: skeleton s.
Proof. unfold const_case. rewrite skeleton_map_upper. apply snake_skeleton. Qed.

Lemma enum_skeleton s : skeleton (enum_ident s) = skeleton s \/ skeleton (enum_ident s) = 114 :: skeleton s.
Proof.
  unfold enum_ident. destruct (str_in s rust_keywords).
  - right. rewrite skeleton_cons_alnum by reflexivity. rewrite skeleton_cons_drop by reflexivity.
    rewrite skeleton_replace_hyphen. reflexivity.
  - left. apply skeleton_replace_hyphen.
Qed.

Lemma skeleton_one c : skeleton [c] = if is_alnum c then [to_lower c] else [].
Proof. unfold skeleton. cbn. destruct (is_alnum c); reflexivity. Qed.

Lemma skeleton_cons c s : skeleton (c :: s) = skeleton [c] ++ skeleton s.
Proof. change (c :: s) with ([c] ++ s). apply skeleton_app. Qed.

Lemma skeleton_upper_one c : skeleton [to_upper c] = skeleton [c].
Proof.
  rewrite !skeleton_one. destruct (is_alnum c) eqn:A.
  - assert (is_alnum (to_upper c) = true) as -> by chars. f_equal. chars.
  - assert (to_upper c = c) as -> by chars. rewrite A. reflexivity.
Qed.

Lemma skeleton_title_fold s : forall acc, skeleton (title_fold acc s) = skeleton (rev acc) ++ skeleton s.
Proof.
  induction s as [|c r IH]; intro acc; cbn [title_fold].
  - unfold skeleton at 3. cbn. rewrite app_nil_r. reflexivity.
  - rewrite (skeleton_cons c r).
    destruct acc as [|l acc'].
    + destruct (is_lower c) eqn:E; rewrite IH; cbn [rev app].
      * rewrite skeleton_upper_one. reflexivity.
      * reflexivity.
    + destruct (l =? underscore) eqn:E; rewrite IH; cbn [rev]; rewrite !skeleton_app.
      * rewrite skeleton_upper_one. rewrite <- !app_assoc. f_equal.
        assert (skeleton [l] = []) as -> by (rewrite skeleton_one; assert (is_alnum l = false) as -> by chars; reflexivity).
        reflexivity.
      * rewrite <- !app_assoc. reflexivity.
Qed.

Lemma title_skeleton s : skeleton (title s) = skeleton s \/ skeleton (title s) = 114 :: skeleton s.
Proof.
  unfold title. destruct (str_in _ rust_keywords).
  - right. rewrite skeleton_cons_alnum by reflexivity. rewrite skeleton_cons_drop by reflexivity.
    rewrite skeleton_title_fold. cbn [rev app]. rewrite skeleton_replace_hyphen. reflexivity.
  - left. rewrite skeleton_title_fold. cbn [rev app]. apply skeleton_replace_hyphen.
Qed.

Lemma identifier_attr_spec m o :
  (identifier_attr m o = None <-> m = o) /\ (m <> o -> identifier_attr m o = Some o).
Proof.
  unfold identifier_attr. destruct (str_eqb m o) eqn:E.
  - apply str_eqb_eq in E. split; [tauto | congruence].
  - assert (m <> o) by (intro Hc; apply str_eqb_eq in Hc; congruence). split; [split; [discriminate | tauto] | reflexivity].
Qed.
