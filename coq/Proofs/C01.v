From Coq Require Import NArith Arith List Bool Lia.
Require Import RasnV.Model.Base RasnV.Model.WellFormed.
Import ListNotations.

Lemma dup_free_NoDup l : dup_free l = true -> NoDup l.
Proof.
  induction l as [|x r IH]; cbn; [constructor|]. intro H. apply andb_true_iff in H as [H1 H2].
  constructor; [|now apply IH]. intro Hin. apply str_in_In in Hin. rewrite Hin in H1. discriminate.
Qed.

Theorem names_unique_sound items others :
  names_unique items others = true ->
  NoDup (map i_name items ++ others) /\ forall it, In it items -> NoDup (i_members it).
Proof.
  unfold names_unique. intro H. apply andb_true_iff in H as [H1 H2]. split; [now apply dup_free_NoDup|].
  intros it Hin. rewrite forallb_forall in H2. apply dup_free_NoDup. now apply H2.
Qed.

Theorem resolved_sound items universe :
  resolved items universe = true ->
  forall it n, In it items -> In n (i_mentions it) -> In n (map i_name items) \/ In n universe.
Proof.
  unfold resolved. intros H it n Hit Hn. rewrite forallb_forall in H. specialize (H it Hit).
  rewrite forallb_forall in H. specialize (H n Hn). apply orb_true_iff in H as [H|H]; [left | right]; now apply str_in_In.
Qed.

(* by-value containment between items of the module *)
Inductive contains (items : list item) : str -> str -> Prop :=
| contains_step a b it : In it items -> i_name it = a -> In b (i_by_value it) -> In b (map i_name items) -> contains items a b
| contains_trans a b c : contains items a b -> contains items b c -> contains items a c.

Lemma index_of_some n l : In n l -> exists k, index_of n l = Some k.
Proof.
  induction l as [|x r IH]; cbn; [tauto|]. intro H. destruct (str_eqb n x) eqn:E; [now exists 0|].
  destruct H as [->|H]; [assert (str_eqb n n = true) by (apply str_eqb_eq; reflexivity); congruence|].
  destruct (IH H) as [k ->]. now exists (S k).
Qed.

Theorem finite_by_sound order items :
  finite_by order items = true -> (forall it, In it items -> In (i_name it) order) ->
  forall a b, contains items a b ->
    exists ia ib, index_of a order = Some ia /\ index_of b order = Some ib /\ ib < ia.
Proof.
  intros H Hall a b Hc. induction Hc as [a b it Hit Hn Hb Hbi | a b c _ [ia [ib [Ha [Hb Hlt]]]] _ [ib' [ic [Hb' [Hc Hlt']]]]].
  - unfold finite_by in H. rewrite forallb_forall in H. specialize (H it Hit). rewrite forallb_forall in H. specialize (H b Hb).
    unfold edge_ok in H. subst a.
    apply in_map_iff in Hbi as [itb [Hnb Hitb]].
    destruct (index_of_some _ _ (Hall it Hit)) as [ia Ea]. rewrite Ea in H.
    assert (Hbo : In b order) by (rewrite <- Hnb; now apply Hall).
    destruct (index_of_some _ _ Hbo) as [ib Eb]. rewrite Eb in H. apply Nat.ltb_lt in H.
    exists ia, ib. repeat split; assumption.
  - rewrite Hb in Hb'. inversion Hb'; subst. exists ia, ic. repeat split; [assumption | assumption | lia].
Qed.

(* hence no item contains itself by value: every item has finite size *)
Theorem no_infinite_size order items :
  finite_by order items = true -> (forall it, In it items -> In (i_name it) order) ->
  forall a, ~ contains items a a.
Proof.
  intros H Hall a Hc. destruct (finite_by_sound order items H Hall a a Hc) as [ia [ib [Ha [Hb Hlt]]]].
  rewrite Ha in Hb. inversion Hb; subst. lia.
Qed.
