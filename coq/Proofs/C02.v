From Coq Require Import NArith Arith List Bool Lia.
Require Import RasnV.Model.Base RasnV.Model.Names RasnV.Model.Components.
Import ListNotations.

Lemma only_members_map l : only_members (map CMember l) = l.
Proof. induction l as [|m r IH]; cbn; [reflexivity | now rewrite IH]. Qed.

Lemma only_refs_map l : only_refs (map CMember l) = [].
Proof. induction l as [|m r IH]; cbn; [reflexivity | exact IH]. Qed.

Theorem assemble_plain r marker a :
  assemble (map CMember r) marker (map CMember a) = mkseq (r ++ a) [] (if marker then Some (length r) else None).
Proof.
  unfold assemble. rewrite <- map_app, !only_members_map, only_refs_map. reflexivity.
Qed.

Lemma only_members_app a b : only_members (a ++ b) = only_members a ++ only_members b.
Proof. induction a as [|[m|c] r IH]; cbn; [reflexivity | now rewrite IH | exact IH]. Qed.

(* what one member must become *)
Definition spec_field (parent : str) (addition : bool) (m : member) : field :=
  let t := written_type (m_ty m) (m_name m) parent (m_rec m) in
  mkfield (snake (m_name m))
          (match m_opt m with
           | Optional => s_option_l ++ t ++ s_gt
           | _ => if is_group (m_name m) then s_option_l ++ t ++ s_gt else t
           end)
          (match m_opt m with Default => Some (default_method_name parent (m_name m)) | _ => None end)
          (if addition then (if is_group (m_name m) then 2%N else 1%N) else 0%N).

Definition spec_variant (parent : str) (addition : bool) (m : member) : field :=
  mkfield (enum_ident (m_name m)) (written_type (m_ty m) (m_name m) parent (m_rec m)) None
          (if addition then (if is_group (m_name m) then 2%N else 1%N) else 0%N).

Lemma format_from_below parent k ms : forall i, (i + length ms <= k)%nat ->
  format_from parent (Some k) i ms = map (spec_field parent false) ms.
Proof.
  induction ms as [|m r IH]; intros i H; [reflexivity|]. cbn [format_from map length] in *.
  rewrite IH by lia. f_equal. unfold format_member, spec_field, ext_code.
  destruct (Nat.leb k i) eqn:E; [apply Nat.leb_le in E; lia | reflexivity].
Qed.

Lemma format_from_above parent k ms : forall i, (k <= i)%nat ->
  format_from parent (Some k) i ms = map (spec_field parent true) ms.
Proof.
  induction ms as [|m r IH]; intros i H; [reflexivity|]. cbn [format_from map].
  rewrite IH by lia. f_equal. unfold format_member, spec_field, ext_code.
  destruct (Nat.leb k i) eqn:E; [reflexivity | apply Nat.leb_gt in E; lia].
Qed.

Lemma format_from_none parent ms : forall i, format_from parent None i ms = map (spec_field parent false) ms.
Proof. induction ms as [|m r IH]; intro i; [reflexivity|]. cbn [format_from map]. now rewrite IH. Qed.

Lemma format_from_app parent e a b : forall i,
  format_from parent e i (a ++ b) = format_from parent e i a ++ format_from parent e (i + length a) b.
Proof.
  induction a as [|m r IH]; intro i; cbn [app format_from length]; [now rewrite Nat.add_0_r|].
  rewrite IH. f_equal. f_equal. f_equal. lia.
Qed.

(* SEQUENCE / SET: one field per component, in source order; the components after the marker, and only they, are
   extension additions *)
Theorem fields_of_assembled parent r marker a :
  fields_of parent (assemble (map CMember r) marker (map CMember a)) =
  map (spec_field parent false) r ++ map (spec_field parent marker) a.
Proof.
  rewrite assemble_plain. unfold fields_of. cbn [members extensible]. destruct marker.
  - rewrite format_from_app. cbn [Nat.add]. rewrite format_from_below by lia. rewrite format_from_above by lia. reflexivity.
  - rewrite format_from_none. now rewrite map_app.
Qed.

Lemma options_below parent k ms : forall i, (i + length ms <= k)%nat ->
  options_from parent (Some k) i ms = map (spec_variant parent false) ms.
Proof.
  induction ms as [|m r IH]; intros i H; [reflexivity|]. cbn [options_from map length] in *.
  rewrite IH by lia. f_equal. unfold format_option, spec_variant, ext_code.
  destruct (Nat.leb k i) eqn:E; [apply Nat.leb_le in E; lia | reflexivity].
Qed.

Lemma options_above parent k ms : forall i, (k <= i)%nat ->
  options_from parent (Some k) i ms = map (spec_variant parent true) ms.
Proof.
  induction ms as [|m r IH]; intros i H; [reflexivity|]. cbn [options_from map].
  rewrite IH by lia. f_equal. unfold format_option, spec_variant, ext_code.
  destruct (Nat.leb k i) eqn:E; [reflexivity | apply Nat.leb_gt in E; lia].
Qed.

Lemma options_none parent ms : forall i, options_from parent None i ms = map (spec_variant parent false) ms.
Proof. induction ms as [|m r IH]; intro i; [reflexivity|]. cbn [options_from map]. now rewrite IH. Qed.

Lemma options_app parent e a b : forall i,
  options_from parent e i (a ++ b) = options_from parent e i a ++ options_from parent e (i + length a) b.
Proof.
  induction a as [|m r IH]; intro i; cbn [app options_from length]; [now rewrite Nat.add_0_r|].
  rewrite IH. f_equal. f_equal. f_equal. lia.
Qed.

(* ... also when COMPONENTS OF entries stand between the components (before the linker copies anything): the type's own
   components keep their order and their root / addition status wherever the entries are written *)
Theorem fields_of_assembled_any parent root marker adds :
  fields_of parent (assemble root marker adds) =
  map (spec_field parent false) (only_members root) ++ map (spec_field parent marker) (only_members adds).
Proof.
  unfold assemble, fields_of. cbn [members extensible]. rewrite only_members_app. destruct marker.
  - rewrite format_from_app. cbn [Nat.add]. rewrite format_from_below by lia. rewrite format_from_above by lia. reflexivity.
  - rewrite format_from_none. now rewrite map_app.
Qed.

Theorem variants_of_assembled parent r marker a :
  variants_of parent (assemble (map CMember r) marker (map CMember a)) =
  map (spec_variant parent false) r ++ map (spec_variant parent marker) a.
Proof.
  rewrite assemble_plain. unfold variants_of. cbn [members extensible]. destruct marker.
  - rewrite options_app. cbn [Nat.add]. rewrite options_below by lia. rewrite options_above by lia. reflexivity.
  - rewrite options_none. now rewrite map_app.
Qed.

(* nothing added, dropped, duplicated or reordered *)
Theorem field_names_in_order parent r marker a :
  map f_name (fields_of parent (assemble (map CMember r) marker (map CMember a))) = map (fun m => snake (m_name m)) (r ++ a).
Proof. rewrite fields_of_assembled, map_app, !map_map, map_app. reflexivity. Qed.

(* Option<_> exactly for OPTIONAL components (and extension groups), a default function exactly for DEFAULT ones *)
Lemma spec_field_option parent add m :
  is_group (m_name m) = false ->
  (f_type (spec_field parent add m) = s_option_l ++ written_type (m_ty m) (m_name m) parent (m_rec m) ++ s_gt <-> m_opt m = Optional)
  \/ written_type (m_ty m) (m_name m) parent (m_rec m) = s_option_l ++ written_type (m_ty m) (m_name m) parent (m_rec m) ++ s_gt.
Proof.
  intro Hg. left. unfold spec_field. cbn [f_type]. rewrite Hg. destruct (m_opt m); split; intro H; try reflexivity; try discriminate.
  - exfalso. assert (L : length (written_type (m_ty m) (m_name m) parent (m_rec m)) =
                         length (s_option_l ++ written_type (m_ty m) (m_name m) parent (m_rec m) ++ s_gt)) by (now rewrite <- H).
    rewrite !app_length in L. cbn in L. lia.
  - exfalso. assert (L : length (written_type (m_ty m) (m_name m) parent (m_rec m)) =
                         length (s_option_l ++ written_type (m_ty m) (m_name m) parent (m_rec m) ++ s_gt)) by (now rewrite <- H).
    rewrite !app_length in L. cbn in L. lia.
Qed.

Lemma spec_field_default parent add m :
  f_default (spec_field parent add m) <> None <-> m_opt m = Default.
Proof. unfold spec_field. cbn [f_default]. destruct (m_opt m); split; intro H; try congruence; try discriminate. Qed.

(* recursive components of the in-place and referenced kinds are boxed *)
Lemma written_type_boxed name parent t :
  match t with KNested | KRef _ _ => True | _ => needs_unnesting t = true end ->
  exists inner, written_type t name parent true = s_box_l ++ inner ++ s_gt.
Proof.
  unfold written_type. destruct t; cbn [needs_unnesting type_name]; intro H.
  - discriminate.
  - eexists. reflexivity.
  - rewrite H. eexists. reflexivity.
  - eexists. reflexivity.
Qed.

(* the index of the first addition does not count COMPONENTS OF entries of the root (it did until the fix of
   C02-components-of-extension-index: `extensible = Some 2`, no addition marked) *)
Definition mA : member := mkmember [97]%N (KPlain [98;111;111;108]%N) Required false.
Definition mB : member := mkmember [98]%N (KPlain [98;111;111;108]%N) Required false.
Theorem components_of_index_example :
  let s := assemble [CComponentsOf [88]%N; CMember mA] true [CMember mB] in
  members s = [mA; mB] /\ extensible s = Some 1%nat /\
  map f_ext (fields_of [80]%N s) = [0%N; 1%N].
Proof. vm_compute. repeat split. Qed.
