From Coq Require Import NArith Arith List Bool Lia.
Require Import RasnV.Model.Base RasnV.Model.InputPos RasnV.Model.Excerpt.
Require RasnV.Proofs.C17.
Import ListNotations.

Lemma ceil_from_le fuel s i : ceil_from fuel s i <= length s.
Proof.
  revert i. induction fuel as [|f IH]; intro i; cbn [ceil_from]; [lia|].
  destruct (Nat.leb (length s) i) eqn:E; [lia|]. apply Nat.leb_gt in E.
  destruct (is_boundary s i); [lia | apply IH].
Qed.

Lemma is_boundary_end s : is_boundary s (length s) = true.
Proof.
  unfold is_boundary. assert (nth_error s (length s) = None) as -> by (apply nth_error_None; lia).
  apply Nat.eqb_refl.
Qed.

Lemma ceil_from_boundary : forall fuel s i,
  length s - i < fuel -> is_boundary s (ceil_from fuel s i) = true.
Proof.
  induction fuel as [|f IH]; intros s i H; [lia|]. cbn [ceil_from].
  destruct (Nat.leb (length s) i) eqn:E; [apply is_boundary_end|]. apply Nat.leb_gt in E.
  destruct (is_boundary s i) eqn:B; [exact B|]. apply IH. lia.
Qed.

Lemma ceil_ok s i : slice_ok s (ceil_char_boundary s i) = true.
Proof.
  unfold slice_ok, ceil_char_boundary. apply andb_true_iff. split.
  - apply Nat.leb_le, ceil_from_le.
  - apply ceil_from_boundary. lia.
Qed.

(* the excerpt scan finds a byte that follows a line break: its predecessor is '\n', a boundary *)
Lemma find_unindented_spec : forall s idx prev k,
  find_unindented s idx prev = Some k ->
  (prev = true /\ k = idx) \/ (idx < k /\ nth_error s (k - idx - 1) = Some 10%N).
Proof.
  induction s as [|b r IH]; intros idx prev k H; cbn in H; [discriminate|].
  destruct (prev && is_alnum_ascii b) eqn:E.
  - inversion H; subst. apply andb_true_iff in E as [E _]. left. auto.
  - destruct (IH (S idx) (N.eqb b 10) k H) as [[Hp Hk]|[Hlt Hn]].
    + right. subst k. apply N.eqb_eq in Hp. subst b. split; [lia|].
      replace (S idx - idx - 1) with 0 by lia. reflexivity.
    + right. split; [lia|].
      replace (k - idx - 1) with (S (k - S idx - 1)) by lia. exact Hn.
Qed.

Lemma nth_error_skipn {A} (l : list A) a i : nth_error (skipn a l) i = nth_error l (a + i).
Proof.
  revert l. induction a as [|a IH]; intro l; [reflexivity|]. destruct l as [|x l]; [destruct i; reflexivity|]. apply IH.
Qed.

(* every slice of until_next_unindented is in range and on a character boundary *)
Lemma until_next_unindented_ok input a f : snd (until_next_unindented input a f) = true.
Proof.
  unfold until_next_unindented.
  set (c := ceil_char_boundary input a).
  pose proof (ceil_ok input a) as Hc. fold c in Hc.
  destruct (find_unindented (skipn c input) 0 false) as [idx|] eqn:E; cbn [snd].
  - rewrite Hc. cbn [andb].
    destruct (find_unindented_spec _ _ _ _ E) as [[Hp _]|[Hlt Hn]]; [discriminate|].
    rewrite Nat.sub_0_r in Hn. rewrite nth_error_skipn in Hn.
    unfold slice_ok. replace (idx - 1 + c) with (c + (idx - 1)) by lia.
    assert (Hlen : c + (idx - 1) < length input) by (apply nth_error_Some; congruence).
    apply andb_true_iff. split; [apply Nat.leb_le; lia|].
    unfold is_boundary. rewrite Hn. reflexivity.
  - rewrite Hc, (ceil_ok input f). reflexivity.
Qed.

(* for every report the lexer can produce (C17 invariant), the context start is in range and not after
   the error offset, and the excerpt slices are legal -- provided the context start is a character
   boundary, which holds because contexts are reset only between tokens *)
Lemma contextualize_in_range src ops i :
  run (init src) ops = Some i ->
  is_boundary src (ctx_offset i) = true ->
  contextualize_slices src (report_of i) = true.
Proof.
  intros Hrun Hb. unfold contextualize_slices. cbn [report_of r_ctx_offset r_offset].
  destruct (RasnV.Proofs.C17.inv_run src ops (init src) i (RasnV.Proofs.C17.inv_init src) Hrun) as (Hlen & _ & _ & Hctx & _).
  rewrite until_next_unindented_ok, andb_true_r.
  apply andb_true_iff. split; [|apply Nat.leb_le; exact Hctx].
  unfold slice_ok. rewrite Hb, andb_true_r. apply Nat.leb_le. lia.
Qed.
