From Coq Require Import NArith List Bool.
Require Import RasnV.Model.Base RasnV.Model.Names RasnV.Model.Imports.
Import ListNotations.

Lemma use_line_wildcard symbols :
  existsb (fun u => has_braces u || class_like u) symbols = true -> use_of_clause symbols = Wildcard.
Proof. unfold use_of_clause. now intros ->. Qed.

Lemma use_line_exact symbols :
  forallb (fun u => negb (has_braces u) && negb (class_like u)) symbols = true ->
  forallb (fun u => match u with c :: _ => is_lower c || is_upper c | [] => false end) symbols = true ->
  use_of_clause symbols =
  Items (map (fun u => match u with c :: _ => if is_lower c then const_case u else title u | [] => u end) symbols).
Proof.
  intros H1 H2. unfold use_of_clause.
  assert (He : existsb (fun u => has_braces u || class_like u) symbols = false).
  { clear H2. induction symbols as [|u r IH]; [reflexivity|]. cbn [forallb existsb] in *.
    apply andb_true_iff in H1 as [Hu Hr]. apply andb_true_iff in Hu as [Ha Hb].
    apply negb_true_iff in Ha, Hb. rewrite Ha, Hb. cbn. now apply IH. }
  rewrite He. f_equal. clear H1 He.
  induction symbols as [|u r IH]; [reflexivity|]. cbn [forallb] in H2. apply andb_true_iff in H2 as [Hu Hr].
  cbn [plain_items map]. destruct u as [|c u']; [discriminate|].
  destruct (is_lower c) eqn:El; [now rewrite (IH Hr)|]. cbn [orb] in Hu. rewrite Hu. now rewrite (IH Hr).
Qed.
