(* C09, COMPONENTS OF at ANY position: what the linking pass yields for an acyclic chain is, exactly, the type's own components
   followed by what each notation stands for, in the order of the notations ([appended]) -- a permutation of the meaning of the
   notation.  So the known finding C09-components-of-appended is about order only: no component is lost, added or duplicated,
   whatever the position of the notations, the depth of the chain or the order of the names. *)
From Coq Require Import NArith List Bool Arith Lia Permutation.
Require Import RasnV.Model.Base RasnV.Model.Driver RasnV.Model.Expansion.
Require Import RasnV.Proofs.Driver RasnV.Proofs.C09 RasnV.Proofs.C09Chain.
Import ListNotations.

Lemma appended_owns f ds k items : refs_of items = [] -> appended f ds k items = own_names items.
Proof. intro H. destruct f; [reflexivity|]. cbn [appended]. rewrite H. cbn. apply app_nil_r. Qed.

(* the expansion is a permutation of [appended]: own components and notations are merely interleaved *)
Lemma expand_perm_appended ds k : forall f items, Permutation (expand f ds k items) (appended f ds k items).
Proof.
  induction f as [|f IH]; intro items; [reflexivity|]. cbn [expand appended].
  induction items as [|[n|r] l IHl]; cbn [flat_map own_names refs_of app].
  - reflexivity.
  - constructor. exact IHl.
  - destruct (find_def r ds) as [d|]; [|exact IHl]. destruct (Bool.eqb (t_is_seq d) k); [|exact IHl].
    cbn [app]. rewrite IHl. rewrite (IH (t_items d)).
    rewrite !app_assoc. apply Permutation_app_tail. apply Permutation_app_comm.
Qed.

Section Pass.
  Variable ds : list tdef.
  Variable rank : str -> nat.
  Hypothesis rank_bound : forall y, rank y <= length ds.

  Definition finished' (y : str) (d : tdef) (t : lstate) : Prop :=
    l_refs t = [] /\
    (any_chain ds rank y -> forall f, rank y <= f -> l_members t = appended f ds (t_is_seq d) (t_items d)).

  Definition Inv' (st : list lstate) : Prop :=
    length st = length ds /\
    forall y d, find_def y ds = Some d -> exists t, find_state y st = Some t /\ (t = init_state d \/ finished' y d t).

  Lemma link_full_any st0 (HInv : Inv' st0) :
    forall m x, rank x <= m -> any_chain ds rank x -> forall d, find_def x ds = Some d ->
    forall key V fuel t f,
      rank x <= rank key -> (forall a, In a V -> rank x <= rank a) -> rank x < fuel ->
      (t = init_state d \/ finished' x d t) -> rank x <= f ->
      l_members (link_full fuel (remove_state key st0) V t) = appended f ds (t_is_seq d) (t_items d).
  Proof.
    induction m as [|m IH]; intros x Hm Hac d Hd key V fuel t f Hkey HV Hfuel Ht Hf.
    - inversion Hac as [n0 d0 Hd0 Hrefs]; subst n0. rewrite Hd in Hd0. inversion Hd0; subst d0. clear Hd0.
      assert (Hnil : refs_of (t_items d) = []).
      { destruct (refs_of (t_items d)) as [|r l] eqn:E; [reflexivity|]. destruct (Hrefs r (or_introl eq_refl)) as [Hlt _]. lia. }
      destruct Ht as [->|[Hr Hfin]].
      + rewrite link_full_resolved by exact Hnil. rewrite (appended_owns _ _ _ _ Hnil). reflexivity.
      + rewrite link_full_resolved by exact Hr. apply Hfin; assumption.
    - destruct Ht as [->|[Hr Hfin]]; [|rewrite link_full_resolved by exact Hr; apply Hfin; assumption].
      inversion Hac as [n0 d0 Hd0 Hrefs]; subst n0. rewrite Hd in Hd0. inversion Hd0; subst d0. clear Hd0.
      destruct (refs_of (t_items d)) as [|r0 l0] eqn:Erefs.
      { rewrite link_full_resolved by exact Erefs. rewrite (appended_owns _ _ _ _ Erefs). reflexivity. }
      assert (Hpos : 0 < rank x) by (destruct (Hrefs r0 (or_introl eq_refl)) as [Hlt _]; lia).
      destruct fuel as [|fuel]; [lia|]. destruct f as [|f]; [lia|].
      rewrite link_full_members. cbn [appended]. rewrite Erefs. f_equal.
      apply flat_map_ext_in. intros r Hin. destruct (Hrefs r Hin) as [Hlt [dr [Hfr [Hk Hacr]]]].
      rewrite mem_str_false by (intros a Ha E; subst a; specialize (HV r Ha); lia).
      rewrite find_remove_other by (intro E; subst key; lia).
      destruct HInv as [_ HI]. destruct (HI r dr Hfr) as [tr [Hst Htr']]. rewrite Hst, Hfr, Hk, Bool.eqb_reflx.
      rewrite <- Hk. apply (IH r); try assumption; try lia.
      intros a [<-|Ha]; [lia | specialize (HV a Ha); lia].
  Qed.

  Lemma inv'_init : NoDup (map t_name ds) -> Inv' (map init_state ds).
  Proof.
    intro Hnd. split; [apply map_length|]. intros y d Hd. exists (init_state d). split; [now apply find_init | now left].
  Qed.

  Lemma inv'_step st n : Inv' st -> Inv' (step st n).
  Proof.
    intros HInv. pose proof HInv as [Hlen HI]. split; [rewrite step_length; exact Hlen|].
    intros y d Hd. destruct (HI y d Hd) as [t [Hst Ht]].
    destruct (list_eq_dec N.eq_dec n y) as [->|Hne].
    - unfold step, link_step. rewrite Hst.
      set (s' := link_full (S (length st)) (remove_state y st) [] t).
      assert (Hnm : l_name s' = y) by (cbn; exact (find_state_name _ _ _ Hst)).
      exists s'. split; [exact (find_replace_key s' st y t Hnm Hst)|]. right. split; [reflexivity|].
      intros Hac f Hf. apply (link_full_any st HInv (rank y) y (Nat.le_refl _) Hac d Hd y [] (S (length st)) t f); try assumption; try lia.
      + intros a [].
      + rewrite Hlen. pose proof (rank_bound y). lia.
    - exists t. split; [|exact Ht]. rewrite step_other by exact Hne. exact Hst.
  Qed.

  Lemma inv'_fold l : forall st, Inv' st -> Inv' (fold_left step l st).
  Proof. induction l as [|x l IH]; intros st H; [exact H|]. cbn [fold_left]. apply IH. now apply inv'_step. Qed.

  (* what the pass yields, exactly *)
  Theorem link_pass_appended n d :
    NoDup (map t_name ds) -> any_chain ds rank n -> find_def n ds = Some d ->
    linked_members ds n = Some (appended (length ds) ds (t_is_seq d) (t_items d)).
  Proof.
    intros Hnd Hac Hd. unfold linked_members.
    change (link_pass (descending ds) (map init_state ds)) with (fold_left step (descending ds) (map init_state ds)).
    destruct (in_split _ _ (descending_in ds n _ Hnd Hd)) as [a [b Hsplit]].
    pose proof (descending_nodup ds) as Hnodup. rewrite Hsplit in Hnodup.
    assert (Hnb : ~ In n b) by (apply NoDup_remove_2 in Hnodup; intro; apply Hnodup; apply in_or_app; now right).
    rewrite Hsplit. replace (a ++ n :: b) with ((a ++ [n]) ++ b) by (rewrite <- app_assoc; reflexivity).
    rewrite fold_left_app, (fold_other b _ n Hnb), fold_left_snoc.
    pose proof (inv'_fold a _ (inv'_init Hnd)) as HInv. set (st1 := fold_left step a (map init_state ds)) in *.
    pose proof HInv as [Hlen HI]. destruct (HI n d Hd) as [t [Hst Ht]].
    unfold step at 1, link_step. rewrite Hst.
    set (s' := link_full (S (length st1)) (remove_state n st1) [] t).
    assert (Hnm : l_name s' = n) by (cbn; exact (find_state_name _ _ _ Hst)).
    rewrite (find_replace_key s' st1 n t Hnm Hst). cbn [option_map]. f_equal.
    apply (link_full_any st1 HInv (rank n) n (Nat.le_refl _) Hac d Hd n [] (S (length st1)) t (length ds)); try assumption; try lia.
    - intros x [].
    - rewrite Hlen. pose proof (rank_bound n). lia.
    - apply rank_bound.
  Qed.

  (* nothing is lost, added or duplicated: the linked fields are a permutation of the meaning of the notation *)
  Theorem link_pass_permutation n :
    NoDup (map t_name ds) -> any_chain ds rank n ->
    exists l e, linked_members ds n = Some l /\ expanded_members ds n = Some e /\ Permutation e l.
  Proof.
    intros Hnd Hac. inversion Hac as [n0 d Hd Hrefs]; subst n0.
    exists (appended (length ds) ds (t_is_seq d) (t_items d)), (expand (length ds) ds (t_is_seq d) (t_items d)).
    split; [now apply link_pass_appended|]. split; [unfold expanded_members; rewrite Hd; reflexivity|].
    apply expand_perm_appended.
  Qed.
End Pass.

(* T { COMPONENTS OF S, e }, S { a }: the pass yields [e; a], a permutation of the expansion [a; e] *)
Definition ds_front : list tdef := [mktdef nS true [Own na]; mktdef nT true [ComponentsOf nS; Own ne]].
Definition rank_front (x : str) : nat := if str_eqb x nT then 1 else 0.

Lemma ds_front_chain : any_chain ds_front rank_front nT.
Proof.
  eapply anyc_intro; [reflexivity|]. intros r [<-|[]]. split; [cbn; lia|].
  eexists. split; [reflexivity|]. split; [reflexivity|].
  eapply anyc_intro; [reflexivity|]. intros r [].
Qed.

Example permutation_applies :
  NoDup (map t_name ds_front) /\ (forall y, rank_front y <= length ds_front) /\ any_chain ds_front rank_front nT /\
  linked_members ds_front nT = Some [ne; na] /\ expanded_members ds_front nT = Some [na; ne].
Proof.
  split; [repeat constructor; cbn; intuition discriminate|].
  split; [intro y; unfold rank_front; cbn; destruct (str_eqb y nT); lia|].
  split; [exact ds_front_chain | split; vm_compute; reflexivity].
Qed.
