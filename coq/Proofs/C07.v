From Coq Require Import ZArith NArith Arith List Bool Lia.
Require Import RasnV.Model.Base RasnV.Model.Scan RasnV.Spec.Trivia RasnV.Proofs.C13 RasnV.Gen.T04 RasnV.Gen.T05 RasnV.Model.Values RasnV.Spec.ValSpec.
Import ListNotations.

(* ================= hstring / bstring ================= *)

Definition hexdigits : list N := [48;49;50;51;52;53;54;55;56;57;65;66;67;68;69;70]%N.

Lemma is_hexdigit_In c : is_hexdigit c = true -> In c hexdigits.
Proof.
  unfold is_hexdigit. intro H.
  assert (Hc : (48 <= c <= 57 \/ 65 <= c <= 70)%N).
  { apply orb_true_iff in H as [H|H]; apply andb_true_iff in H as [H1 H2];
      apply N.leb_le in H1, H2; lia. }
  assert (Hn : exists k, (k < 71)%nat /\ c = N.of_nat k).
  { exists (N.to_nat c). split; [lia | now rewrite N2Nat.id]. }
  destruct Hn as [k [Hk ->]].
  do 71 (destruct k as [|k]; [first [ (exfalso; cbn in Hc; lia) | (cbn; tauto) ] |]).
  lia.
Qed.

Lemma hex_digit_ok :
  forallb (fun c => list_eqb Bool.eqb (hex_to_bools c) (bits_be 4 (hexval c))) hexdigits = true.
Proof. vm_compute. reflexivity. Qed.

Lemma list_eqb_bool_eq a b : list_eqb Bool.eqb a b = true -> a = b.
Proof.
  revert b; induction a as [|x a IH]; destruct b as [|y b]; cbn; intro H; try reflexivity; try discriminate.
  apply andb_true_iff in H as [H1 H2]. apply eqb_prop in H1. subst. f_equal. now apply IH.
Qed.

Lemma hex_to_bools_spec c : is_hexdigit c = true -> hex_to_bools c = bits_be 4 (hexval c).
Proof.
  intro H. apply is_hexdigit_In in H.
  pose proof hex_digit_ok as Hall. rewrite forallb_forall in Hall.
  apply list_eqb_bool_eq. now apply Hall.
Qed.

Lemma hstring_spec ds :
  forallb is_hexdigit ds = true ->
  hstring_bits ds = flat_map (fun c => bits_be 4 (hexval c)) ds.
Proof.
  unfold hstring_bits. induction ds as [|c ds IH]; cbn [flat_map forallb]; intro H; [reflexivity|].
  apply andb_true_iff in H as [Hc Hd]. rewrite (hex_to_bools_spec c Hc), (IH Hd). reflexivity.
Qed.

Lemma hstring_length ds : forallb is_hexdigit ds = true -> length (hstring_bits ds) = 4 * length ds.
Proof.
  intro H. rewrite (hstring_spec ds H). clear H.
  induction ds as [|c ds IH]; cbn [flat_map length]; [reflexivity|].
  rewrite app_length, IH. unfold bits_be. rewrite map_length, seq_length. lia.
Qed.

Lemma bstring_spec ds i :
  (i < length ds)%nat ->
  nth i (bstring_bits ds) false = N.eqb (nth i ds 0%N) 49.
Proof.
  unfold bstring_bits. intro H.
  rewrite (nth_indep _ false (N.eqb 0 49)) by (now rewrite map_length).
  now rewrite (map_nth (fun c => N.eqb c 49) ds 0%N i).
Qed.

Lemma bstring_length ds : length (bstring_bits ds) = length ds.
Proof. unfold bstring_bits. apply map_length. Qed.

(* the lexer of the quoted forms on  ' digits ' H|B rest *)
Lemma span_hex_app ds r :
  forallb is_hexdigit ds = true -> is_hexdigit (hd 0%N r) = false \/ r = [] ->
  span_hex (ds ++ r) = (ds, r).
Proof.
  intros Hd Hr. induction ds as [|c ds IH]; cbn [app].
  - destruct r as [|x r]; [reflexivity|]. cbn [span_hex]. destruct Hr as [Hr|Hr]; [|discriminate].
    cbn [hd] in Hr. now rewrite Hr.
  - cbn [forallb] in Hd. apply andb_true_iff in Hd as [Hc Hd]. cbn [span_hex]. rewrite Hc, (IH Hd). reflexivity.
Qed.

Lemma apos_token r : starts_token (APOS :: r) = true.
Proof. unfold starts_token, starts2. destruct r; reflexivity. Qed.

Lemma lex_bits_hstring ds rest :
  forallb is_hexdigit ds = true ->
  lex_bits (APOS :: ds ++ APOS :: 72%N :: rest) = Some (hstring_bits ds, rest).
Proof.
  intro Hd. unfold lex_bits.
  rewrite skipper_token by apply apos_token. rewrite N.eqb_refl.
  rewrite (span_hex_app ds (APOS :: 72%N :: rest) Hd) by (left; reflexivity).
  rewrite N.eqb_refl. reflexivity.
Qed.

Lemma lex_bits_bstring ds rest :
  forallb is_hexdigit ds = true ->
  lex_bits (APOS :: ds ++ APOS :: 66%N :: rest) = Some (bstring_bits ds, rest).
Proof.
  intro Hd. unfold lex_bits.
  rewrite skipper_token by apply apos_token. rewrite N.eqb_refl.
  rewrite (span_hex_app ds (APOS :: 66%N :: rest) Hd) by (left; reflexivity).
  rewrite N.eqb_refl. reflexivity.
Qed.

(* ================= octets <-> bits ================= *)

Definition bytes256 : list N := map N.of_nat (seq 0 256).

Lemma In_bytes256 b : (b < 256)%N -> In b bytes256.
Proof.
  intro H. unfold bytes256. apply in_map_iff. exists (N.to_nat b). split; [apply N2Nat.id|].
  apply in_seq. lia.
Qed.

Lemma is_bit_set_ok :
  forallb (fun b => list_eqb Bool.eqb (is_bit_set 9 b 128) (bits_be 8 b)) bytes256 = true.
Proof. vm_compute. reflexivity. Qed.

Lemma byte_of_ok :
  forallb (fun b => N.eqb (byte_of (bits_be 8 b)) b) bytes256 = true.
Proof. vm_compute. reflexivity. Qed.

Lemma octet_bits b : (b < 256)%N -> is_bit_set 9 b 128 = bits_be 8 b.
Proof.
  intro H. pose proof is_bit_set_ok as Hall. rewrite forallb_forall in Hall.
  apply list_eqb_bool_eq. apply Hall. now apply In_bytes256.
Qed.

Lemma byte_of_bits_be b : (b < 256)%N -> byte_of (bits_be 8 b) = b.
Proof.
  intro H. pose proof byte_of_ok as Hall. rewrite forallb_forall in Hall.
  apply N.eqb_eq. apply Hall. now apply In_bytes256.
Qed.

Lemma octets_to_bits_spec bs :
  Forall (fun b => (b < 256)%N) bs -> octets_to_bits bs = flat_map (bits_be 8) bs.
Proof.
  unfold octets_to_bits. induction 1 as [|b bs Hb _ IH]; cbn [flat_map]; [reflexivity|].
  now rewrite (octet_bits b Hb), IH.
Qed.

Lemma bits_be_length w n : length (bits_be w n) = w.
Proof. unfold bits_be. now rewrite map_length, seq_length. Qed.

Lemma firstn_app_exact {A} (a b : list A) n : length a = n -> firstn n (a ++ b) = a.
Proof. intro H. subst n. rewrite firstn_app, Nat.sub_diag, firstn_all. cbn. apply app_nil_r. Qed.

Lemma skipn_app_exact {A} (a b : list A) n : length a = n -> skipn n (a ++ b) = b.
Proof. intro H. subst n. rewrite skipn_app, Nat.sub_diag, skipn_all. reflexivity. Qed.

Lemma bits_to_octets_f_roundtrip bs :
  Forall (fun b => (b < 256)%N) bs ->
  forall fuel, (length bs < fuel)%nat ->
  bits_to_octets_f fuel (flat_map (bits_be 8) bs) = Some bs.
Proof.
  induction 1 as [|b bs Hb _ IH]; intros fuel Hf.
  - destruct fuel; [lia | reflexivity].
  - destruct fuel as [|fuel]; [cbn in Hf; lia|].
    cbn [flat_map]. cbn [bits_to_octets_f].
    destruct (bits_be 8 b ++ flat_map (bits_be 8) bs) eqn:E.
    { pose proof (bits_be_length 8 b) as L. destruct (bits_be 8 b); cbn in L; [discriminate | discriminate]. }
    rewrite <- E.
    rewrite (firstn_app_exact _ _ 8 (bits_be_length 8 b)), (skipn_app_exact _ _ 8 (bits_be_length 8 b)).
    rewrite bits_be_length. cbn [Nat.eqb].
    rewrite IH by (cbn in Hf; lia). now rewrite (byte_of_bits_be b Hb).
Qed.

Lemma flat_map_bits_length bs : length (flat_map (bits_be 8) bs) = 8 * length bs.
Proof.
  induction bs as [|b bs IH]; cbn [flat_map length]; [reflexivity|].
  rewrite app_length, bits_be_length, IH. lia.
Qed.

Lemma bits_to_octets_roundtrip bs :
  Forall (fun b => (b < 256)%N) bs -> bits_to_octets (octets_to_bits bs) = Some bs.
Proof.
  intro H. rewrite (octets_to_bits_spec bs H). unfold bits_to_octets.
  apply bits_to_octets_f_roundtrip; [exact H|]. rewrite flat_map_bits_length. lia.
Qed.

(* the other direction: a chunk of 8 bits is the expansion of its byte *)
Lemma chunk_roundtrip (c : list bool) : length c = 8 -> bits_be 8 (byte_of c) = c /\ (byte_of c < 256)%N.
Proof.
  intro H.
  destruct c as [|b0 [|b1 [|b2 [|b3 [|b4 [|b5 [|b6 [|b7 [|b8 c]]]]]]]]]; try discriminate.
  destruct b0, b1, b2, b3, b4, b5, b6, b7; vm_compute; split; reflexivity.
Qed.

Lemma bits_to_octets_f_S fuel bits :
  bits_to_octets_f (S fuel) bits =
  match bits with
  | [] => Some []
  | _ => if Nat.eqb (length (firstn 8 bits)) 8
         then match bits_to_octets_f fuel (skipn 8 bits) with
              | Some r => Some (byte_of (firstn 8 bits) :: r)
              | None => None
              end
         else None
  end.
Proof. reflexivity. Qed.

Lemma bits_to_octets_f_inv fuel :
  forall bits bs, bits_to_octets_f fuel bits = Some bs ->
    bits = flat_map (bits_be 8) bs /\ Forall (fun b => (b < 256)%N) bs.
Proof.
  induction fuel as [|fuel IH]; intros bits bs H; [discriminate|].
  rewrite bits_to_octets_f_S in H. destruct bits as [|x bits'].
  - inversion H; subst. split; [reflexivity | constructor].
  - remember (x :: bits') as bits.
    destruct (Nat.eqb (length (firstn 8 bits)) 8) eqn:E; [|discriminate].
    apply Nat.eqb_eq in E.
    destruct (bits_to_octets_f fuel (skipn 8 bits)) as [r|] eqn:Er; [|discriminate].
    assert (Hbs : bs = byte_of (firstn 8 bits) :: r) by congruence. subst bs. clear H.
    destruct (IH _ _ Er) as [Hs Hr].
    destruct (chunk_roundtrip _ E) as [Hc Hlt].
    split; [|constructor; assumption].
    replace (flat_map (bits_be 8) (byte_of (firstn 8 bits) :: r))
      with (bits_be 8 (byte_of (firstn 8 bits)) ++ flat_map (bits_be 8) r) by reflexivity.
    rewrite Hc, <- Hs. symmetry. apply firstn_skipn.
Qed.

Lemma bits_to_octets_inv bits bs :
  bits_to_octets bits = Some bs -> octets_to_bits bs = bits /\ Forall (fun b => (b < 256)%N) bs.
Proof.
  unfold bits_to_octets. intro H. apply bits_to_octets_f_inv in H as [H1 H2].
  split; [|exact H2]. rewrite (octets_to_bits_spec bs H2). now symmetry.
Qed.

(* ================= named bits ================= *)

Lemma zrange_length h : length (zrange_incl h) = Z.to_nat (h + 1).
Proof. unfold zrange_incl. now rewrite map_length, seq_length. Qed.

Lemma named_bits_length h chosen dist : length (named_bits h chosen dist) = Z.to_nat (h + 1).
Proof. unfold named_bits. rewrite map_length. apply zrange_length. Qed.

Lemma zrange_nth h i : (0 <= i <= h)%Z -> nth (Z.to_nat i) (zrange_incl h) 0%Z = i.
Proof.
  intro H. unfold zrange_incl.
  rewrite (nth_indep _ 0%Z (Z.of_nat 0)) by (rewrite map_length, seq_length; lia).
  rewrite (map_nth Z.of_nat). rewrite seq_nth by lia. lia.
Qed.

Lemma named_bits_nth h chosen dist i :
  (0 <= i <= h)%Z ->
  nth (Z.to_nat i) (named_bits h chosen dist) false = true <->
  exists n, In n chosen /\ find_name i dist = Some n.
Proof.
  intro H. unfold named_bits.
  set (f := fun i0 => existsb (fun bit => opt_eqb str_eqb (Some bit) (find_name i0 dist)) chosen).
  rewrite (nth_indep _ false (f 0%Z)) by (rewrite map_length, zrange_length; lia).
  rewrite (map_nth f). rewrite (zrange_nth h i H). unfold f.
  rewrite existsb_exists. split.
  - intros [n [Hn He]]. exists n. split; [exact Hn|].
    destruct (find_name i dist) as [m|]; cbn in He; [|discriminate].
    apply str_eqb_eq in He. now subst.
  - intros [n [Hn He]]. exists n. split; [exact Hn|]. rewrite He. cbn. now apply str_eqb_eq.
Qed.

Lemma find_name_In i dist n : find_name i dist = Some n -> In (n, i) dist.
Proof.
  induction dist as [|[m v] r IH]; cbn; [discriminate|].
  destruct (Z.eqb v i) eqn:E.
  - intro H. inversion H; subst. apply Z.eqb_eq in E. subst. now left.
  - intro H. right. now apply IH.
Qed.

Lemma In_find_name i dist n :
  NoDup (map snd dist) -> In (n, i) dist -> find_name i dist = Some n.
Proof.
  induction dist as [|[m v] r IH]; cbn; intros Hnd Hin; [contradiction|].
  inversion Hnd as [|? ? Hnot Hnd']; subst.
  destruct Hin as [Heq|Hin].
  - inversion Heq; subst. now rewrite Z.eqb_refl.
  - destruct (Z.eqb v i) eqn:E.
    + apply Z.eqb_eq in E. subst. exfalso. apply Hnot. apply in_map_iff. exists (n, i). now split.
    + now apply IH.
Qed.

Lemma named_bits_spec h chosen dist i :
  NoDup (map snd dist) -> (0 <= i <= h)%Z ->
  nth (Z.to_nat i) (named_bits h chosen dist) false = true <->
  exists n, In n chosen /\ In (n, i) dist.
Proof.
  intros Hnd Hi. rewrite (named_bits_nth h chosen dist i Hi). split; intros [n [H1 H2]]; exists n; split; auto.
  - now apply find_name_In.
  - now apply In_find_name.
Qed.

(* ================= cstring ================= *)

Definition noq (p : list N) : Prop := Forall (fun c => N.eqb c QUOTE = false) p.

Lemma escape_noq p : noq p -> escape p = p.
Proof.
  induction 1 as [|c p Hc _ IH]; [reflexivity|].
  cbn [escape flat_map]. change (N.eqb c 34) with (N.eqb c QUOTE). rewrite Hc. cbn [app].
  f_equal. exact IH.
Qed.

Lemma escape_app a b : escape (a ++ b) = escape a ++ escape b.
Proof. unfold escape. apply flat_map_app. Qed.

Lemma escape_quote q : escape (QUOTE :: q) = QUOTE :: QUOTE :: escape q.
Proof. reflexivity. Qed.

(* split at the first quotation mark *)
Lemma split_first_quote s :
  noq s \/ exists p q, s = p ++ QUOTE :: q /\ noq p /\ (length q < length s)%nat.
Proof.
  induction s as [|c s IH]; [left; constructor|].
  destruct (N.eqb c QUOTE) eqn:E.
  - right. apply N.eqb_eq in E. subst. exists [], s. repeat split; [constructor | cbn; lia].
  - destruct IH as [IH|[p [q [-> [Hp Hl]]]]].
    + left. now constructor.
    + right. exists (c :: p), q. repeat split; [now constructor|].
      cbn [length]. rewrite app_length in *. cbn [length] in *. lia.
Qed.

Lemma find_q_noq p tail : noq p -> find_sub [QUOTE] (p ++ QUOTE :: tail) = Some (length p).
Proof.
  induction 1 as [|c p Hc _ IH].
  - cbn. reflexivity.
  - cbn [app find_sub starts]. rewrite N.eqb_sym, Hc. cbn [andb]. rewrite IH. reflexivity.
Qed.

Lemma find_qq_noq p tail : noq p -> find_sub [QUOTE; QUOTE] (p ++ QUOTE :: QUOTE :: tail) = Some (length p).
Proof.
  induction 1 as [|c p Hc _ IH].
  - cbn. reflexivity.
  - cbn [app find_sub starts]. rewrite N.eqb_sym, Hc. cbn [andb]. rewrite IH. reflexivity.
Qed.

Lemma find_qq_single p tail :
  noq p -> N.eqb (hd 0%N tail) QUOTE = false ->
  find_sub [QUOTE; QUOTE] (p ++ QUOTE :: tail) <> Some (length p).
Proof.
  induction 1 as [|c p Hc _ IH]; intro Ht.
  - cbn [app find_sub length]. destruct tail as [|t tail].
    + cbn. discriminate.
    + cbn [hd] in Ht. cbn [starts]. rewrite N.eqb_refl. rewrite (N.eqb_sym QUOTE t), Ht. cbn [andb].
      destruct (find_sub [QUOTE; QUOTE] (t :: tail)); cbn; discriminate.
  - cbn [app find_sub starts length]. rewrite N.eqb_sym, Hc. cbn [andb].
    destruct (find_sub [QUOTE; QUOTE] (p ++ QUOTE :: tail)) as [o|] eqn:E; cbn; [|discriminate].
    intro H. inversion H; subst. now apply IH.
Qed.

Lemma skipn_pre {A} (pre x : list A) : skipn (length pre) (pre ++ x) = x.
Proof. now apply skipn_app_exact. Qed.

Lemma recursive_until_spec :
  forall fuel q pre rest,
    (length q < fuel)%nat -> N.eqb (hd 0%N rest) QUOTE = false ->
    recursive_until fuel [QUOTE] [QUOTE; QUOTE] (pre ++ escape q ++ QUOTE :: rest) (length pre)
    = Some (length pre + length (escape q))%nat.
Proof.
  induction fuel as [|fuel IH]; intros q pre rest Hf Hr; [lia|].
  cbn [recursive_until]. rewrite skipn_pre.
  destruct (split_first_quote q) as [Hq|[p [q' [-> [Hp Hl]]]]].
  - rewrite (escape_noq q Hq). rewrite (find_q_noq q rest Hq).
    pose proof (find_qq_single q rest Hq Hr) as Hne.
    destruct (find_sub [QUOTE; QUOTE] (q ++ QUOTE :: rest)) as [o|]; [|reflexivity].
    destruct (Nat.eqb (length q) o) eqn:E; [|reflexivity].
    apply Nat.eqb_eq in E. subst. congruence.
  - rewrite escape_app, (escape_noq p Hp), escape_quote.
    rewrite <- app_assoc. cbn [app].
    rewrite (find_q_noq p _ Hp), (find_qq_noq p _ Hp). rewrite Nat.eqb_refl.
    cbn [length].
    replace (pre ++ p ++ QUOTE :: QUOTE :: escape q' ++ QUOTE :: rest)
      with ((pre ++ p ++ [QUOTE; QUOTE]) ++ escape q' ++ QUOTE :: rest)
      by (rewrite <- !app_assoc; reflexivity).
    replace (length pre + length p + 2)%nat with (length (pre ++ p ++ [QUOTE; QUOTE]))
      by (rewrite !app_length; cbn [length]; lia).
    rewrite IH; [| rewrite app_length in Hf; cbn [length] in Hf; lia | exact Hr].
    f_equal. rewrite !app_length. cbn [length]. lia.
Qed.

Lemma unescape_escape s : unescape (escape s) = s.
Proof.
  induction s as [|c s IH]; [reflexivity|].
  cbn [escape flat_map]. change (flat_map (fun c0 => if N.eqb c0 34 then [34; 34]%N else [c0]) s) with (escape s).
  destruct (N.eqb c 34) eqn:E.
  - apply N.eqb_eq in E. subst. cbn [app unescape]. change (N.eqb 34 QUOTE) with true. cbn [andb].
    now rewrite IH.
  - cbn [app]. cbn [unescape]. destruct (escape s) as [|y r] eqn:Es.
    + destruct s as [|d s']; [reflexivity|]. cbn [escape flat_map] in Es. destruct (N.eqb d 34); discriminate.
    + change (N.eqb c QUOTE) with (N.eqb c 34). rewrite E. cbn [andb]. now rewrite IH.
Qed.

Lemma escape_length_ge s : (length s <= length (escape s))%nat.
Proof.
  induction s as [|c s IH]; [cbn; lia|]. cbn [escape flat_map]. rewrite app_length.
  change (flat_map (fun c0 => if N.eqb c0 34 then [34; 34]%N else [c0]) s) with (escape s).
  destruct (N.eqb c 34); cbn [length]; lia.
Qed.

Lemma raw_spec s rest :
  N.eqb (hd 0%N rest) QUOTE = false ->
  raw_string_literal (QUOTE :: escape s ++ QUOTE :: rest) = Some (escape s, rest).
Proof.
  intro Hr. unfold raw_string_literal. rewrite N.eqb_refl.
  unfold take_until_and_not.
  pose proof (recursive_until_spec (S (length (escape s ++ QUOTE :: rest))) s [] rest) as H.
  cbn [app length] in H. rewrite Nat.add_0_l in H. rewrite H; [| | exact Hr].
  - rewrite (firstn_app_exact _ _ _ eq_refl), (skipn_app_exact _ _ _ eq_refl).
    now rewrite N.eqb_refl.
  - rewrite app_length. pose proof (escape_length_ge s). cbn [length]. lia.
Qed.

Definition no_nl (s : list N) : Prop := Forall (fun c => is_nl c = false) s.

Lemma escape_no_nl s : no_nl s -> no_nl (escape s).
Proof.
  induction 1 as [|c s Hc _ IH]; [constructor|].
  cbn [escape flat_map]. change (flat_map (fun c0 => if N.eqb c0 34 then [34; 34]%N else [c0]) s) with (escape s).
  destruct (N.eqb c 34) eqn:E.
  - apply N.eqb_eq in E. subst. cbn [app]. repeat constructor; assumption.
  - cbn [app]. constructor; assumption.
Qed.

Lemma split_nl_no_nl x cur : no_nl x -> split_nl x cur = [rev cur ++ x].
Proof.
  intro H. revert cur. induction H as [|c x Hc _ IH]; intro cur; cbn [split_nl].
  - now rewrite app_nil_r.
  - rewrite Hc. rewrite IH. cbn [rev]. now rewrite <- app_assoc.
Qed.

Lemma split_nl_break x nl y cur :
  no_nl x -> is_nl nl = true -> split_nl (x ++ nl :: y) cur = (rev cur ++ x) :: split_nl y [].
Proof.
  intros H Hn. revert cur. induction H as [|c x Hc _ IH]; intro cur; cbn [app split_nl].
  - rewrite Hn. now rewrite app_nil_r.
  - rewrite Hc. rewrite IH. cbn [rev]. now rewrite <- app_assoc.
Qed.

Lemma cstring_spec s rest :
  no_nl s -> N.eqb (hd 0%N rest) QUOTE = false ->
  cstring (QUOTE :: escape s ++ QUOTE :: rest) = Some (s, rest).
Proof.
  intros Hs Hr. unfold cstring. rewrite (raw_spec s rest Hr).
  rewrite (split_nl_no_nl (escape s) [] (escape_no_nl s Hs)). cbn [rev app join_lines].
  now rewrite unescape_escape.
Qed.

(* two lines *)
Definition spacing (l : list N) : Prop := Forall (fun c => is_sp c = true) l.

Lemma spacing_noq l : spacing l -> noq l.
Proof.
  induction 1 as [|c l Hc _ IH]; constructor; [|exact IH].
  unfold is_sp in Hc. apply orb_true_iff in Hc as [Hc|Hc]; apply N.eqb_eq in Hc; subst; reflexivity.
Qed.

Lemma spacing_no_nl l : spacing l -> no_nl l.
Proof.
  induction 1 as [|c l Hc _ IH]; constructor; [|exact IH].
  unfold is_sp in Hc. apply orb_true_iff in Hc as [Hc|Hc]; apply N.eqb_eq in Hc; subst; reflexivity.
Qed.

Lemma trim_start_spacing sp x : spacing sp -> is_sp (hd 0%N x) = false -> trim_start (sp ++ x) = x.
Proof.
  intros H Hx. induction H as [|c sp Hc _ IH]; cbn [app].
  - destruct x as [|y x]; [reflexivity|]. cbn [hd] in Hx. cbn [trim_start]. now rewrite Hx.
  - cbn [trim_start]. now rewrite Hc.
Qed.

Lemma spacing_rev sp : spacing sp -> spacing (rev sp).
Proof. unfold spacing. apply Forall_rev. Qed.

Lemma trim_end_spacing x sp : spacing sp -> is_sp (last x 0%N) = false -> trim_end (x ++ sp) = x.
Proof.
  intros H Hx. unfold trim_end. rewrite rev_app_distr.
  rewrite (trim_start_spacing (rev sp) (rev x) (spacing_rev sp H)); [apply rev_involutive|].
  destruct x as [|a x] using rev_ind; [reflexivity|].
  rewrite rev_app_distr. cbn [rev app hd]. now rewrite last_last in Hx.
Qed.

Lemma escape_hd x : hd 0%N (escape x) = hd 0%N x.
Proof. destruct x as [|c x]; [reflexivity|]. cbn [escape flat_map]. destruct (N.eqb c 34) eqn:E; [apply N.eqb_eq in E; subst|]; reflexivity. Qed.

Lemma escape_last x : last (escape x) 0%N = last x 0%N.
Proof.
  destruct x as [|a x] using rev_ind; [reflexivity|].
  rewrite escape_app. cbn [escape flat_map]. rewrite app_nil_r.
  rewrite last_last. destruct (N.eqb a 34) eqn:E.
  - apply N.eqb_eq in E. subst. change [34; 34]%N with ([34] ++ [34])%N. rewrite app_assoc. now rewrite last_last.
  - now rewrite last_last.
Qed.

Lemma cstring_two_lines a b sp1 nl sp2 rest :
  no_nl a -> no_nl b -> spacing sp1 -> spacing sp2 -> is_nl nl = true ->
  is_sp (last a 0%N) = false -> is_sp (hd 0%N b) = false ->
  N.eqb (hd 0%N rest) QUOTE = false ->
  cstring (QUOTE :: (escape a ++ sp1 ++ nl :: sp2 ++ escape b) ++ QUOTE :: rest) = Some (a ++ b, rest).
Proof.
  intros Ha Hb Hs1 Hs2 Hnl Hla Hhb Hr.
  assert (Hq : N.eqb nl QUOTE = false).
  { unfold is_nl in Hnl. repeat (apply orb_true_iff in Hnl as [Hnl|Hnl]); apply N.eqb_eq in Hnl; subst; reflexivity. }
  assert (He : escape (a ++ sp1 ++ nl :: sp2 ++ b) = escape a ++ sp1 ++ nl :: sp2 ++ escape b).
  { rewrite escape_app. f_equal. rewrite escape_app, (escape_noq sp1 (spacing_noq sp1 Hs1)). f_equal.
    change (nl :: sp2 ++ b) with ([nl] ++ sp2 ++ b). rewrite escape_app.
    assert (escape [nl] = [nl]) as -> by (apply escape_noq; repeat constructor; exact Hq).
    cbn [app]. f_equal. now rewrite escape_app, (escape_noq sp2 (spacing_noq sp2 Hs2)). }
  unfold cstring. rewrite <- He. rewrite (raw_spec _ rest Hr). rewrite He.
  replace (escape a ++ sp1 ++ nl :: sp2 ++ escape b) with ((escape a ++ sp1) ++ nl :: (sp2 ++ escape b))
    by (now rewrite <- app_assoc).
  rewrite split_nl_break; [| | exact Hnl].
  2:{ unfold no_nl. apply Forall_app. split; [apply escape_no_nl; exact Ha | apply spacing_no_nl; exact Hs1]. }
  rewrite split_nl_no_nl.
  2:{ unfold no_nl. apply Forall_app. split; [apply spacing_no_nl; exact Hs2 | apply escape_no_nl; exact Hb]. }
  cbn [rev app join_lines].
  rewrite trim_end_spacing by (try exact Hs1; now rewrite escape_last).
  rewrite trim_start_spacing by (try exact Hs2; now rewrite escape_hd).
  rewrite <- escape_app. now rewrite unescape_escape.
Qed.

(* ================= OBJECT IDENTIFIER ================= *)

Definition to_arc (a : src_arc) : arc := {| a_name := fst a; a_num := snd a |}.

Ltac table_case n :=
  repeat match goal with
  | H : (if str_eqb n ?k then _ else _) = _ |- _ =>
      let E := fresh "E" in
      destruct (str_eqb n k) eqn:E;
      [ apply str_eqb_eq in E; subst n; inversion H; subst; vm_compute; reflexivity | clear E ]
  end.

Lemma root_names_ok n k root :
  lookup n x660_root = Some k -> well_known (Some n) root = Some k.
Proof.
  unfold x660_root. cbn [lookup]. intro H.
  table_case n. discriminate.
Qed.

Lemma itu_names_ok n k :
  lookup n x660_itu = Some k -> well_known (Some n) (Some 0%N) = Some k.
Proof.
  unfold x660_itu. cbn [lookup]. intro H.
  table_case n. discriminate.
Qed.

Lemma iso_names_ok n k :
  lookup n x660_iso = Some k -> well_known (Some n) (Some 1%N) = Some k.
Proof.
  unfold x660_iso. cbn [lookup]. intro H.
  table_case n. discriminate.
Qed.

(* the first arc: a name(number) form whose name is a root name carries that root's number *)
Definition wf_first (a : src_arc) : bool :=
  match a with
  | (Some nm, Some n) => match lookup nm x660_root with Some k => N.eqb k n | None => true end
  | _ => true
  end.

(* value of the first arc as the standard assigns it *)
Definition first_value (a : src_arc) : option N :=
  match a with
  | (_, Some n) => Some n
  | (Some nm, None) => lookup nm x660_root
  | (None, None) => None
  end.

Lemma first_resolves a r v : first_value a = Some v -> resolve_arc (oid_root (to_arc a :: r)) (to_arc a) = Some v.
Proof.
  destruct a as [[nm|] [n|]]; cbn [first_value]; intro H; try discriminate; unfold resolve_arc, to_arc; cbn [a_num a_name fst snd];
    try assumption.
  now apply root_names_ok.
Qed.

Lemma name_tests nm :
  (opt_eqb str_eqb (Some nm) (Some ITU_T_NAME) || opt_eqb str_eqb (Some nm) (Some CCITT_NAME))%bool = true ->
  lookup nm x660_root = Some 0%N.
Proof.
  cbn [opt_eqb]. intro H. apply orb_true_iff in H as [H|H]; apply str_eqb_eq in H; subst; reflexivity.
Qed.

Lemma name_test_iso nm : opt_eqb str_eqb (Some nm) (Some ISO_NAME) = true -> lookup nm x660_root = Some 1%N.
Proof. cbn [opt_eqb]. intro H. apply str_eqb_eq in H; subst; reflexivity. Qed.

Lemma lookup_root_0 nm : lookup nm x660_root = Some 0%N ->
  (opt_eqb str_eqb (Some nm) (Some ITU_T_NAME) || opt_eqb str_eqb (Some nm) (Some CCITT_NAME))%bool = true.
Proof.
  unfold x660_root. cbn [lookup opt_eqb]. intro H. unfold ITU_T_NAME, CCITT_NAME.
  destruct (str_eqb nm [105; 116; 117; 45; 116]%N); [reflexivity|].
  destruct (str_eqb nm [99; 99; 105; 116; 116]%N); [reflexivity|].
  destruct (str_eqb nm [105; 115; 111]%N); [discriminate|].
  destruct (str_eqb nm [106; 111; 105; 110; 116; 45; 105; 115; 111; 45; 105; 116; 117; 45; 116]%N); [discriminate|].
  destruct (str_eqb nm [106; 111; 105; 110; 116; 45; 105; 115; 111; 45; 99; 99; 105; 116; 116]%N); discriminate.
Qed.

Lemma lookup_root_1 nm : lookup nm x660_root = Some 1%N ->
  (opt_eqb str_eqb (Some nm) (Some ITU_T_NAME) || opt_eqb str_eqb (Some nm) (Some CCITT_NAME))%bool = false
  /\ opt_eqb str_eqb (Some nm) (Some ISO_NAME) = true.
Proof.
  unfold x660_root. cbn [lookup opt_eqb]. intro H. unfold ITU_T_NAME, CCITT_NAME, ISO_NAME.
  destruct (str_eqb nm [105; 116; 117; 45; 116]%N); [discriminate|].
  destruct (str_eqb nm [99; 99; 105; 116; 116]%N); [discriminate|].
  destruct (str_eqb nm [105; 115; 111]%N); [split; reflexivity|].
  destruct (str_eqb nm [106; 111; 105; 110; 116; 45; 105; 115; 111; 45; 105; 116; 117; 45; 116]%N); [discriminate|].
  destruct (str_eqb nm [106; 111; 105; 110; 116; 45; 105; 115; 111; 45; 99; 99; 105; 116; 116]%N); discriminate.
Qed.

Lemma root_of_first a r v :
  wf_first a = true -> first_value a = Some v ->
  (v = 0%N -> oid_root (to_arc a :: r) = Some 0%N) /\ (v = 1%N -> oid_root (to_arc a :: r) = Some 1%N).
Proof.
  intros Hwf Hv. unfold oid_root, to_arc. destruct a as [[nm|] [n|]]; cbn [first_value wf_first fst snd a_name a_num] in *;
    try discriminate.
  - (* name(number) *)
    inversion Hv; subst v. split; intros ->.
    + cbn [opt_n_eqb]. rewrite N.eqb_refl. now rewrite orb_true_r.
    + destruct (opt_eqb str_eqb (Some nm) (Some ITU_T_NAME) || opt_eqb str_eqb (Some nm) (Some CCITT_NAME))%bool eqn:E.
      * apply name_tests in E. rewrite E in Hwf. discriminate.
      * cbn [opt_n_eqb]. replace (N.eqb 1 0) with false by reflexivity. cbn [orb].
        rewrite N.eqb_refl. now rewrite orb_true_r.
  - (* bare name *)
    split; intros ->.
    + rewrite (lookup_root_0 nm Hv). reflexivity.
    + destruct (lookup_root_1 nm Hv) as [H1 H2]. rewrite H1. cbn [opt_n_eqb orb]. rewrite H2. reflexivity.
  - (* number only *)
    inversion Hv; subst v. cbn [opt_eqb orb opt_n_eqb]. split; intros ->; reflexivity.
Qed.

Definition numbered (a : src_arc) : bool := match snd a with Some _ => true | None => false end.

(* from position 2 on (position 2 itself carrying a number) only numbers are meaningful *)
Lemma sem_from_numbers :
  forall arcs pos sofar ns,
    (2 <= pos)%nat -> (pos = 2%nat -> match arcs with a :: _ => numbered a = true | [] => True end) ->
    oid_sem_from pos sofar arcs = Some ns ->
    forall root, exists nums, all_some (map (resolve_arc root) (map to_arc arcs)) = Some nums /\ ns = rev sofar ++ nums.
Proof.
  induction arcs as [|[nm nu] arcs IH]; intros pos sofar ns Hpos Hfirst Hs root.
  - cbn in Hs. inversion Hs; subst. exists []. split; [reflexivity | now rewrite app_nil_r].
  - destruct nu as [n|].
    + cbn [oid_sem_from] in Hs.
      assert (Hs' : oid_sem_from (S pos) (n :: sofar) arcs = Some ns) by (destruct nm; exact Hs).
      clear Hs; rename Hs' into Hs.
      destruct (IH (S pos) (n :: sofar) ns ltac:(lia) ltac:(intro; lia) Hs root) as [nums [H1 H2]].
      exists (n :: nums). split.
      * cbn [map all_some]. unfold resolve_arc at 1, to_arc at 1. cbn [a_num snd]. now rewrite H1.
      * rewrite H2. cbn [rev]. now rewrite <- app_assoc.
    + exfalso. destruct nm as [nm|]; [|cbn in Hs; discriminate].
      destruct pos as [|[|[|pos]]]; try lia.
      * specialize (Hfirst eq_refl). cbn in Hfirst. discriminate.
      * cbn [oid_sem_from] in Hs. destruct (rev sofar); discriminate.
Qed.

Lemma second_resolves a0 r v0 nm v1 :
  wf_first a0 = true -> first_value a0 = Some v0 ->
  lookup nm (x660_second v0) = Some v1 ->
  well_known (Some nm) (oid_root (to_arc a0 :: r)) = Some v1.
Proof.
  intros Hwf Hv Hl. destruct (root_of_first a0 r v0 Hwf Hv) as [R0 R1].
  unfold x660_second in Hl.
  destruct (N.eqb v0 0) eqn:E0.
  - apply N.eqb_eq in E0. rewrite (R0 E0). now apply itu_names_ok.
  - destruct (N.eqb v0 1) eqn:E1.
    + apply N.eqb_eq in E1. rewrite (R1 E1). now apply iso_names_ok.
    + discriminate.
Qed.

Theorem oid_numbers_spec (arcs : list src_arc) ns :
  match arcs with a :: _ => wf_first a = true | [] => True end ->
  has_bare_letter arcs = false ->
  oid_sem arcs = Some ns ->
  oid_numbers (map to_arc arcs) = Some ns.
Proof.
  intros Hwf Hlet Hs. unfold oid_numbers. unfold oid_sem in Hs.
  destruct arcs as [|a0 r]; [cbn in Hs; inversion Hs; reflexivity|].
  cbn [map].
  assert (exists v0, first_value a0 = Some v0 /\ oid_sem_from 1 [v0] r = Some ns) as [v0 [Hv0 Hs1]].
  { destruct a0 as [[nm|] [n|]]; cbn [oid_sem_from first_value] in *; try discriminate.
    - exists n. now split.
    - cbn [rev] in Hs. destruct (lookup nm x660_root) as [k|]; [|discriminate]. exists k. now split.
    - exists n. now split. }
  pose proof (first_resolves a0 (map to_arc r) v0 Hv0) as Hf0.
  assert (Hsec : forall nm k, lookup nm (x660_second v0) = Some k ->
                   well_known (Some nm) (oid_root (to_arc a0 :: map to_arc r)) = Some k).
  { intros nm k Hl. exact (second_resolves a0 (map to_arc r) v0 nm k Hwf Hv0 Hl). }
  remember (oid_root (to_arc a0 :: map to_arc r)) as root eqn:Hroot. clear Hroot.
  cbn [all_some]. rewrite Hf0.
  destruct r as [|a1 r].
  { cbn in Hs1. inversion Hs1; subst. reflexivity. }
  cbn [map all_some].
  assert (exists v1, resolve_arc root (to_arc a1) = Some v1 /\ oid_sem_from 2 [v1; v0] r = Some ns) as [v1 [Hv1 Hs2]].
  { destruct a1 as [[nm|] [n|]]; cbn [oid_sem_from] in Hs1; try discriminate.
    - exists n. split; [reflexivity | exact Hs1].
    - cbn [rev app] in Hs1. destruct (lookup nm (x660_second v0)) as [k|] eqn:El; [|discriminate].
      exists k. split; [|exact Hs1]. unfold resolve_arc, to_arc. cbn [a_num a_name fst snd].
      exact (Hsec nm k El).
    - exists n. split; [reflexivity | exact Hs1]. }
  rewrite Hv1.
  assert (Hnum : 2%nat = 2%nat -> match r with a :: _ => numbered a = true | [] => True end).
  { intros _. destruct r as [|[nm2 [n2|]] r']; [exact I | reflexivity |].
    destruct nm2 as [nm2|]; [cbn in Hlet; discriminate | cbn in Hs2; discriminate]. }
  destruct (sem_from_numbers r 2 [v1; v0] ns (le_n 2) Hnum Hs2 root) as [nums [H1 H2]].
  rewrite H1. rewrite H2. reflexivity.
Qed.

(* ================= combined statements ================= *)

Theorem hstring_denotes ds rest :
  forallb is_hexdigit ds = true ->
  lex_bits (APOS :: ds ++ APOS :: 72%N :: rest) = Some (flat_map (fun c => bits_be 4 (hexval c)) ds, rest).
Proof. intro H. rewrite (lex_bits_hstring ds rest H). now rewrite (hstring_spec ds H). Qed.

Theorem bstring_denotes ds rest :
  forallb is_hexdigit ds = true ->
  exists bits, lex_bits (APOS :: ds ++ APOS :: 66%N :: rest) = Some (bits, rest) /\
    length bits = length ds /\
    forall i, (i < length ds)%nat -> nth i bits false = N.eqb (nth i ds 0%N) 49.
Proof.
  intro H. exists (bstring_bits ds). split; [now apply lex_bits_bstring|].
  split; [apply bstring_length|]. intros i Hi. now apply bstring_spec.
Qed.

Theorem named_bits_denotes h chosen dist :
  NoDup (map snd dist) ->
  length (named_bits h chosen dist) = Z.to_nat (h + 1) /\
  forall i, (0 <= i <= h)%Z ->
    (nth (Z.to_nat i) (named_bits h chosen dist) false = true <-> exists n, In n chosen /\ In (n, i) dist).
Proof.
  intro Hnd. split; [apply named_bits_length|]. intros i Hi. now apply named_bits_spec.
Qed.
