From Coq Require Import NArith Arith List Bool Lia.
Require Import RasnV.Model.Base RasnV.Model.InputPos.
Import ListNotations.

(* the invariant tying an Input to the source it was cut from *)
Definition Inv (src : list N) (i : input) : Prop :=
  offset i + length (inner i) <= length src
  /\ inner i = firstn (length (inner i)) (skipn (offset i) src)
  /\ line i = 1 + count_nl (firstn (offset i) src)
  /\ ctx_offset i <= offset i
  /\ ctx_line i = 1 + count_nl (firstn (ctx_offset i) src).

Lemma inv_init src : Inv src (init src).
Proof.
  unfold Inv, init. cbn. repeat split; try lia. rewrite firstn_all. reflexivity.
Qed.

Lemma count_nl_app a b : count_nl (a ++ b) = count_nl a + count_nl b.
Proof. unfold count_nl. rewrite filter_app, app_length. reflexivity. Qed.

Lemma firstn_add {A} (l : list A) a b : firstn (a + b) l = firstn a l ++ firstn b (skipn a l).
Proof.
  revert l. induction a as [|a IH]; intro l; cbn; [reflexivity|].
  destruct l as [|x l]; cbn; [destruct b; reflexivity|]. rewrite IH. reflexivity.
Qed.

Lemma skipn_add {A} (l : list A) a b : skipn (a + b) l = skipn b (skipn a l).
Proof.
  revert l. induction a as [|a IH]; intro l; cbn; [reflexivity|].
  destruct l as [|x l]; cbn; [destruct b; reflexivity|]. apply IH.
Qed.

Lemma firstn_firstn_le {A} (l : list A) a b : a <= b -> firstn a (firstn b l) = firstn a l.
Proof. intro H. rewrite firstn_firstn. f_equal. lia. Qed.

Lemma inv_slice src i a b i' : Inv src i -> slice i a b = Some i' -> Inv src i'.
Proof.
  intros (Hlen & Hin & Hline & Hctx & Hcl) Hs. unfold slice in Hs.
  destruct (Nat.leb a b && Nat.leb b (length (inner i))) eqn:E; [|discriminate].
  apply andb_true_iff in E as [E1 E2]. apply Nat.leb_le in E1, E2.
  assert (Hnew : length (firstn (b - a) (skipn a (inner i))) = b - a).
  { rewrite firstn_length, skipn_length. lia. }
  assert (Hsub : firstn (b - a) (skipn a (inner i))
                 = firstn (b - a) (skipn (offset i + a) src)).
  { rewrite Hin at 1. rewrite skipn_add. rewrite skipn_firstn_comm.
    rewrite firstn_firstn. f_equal. lia. }
  set (new := firstn (b - a) (skipn a (inner i))) in *.
  destruct (Nat.eqb a 0) eqn:Ea.
  - apply Nat.eqb_eq in Ea. inversion Hs; subst i'; clear Hs. unfold Inv. cbn [inner line column offset ctx_line ctx_offset].
    rewrite Hnew. replace (offset i + a) with (offset i) in Hsub by lia.
    repeat split; try lia; try assumption.
  - inversion Hs; subst i'; clear Hs. unfold Inv. cbn [inner line column offset ctx_line ctx_offset]. rewrite Hnew.
    split; [lia|]. split; [exact Hsub|]. split.
    { rewrite firstn_add, count_nl_app. rewrite Hline.
      assert (firstn a (inner i) = firstn a (skipn (offset i) src)) as ->.
      { rewrite Hin at 1. apply firstn_firstn_le. lia. }
      lia. }
    split; [lia | exact Hcl].
Qed.

Lemma inv_reset src i : Inv src i -> Inv src (reset_context i).
Proof.
  intros (Hlen & Hin & Hline & Hctx & Hcl). unfold Inv, reset_context. cbn.
  repeat split; try lia; assumption.
Qed.

Lemma inv_step src i o i' : Inv src i -> step i o = Some i' -> Inv src i'.
Proof.
  intros H Hs. destruct o as [a b|]; cbn in Hs.
  - eapply inv_slice; eassumption.
  - inversion Hs; subst. apply inv_reset. exact H.
Qed.

Lemma inv_run src ops : forall i i', Inv src i -> run i ops = Some i' -> Inv src i'.
Proof.
  induction ops as [|o r IH]; intros i i' H Hr; cbn in Hr.
  - inversion Hr; subst. exact H.
  - destruct (step i o) as [i1|] eqn:E; [|discriminate]. eapply IH; [|exact Hr]. eapply inv_step; eassumption.
Qed.

(* what the property words: offset within the input; line = 1 + line breaks before the offset *)
Lemma report_meaningful src ops i :
  run (init src) ops = Some i ->
  let r := report_of i in
  r_offset r <= length src
  /\ r_line r = 1 + count_nl (firstn (r_offset r) src)
  /\ r_ctx_offset r <= r_offset r
  /\ r_ctx_line r = 1 + count_nl (firstn (r_ctx_offset r) src).
Proof.
  intro H. destruct (inv_run src ops (init src) i (inv_init src) H) as (Hlen & _ & Hline & Hctx & Hcl).
  cbn. repeat split; try assumption. lia.
Qed.

Lemma count_nl_firstn_mono l a b : a <= b -> count_nl (firstn a l) <= count_nl (firstn b l).
Proof.
  intro H. replace b with (a + (b - a)) by lia. rewrite firstn_add, count_nl_app. lia.
Qed.

(* Display, contextualize and the structured report show the same line, whenever the excerpt reaches it *)
Lemma lines_agree src ops i n :
  run (init src) ops = Some i ->
  let r := report_of i in
  display_line r = r_line r /\ (forall m, marked_line r n = Some m -> m = r_line r) /\ r_ctx_line r <= r_line r.
Proof.
  intro H. destruct (inv_run src ops (init src) i (inv_init src) H) as (Hlen & _ & Hline & Hctx & Hcl).
  cbn. split; [reflexivity|]. split.
  - intros m Hm. unfold marked_line in Hm. cbn in Hm. destruct (_ && _); [inversion Hm; reflexivity | discriminate].
  - rewrite Hline, Hcl. pose proof (count_nl_firstn_mono src (ctx_offset i) (offset i) Hctx). lia.
Qed.
