(* C09, COMPONENTS OF chains of any depth and in any name order: the linking pass yields the meaning of the notation for
   every type at the head of a chain that is not circular and whose COMPONENTS OF entries come last in every list.
   (Position: a notation that does not come last is the known finding C09-components-of-appended.)
   The pass is a fold over the names in descending order; the invariant says that every definition is either still as
   parsed or finished -- no pending references, and, if it heads an acyclic chain, members equal to its expansion. *)
From Coq Require Import NArith List Bool Arith Lia.
Require Import RasnV.Model.Base RasnV.Model.Driver RasnV.Model.Expansion.
Require Import RasnV.Proofs.Driver RasnV.Proofs.C09.
Import ListNotations.

Lemma fold_left_snoc {A B} (f : A -> B -> A) l x a : fold_left f (l ++ [x]) a = f (fold_left f l a) x.
Proof. rewrite fold_left_app. reflexivity. Qed.

Lemma flat_map_ext_in {A B} (f g : A -> list B) l : (forall x, In x l -> f x = g x) -> flat_map f l = flat_map g l.
Proof.
  induction l as [|x l IH]; intro H; [reflexivity|]. cbn [flat_map]. rewrite (H x (or_introl eq_refl)). f_equal.
  apply IH. intros y Hy. apply H. now right.
Qed.

Lemma mem_str_false x l : (forall a, In a l -> a <> x) -> mem_str x l = false.
Proof.
  unfold mem_str. induction l as [|a l IH]; intro H; [reflexivity|]. cbn [existsb].
  rewrite (str_eqb_neq x a) by (intro E; exact (H a (or_introl eq_refl) (eq_sym E))). cbn. apply IH. intros b Hb. apply H. now right.
Qed.

Lemma link_full_members f st v d :
  l_members (link_full (S f) st v (init_state d)) =
  own_names (t_items d) ++ flat_map (fun r => if mem_str r v then []
                                              else match find_state r st with
                                                   | Some t => l_members (link_full f st (r :: v) t)
                                                   | None => []
                                                   end) (refs_of (t_items d)).
Proof. reflexivity. Qed.

Lemma expand_trailing_def f ds d :
  trailing d ->
  expand (S f) ds (t_is_seq d) (t_items d) =
  own_names (t_items d) ++ flat_map (fun r => match find_def r ds with
                                              | Some dr => if Bool.eqb (t_is_seq dr) (t_is_seq d) then expand f ds (t_is_seq d) (t_items dr) else []
                                              | None => []
                                              end) (refs_of (t_items d)).
Proof.
  unfold trailing. remember (own_names (t_items d)) as own. remember (refs_of (t_items d)) as refs.
  intro H. rewrite H. apply expand_trailing.
Qed.

Lemma replace_length s st : length (replace_state s st) = length st.
Proof. induction st as [|x r IH]; cbn; [reflexivity|]. destruct (str_eqb (l_name s) (l_name x)); cbn; [reflexivity | now rewrite IH]. Qed.

Lemma step_length st n : length (step st n) = length st.
Proof. unfold step, link_step. destruct (find_state n st); [apply replace_length | reflexivity]. Qed.

Section Pass.
  Variable ds : list tdef.
  Variable rank : str -> nat.
  Hypothesis rank_bound : forall y, rank y <= length ds.

  (* a definition is finished: nothing pending and, if it heads an acyclic chain, the members of its expansion *)
  Definition finished (y : str) (d : tdef) (t : lstate) : Prop :=
    l_refs t = [] /\
    (acyclic_chain ds rank y -> forall f, rank y <= f -> l_members t = expand f ds (t_is_seq d) (t_items d)).

  Definition Inv (st : list lstate) : Prop :=
    length st = length ds /\
    forall y d, find_def y ds = Some d -> exists t, find_state y st = Some t /\ (t = init_state d \/ finished y d t).

  (* linking a copy of x, as parsed or finished, against a state that satisfies the invariant *)
  Lemma link_full_chain st0 (HInv : Inv st0) :
    forall m x, rank x <= m -> acyclic_chain ds rank x -> forall d, find_def x ds = Some d ->
    forall key V fuel t f,
      rank x <= rank key -> (forall a, In a V -> rank x <= rank a) -> rank x < fuel ->
      (t = init_state d \/ finished x d t) -> rank x <= f ->
      l_members (link_full fuel (remove_state key st0) V t) = expand f ds (t_is_seq d) (t_items d).
  Proof.
    induction m as [|m IH]; intros x Hm Hac d Hd key V fuel t f Hkey HV Hfuel Ht Hf.
    - (* rank 0: no references *)
      inversion Hac as [n0 d0 Hd0 Htr Hrefs]; subst n0. rewrite Hd in Hd0. inversion Hd0; subst d0. clear Hd0.
      assert (Hnil : refs_of (t_items d) = []).
      { destruct (refs_of (t_items d)) as [|r l] eqn:E; [reflexivity|]. destruct (Hrefs r (or_introl eq_refl)) as [Hlt _]. lia. }
      destruct Ht as [->|[Hr Hfin]].
      + rewrite link_full_resolved by exact Hnil. rewrite (expand_owns _ _ _ _ Hnil). reflexivity.
      + rewrite link_full_resolved by exact Hr. apply Hfin; assumption.
    - destruct Ht as [->|[Hr Hfin]]; [|rewrite link_full_resolved by exact Hr; apply Hfin; assumption].
      inversion Hac as [n0 d0 Hd0 Htr Hrefs]; subst n0. rewrite Hd in Hd0. inversion Hd0; subst d0. clear Hd0.
      destruct (refs_of (t_items d)) as [|r0 l0] eqn:Erefs.
      { rewrite link_full_resolved by exact Erefs. rewrite (expand_owns _ _ _ _ Erefs). reflexivity. }
      assert (Hpos : 0 < rank x) by (destruct (Hrefs r0 (or_introl eq_refl)) as [Hlt _]; lia).
      destruct fuel as [|fuel]; [lia|]. destruct f as [|f]; [lia|].
      rewrite link_full_members, (expand_trailing_def f ds d Htr), Erefs. f_equal.
      apply flat_map_ext_in. intros r Hin. destruct (Hrefs r Hin) as [Hlt [dr [Hfr [Hk Hacr]]]].
      rewrite mem_str_false by (intros a Ha E; subst a; specialize (HV r Ha); lia).
      rewrite find_remove_other by (intro E; subst key; lia).
      destruct HInv as [_ HI]. destruct (HI r dr Hfr) as [tr [Hst Htr']]. rewrite Hst, Hfr, Hk, Bool.eqb_reflx.
      rewrite <- Hk. apply (IH r); try assumption; try lia.
      intros a [<-|Ha]; [lia | specialize (HV a Ha); lia].
  Qed.

  Lemma inv_init : NoDup (map t_name ds) -> Inv (map init_state ds).
  Proof.
    intro Hnd. split; [apply map_length|]. intros y d Hd. exists (init_state d). split; [now apply find_init | now left].
  Qed.

  Lemma inv_step st n : Inv st -> Inv (step st n).
  Proof.
    intros HInv. pose proof HInv as [Hlen HI]. split; [rewrite step_length; exact Hlen|].
    intros y d Hd. destruct (HI y d Hd) as [t [Hst Ht]].
    destruct (list_eq_dec N.eq_dec n y) as [->|Hne].
    - unfold step, link_step. rewrite Hst.
      set (s' := link_full (S (length st)) (remove_state y st) [] t).
      assert (Hnm : l_name s' = y) by (cbn; exact (find_state_name _ _ _ Hst)).
      exists s'. split; [exact (find_replace_key s' st y t Hnm Hst)|]. right. split; [reflexivity|].
      intros Hac f Hf. apply (link_full_chain st HInv (rank y) y (Nat.le_refl _) Hac d Hd y [] (S (length st)) t f); try assumption; try lia.
      + intros a [].
      + rewrite Hlen. pose proof (rank_bound y). lia.
    - exists t. split; [|exact Ht]. rewrite step_other by exact Hne. exact Hst.
  Qed.

  Lemma inv_fold l : forall st, Inv st -> Inv (fold_left step l st).
  Proof. induction l as [|x l IH]; intros st H; [exact H|]. cbn [fold_left]. apply IH. now apply inv_step. Qed.

  Theorem link_pass_acyclic n :
    NoDup (map t_name ds) -> acyclic_chain ds rank n -> linked_members ds n = expanded_members ds n.
  Proof.
    intros Hnd Hac. inversion Hac as [n0 d Hd Htr Hrefs]; subst n0.
    unfold linked_members, expanded_members. rewrite Hd. cbn [option_map].
    change (link_pass (descending ds) (map init_state ds)) with (fold_left step (descending ds) (map init_state ds)).
    destruct (in_split _ _ (descending_in ds n _ Hnd Hd)) as [a [b Hsplit]].
    pose proof (descending_nodup ds) as Hnodup. rewrite Hsplit in Hnodup.
    assert (Hnb : ~ In n b) by (apply NoDup_remove_2 in Hnodup; intro; apply Hnodup; apply in_or_app; now right).
    rewrite Hsplit. replace (a ++ n :: b) with ((a ++ [n]) ++ b) by (rewrite <- app_assoc; reflexivity).
    rewrite fold_left_app, (fold_other b _ n Hnb), fold_left_snoc.
    pose proof (inv_fold a _ (inv_init Hnd)) as HInv. set (st1 := fold_left step a (map init_state ds)) in *.
    pose proof HInv as [Hlen HI]. destruct (HI n d Hd) as [t [Hst Ht]].
    unfold step at 1, link_step. rewrite Hst.
    set (s' := link_full (S (length st1)) (remove_state n st1) [] t).
    assert (Hnm : l_name s' = n) by (cbn; exact (find_state_name _ _ _ Hst)).
    rewrite (find_replace_key s' st1 n t Hnm Hst). cbn [option_map]. f_equal.
    apply (link_full_chain st1 HInv (rank n) n (Nat.le_refl _) Hac d Hd n [] (S (length st1)) t (length ds)); try assumption; try lia.
    - intros x [].
    - rewrite Hlen. pose proof (rank_bound n). lia.
    - apply rank_bound.
  Qed.
End Pass.

(* a chain of depth two whose middle type is linked AFTER the type that includes it (the order the pass got wrong until the
   fix of C09-components-of-chain-order):  Aa { id }, Mm { label, COMPONENTS OF Aa }, Zz { flag, COMPONENTS OF Mm } *)
Definition ds_chain : list tdef :=
  [mktdef nA true [Own n_id]; mktdef nM true [Own n_label; ComponentsOf nA]; mktdef nZ true [Own n_flag; ComponentsOf nM]].
Definition rank_chain (x : str) : nat := if str_eqb x nZ then 2 else if str_eqb x nM then 1 else 0.

Lemma ds_chain_acyclic : acyclic_chain ds_chain rank_chain nZ.
Proof.
  eapply ac_intro; [reflexivity | reflexivity |]. intros r [<-|[]]. split; [cbn; lia|].
  eexists. split; [reflexivity|]. split; [reflexivity|].
  eapply ac_intro; [reflexivity | reflexivity |]. intros r [<-|[]]. split; [cbn; lia|].
  eexists. split; [reflexivity|]. split; [reflexivity|].
  eapply ac_intro; [reflexivity | reflexivity |]. intros r [].
Qed.

Example acyclic_chain_applies :
  NoDup (map t_name ds_chain) /\ (forall y, rank_chain y <= length ds_chain) /\ acyclic_chain ds_chain rank_chain nZ /\
  linked_members ds_chain nZ = Some [n_flag; n_label; n_id].
Proof.
  split; [repeat constructor; cbn; intuition discriminate|].
  split; [intro y; unfold rank_chain; cbn; destruct (str_eqb y nZ); [lia|]; destruct (str_eqb y nM); lia|].
  split; [exact ds_chain_acyclic | vm_compute; reflexivity].
Qed.
