(* C09, COMPONENTS OF chains of any depth: the linking pass yields the meaning of the notation whenever the notation
   comes last in every list of the chain and every referenced type sorts after the type that refers to it (so that the
   pass, which runs in descending name order, has finished it before).  This is the exact shape in which the known
   findings C09-components-of-appended (position) and C09-components-of-chain-order (order) do not bite. *)
From Coq Require Import NArith List Bool Arith Lia Sorting.Sorted Permutation.
Require Import RasnV.Model.Base RasnV.Model.Driver RasnV.Model.Expansion.
Require Import RasnV.Proofs.Driver RasnV.Proofs.C09.
Import ListNotations.

Lemma ss_app_left {A} (R : A -> A -> Prop) l1 a l2 : StronglySorted R (l1 ++ a :: l2) -> Forall (fun x => R x a) l1.
Proof.
  induction l1 as [|x l1 IH]; cbn; intro H; [constructor|].
  inversion H as [|? ? Hs Hf]; subst. constructor; [|now apply IH].
  rewrite Forall_forall in Hf. apply Hf. apply in_or_app. right. now left.
Qed.

Lemma sorted_keys_ss {V} (m : list (str * V)) : sorted m -> StronglySorted lt (map fst m).
Proof.
  induction 1 as [|p r Hs IH Hall]; cbn; constructor; [exact IH|].
  rewrite Forall_forall in *. intros k Hk. apply in_map_iff in Hk as [q [Hq Hin]]. subst k. exact (Hall q Hin).
Qed.

(* in the processing order, whatever follows n sorts before n *)
Lemma descending_after ds a n b : descending ds = a ++ n :: b -> forall x, In x b -> lt x n.
Proof.
  unfold descending. intros H x Hx.
  assert (Hs : StronglySorted lt (map fst (from_list t_name ds))).
  { apply sorted_keys_ss. rewrite from_list_rev. apply from_list_r_sorted. }
  apply (f_equal (@rev str)) in H. rewrite rev_involutive, rev_app_distr in H. cbn [rev] in H. rewrite <- app_assoc in H.
  cbn [app] in H. rewrite H in Hs. apply ss_app_left in Hs. rewrite Forall_forall in Hs. apply Hs. now apply -> in_rev.
Qed.

Lemma fold_left_snoc {A B} (f : A -> B -> A) l x a : fold_left f (l ++ [x]) a = f (fold_left f l a) x.
Proof. rewrite fold_left_app. reflexivity. Qed.

Lemma link_one_members st d :
  l_members (link_one st (init_state d)) =
  own_names (t_items d) ++ flat_map (fun r => match find_state r st with Some t => l_members t | None => [] end) (refs_of (t_items d)).
Proof. reflexivity. Qed.

Lemma expand_trailing_def f ds d :
  trailing d ->
  expand (S f) ds (t_is_seq d) (t_items d) =
  own_names (t_items d) ++ flat_map (fun r => match find_def r ds with
                                              | Some dr => if Bool.eqb (t_is_seq dr) (t_is_seq d) then expand f ds (t_is_seq d) (t_items dr) else []
                                              | None => []
                                              end) (refs_of (t_items d)).
Proof.
  unfold trailing. remember (own_names (t_items d)) as own. remember (refs_of (t_items d)) as refs.
  intro H. rewrite H. apply expand_trailing.
Qed.

(* the state of n right after its own step, for every head of an ordered chain *)
Lemma chain_state ds (Hnd : NoDup (map t_name ds)) :
  forall h n, ordered_chain ds h n ->
  forall d a b, find_def n ds = Some d -> descending ds = a ++ n :: b ->
  exists s, find_state n (fold_left step (a ++ [n]) (map init_state ds)) = Some s /\
            forall f, h <= f -> l_members s = expand f ds (t_is_seq d) (t_items d).
Proof.
  induction h as [|h IH]; intros n Hoc; [inversion Hoc|].
  inversion Hoc as [h' n' d0 Hd0 Htr Hrefs]; subst h' n'.
  intros d a b Hd Hsplit. rewrite Hd0 in Hd. inversion Hd; subst d0. clear Hd.
  pose proof (descending_nodup ds) as Hnodup. rewrite Hsplit in Hnodup.
  assert (Hna : ~ In n a) by (apply NoDup_remove_2 in Hnodup; intro; apply Hnodup; apply in_or_app; now left).
  set (st0 := map init_state ds). set (st1 := fold_left step a st0).
  assert (Hn1 : find_state n st1 = Some (init_state d)).
  { unfold st1. rewrite (fold_other a st0 n Hna). now apply find_init. }
  rewrite fold_left_snoc. fold st1. unfold step. rewrite Hn1.
  assert (Hnm : l_name (link_one st1 (init_state d)) = n).
  { cbn. apply (find_def_in _ _ _ Hd0). }
  exists (link_one st1 (init_state d)). split; [exact (find_replace_key _ st1 n _ Hnm Hn1)|].
  intros f Hf. destruct f as [|f]; [lia|]. assert (Hhf : h <= f) by lia.
  rewrite link_one_members, (expand_trailing_def f ds d Htr). f_equal.
  (* every referenced type has been finished in the prefix a *)
  assert (Hr : forall r, In r (refs_of (t_items d)) ->
                 exists dr t, find_def r ds = Some dr /\ t_is_seq dr = t_is_seq d /\ find_state r st1 = Some t /\
                              l_members t = expand f ds (t_is_seq d) (t_items dr)).
  { intros r Hin. destruct (Hrefs r Hin) as [Hlt [dr [Hfr [Hk Hocr]]]].
    assert (Hra : In r a).
    { pose proof (descending_in ds r dr Hnd Hfr) as Hrin. rewrite Hsplit in Hrin. apply in_app_or in Hrin as [Hra|[Heq|Hrb]].
      - exact Hra.
      - subst r. exfalso. exact (lt_irrefl _ Hlt).
      - exfalso. pose proof (descending_after ds a n b Hsplit r Hrb) as Hlt'. exact (lt_irrefl _ (lt_trans _ _ _ Hlt Hlt')). }
    destruct (in_split _ _ Hra) as [a1 [a2 Ha]].
    assert (Hsplit' : descending ds = a1 ++ r :: (a2 ++ n :: b)) by (rewrite Hsplit, Ha, <- app_assoc; reflexivity).
    destruct (IH r Hocr dr a1 (a2 ++ n :: b) Hfr Hsplit') as [s [Hs Hm]].
    exists dr, s. repeat split; try assumption.
    - unfold st1. rewrite Ha. replace (a1 ++ r :: a2) with ((a1 ++ [r]) ++ a2) by (rewrite <- app_assoc; reflexivity).
      rewrite fold_left_app. rewrite fold_other; [exact Hs|].
      pose proof (descending_nodup ds) as Hnd2. rewrite Hsplit' in Hnd2. apply NoDup_remove_2 in Hnd2.
      intro Hin2. apply Hnd2. apply in_or_app. right. apply in_or_app. now left.
    - rewrite <- Hk. apply Hm. exact Hhf. }
  clear Hrefs Hoc Htr. induction (refs_of (t_items d)) as [|r l IHl]; [reflexivity|]. cbn [flat_map].
  destruct (Hr r (or_introl eq_refl)) as [dr [t [Hfr [Hk [Hst Hm]]]]].
  rewrite Hst, Hfr, Hk, Bool.eqb_reflx, Hm. f_equal. apply IHl. intros r' Hr'. apply Hr. now right.
Qed.

Theorem link_pass_ordered_chain ds h n :
  NoDup (map t_name ds) -> ordered_chain ds h n -> h <= length ds ->
  linked_members ds n = expanded_members ds n.
Proof.
  intros Hnd Hoc Hh. inversion Hoc as [h' n' d Hd Htr Hrefs]; subst.
  unfold linked_members, expanded_members. rewrite Hd. cbn [option_map]. rewrite link_pass_fold.
  destruct (in_split _ _ (descending_in ds n _ Hnd Hd)) as [a [b Hsplit]].
  destruct (chain_state ds Hnd _ n Hoc d a b Hd Hsplit) as [s [Hs Hm]].
  pose proof (descending_nodup ds) as Hnodup. rewrite Hsplit in Hnodup.
  assert (Hnb : ~ In n b) by (apply NoDup_remove_2 in Hnodup; intro; apply Hnodup; apply in_or_app; now right).
  rewrite Hsplit. replace (a ++ n :: b) with ((a ++ [n]) ++ b) by (rewrite <- app_assoc; reflexivity).
  rewrite fold_left_app, (fold_other b _ n Hnb), Hs. cbn [option_map]. f_equal. apply Hm. exact Hh.
Qed.

(* ---- the height bound is no restriction: a chain of strictly increasing names is no longer than the module ---- *)
Lemma oc_mono ds : forall h n, ordered_chain ds h n -> forall h', h <= h' -> ordered_chain ds h' n.
Proof.
  induction h as [|h IH]; intros n H; inversion H as [h0 n0 d Hd Htr Hrefs]; subst.
  intros h' Hle. destruct h' as [|h']; [lia|].
  eapply oc_intro; [exact Hd | exact Htr |]. intros r Hin. destruct (Hrefs r Hin) as [Hlt [dr [Hf [Hk Hoc]]]].
  split; [exact Hlt|]. exists dr. repeat split; try assumption. apply (IH r Hoc). lia.
Qed.

Lemma filter_length_le {A} (P : A -> bool) l : length (filter P l) <= length l.
Proof. induction l as [|x l IH]; cbn; [lia|]. destruct (P x); cbn; lia. Qed.

Lemma filter_length_mono {A} (P Q : A -> bool) l :
  (forall y, P y = true -> Q y = true) -> length (filter P l) <= length (filter Q l).
Proof.
  intro H. induction l as [|x l IH]; cbn; [lia|]. destruct (P x) eqn:EP.
  - rewrite (H x EP). cbn. lia.
  - destruct (Q x); cbn; lia.
Qed.

Lemma filter_length_lt {A} (P Q : A -> bool) l x :
  (forall y, P y = true -> Q y = true) -> In x l -> P x = false -> Q x = true ->
  length (filter P l) < length (filter Q l).
Proof.
  intros H Hin HP HQ. induction l as [|y l IH]; [destruct Hin|]. cbn. destruct Hin as [->|Hin].
  - rewrite HP, HQ. cbn. pose proof (filter_length_mono P Q l H). lia.
  - specialize (IH Hin). destruct (P y) eqn:EP.
    + rewrite (H y EP). cbn. lia.
    + destruct (Q y); cbn; lia.
Qed.

Definition str_ltb (a b : str) : bool := match str_compare a b with Lt => true | _ => false end.
(* the number of definitions whose name does not sort before n *)
Definition not_before (ds : list tdef) (n : str) : nat := length (filter (fun d => negb (str_ltb (t_name d) n)) ds).

Lemma str_ltb_lt a b : str_ltb a b = true <-> lt a b.
Proof. unfold str_ltb, lt. destruct (str_compare a b); split; intro H; try reflexivity; discriminate. Qed.

Lemma not_before_lt ds n r d : find_def n ds = Some d -> lt n r -> not_before ds r < not_before ds n.
Proof.
  intros Hd Hlt. destruct (find_def_in _ _ _ Hd) as [Hin Hn]. unfold not_before.
  apply (filter_length_lt _ _ ds d); [| exact Hin | |].
  - intros y Hy. destruct (str_ltb (t_name y) n) eqn:E; [|reflexivity].
    apply str_ltb_lt in E. assert (H : str_ltb (t_name y) r = true) by (apply str_ltb_lt; exact (lt_trans _ _ _ E Hlt)).
    rewrite H in Hy. discriminate.
  - rewrite Hn. apply str_ltb_lt in Hlt. rewrite Hlt. reflexivity.
  - rewrite Hn. unfold str_ltb. rewrite cmp_refl. reflexivity.
Qed.

Lemma oc_bounded ds : forall h n, ordered_chain ds h n -> ordered_chain ds (not_before ds n) n.
Proof.
  induction h as [|h IH]; intros n H; inversion H as [h0 n0 d Hd Htr Hrefs]; subst.
  assert (Hpos : 0 < not_before ds n).
  { destruct (find_def_in _ _ _ Hd) as [Hin Hn]. unfold not_before.
    assert (Hf : In d (filter (fun d0 => negb (str_ltb (t_name d0) n)) ds)).
    { apply filter_In. split; [exact Hin|]. rewrite Hn. unfold str_ltb. rewrite cmp_refl. reflexivity. }
    destruct (filter _ ds); [destruct Hf | cbn; lia]. }
  destruct (not_before ds n) as [|m] eqn:Em; [lia|].
  eapply oc_intro; [exact Hd | exact Htr |]. intros r Hin. destruct (Hrefs r Hin) as [Hlt [dr [Hf [Hk Hoc]]]].
  split; [exact Hlt|]. exists dr. repeat split; try assumption.
  apply (oc_mono ds _ r (IH r Hoc)). pose proof (not_before_lt ds n r d Hd Hlt). lia.
Qed.

(* the statement without a height *)
Theorem link_pass_ordered_chain_any ds h n :
  NoDup (map t_name ds) -> ordered_chain ds h n -> linked_members ds n = expanded_members ds n.
Proof.
  intros Hnd Hoc. apply (link_pass_ordered_chain ds (not_before ds n) n Hnd (oc_bounded ds h n Hoc)).
  apply filter_length_le.
Qed.

(* a chain of depth two that the pass gets right: Z { id }, M { label, COMPONENTS OF Z }, A { flag, COMPONENTS OF M } *)
Definition ds_ordered : list tdef :=
  [mktdef nZ true [Own n_id]; mktdef nM true [Own n_label; ComponentsOf nZ]; mktdef nA true [Own n_flag; ComponentsOf nM]].

Lemma ds_ordered_chain : ordered_chain ds_ordered 3 nA.
Proof.
  eapply oc_intro; [reflexivity | reflexivity |]. intros r [<-|[]]. split; [reflexivity|].
  eexists. split; [reflexivity|]. split; [reflexivity|].
  eapply oc_intro; [reflexivity | reflexivity |]. intros r [<-|[]]. split; [reflexivity|].
  eexists. split; [reflexivity|]. split; [reflexivity|].
  eapply oc_intro; [reflexivity | reflexivity |]. intros r [].
Qed.

Example ordered_chain_applies :
  NoDup (map t_name ds_ordered) /\ ordered_chain ds_ordered 3 nA /\ 3 <= length ds_ordered /\
  linked_members ds_ordered nA = Some [n_flag; n_label; n_id].
Proof.
  split; [|split; [exact ds_ordered_chain | split; [cbn; lia | vm_compute; reflexivity]]].
  repeat constructor; cbn; intuition discriminate.
Qed.
