From Coq Require Import NArith Arith List Bool Lia.
Require Import RasnV.Model.Base RasnV.Model.Scan RasnV.Spec.Trivia.
Import ListNotations.
Local Open Scope N_scope.

(* ---------- scanners on well-formed comment bodies *)

Lemma last_is_cons b y z r : last_is b (y :: z :: r) = last_is b (z :: r).
Proof. unfold last_is. cbn [rev]. destruct (rev r) as [|h tl]; reflexivity. Qed.

Lemma last_is_single b y : last_is b [y] = N.eqb y b.
Proof. reflexivity. Qed.

Lemma line_body_inline body x :
  plain_line body = true -> last_is 45 body = false ->
  line_body (body ++ [45; 45] ++ x) = [45; 45] ++ x.
Proof.
  induction body as [|y b IH]; intros Hp Hl; [reflexivity|].
  cbn [plain_line] in Hp. apply andb_true_iff in Hp as [Hp Hb]. apply andb_true_iff in Hp as [Hy Hs].
  apply negb_true_iff in Hy, Hs.
  cbn [app line_body]. rewrite Hy. cbn [orb].
  destruct b as [|z b'].
  - rewrite last_is_single in Hl. cbn [app]. cbn [starts2]. rewrite Hl. cbn. reflexivity.
  - cbn [app]. cbn [starts2] in Hs |- *. rewrite Hs.
    rewrite last_is_cons in Hl. exact (IH Hb Hl).
Qed.

Lemma line_body_newline body x :
  plain_line body = true -> line_body (body ++ [10] ++ x) = 10 :: x.
Proof.
  induction body as [|y b IH]; intro Hp; [reflexivity|].
  cbn [plain_line] in Hp. apply andb_true_iff in Hp as [Hp Hb]. apply andb_true_iff in Hp as [Hy Hs].
  apply negb_true_iff in Hy, Hs.
  cbn [app line_body]. rewrite Hy. cbn [orb].
  destruct b as [|z b'].
  - cbn [app starts2]. replace (N.eqb 10 45) with false by reflexivity. rewrite andb_false_r. reflexivity.
  - cbn [app]. cbn [starts2] in Hs |- *. rewrite Hs. exact (IH Hb).
Qed.

Lemma line_comment_inline body x :
  plain_line body = true -> last_is 45 body = false ->
  line_comment (45 :: 45 :: body ++ [45; 45] ++ x) = Some x.
Proof.
  intros Hp Hl. unfold line_comment. cbn [starts2 skipn]. rewrite N.eqb_refl. cbn [andb].
  rewrite (line_body_inline body x Hp Hl). reflexivity.
Qed.

Lemma line_comment_newline body x :
  plain_line body = true -> line_comment (45 :: 45 :: body ++ [10] ++ x) = Some (10 :: x).
Proof.
  intro Hp. unfold line_comment. cbn [starts2 skipn]. rewrite N.eqb_refl. cbn [andb].
  rewrite (line_body_newline body x Hp). destruct x; reflexivity.
Qed.

(* block comments *)
Lemma block_scan_body d body a b rest :
  plain_block body = true -> last_is 47 body = false -> last_is 42 body = false ->
  block_scan d (body ++ a :: b :: rest) = block_scan d (a :: b :: rest).
Proof.
  induction body as [|y t IH]; intros Hp H1 H2; [reflexivity|].
  cbn [plain_block] in Hp. apply andb_true_iff in Hp as [Hp Ht]. apply andb_true_iff in Hp as [Ho Hc].
  apply negb_true_iff in Ho, Hc.
  destruct t as [|z t'].
  - rewrite last_is_single in H1, H2. cbn [app block_scan].
    rewrite H1, H2. cbn [andb]. reflexivity.
  - cbn [app]. cbn [block_scan]. cbn [starts2] in Ho, Hc. rewrite Ho, Hc.
    rewrite last_is_cons in H1, H2. exact (IH Ht H1 H2).
Qed.

Lemma block_scan_open d rest : block_scan d (47 :: 42 :: rest) = block_scan (S d) rest.
Proof. reflexivity. Qed.
Lemma block_scan_close_S d rest : block_scan (S d) (42 :: 47 :: rest) = block_scan d rest.
Proof. reflexivity. Qed.
Lemma block_scan_close_0 rest : block_scan 0 (42 :: 47 :: rest) = Some (42 :: 47 :: rest).
Proof. reflexivity. Qed.

Lemma block_comment_plain body x :
  plain_block body = true -> last_is 47 body = false -> last_is 42 body = false ->
  block_comment (47 :: 42 :: body ++ [42; 47] ++ x) = Some x.
Proof.
  intros Hp H1 H2. unfold block_comment. cbn [starts2 skipn]. rewrite !N.eqb_refl. cbn [andb app].
  rewrite (block_scan_body 0 body 42 47 x Hp H1 H2), block_scan_close_0. reflexivity.
Qed.

Lemma block_comment_nested a b c x :
  plain_block a = true -> plain_block b = true -> plain_block c = true ->
  last_is 47 a = false -> last_is 42 a = false -> last_is 47 b = false -> last_is 42 b = false ->
  last_is 47 c = false -> last_is 42 c = false ->
  block_comment (47 :: 42 :: a ++ [47; 42] ++ b ++ [42; 47] ++ c ++ [42; 47] ++ x) = Some x.
Proof.
  intros Ha Hb Hc A1 A2 B1 B2 C1 C2. unfold block_comment. cbn [starts2 skipn]. rewrite !N.eqb_refl. cbn [andb app].
  rewrite (block_scan_body 0 a 47 42 _ Ha A1 A2), block_scan_open.
  rewrite (block_scan_body 1 b 42 47 _ Hb B1 B2), block_scan_close_S.
  rewrite (block_scan_body 0 c 42 47 x Hc C1 C2), block_scan_close_0. reflexivity.
Qed.

(* ---------- white-space *)

Lemma skip_ws_token r : starts_token r = true -> skip_ws r = r.
Proof.
  destruct r as [|b r]; [reflexivity|]. intro H. unfold starts_token in H.
  apply andb_true_iff in H as [H _]. apply andb_true_iff in H as [H _]. apply negb_true_iff in H.
  cbn [skip_ws]. rewrite H. reflexivity.
Qed.

Lemma skip_ws_length s : (length (skip_ws s) <= length s)%nat.
Proof. induction s as [|b r IH]; cbn; [lia|]. destruct (is_ws b); cbn; lia. Qed.

Definition comment_piece (p : list N) : Prop :=
  piece p /\ match p with b :: _ => is_ws b = false | [] => False end.

Lemma piece_nonempty p : piece p -> p <> [].
Proof. intro H. destruct H; discriminate. Qed.

Lemma piece_ws_or_comment p : piece p -> (exists b, p = [b] /\ is_ws b = true) \/ comment_piece p.
Proof.
  intro H. pose proof H as H0. destruct H; [left; eauto| | | |]; right; (split; [exact H0 | reflexivity]).
Qed.

(* skipping leading white-space of trivia ++ token text leaves trivia ++ the same token text *)
Lemma skip_ws_trivia t r :
  trivia t -> starts_token r = true ->
  exists t2, trivia t2 /\ skip_ws (t ++ r) = t2 ++ r /\ (length t2 <= length t)%nat
             /\ (t2 = [] \/ exists p t3, t2 = p ++ t3 /\ comment_piece p /\ trivia t3).
Proof.
  intros Ht Hr. induction Ht as [|p t Hp Ht IH].
  - exists []. cbn. split; [constructor|]. split; [apply skip_ws_token; exact Hr|]. split; [lia | left; reflexivity].
  - destruct (piece_ws_or_comment p Hp) as [[b [-> Hb]]|Hc].
    + destruct IH as [t2 [H1 [H2 [H3 H4]]]]. exists t2. split; [exact H1|]. split.
      * cbn [app skip_ws]. rewrite Hb. exact H2.
      * split; [cbn; lia | exact H4].
    + exists (p ++ t). split; [constructor; assumption|]. split.
      * destruct Hc as [_ Hc]. destruct p as [|b p']; [destruct Hc|]. cbn [app skip_ws]. rewrite Hc. reflexivity.
      * split; [lia|]. right. exists p, t. auto.
Qed.

(* one comment piece is consumed by `comment`, leaving trivia ++ token text that is shorter *)
Lemma comment_consumes p t r :
  comment_piece p -> trivia t -> starts_token r = true ->
  exists t', trivia t' /\ comment (p ++ t ++ r) = Some (t' ++ r) /\ (length t' < length (p ++ t))%nat.
Proof.
  intros [Hp Hnw] Ht Hr.
  assert (Hskip : skip_ws (p ++ t ++ r) = p ++ t ++ r).
  { destruct p as [|b p']; [destruct Hnw|]. cbn [app skip_ws]. rewrite Hnw. reflexivity. }
  unfold comment. rewrite Hskip.
  destruct Hp as [b Hb | body Hpl Hl | body Hpl Hl | body Hpb H1 H2 | a b c Ha Hb Hc A1 A2 B1 B2 C1 C2].
  - cbn in Hnw. congruence.
  - exists t. split; [exact Ht|]. split.
    + replace ((45 :: 45 :: body ++ [45; 45]) ++ t ++ r) with (45 :: 45 :: body ++ [45; 45] ++ (t ++ r))
        by (cbn; rewrite <- !app_assoc; reflexivity).
      assert (block_comment (45 :: 45 :: body ++ [45; 45] ++ t ++ r) = None) as -> by reflexivity.
      apply line_comment_inline; assumption.
    + rewrite !app_length. cbn. lia.
  - exists (10 :: t). split.
    + change (10 :: t) with ([10] ++ t). constructor; [apply P_ws; reflexivity | exact Ht].
    + split.
      * replace ((45 :: 45 :: body ++ [10]) ++ t ++ r) with (45 :: 45 :: body ++ [10] ++ (t ++ r))
          by (cbn; rewrite <- !app_assoc; reflexivity).
        assert (block_comment (45 :: 45 :: body ++ [10] ++ t ++ r) = None) as -> by reflexivity.
        rewrite line_comment_newline by assumption. reflexivity.
      * rewrite !app_length. cbn. rewrite app_length. cbn. lia.
  - exists t. split; [exact Ht|]. split.
    + replace ((47 :: 42 :: body ++ [42; 47]) ++ t ++ r) with (47 :: 42 :: body ++ [42; 47] ++ (t ++ r))
        by (cbn; rewrite <- !app_assoc; reflexivity).
      rewrite block_comment_plain by assumption. reflexivity.
    + rewrite !app_length. cbn. lia.
  - exists t. split; [exact Ht|]. split.
    + replace ((47 :: 42 :: a ++ [47; 42] ++ b ++ [42; 47] ++ c ++ [42; 47]) ++ t ++ r)
        with (47 :: 42 :: a ++ [47; 42] ++ b ++ [42; 47] ++ c ++ [42; 47] ++ (t ++ r))
        by (cbn; rewrite <- !app_assoc; cbn; rewrite <- !app_assoc; cbn; rewrite <- !app_assoc; reflexivity).
      rewrite block_comment_nested by assumption. reflexivity.
    + rewrite !app_length. cbn. lia.
Qed.

Lemma starts_token_inv b r' :
  starts_token (b :: r') = true ->
  is_ws b = false /\ starts2 45 45 (b :: r') = false /\ starts2 47 42 (b :: r') = false.
Proof.
  unfold starts_token. intro H. apply andb_true_iff in H as [H H3]. apply andb_true_iff in H as [H1 H2].
  apply negb_true_iff in H1, H2, H3. auto.
Qed.

Lemma comment_token r : starts_token r = true -> comment r = None.
Proof.
  intro H. unfold comment. rewrite (skip_ws_token r H).
  destruct r as [|b r']; [reflexivity|].
  destruct (starts_token_inv b r' H) as [_ [Hl Hb]].
  unfold block_comment, line_comment. rewrite Hb, Hl. reflexivity.
Qed.

Lemma skipper_token fuel r : starts_token r = true -> skipper fuel r = r.
Proof.
  intro H. destruct fuel as [|f]; [reflexivity|]. cbn [skipper]. rewrite (comment_token r H).
  destruct r as [|b r']; [reflexivity|].
  destruct (starts_token_inv b r' H) as [Hw _]. rewrite Hw. reflexivity.
Qed.

(* comment = comment after the leading white-space *)
Lemma skip_ws_idem s : skip_ws (skip_ws s) = skip_ws s.
Proof.
  induction s as [|b r IH]; [reflexivity|]. cbn [skip_ws].
  destruct (is_ws b) eqn:Eb; [exact IH | cbn [skip_ws]; rewrite Eb; reflexivity].
Qed.

Lemma comment_skip_ws s : comment (skip_ws s) = comment s.
Proof. unfold comment. rewrite skip_ws_idem. reflexivity. Qed.

(* ---------- the skipper removes any trivia in front of a token *)
Theorem skipper_removes_trivia : forall n t r fuel,
  (length t <= n)%nat -> trivia t -> starts_token r = true -> (length (t ++ r) <= fuel)%nat ->
  skipper fuel (t ++ r) = r.
Proof.
  induction n as [|n IH]; intros t r fuel Hn Ht Hr Hf.
  - destruct t; [|cbn in Hn; lia]. apply skipper_token. exact Hr.
  - destruct (skip_ws_trivia t r Ht Hr) as [t2 [Ht2 [Hs [Hl Hshape]]]].
    destruct Hshape as [->|[p [t3 [-> [Hcp Ht3]]]]].
    + (* only white-space in front of the token *)
      cbn [app] in Hs.
      destruct fuel as [|f]; [destruct t; [apply skipper_token; exact Hr | cbn in Hf; lia]|].
      cbn [skipper]. rewrite <- (comment_skip_ws (t ++ r)), Hs, (comment_token r Hr).
      destruct (t ++ r) as [|b s'] eqn:E.
      * cbn in Hs. subst r. reflexivity.
      * destruct (is_ws b) eqn:Eb.
        -- apply skipper_token. exact Hr.
        -- cbn [skip_ws] in Hs. rewrite Eb in Hs. exact Hs.
    + destruct fuel as [|f].
      { exfalso. pose proof (skip_ws_length (t ++ r)) as Hsl. rewrite Hs in Hsl.
        destruct Hcp as [Hp _]. pose proof (piece_nonempty p Hp).
        rewrite !app_length in Hsl. rewrite app_length in Hf. destruct p; [congruence|]. cbn in Hsl. lia. }
      cbn [skipper]. rewrite <- (comment_skip_ws (t ++ r)), Hs.
      destruct (comment_consumes p t3 r Hcp Ht3 Hr) as [t' [Ht' [Hc Hlt]]].
      rewrite <- app_assoc. rewrite Hc.
      apply IH; [| exact Ht' | exact Hr |].
      * rewrite app_length in *. lia.
      * pose proof (skip_ws_length (t ++ r)) as Hsl. rewrite Hs in Hsl.
        rewrite !app_length in *. lia.
Qed.

(* ---------- take_until_unbalanced never slices out of range (C08) *)
Lemma tub_no_panic : forall fuel s o1 o2 c1 c2 index counter,
  tub fuel s o1 o2 c1 c2 index counter <> Panic.
Proof.
  induction fuel as [|f IH]; intros; cbn [tub]; [discriminate|].
  destruct (Nat.leb (length s) index) eqn:E; [discriminate|].
  apply Nat.leb_gt in E. unfold slice_from.
  assert (Nat.leb index (length s) = true) as -> by (apply Nat.leb_le; lia).
  destruct (starts2 o1 o2 (skipn index s)); [apply IH|].
  destruct (starts2 c1 c2 (skipn index s)); [destruct counter; [discriminate | apply IH] | apply IH].
Qed.
