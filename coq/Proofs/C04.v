From Coq Require Import ZArith List Bool Lia.
Require Import RasnV.Model.Base RasnV.Model.PerVisible RasnV.Spec.Subtype.
Import ListNotations.
Local Open Scope Z_scope.

(* folded results of pure integer sets are integer singles / ranges *)
Definition pure_res (r : option elem) : bool :=
  match r with
  | None => true
  | Some (Single (VInt _) _) => true
  | Some (Range lo hi _) => pure_bound lo && pure_bound hi
  | Some _ => false
  end.

Ltac break_pure :=
  repeat match goal with
         | H : pure_elem ?e = true |- _ =>
             destruct e as [[?z|?s|] ?x | [[?z|?s|]|] [[?z|?s|]|] ?x | ? | ? | | ]; cbn in H; try discriminate H; clear H
         | H : pure_res ?r = true |- _ =>
             destruct r as [[[?z|?s|] ?x | [[?z|?s|]|] [[?z|?s|]|] ?x | ? | ? | | ]|]; cbn in H; try discriminate H; clear H
         end.

Ltac inv_ok :=
  repeat match goal with
         | H : Ok _ = Ok _ |- _ => inversion H; subst; clear H
         | H : Err = Ok _ |- _ => discriminate H
         | H : Panic = Ok _ |- _ => discriminate H
         | H : OutOfFuel = Ok _ |- _ => discriminate H
         | H : context [if ?c then _ else _] |- _ => destruct c eqn:?
         end.

Ltac split_ifs :=
  repeat match goal with
         | |- context [if ?c then _ else _] => destruct c
         | |- context [match ?c with true => _ | false => _ end] => destruct c
         end.

(* the operator step, for integer sets in range mode: pure in, pure out, and a superset *)
Lemma combine_pure rho base o fo r z :
  pure_elem base = true -> pure_res fo = true ->
  combine base o fo None true = Ok r ->
  pure_res r = true /\
  (match o with
   | Union => sem_elem rho base z \/ in_result fo z
   | Inter => sem_elem rho base z /\ in_result fo z
   | Except => sem_elem rho base z
   end -> in_result r z).
Proof.
  intros Hb Hf Hc. break_pure; destruct o; cbn in Hc; inv_ok; split_ifs; cbn; (split; [reflexivity|]);
    unfold ge_opt, le_opt; cbn; try tauto; try lia;
    try (apply Z.eqb_eq in Heqb; subst); intuition lia.
Qed.

Lemma dispatch_pure recur base o fo cs rc :
  pure_elem base = true -> pure_res fo = true ->
  dispatch recur base o fo cs rc = combine base o fo cs rc.
Proof. intros Hb Hf. break_pure; destruct o; reflexivity. Qed.

Lemma fold_pure rho : forall fuel operant base o r z,
  pure_elem base = true -> pure_eos operant = true ->
  fold fuel base o operant None true = Ok r ->
  pure_res r = true /\ (sem_eos rho (SetOp base o operant) z -> in_result r z).
Proof.
  induction fuel as [|fuel IH]; intros operant base o r z Hb Ho Hf; [discriminate Hf|].
  cbn [fold] in Hf.
  destruct operant as [e | b2 o2 r2].
  - (* plain element *)
    cbn [bind] in Hf. cbn [pure_eos] in Ho.
    assert (Hfo : pure_res (if elem_pv e then Some e else None) = true).
    { clear - Ho. break_pure; reflexivity. }
    assert (Hsem : sem_elem rho e z -> in_result (if elem_pv e then Some e else None) z).
    { clear - Ho. break_pure; cbn; tauto. }
    set (fo := if elem_pv e then Some e else None) in *.
    assert (Hcomb : combine base o fo None true = Ok r).
    { erewrite <- dispatch_pure by eassumption. exact Hf. }
    destruct (combine_pure rho base o fo r z Hb Hfo Hcomb) as [Hp Hs].
    split; [exact Hp|]. intro H. apply Hs. cbn [sem_eos] in H. destruct o; tauto.
  - (* nested operation *)
    cbn [pure_eos] in Ho. apply andb_true_iff in Ho as [Hb2 Hr2].
    destruct (fold fuel b2 o2 r2 None true) as [fo| | |] eqn:Ef; cbn [bind] in Hf; try discriminate Hf.
    destruct (IH r2 b2 o2 fo z Hb2 Hr2 Ef) as [Hfo Hsem].
    assert (Hcomb : combine base o fo None true = Ok r).
    { erewrite <- dispatch_pure by eassumption. exact Hf. }
    destruct (combine_pure rho base o fo r z Hb Hfo Hcomb) as [Hp Hs].
    split; [exact Hp|]. intro H. apply Hs. cbn [sem_eos] in H. destruct o; tauto.
Qed.

Lemma fold_eos_never_excludes rho fuel s r z :
  pure_eos s = true -> fold_eos fuel s None true = Ok r -> sem_eos rho s z -> in_result r z.
Proof.
  intros Hp Hf Hs. destruct s as [e | b o operant]; cbn [fold_eos] in Hf.
  - inversion Hf; subst. cbn in Hs |- *. cbn [pure_eos] in Hp. break_pure; cbn in *; tauto.
  - cbn [pure_eos] in Hp. apply andb_true_iff in Hp as [Hb Ho].
    exact (proj2 (fold_pure rho fuel operant b o r z Hb Ho Hf) Hs).
Qed.

(* ---- exactness against the by-the-book effective constraint *)

Lemma combine_exact base o fo r :
  pure_elem base = true -> pure_res fo = true ->
  combine base o fo None true = Ok r ->
  (match o with Inter => nonempty_iv (pv_combine Inter (pv_elem base) (to_piv fo)) = true | _ => True end) ->
  to_piv r = pv_combine o (pv_elem base) (to_piv fo).
Proof.
  intros Hb Hf Hc Hne. break_pure; destruct o; cbn in Hc; inv_ok; split_ifs; cbn in *; try reflexivity;
    try (apply Z.eqb_eq in Heqb; subst); try apply Z.leb_le in Hne;
    try reflexivity; f_equal; try (f_equal; lia); lia.
Qed.

Lemma fold_exact : forall fuel operant base o r,
  pure_elem base = true -> pure_eos operant = true ->
  nonempty_inters (SetOp base o operant) = true ->
  fold fuel base o operant None true = Ok r ->
  pure_res r = true /\ to_piv r = pv_eos (SetOp base o operant).
Proof.
  induction fuel as [|fuel IH]; intros operant base o r Hb Ho Hne Hf; [discriminate Hf|].
  cbn [fold] in Hf. cbn [nonempty_inters] in Hne. apply andb_true_iff in Hne as [Hne_r Hne_here].
  destruct operant as [e | b2 o2 r2].
  - cbn [bind] in Hf. cbn [pure_eos] in Ho.
    assert (Hfo : pure_res (if elem_pv e then Some e else None) = true).
    { clear - Ho. break_pure; reflexivity. }
    assert (Hpv : to_piv (if elem_pv e then Some e else None) = pv_elem e).
    { clear - Ho. break_pure; reflexivity. }
    set (fo := if elem_pv e then Some e else None) in *.
    assert (Hcomb : combine base o fo None true = Ok r).
    { erewrite <- dispatch_pure by eassumption. exact Hf. }
    destruct (combine_pure (fun _ => True) base o fo r 0 Hb Hfo Hcomb) as [Hp _].
    split; [exact Hp|].
    rewrite (combine_exact base o fo r Hb Hfo Hcomb).
    + cbn [pv_eos]. rewrite Hpv. reflexivity.
    + destruct o; try exact I. cbn [pv_eos] in Hne_here. rewrite Hpv. exact Hne_here.
  - cbn [pure_eos] in Ho. apply andb_true_iff in Ho as [Hb2 Hr2].
    destruct (fold fuel b2 o2 r2 None true) as [fo| | |] eqn:Ef; cbn [bind] in Hf; try discriminate Hf.
    destruct (IH r2 b2 o2 fo Hb2 Hr2 Hne_r Ef) as [Hfo Hpv].
    assert (Hcomb : combine base o fo None true = Ok r).
    { erewrite <- dispatch_pure by eassumption. exact Hf. }
    destruct (combine_pure (fun _ => True) base o fo r 0 Hb Hfo Hcomb) as [Hp _].
    split; [exact Hp|].
    rewrite (combine_exact base o fo r Hb Hfo Hcomb).
    + change (pv_eos (SetOp base o (SetOp b2 o2 r2))) with (pv_combine o (pv_elem base) (pv_eos (SetOp b2 o2 r2))).
      rewrite Hpv. reflexivity.
    + destruct o; try exact I.
      change (pv_eos (SetOp base Inter (SetOp b2 o2 r2))) with (pv_combine Inter (pv_elem base) (pv_eos (SetOp b2 o2 r2))) in Hne_here.
      rewrite Hpv. exact Hne_here.
Qed.

Lemma fold_eos_exact fuel s r :
  pure_eos s = true -> nonempty_inters s = true -> fold_eos fuel s None true = Ok r -> to_piv r = pv_eos s.
Proof.
  intros Hp Hne Hf. destruct s as [e | b o operant]; cbn [fold_eos] in Hf.
  - inversion Hf; subst. reflexivity.
  - cbn [pure_eos] in Hp. apply andb_true_iff in Hp as [Hb Ho].
    exact (proj2 (fold_exact fuel operant b o r Hb Ho Hne Hf)).
Qed.

Lemma bind_no_fuel {A B} (r : res A) (f : A -> res B) :
  r <> OutOfFuel -> (forall a, f a <> OutOfFuel) -> bind r f <> OutOfFuel.
Proof. intros Hr Hf. destruct r; cbn; auto; congruence. Qed.

Lemma min_max_no_fuel a b cs g : min_max a b cs g <> OutOfFuel.
Proof.
  unfold min_max.
  repeat match goal with
         | |- context [match ?x with _ => _ end] => destruct x; try discriminate
         end.
Qed.

Lemma cmp_opt_no_fuel f a b : (forall x y, f x y <> OutOfFuel) -> cmp_opt f a b <> OutOfFuel.
Proof. intro H. destruct a, b; cbn; try discriminate. apply bind_no_fuel; [apply H | discriminate]. Qed.

Lemma hull_opt_no_fuel f a b : (forall x y, f x y <> OutOfFuel) -> hull_opt f a b <> OutOfFuel.
Proof. intro H. destruct a, b; cbn; try discriminate. apply bind_no_fuel; [apply H | discriminate]. Qed.

Lemma combine_no_fuel base o fo : combine base o fo None true <> OutOfFuel.
Proof.
  unfold combine, intersect_single_and_range, union_single_and_range.
  repeat match goal with
         | |- context [match ?x with _ => _ end] => destruct x; try discriminate
         end;
    repeat (apply bind_no_fuel; [first [apply cmp_opt_no_fuel | apply hull_opt_no_fuel]; intros; apply min_max_no_fuel | intro]);
    try discriminate.
Qed.

(* ---- termination: for pure sets the recursion is structural; fuel = size suffices *)
Lemma fold_fuel : forall operant fuel base o,
  pure_elem base = true -> pure_eos operant = true -> (eos_size operant < fuel)%nat ->
  fold fuel base o operant None true <> OutOfFuel.
Proof.
  induction operant as [e | b2 o2 r2 IH]; intros fuel base o Hb Ho Hlt;
    (destruct fuel as [|fuel]; [lia|]); cbn [fold].
  - cbn [bind]. cbn [pure_eos] in Ho.
    set (fo := if elem_pv e then Some e else None).
    assert (Hfo : pure_res fo = true).
    { unfold fo. clear - Ho. break_pure; reflexivity. }
    erewrite dispatch_pure by eassumption. apply combine_no_fuel.
  - cbn [pure_eos] in Ho. apply andb_true_iff in Ho as [Hb2 Hr2].
    cbn [eos_size] in Hlt.
    assert (Hrec : fold fuel b2 o2 r2 None true <> OutOfFuel) by (apply IH; auto; lia).
    destruct (fold fuel b2 o2 r2 None true) as [fo| | |] eqn:Ef; cbn [bind]; try discriminate; [|congruence].
    assert (Hfo : pure_res fo = true).
    { destruct fuel as [|f']; [discriminate Ef|].
      exact (proj1 (fold_pure (fun _ => True) (S f') r2 b2 o2 fo 0 Hb2 Hr2 Ef)). }
    erewrite dispatch_pure by eassumption. apply combine_no_fuel.
Qed.

(* ---- from the folded element to the emitted range *)

Lemma range_of_pure_res fuel r :
  pure_res r = true -> (0 < fuel)%nat ->
  exists rg, range_of_elem fuel r = Ok rg /\ rsize rg = false /\
             (forall z, in_result r z <-> in_range rg z) /\
             rext rg = match r with Some e => elem_x e | None => false end /\
             to_piv r = match r with None => NV | Some _ => IV (rmin rg) (rmax rg) end.
Proof.
  intros Hp Hf. destruct fuel as [|fuel]; [lia|]. break_pure; cbn [range_of_elem];
    eexists; (split; [reflexivity|]); cbn; repeat split; try tauto; intros; subst; try lia; try tauto;
    unfold in_range, ge_opt, le_opt in *; cbn in *; try lia; try tauto.
Qed.

Lemma add_assign_in a b z : in_range a z -> in_range b z -> in_range (add_assign a b) z.
Proof.
  unfold in_range, add_assign, ge_opt, le_opt. cbn.
  destruct (rmin a), (rmin b), (rmax a), (rmax b); cbn; intros [? ?] [? ?]; split; try lia; exact I.
Qed.

Definition constraint_sem rho (c : constraint) (z : Z) : Prop :=
  match cset c with
  | El (Size inner) => sem_eos rho inner z          (* z is the length *)
  | s => sem_eos rho s z
  end.

Definition constraint_pure (c : constraint) : bool :=
  match cset c with
  | El (Size inner) => pure_eos inner
  | s => pure_eos s
  end.

Lemma set_size_in r z : in_range r z -> in_range (set_size r) z.
Proof. unfold in_range, set_size. cbn. tauto. Qed.

Lemma mark_ext_in t r z : in_range r z -> in_range (mark_ext t r) z.
Proof. unfold mark_ext. destruct (t && _); [|tauto]. unfold in_range. cbn. tauto. Qed.

Lemma no_marker_trailing r : no_elem_marker r = true -> trailing_marker r = false.
Proof.
  induction r as [e | b o r IH]; cbn [no_elem_marker trailing_marker].
  - intro H. apply negb_true_iff in H. destruct e; cbn in H |- *; auto.
  - intro H. apply andb_true_iff in H as [_ H]. exact (IH H).
Qed.

Lemma mark_ext_false r : mark_ext false r = r.
Proof. reflexivity. Qed.

Lemma range_of_elem_pure rho fuel e rg z :
  pure_elem e = true -> sem_elem rho e z -> range_of_elem fuel (Some e) = Ok rg -> in_range rg z.
Proof.
  intros Hp Hs Hr. destruct fuel as [|fuel]; [discriminate Hr|].
  break_pure; cbn in Hr; inv_ok; cbn in Hs; unfold in_range, ge_opt, le_opt in *; cbn in *; try lia; tauto.
Qed.

Lemma fold_range rho fuel b o operant fe rg z :
  pure_elem b = true -> pure_eos operant = true ->
  fold fuel b o operant None true = Ok fe -> range_of_elem fuel fe = Ok rg ->
  sem_eos rho (SetOp b o operant) z -> in_range rg z.
Proof.
  intros Hb Ho Ef Er Hs.
  destruct (fold_pure rho fuel operant b o fe z Hb Ho Ef) as [Hpure Hin]. specialize (Hin Hs).
  assert (Hfuel : (0 < fuel)%nat) by (destruct fuel; [discriminate Ef | lia]).
  destruct (range_of_pure_res fuel fe Hpure Hfuel) as [rg' [E1 [_ [Hiff _]]]].
  rewrite E1 in Er. inversion Er; subst. apply Hiff. exact Hin.
Qed.

Lemma range_of_constraint_never_excludes rho fuel c rg z :
  constraint_pure c = true -> range_of_constraint fuel c = Ok rg -> constraint_sem rho c z -> in_range rg z.
Proof.
  unfold constraint_pure, constraint_sem, range_of_constraint. intros Hp Hr Hs.
  match type of Hr with bind ?m _ = _ => destruct m as [pv| | |] eqn:Epv end; cbn [bind] in Hr; try discriminate Hr.
  assert (Hpv : in_range pv z).
  { destruct (cset c) as [e | b o operant].
    - destruct e as [v x | lo hi x | inner | inner | | ]; try (cbn in Hp; discriminate Hp).
      + exact (range_of_elem_pure rho fuel _ pv z Hp Hs Epv).
      + exact (range_of_elem_pure rho fuel _ pv z Hp Hs Epv).
      + (* SIZE (inner) *)
        destruct fuel as [|fuel]; [discriminate Epv|]. cbn [range_of_elem] in Epv.
        destruct inner as [e' | b o operant].
        * destruct (range_of_elem fuel (Some e')) as [r'| | |] eqn:Er; cbn [bind] in Epv; try discriminate Epv.
          inversion Epv; subst pv. apply set_size_in.
          cbn [pure_eos] in Hp. exact (range_of_elem_pure rho fuel e' r' z Hp Hs Er).
        * destruct (fold fuel b o operant None true) as [fe| | |] eqn:Ef; cbn [bind] in Epv; try discriminate Epv.
          destruct (range_of_elem fuel fe) as [r'| | |] eqn:Er; cbn [bind] in Epv; try discriminate Epv.
          inversion Epv; subst pv. apply mark_ext_in, set_size_in.
          cbn [pure_eos] in Hp. apply andb_true_iff in Hp as [Hb Ho].
          exact (fold_range rho fuel b o operant fe r' z Hb Ho Ef Er Hs).
      + exact (range_of_elem_pure rho fuel _ pv z Hp Hs Epv).
    - destruct (fold fuel b o operant None true) as [fe| | |] eqn:Ef; cbn [bind] in Epv; try discriminate Epv.
      destruct (range_of_elem fuel fe) as [r'| | |] eqn:Er; cbn [bind] in Epv; try discriminate Epv.
      cbn [pure_eos] in Hp. apply andb_true_iff in Hp as [Hb Ho].
      pose proof (fold_range rho fuel b o operant fe r' z Hb Ho Ef Er Hs) as Hin.
      inversion Epv; subst pv. apply mark_ext_in.
      destruct (set_has_size b operant); [apply set_size_in|]; exact Hin. }
  inversion Hr; subst rg.
  destruct (cext c && _); [|exact Hpv]. unfold in_range in *. cbn. exact Hpv.
Qed.

Lemma serial_never_excludes rho fuel : forall cs acc rg z,
  Forall (fun c => constraint_pure c = true /\ constraint_sem rho c z) cs ->
  in_range acc z ->
  per_visible_range_from fuel acc cs = Ok rg -> in_range rg z.
Proof.
  induction cs as [|c cs IH]; intros acc rg z Hall Hacc Hr; cbn [per_visible_range_from] in Hr.
  - inversion Hr; subst. exact Hacc.
  - inversion Hall as [|c' cs' [Hp Hs] Hrest]; subst.
    destruct (eos_pv (cset c)).
    + destruct (range_of_constraint fuel c) as [rc| | |] eqn:Erc; cbn [bind] in Hr; try discriminate Hr.
      apply (IH (add_assign acc rc) rg z Hrest); [|exact Hr].
      apply add_assign_in; [exact Hacc|].
      exact (range_of_constraint_never_excludes rho fuel c rc z Hp Erc Hs).
    + exact (IH acc rg z Hrest Hacc Hr).
Qed.

(* ---- extension markers: element sets without element-level markers fold to an unmarked element *)
Lemma combine_no_marker base o fo r :
  pure_elem base = true -> pure_res fo = true -> elem_x base = false ->
  match fo with Some e => elem_x e = false | None => True end ->
  combine base o fo None true = Ok r ->
  match r with Some e => elem_x e = false | None => True end.
Proof.
  intros Hb Hf Hx Hfx Hc. break_pure; cbn in Hx, Hfx; subst; destruct o; cbn in Hc; inv_ok; split_ifs; cbn; auto.
Qed.

Lemma fold_no_marker : forall fuel operant base o r,
  pure_elem base = true -> pure_eos operant = true ->
  no_elem_marker (SetOp base o operant) = true ->
  fold fuel base o operant None true = Ok r ->
  match r with Some e => elem_x e = false | None => True end.
Proof.
  induction fuel as [|fuel IH]; intros operant base o r Hb Ho Hn Hf; [discriminate Hf|].
  cbn [fold] in Hf. cbn [no_elem_marker] in Hn. apply andb_true_iff in Hn as [Hxb Hn].
  apply negb_true_iff in Hxb.
  destruct operant as [e | b2 o2 r2].
  - cbn [bind] in Hf. cbn [pure_eos] in Ho. cbn [no_elem_marker] in Hn. apply negb_true_iff in Hn.
    set (fo := if elem_pv e then Some e else None) in *.
    assert (Hfo : pure_res fo = true) by (unfold fo; clear - Ho; break_pure; reflexivity).
    assert (Hfx : match fo with Some e => elem_x e = false | None => True end)
      by (unfold fo; destruct (elem_pv e); [exact Hn | exact I]).
    erewrite dispatch_pure in Hf by eassumption.
    exact (combine_no_marker base o fo r Hb Hfo Hxb Hfx Hf).
  - cbn [pure_eos] in Ho. apply andb_true_iff in Ho as [Hb2 Hr2].
    destruct (fold fuel b2 o2 r2 None true) as [fo| | |] eqn:Ef; cbn [bind] in Hf; try discriminate Hf.
    pose proof (IH r2 b2 o2 fo Hb2 Hr2 Hn Ef) as Hfx.
    pose proof (proj1 (fold_pure (fun _ => True) fuel r2 b2 o2 fo 0 Hb2 Hr2 Ef)) as Hfo.
    erewrite dispatch_pure in Hf by eassumption.
    exact (combine_no_marker base o fo r Hb Hfo Hxb Hfx Hf).
Qed.

(* ---- the precedence finding: a ^ b | c is folded as a ^ (b | c) *)
Definition w1 := Range (Some (VInt 1)) (Some (VInt 10)) false.
Definition w2 := Range (Some (VInt 5)) (Some (VInt 20)) false.
Definition w3 := Single (VInt 100) false.

Lemma precedence_refuted :
  exists e1 e2 e3 z r,
    sem_prec3 (fun _ => True) e1 Inter e2 Union e3 z
    /\ fold 10 e1 Inter (SetOp e2 Union (El e3)) None true = Ok r
    /\ ~ in_result r z.
Proof.
  exists w1, w2, w3, 100. eexists. split; [right; reflexivity|]. split; [vm_compute; reflexivity|].
  cbn. unfold ge_opt, le_opt. cbn. lia.
Qed.

Lemma except_precedence_refuted :
  exists e1 e2 e3 z r,
    sem_prec3 (fun _ => True) e1 Except e2 Union e3 z
    /\ fold 10 e1 Except (SetOp e2 Union (El e3)) None true = Ok r
    /\ ~ in_result r z.
Proof.
  exists w1, (Single (VInt 5) false), w3, 100. eexists. split; [right; reflexivity|].
  split; [vm_compute; reflexivity|]. cbn. unfold ge_opt, le_opt. cbn. lia.
Qed.

(* for precedence-monotone operator pairs the right-nested reading is the X.680 one *)
Lemma monotone3_sem rho e1 o1 e2 o2 e3 z :
  monotone3 o1 o2 = true ->
  (sem_prec3 rho e1 o1 e2 o2 e3 z <-> sem_eos rho (SetOp e1 o1 (SetOp e2 o2 (El e3))) z).
Proof. destruct o1, o2; cbn; intro H; try discriminate H; tauto. Qed.

Lemma monotone3_pv e1 o1 e2 o2 e3 :
  monotone3 o1 o2 = true ->
  pv_prec3 e1 o1 e2 o2 e3 = pv_eos (SetOp e1 o1 (SetOp e2 o2 (El e3))).
Proof. destruct o1, o2; cbn; intro H; try discriminate H; reflexivity. Qed.

(* ---- extensible exactly when the constraint carries a marker (and bounds something) *)
Definition bounded (r : range) : bool := match rmin r, rmax r with None, None => false | _, _ => true end.

Definition constraint_unmarked_elems (c : constraint) : bool :=
  match cset c with
  | El (Size inner) => no_elem_marker inner
  | s => no_elem_marker s
  end.

Lemma range_of_elem_unmarked fuel e rg :
  pure_elem e = true -> elem_x e = false -> range_of_elem fuel (Some e) = Ok rg -> rext rg = false.
Proof.
  intros Hp Hx Hr. destruct fuel as [|fuel]; [discriminate Hr|].
  break_pure; cbn in Hr, Hx; inv_ok; cbn; auto.
Qed.

Lemma fold_range_unmarked fuel b o operant fe rg :
  pure_elem b = true -> pure_eos operant = true -> no_elem_marker (SetOp b o operant) = true ->
  fold fuel b o operant None true = Ok fe -> range_of_elem fuel fe = Ok rg -> rext rg = false.
Proof.
  intros Hb Ho Hn Ef Er.
  pose proof (fold_no_marker fuel operant b o fe Hb Ho Hn Ef) as Hx.
  pose proof (proj1 (fold_pure (fun _ => True) fuel operant b o fe 0 Hb Ho Ef)) as Hpure.
  assert (Hfuel : (0 < fuel)%nat) by (destruct fuel; [discriminate Ef | lia]).
  destruct (range_of_pure_res fuel fe Hpure Hfuel) as [rg' [E1 [_ [_ [Hext _]]]]].
  rewrite E1 in Er. inversion Er; subst. rewrite Hext. destruct fe; auto.
Qed.

Lemma set_size_ext r : rext (set_size r) = rext r. Proof. reflexivity. Qed.
Lemma set_size_bounded r : bounded (set_size r) = bounded r. Proof. reflexivity. Qed.

Lemma constraint_extensible_iff fuel c rg :
  constraint_pure c = true -> constraint_unmarked_elems c = true ->
  range_of_constraint fuel c = Ok rg -> rext rg = cext c && bounded rg.
Proof.
  unfold constraint_pure, constraint_unmarked_elems, range_of_constraint. intros Hp Hn Hr.
  match type of Hr with bind ?m _ = _ => destruct m as [pv| | |] eqn:Epv end; cbn [bind] in Hr; try discriminate Hr.
  assert (Hpv : rext pv = false).
  { destruct (cset c) as [e | b o operant].
    - destruct e as [v x | lo hi x | inner | inner | | ]; try (cbn in Hp; discriminate Hp).
      + cbn in Hn. apply negb_true_iff in Hn. exact (range_of_elem_unmarked fuel _ pv Hp Hn Epv).
      + cbn in Hn. apply negb_true_iff in Hn. exact (range_of_elem_unmarked fuel _ pv Hp Hn Epv).
      + destruct fuel as [|fuel]; [discriminate Epv|]. cbn [range_of_elem] in Epv.
        destruct inner as [e' | b o operant].
        * destruct (range_of_elem fuel (Some e')) as [r'| | |] eqn:Er; cbn [bind] in Epv; try discriminate Epv.
          inversion Epv; subst pv. rewrite set_size_ext.
          cbn in Hn. apply negb_true_iff in Hn. cbn [pure_eos] in Hp.
          exact (range_of_elem_unmarked fuel e' r' Hp Hn Er).
        * destruct (fold fuel b o operant None true) as [fe| | |] eqn:Ef; cbn [bind] in Epv; try discriminate Epv.
          destruct (range_of_elem fuel fe) as [r'| | |] eqn:Er; cbn [bind] in Epv; try discriminate Epv.
          inversion Epv; subst pv.
          assert (Ht : trailing_marker operant = false)
            by (apply no_marker_trailing; cbn [no_elem_marker] in Hn; apply andb_true_iff in Hn as [_ Hn]; exact Hn).
          rewrite Ht, mark_ext_false, set_size_ext.
          cbn [pure_eos] in Hp. apply andb_true_iff in Hp as [Hb Ho].
          exact (fold_range_unmarked fuel b o operant fe r' Hb Ho Hn Ef Er).
      + destruct fuel; cbn in Epv; discriminate Epv.
    - destruct (fold fuel b o operant None true) as [fe| | |] eqn:Ef; cbn [bind] in Epv; try discriminate Epv.
      destruct (range_of_elem fuel fe) as [r'| | |] eqn:Er; cbn [bind] in Epv; try discriminate Epv.
      cbn [pure_eos] in Hp. apply andb_true_iff in Hp as [Hb Ho].
      pose proof (fold_range_unmarked fuel b o operant fe r' Hb Ho Hn Ef Er) as Hx.
      inversion Epv; subst pv.
      assert (Ht : trailing_marker operant = false)
        by (apply no_marker_trailing; cbn [no_elem_marker] in Hn; apply andb_true_iff in Hn as [_ Hn]; exact Hn).
      rewrite Ht, mark_ext_false.
      destruct (set_has_size b operant); [rewrite set_size_ext|]; exact Hx. }
  inversion Hr; subst rg. unfold bounded.
  destruct (cext c) eqn:Ec; cbn [andb].
  - destruct (rmin pv) eqn:E1, (rmax pv) eqn:E2; cbn; rewrite ?E1, ?E2; auto.
  - rewrite Hpv. reflexivity.
Qed.

Lemma per_visible_never_excludes rho fuel signed cs rg z :
  Forall (fun c => constraint_pure c = true /\ constraint_sem rho c z) cs ->
  (signed = false -> 0 <= z) ->
  per_visible_range_constraints fuel signed cs = Ok rg -> in_range rg z.
Proof.
  intros Hall Hz Hr. unfold per_visible_range_constraints in Hr.
  eapply (serial_never_excludes rho fuel cs); [exact Hall | | exact Hr].
  destruct signed; unfold in_range; cbn; [tauto | split; [apply Hz; reflexivity | exact I]].
Qed.

(* ---- the marker the lexer attached to the last element of a set is never lost: whatever the fold keeps or drops, a bounded
   result is flagged extensible (the rule added with fix ba5357f) *)
Lemma mark_ext_bounds t r : rmin (mark_ext t r) = rmin r /\ rmax (mark_ext t r) = rmax r.
Proof. unfold mark_ext. destruct (t && _); split; reflexivity. Qed.

Lemma mark_ext_true_flag r : bounded r = true -> rext (mark_ext true r) = true.
Proof.
  unfold mark_ext, bounded. cbn [andb]. destruct (rmin r), (rmax r); intro H; try reflexivity; discriminate H.
Qed.

Lemma trailing_marker_flagged fuel b o r cx rg :
  range_of_constraint fuel {| cset := SetOp b o r; cext := cx |} = Ok rg ->
  trailing_marker r = true -> bounded rg = true -> rext rg = true.
Proof.
  unfold range_of_constraint. cbn [cset cext]. intros H Ht Hb.
  destruct (fold fuel b o r None true) as [fe| | |]; cbn [bind] in H; try discriminate H.
  destruct (range_of_elem fuel fe) as [v| | |]; cbn [bind] in H; try discriminate H.
  rewrite Ht in H. inversion H as [Hrg]; clear H.
  set (w := if set_has_size b r then set_size v else v) in *.
  destruct (cx && match rmin (mark_ext true w), rmax (mark_ext true w) with None, None => false | _, _ => true end) eqn:E.
  - reflexivity.
  - apply mark_ext_true_flag. subst rg. unfold bounded in *. destruct (mark_ext_bounds true w) as [E1 E2]. rewrite E1, E2 in Hb. exact Hb.
Qed.
