From Coq Require Import ZArith List Bool Lia Sorted.
Require Import RasnV.Model.Base RasnV.Model.Enum RasnV.Spec.EnumSpec.
Import ListNotations.
Local Open Scope Z_scope.

Lemma zmem_In z l : zmem z l = true <-> In z l.
Proof.
  unfold zmem. rewrite existsb_exists. split.
  - intros [x [Hx He]]. apply Z.eqb_eq in He. subst. exact Hx.
  - intro H. exists z. split; [exact H | apply Z.eqb_refl].
Qed.

Lemma zmem_false z l : zmem z l = false <-> ~ In z l.
Proof. rewrite <- zmem_In. destruct (zmem z l); split; intro H; congruence. Qed.

(* ---- skip: termination argument of `while used.contains(&next)` *)

Definition cnt (used : list Z) (n : Z) : nat := length (filter (fun u => Z.leb n u) used).

Lemma cnt_le_length used n : (cnt used n <= length used)%nat.
Proof.
  unfold cnt. induction used as [|u used IH]; cbn [filter length]; [lia|].
  destruct (Z.leb n u); cbn [length]; lia.
Qed.

Lemma cnt_mono used n : (cnt used (n + 1) <= cnt used n)%nat.
Proof.
  unfold cnt. induction used as [|u used IH]; cbn [filter]; [lia|].
  destruct (Z.leb_spec (n + 1) u), (Z.leb_spec n u); cbn [length]; lia.
Qed.

Lemma cnt_mem used n : In n used -> (S (cnt used (n + 1)) <= cnt used n)%nat.
Proof.
  unfold cnt. induction used as [|u used IH]; intro H; [destruct H|].
  cbn [filter]. destruct H as [H|H].
  - subst u. destruct (Z.leb_spec (n + 1) n); [lia|]. destruct (Z.leb_spec n n); [|lia].
    cbn [length]. pose proof (cnt_mono used n) as M. unfold cnt in M. lia.
  - specialize (IH H). destruct (Z.leb_spec (n + 1) u), (Z.leb_spec n u); cbn [length]; lia.
Qed.

Lemma skip_ge used f n : n <= skip used f n.
Proof.
  revert n. induction f as [|f IH]; intro n; cbn [skip]; [lia|].
  destruct (zmem n used); [specialize (IH (n + 1)); lia | lia].
Qed.

Lemma skip_notin_gen used f n : (cnt used n <= f)%nat -> zmem (skip used f n) used = false.
Proof.
  revert n. induction f as [|f IH]; intros n H; cbn [skip].
  - destruct (zmem n used) eqn:E; [|reflexivity].
    apply zmem_In in E. apply cnt_mem in E. lia.
  - destruct (zmem n used) eqn:E; [|exact E].
    apply IH. apply zmem_In in E. apply cnt_mem in E. lia.
Qed.

Lemma skip_notin used n : zmem (skip used (length used) n) used = false.
Proof. apply skip_notin_gen. apply cnt_le_length. Qed.

Lemma skip_gap used f n m : n <= m < skip used f n -> In m used.
Proof.
  revert n. induction f as [|f IH]; intros n H; cbn [skip] in H; [lia|].
  destruct (zmem n used) eqn:E; [|lia].
  destruct (Z.eq_dec m n) as [->|Hne]; [apply zmem_In; exact E|].
  apply (IH (n + 1)). lia.
Qed.

(* ---- root numbering *)

Lemma root_names used next items :
  map fst (number_root_from used next items) = map fst items.
Proof.
  revert next. induction items as [|[n [z|]] r IH]; intro next; cbn [number_root_from map fst]; f_equal; auto.
Qed.

Lemma root_length used next items : length (number_root_from used next items) = length items.
Proof.
  revert next. induction items as [|[n [z|]] r IH]; intro next; cbn [number_root_from length]; auto.
Qed.

Lemma root_kept used next items : kept items (map snd (number_root_from used next items)) = true.
Proof.
  revert next. induction items as [|[n [z|]] r IH]; intro next; cbn [number_root_from map snd kept]; auto.
  rewrite Z.eqb_refl. cbn. auto.
Qed.

(* the numbers given to identifier-only items *)
Fixpoint implicit_values (items : list item) (nums : list Z) : list Z :=
  match items, nums with
  | (_, None) :: r, n :: ns => n :: implicit_values r ns
  | (_, Some _) :: r, _ :: ns => implicit_values r ns
  | _, _ => []
  end.

Definition root_implicit used next items :=
  implicit_values items (map snd (number_root_from used next items)).

Lemma root_implicit_bounds used next items :
  Forall (fun v => next <= v /\ ~ In v used) (root_implicit used next items).
Proof.
  unfold root_implicit. revert next.
  induction items as [|[n [z|]] r IH]; intro next; cbn [number_root_from map snd implicit_values].
  - constructor.
  - apply IH.
  - constructor.
    + split; [apply skip_ge | apply zmem_false, skip_notin].
    + eapply Forall_impl; [|apply IH]. cbn. intros v [H1 H2]. split; [|exact H2].
      pose proof (skip_ge used (length used) next). lia.
Qed.

Lemma root_implicit_sorted used next items :
  StronglySorted Z.lt (root_implicit used next items).
Proof.
  unfold root_implicit. revert next.
  induction items as [|[n [z|]] r IH]; intro next; cbn [number_root_from map snd implicit_values].
  - constructor.
  - apply IH.
  - constructor; [apply IH|].
    eapply Forall_impl; [|apply (root_implicit_bounds used (skip used (length used) next + 1) r)].
    cbn. intros v [H _]. lia.
Qed.

(* gap-freeness: nothing unused is skipped *)
Lemma root_implicit_gapfree used next items m v :
  In v (root_implicit used next items) -> next <= m < v ->
  In m used \/ In m (root_implicit used next items).
Proof.
  unfold root_implicit. revert next.
  induction items as [|[n [z|]] r IH]; intros next Hv Hm; cbn [number_root_from map snd implicit_values] in *.
  - destruct Hv.
  - apply IH; assumption.
  - set (s := skip used (length used) next) in *.
    destruct (Z.lt_ge_cases m s) as [Hlt|Hge].
    + left. apply (skip_gap used (length used) next). fold s. lia.
    + destruct (Z.eq_dec m s) as [->|Hne]; [right; left; reflexivity|].
      destruct Hv as [Hv|Hv]; [lia|].
      destruct (IH (s + 1) Hv) as [H|H]; [lia | left; exact H | right; right; exact H].
Qed.

(* every root number is explicit, or fresh w.r.t. [used] and >= next *)
Lemma root_numbers_origin used next items x :
  In x (map snd (number_root_from used next items)) ->
  In x (explicit_numbers items) \/ (next <= x /\ ~ In x used).
Proof.
  revert next. induction items as [|[n [z|]] r IH]; intros next H;
    cbn [number_root_from map snd explicit_numbers flat_map app] in *.
  - destruct H.
  - destruct H as [H|H]; [left; left; exact H|].
    destruct (IH _ H) as [H'|H']; [left; right; exact H' | right; exact H'].
  - destruct H as [H|H].
    + right. subst x. split; [apply skip_ge | apply zmem_false, skip_notin].
    + destruct (IH _ H) as [H'|[H1 H2]]; [left; exact H' | right].
      split; [|exact H2]. pose proof (skip_ge used (length used) next). lia.
Qed.

Lemma root_nodup used next items :
  NoDup (explicit_numbers items) -> incl (explicit_numbers items) used ->
  NoDup (map snd (number_root_from used next items)).
Proof.
  revert next. induction items as [|[n [z|]] r IH]; intros next Hnd Hincl;
    cbn [number_root_from map snd explicit_numbers flat_map app] in *.
  - constructor.
  - inversion Hnd as [|z' l Hz Hl]; subst. constructor.
    + intro Hin. destruct (root_numbers_origin _ _ _ _ Hin) as [H|[_ H]]; [exact (Hz H)|].
      apply H, Hincl. left. reflexivity.
    + apply IH; [exact Hl | intros y Hy; apply Hincl; right; exact Hy].
  - constructor.
    + intro Hin. destruct (root_numbers_origin _ _ _ _ Hin) as [H|[H _]]; [|lia].
      apply Hincl in H. apply zmem_In in H. rewrite skip_notin in H. discriminate.
    + apply IH; assumption.
Qed.

(* ---- additions *)

Lemma add_names rootnums next adds :
  map fst (number_add_from rootnums next adds) = map fst adds.
Proof.
  revert next. induction adds as [|[n [z|]] r IH]; intro next; cbn [number_add_from map fst]; f_equal; auto.
Qed.

Lemma add_length rootnums next adds : length (number_add_from rootnums next adds) = length adds.
Proof.
  revert next. induction adds as [|[n [z|]] r IH]; intro next; cbn [number_add_from length]; auto.
Qed.

Lemma add_kept rootnums next adds : kept adds (map snd (number_add_from rootnums next adds)) = true.
Proof.
  revert next. induction adds as [|[n [z|]] r IH]; intro next; cbn [number_add_from map snd kept]; auto.
  rewrite Z.eqb_refl. cbn. auto.
Qed.

Lemma add_fresh rootnums adds : forall next prevs i n,
  (forall p, In p prevs -> p < next) ->
  nth_error adds i = Some (n, None) ->
  exists v, nth_error (map snd (number_add_from rootnums next adds)) i = Some v
            /\ ~ In v rootnums
            /\ (forall p, In p (prevs ++ firstn i (map snd (number_add_from rootnums next adds))) -> p < v).
Proof.
  induction adds as [|[n0 [z|]] r IH]; intros next prevs i n Hinv Hnth.
  - destruct i; discriminate.
  - destruct i as [|i]; [discriminate|]. cbn [nth_error] in Hnth.
    cbn [number_add_from map snd nth_error firstn].
    destruct (IH (Z.max next (z + 1)) (prevs ++ [z]) i n) as [v [H1 [H2 H3]]]; [|exact Hnth|].
    + intros p Hp. apply in_app_or in Hp. destruct Hp as [Hp|[Hp|[]]]; [specialize (Hinv p Hp); lia | lia].
    + exists v. split; [exact H1|]. split; [exact H2|].
      intros p Hp. apply H3. rewrite <- app_assoc. exact Hp.
  - destruct i as [|i].
    + cbn [number_add_from map snd nth_error firstn]. eexists. split; [reflexivity|]. split.
      * apply zmem_false, skip_notin.
      * intros p Hp. rewrite app_nil_r in Hp. specialize (Hinv p Hp).
        pose proof (skip_ge rootnums (length rootnums) next). lia.
    + cbn [nth_error] in Hnth. cbn [number_add_from map snd nth_error firstn].
      set (s := skip rootnums (length rootnums) next).
      destruct (IH (Z.max s (s + 1)) (prevs ++ [s]) i n) as [v [H1 [H2 H3]]]; [|exact Hnth|].
      * intros p Hp. apply in_app_or in Hp. destruct Hp as [Hp|[Hp|[]]]; [|lia].
        specialize (Hinv p Hp). pose proof (skip_ge rootnums (length rootnums) next). fold s in H. lia.
      * exists v. split; [exact H1|]. split; [exact H2|].
        intros p Hp. apply H3. rewrite <- app_assoc. exact Hp.
Qed.

(* ---- distinctness *)

Lemma nodup_by_prefix (l : list Z) :
  (forall i x, nth_error l i = Some x -> ~ In x (firstn i l)) -> NoDup l.
Proof.
  induction l as [|a l IH] using rev_ind; intro H; [constructor|].
  apply NoDup_rev in IH.
  - rewrite <- (rev_involutive (l ++ [a])). apply NoDup_rev. rewrite rev_app_distr. cbn.
    constructor; [|exact IH].
    intro Hin. apply in_rev in Hin.
    apply (H (length l) a).
    + rewrite nth_error_app2 by lia. rewrite Nat.sub_diag. reflexivity.
    + rewrite firstn_app, firstn_all, Nat.sub_diag. cbn. rewrite app_nil_r. exact Hin.
  - intros i x Hi Hin. apply (H i x).
    + rewrite nth_error_app1; [exact Hi|]. apply nth_error_Some. congruence.
    + assert (i < length l)%nat by (apply nth_error_Some; congruence).
      rewrite firstn_app. apply in_or_app. left. exact Hin.
Qed.

Lemma NoDup_nth_prefix (l : list Z) i x :
  NoDup l -> nth_error l i = Some x -> ~ In x (firstn i l).
Proof.
  revert i. induction l as [|a l IH]; intros i Hnd Hi; [destruct i; discriminate|].
  inversion Hnd as [|a' l' Ha Hl]; subst.
  destruct i as [|i]; cbn [firstn nth_error] in *; [intros []|].
  intros [H|H].
  - subst. apply Ha. eapply nth_error_In. exact Hi.
  - exact (IH i Hl Hi H).
Qed.

Lemma kept_nth items : forall l j n z x,
  kept items l = true -> nth_error items j = Some (n, Some z) -> nth_error l j = Some x -> x = z.
Proof.
  induction items as [|[n0 [z0|]] r IH]; intros l j n z x K Ej Hi; [destruct j; discriminate| |].
  - destruct l as [|y l]; [discriminate|]. cbn [kept] in K. apply andb_true_iff in K as [K1 K2].
    destruct j as [|j]; cbn [nth_error] in *.
    + apply Z.eqb_eq in K1. congruence.
    + eapply IH; eassumption.
  - destruct l as [|y l]; [discriminate|]. cbn [kept] in K.
    destruct j as [|j]; cbn [nth_error] in *; [discriminate|]. eapply IH; eassumption.
Qed.

Definition all_numbers (root adds : list item) : list Z :=
  map snd (members (build_enumerated root true adds)).

Lemma all_numbers_split root adds :
  all_numbers root adds = map snd (number_root root) ++ map snd (number_adds (number_root root) adds).
Proof. unfold all_numbers, build_enumerated. cbn [members]. apply map_app. Qed.

Lemma distinct root adds :
  NoDup (explicit_numbers root) ->
  (forall i n z, nth_error adds i = Some (n, Some z) ->
                 ~ In z (map snd (number_root root) ++ firstn i (map snd (number_adds (number_root root) adds)))) ->
  NoDup (all_numbers root adds).
Proof.
  intros Hroot Hadd. rewrite all_numbers_split.
  set (rn := map snd (number_root root)) in *.
  set (an := map snd (number_adds (number_root root) adds)) in *.
  assert (Hrn : NoDup rn).
  { unfold rn, number_root. apply root_nodup; [exact Hroot | apply incl_refl]. }
  apply nodup_by_prefix. intros i x Hi.
  destruct (Nat.lt_ge_cases i (length rn)) as [Hlt|Hge].
  - rewrite nth_error_app1 in Hi by exact Hlt.
    rewrite firstn_app. replace (i - length rn)%nat with 0%nat by lia. cbn [firstn]. rewrite app_nil_r.
    apply NoDup_nth_prefix; assumption.
  - rewrite nth_error_app2 in Hi by exact Hge.
    rewrite firstn_app, firstn_all2 by exact Hge.
    set (j := (i - length rn)%nat) in *.
    assert (Hj : (j < length adds)%nat).
    { assert (j < length an)%nat by (apply nth_error_Some; congruence).
      unfold an, number_adds in H. rewrite map_length, add_length in H. exact H. }
    destruct (nth_error adds j) as [[n [z|]]|] eqn:Ej.
    + assert (x = z).
      { eapply kept_nth; [apply (add_kept rn 0 adds) | exact Ej | exact Hi]. }
      subst x. apply (Hadd j n z Ej).
    + destruct (add_fresh rn adds 0 [] j n) as [v [H1 [H2 H3]]]; [intros p []| exact Ej |].
      assert (Hxv : Some x = Some v) by (rewrite <- Hi; exact H1).
      inversion Hxv; subst x.
      intro Hin. apply in_app_or in Hin. destruct Hin as [Hin|Hin]; [exact (H2 Hin)|].
      specialize (H3 v Hin). lia.
    + apply nth_error_None in Ej. lia.
Qed.

Lemma kept_app a b la lb :
  length la = length a -> kept a la = true -> kept b lb = true -> kept (a ++ b) (la ++ lb) = true.
Proof.
  revert la. induction a as [|[n [z|]] r IH]; intros la Hl Ka Kb.
  - destruct la; [exact Kb | discriminate].
  - destruct la as [|y la]; [discriminate|]. cbn [kept app] in *.
    apply andb_true_iff in Ka as [K1 K2]. rewrite K1. cbn. apply IH; auto.
  - destruct la as [|y la]; [discriminate|]. cbn [kept app] in *. apply IH; auto.
Qed.

Lemma names_in_order root marker adds :
  map fst (members (build_enumerated root marker adds)) = map fst (root ++ adds).
Proof.
  unfold build_enumerated, number_root, number_adds. cbn [members].
  rewrite !map_app, root_names, add_names. reflexivity.
Qed.

Lemma explicit_kept root marker adds :
  kept (root ++ adds) (map snd (members (build_enumerated root marker adds))) = true.
Proof.
  unfold build_enumerated, number_root, number_adds. cbn [members]. rewrite map_app.
  apply kept_app; [rewrite map_length; apply root_length | apply root_kept | apply add_kept].
Qed.

Lemma root_skips_used root :
  let vs := implicit_values root (map snd (number_root root)) in
  let used := explicit_numbers root in
  Forall (fun v => 0 <= v /\ ~ In v used) vs
  /\ StronglySorted Z.lt vs
  /\ (forall m v, In v vs -> 0 <= m < v -> In m used \/ In m vs).
Proof.
  cbn zeta. split; [apply root_implicit_bounds|]. split; [apply root_implicit_sorted|].
  intros m v. apply root_implicit_gapfree.
Qed.

Lemma additions_fresh root adds i n :
  nth_error adds i = Some (n, None) ->
  exists v, nth_error (map snd (number_adds (number_root root) adds)) i = Some v
            /\ ~ In v (map snd (number_root root))
            /\ (forall p, In p (firstn i (map snd (number_adds (number_root root) adds))) -> p < v).
Proof.
  intro H. destruct (add_fresh (map snd (number_root root)) adds 0 [] i n) as [v [H1 [H2 H3]]];
    [intros p [] | exact H |].
  exists v. split; [exact H1|]. split; [exact H2|]. intros p Hp. apply H3. exact Hp.
Qed.

Lemma extensible_index root marker adds :
  extensible (build_enumerated root marker adds) = if marker then Some (length root) else None.
Proof.
  unfold build_enumerated, number_root. cbn [extensible]. rewrite root_length. reflexivity.
Qed.
