(* cstring over any number of line breaks: the spacing around every break is dropped, the pieces are concatenated *)
From Coq Require Import NArith List Bool Lia.
Require Import RasnV.Model.Base RasnV.Model.Values RasnV.Spec.ValSpec.
Require Import RasnV.Proofs.C07.
Import ListNotations.

(* a continuation line: spacing, line break, spacing, text *)
Record seg := mkseg { g_sp1 : list N; g_nl : N; g_sp2 : list N; g_text : list N }.

Fixpoint plain_rest (segs : list seg) : list N :=
  match segs with
  | [] => []
  | g :: r => g_sp1 g ++ g_nl g :: g_sp2 g ++ g_text g ++ plain_rest r
  end.
Fixpoint src_rest (segs : list seg) : list N :=
  match segs with
  | [] => []
  | g :: r => g_sp1 g ++ g_nl g :: g_sp2 g ++ escape (g_text g) ++ src_rest r
  end.
Fixpoint lines_of (pre : list N) (segs : list seg) : list (list N) :=
  match segs with
  | [] => [pre]
  | g :: r => (pre ++ g_sp1 g) :: lines_of (g_sp2 g ++ escape (g_text g)) r
  end.
Fixpoint good_segs (segs : list seg) : Prop :=
  match segs with
  | [] => True
  | g :: r => spacing (g_sp1 g) /\ spacing (g_sp2 g) /\ is_nl (g_nl g) = true /\ no_nl (g_text g) /\
              is_sp (hd 0%N (g_text g)) = false /\ (r <> [] -> is_sp (last (g_text g) 0%N) = false) /\ good_segs r
  end.

Lemma nl_noq nl : is_nl nl = true -> N.eqb nl QUOTE = false.
Proof. unfold is_nl. intro H. repeat (apply orb_true_iff in H as [H|H]); apply N.eqb_eq in H; subst; reflexivity. Qed.

Lemma escape_plain_rest segs : good_segs segs -> escape (plain_rest segs) = src_rest segs.
Proof.
  induction segs as [|g r IH]; [reflexivity|]. cbn [good_segs plain_rest src_rest].
  intros [H1 [H2 [Hn [_ [_ [_ Hr]]]]]].
  rewrite escape_app, (escape_noq _ (spacing_noq _ H1)). f_equal.
  change (g_nl g :: g_sp2 g ++ g_text g ++ plain_rest r) with ([g_nl g] ++ g_sp2 g ++ g_text g ++ plain_rest r).
  rewrite escape_app. assert (escape [g_nl g] = [g_nl g]) as -> by (apply escape_noq; repeat constructor; now apply nl_noq).
  cbn [app]. f_equal. rewrite escape_app, (escape_noq _ (spacing_noq _ H2)). f_equal.
  rewrite escape_app. f_equal. now apply IH.
Qed.

Lemma split_lines segs : forall pre, no_nl pre -> good_segs segs -> split_nl (pre ++ src_rest segs) [] = lines_of pre segs.
Proof.
  induction segs as [|g r IH]; intros pre Hp Hg; cbn [src_rest lines_of].
  - rewrite app_nil_r. now rewrite split_nl_no_nl.
  - cbn [good_segs] in Hg. destruct Hg as [H1 [H2 [Hn [Ht [_ [_ Hr]]]]]].
    replace (pre ++ g_sp1 g ++ g_nl g :: g_sp2 g ++ escape (g_text g) ++ src_rest r)
      with ((pre ++ g_sp1 g) ++ g_nl g :: ((g_sp2 g ++ escape (g_text g)) ++ src_rest r))
      by (now rewrite <- !app_assoc).
    rewrite split_nl_break; [| | exact Hn].
    2:{ apply Forall_app. split; [exact Hp | now apply spacing_no_nl]. }
    cbn [rev app]. f_equal. apply IH; [|exact Hr].
    apply Forall_app. split; [now apply spacing_no_nl | now apply escape_no_nl].
Qed.

Lemma lines_of_cons pre segs : exists x l, lines_of pre segs = x :: l.
Proof. destruct segs; cbn; eauto. Qed.

Lemma trim_start_all sp : spacing sp -> trim_start sp = [].
Proof. induction 1 as [|c sp Hc _ IH]; [reflexivity|]. cbn [trim_start]. now rewrite Hc. Qed.

Lemma trim_both sp2 x sp1 :
  spacing sp2 -> spacing sp1 -> is_sp (hd 0%N x) = false -> is_sp (last x 0%N) = false ->
  trim_end (trim_start (sp2 ++ x ++ sp1)) = x.
Proof.
  intros H2 H1 Hh Hl. destruct x as [|c x].
  - cbn [app]. rewrite trim_start_all; [reflexivity|]. apply Forall_app. now split.
  - rewrite trim_start_spacing; [| exact H2 | exact Hh]. now apply trim_end_spacing.
Qed.

Fixpoint texts (segs : list seg) : list N :=
  match segs with [] => [] | g :: r => g_text g ++ texts r end.

Lemma join_rest segs : forall sp2 b,
  spacing sp2 -> is_sp (hd 0%N b) = false -> (segs <> [] -> is_sp (last b 0%N) = false) -> good_segs segs ->
  join_lines false (lines_of (sp2 ++ escape b) segs) = escape (b ++ texts segs).
Proof.
  induction segs as [|g r IH]; intros sp2 b H2 Hh Hl Hg.
  - cbn [lines_of join_lines texts]. rewrite app_nil_r. apply trim_start_spacing; [exact H2 | now rewrite escape_hd].
  - cbn [lines_of texts]. cbn [good_segs] in Hg. destruct Hg as [H1 [H2' [Hn [Ht [Hh' [Hl' Hr]]]]]].
    destruct (lines_of_cons (g_sp2 g ++ escape (g_text g)) r) as [x [l Hx]].
    cbn [join_lines]. rewrite Hx. rewrite <- Hx.
    rewrite <- app_assoc. rewrite trim_both; [| exact H2 | exact H1 | now rewrite escape_hd | rewrite escape_last; apply Hl; discriminate].
    rewrite (IH _ _ H2' Hh' Hl' Hr). now rewrite <- escape_app.
Qed.

Lemma join_first a segs :
  (segs <> [] -> is_sp (last a 0%N) = false) -> good_segs segs ->
  join_lines true (lines_of (escape a) segs) = escape (a ++ texts segs).
Proof.
  intros Hl Hg. destruct segs as [|g r].
  - cbn. now rewrite app_nil_r.
  - cbn [lines_of texts]. cbn [good_segs] in Hg. destruct Hg as [H1 [H2 [Hn [Ht [Hh [Hl' Hr]]]]]].
    destruct (lines_of_cons (g_sp2 g ++ escape (g_text g)) r) as [x [l Hx]].
    cbn [join_lines]. rewrite Hx. rewrite <- Hx.
    rewrite trim_end_spacing; [| exact H1 | rewrite escape_last; apply Hl; discriminate].
    rewrite (join_rest r _ _ H2 Hh Hl' Hr). now rewrite <- escape_app.
Qed.

(* the literal "a <sp nl sp> t1 <sp nl sp> t2 ..." denotes a ++ t1 ++ t2 ++ ..., for any number of continuation lines *)
Theorem cstring_lines a segs rest :
  no_nl a -> (segs <> [] -> is_sp (last a 0%N) = false) -> good_segs segs ->
  N.eqb (hd 0%N rest) QUOTE = false ->
  cstring (QUOTE :: (escape a ++ src_rest segs) ++ QUOTE :: rest) = Some (a ++ texts segs, rest).
Proof.
  intros Ha Hl Hg Hr. unfold cstring.
  rewrite <- (escape_plain_rest segs Hg), <- escape_app. rewrite (raw_spec _ rest Hr).
  rewrite escape_app, (escape_plain_rest segs Hg).
  rewrite (split_lines segs (escape a) (escape_no_nl a Ha) Hg).
  rewrite (join_first a segs Hl Hg). now rewrite unescape_escape.
Qed.
