From Coq Require Import NArith Arith List Bool Lia.
Require Import RasnV.Model.Base RasnV.Model.TsGen RasnV.Spec.TsShape.
Import ListNotations.

(* ---------- induction principle for the nested type ---------- *)
Section ty_ind_nested.
  Variable P : ty -> Prop.
  Hypothesis HNull : P TNull.
  Hypothesis HBool : P TBool.
  Hypothesis HNum : P TNum.
  Hypothesis HBF : P TBitsFixed.
  Hypothesis HBV : P TBitsVar.
  Hypothesis HOct : P TOctets.
  Hypothesis HStr : P TStrLike.
  Hypothesis HEnum : forall names, P (TEnum names).
  Hypothesis HChoice : forall alts, Forall (fun p => P (snd p)) alts -> P (TChoice alts).
  Hypothesis HStruct : forall ms ext, Forall (fun p => P (snd p)) ms -> P (TStruct ms ext).
  Hypothesis HOf : forall e, P e -> P (TOf e).
  Hypothesis HRef : forall n, P (TRef n).
  Hypothesis HAny : P TAny.

  Fixpoint ty_ind_nested (t : ty) : P t :=
    match t with
    | TNull => HNull | TBool => HBool | TNum => HNum | TBitsFixed => HBF | TBitsVar => HBV
    | TOctets => HOct | TStrLike => HStr
    | TEnum names => HEnum names
    | TChoice alts =>
        HChoice alts ((fix go (l : list (str * ty)) : Forall (fun p => P (snd p)) l :=
                         match l with
                         | [] => Forall_nil _
                         | p :: r => Forall_cons p (ty_ind_nested (snd p)) (go r)
                         end) alts)
    | TStruct ms ext =>
        HStruct ms ext ((fix go (l : list (str * bool * ty)) : Forall (fun p => P (snd p)) l :=
                           match l with
                           | [] => Forall_nil _
                           | p :: r => Forall_cons p (ty_ind_nested (snd p)) (go r)
                           end) ms)
    | TOf e => HOf e (ty_ind_nested e)
    | TRef n => HRef n
    | TAny => HAny
    end.
End ty_ind_nested.

(* ---------- the rendering is the canonical notation of the JER shape ---------- *)
Lemma is_union_shape e :
  is_union (jer_shape e) = match e with TChoice _ | TEnum _ => true | _ => false end.
Proof. destruct e; reflexivity. Qed.

Theorem render_canonical : forall t, type_tokens t = print_shape (jer_shape t).
Proof.
  induction t using ty_ind_nested; try reflexivity.
  - (* choice *)
    cbn [type_tokens jer_shape print_shape]. f_equal.
    induction H as [|[n a] r Ha _ IH]; [reflexivity|].
    cbn [snd] in Ha. rewrite Ha. f_equal. exact IH.
  - (* struct *)
    cbn [type_tokens jer_shape print_shape]. f_equal. f_equal.
    induction H as [|[[n o] a] r Ha _ IH]; [reflexivity|].
    cbn [snd] in Ha. rewrite Ha. f_equal. exact IH.
  - (* of *)
    cbn [jer_shape print_shape]. rewrite is_union_shape. rewrite <- IHt.
    destruct t; reflexivity.
Qed.

Theorem decl_canonical : forall name t, decl_tokens name t = print_decl (jer_decl name t).
Proof.
  intros name t. destruct t; cbn [decl_tokens jer_decl print_decl]; try (rewrite render_canonical; reflexivity); try reflexivity.
  (* enum *)
  f_equal. f_equal. f_equal. f_equal. f_equal. induction names as [|n r IH]; [reflexivity|]. cbn [flat_map map fst snd]. now rewrite IH.
Qed.

(* ---------- delimiter balance ---------- *)
Definition neutral (x : tok) : Prop := closer_of x = None /\ is_closer x = false.
Definition nb (l : list tok) : Prop := forall stack rest, bal stack (l ++ rest) = bal stack rest.

Lemma nb_nil : nb [].
Proof. intros s r. reflexivity. Qed.

Lemma nb_app a b : nb a -> nb b -> nb (a ++ b).
Proof. intros Ha Hb s r. rewrite <- app_assoc. rewrite Ha. apply Hb. Qed.

Lemma nb_single x : neutral x -> nb [x].
Proof. intros [H1 H2] s r. cbn [app bal]. now rewrite H1, H2. Qed.

Lemma nb_cons x l : neutral x -> nb l -> nb (x :: l).
Proof. intros Hx Hl. change (x :: l) with ([x] ++ l). apply nb_app; [now apply nb_single | exact Hl]. Qed.

Lemma nb_brace l : nb l -> nb ([t_lbrace] ++ l ++ [t_rbrace]).
Proof.
  intros Hl s r. cbn [app]. cbn [bal]. change (closer_of t_lbrace) with (Some t_rbrace). cbv iota.
  rewrite <- app_assoc. rewrite Hl. cbn [app bal].
  change (closer_of t_rbrace) with (@None tok). change (is_closer t_rbrace) with true. cbv iota.
  change (str_eqb t_rbrace t_rbrace) with true. reflexivity.
Qed.

Lemma nb_paren l : nb l -> nb ([t_lparen] ++ l ++ [t_rparen]).
Proof.
  intros Hl s r. cbn [app]. cbn [bal]. change (closer_of t_lparen) with (Some t_rparen). cbv iota.
  rewrite <- app_assoc. rewrite Hl. cbn [app bal].
  change (closer_of t_rparen) with (@None tok). change (is_closer t_rparen) with true. cbv iota.
  change (str_eqb t_rparen t_rparen) with true. reflexivity.
Qed.

Lemma nb_brack l : nb l -> nb ([t_lbrack] ++ l ++ [t_rbrack]).
Proof.
  intros Hl s r. cbn [app]. cbn [bal]. change (closer_of t_lbrack) with (Some t_rbrack). cbv iota.
  rewrite <- app_assoc. rewrite Hl. cbn [app bal].
  change (closer_of t_rbrack) with (@None tok). change (is_closer t_rbrack) with true. cbv iota.
  change (str_eqb t_rbrack t_rbrack) with true. reflexivity.
Qed.

Lemma neutral_kw x :
  In x [k_null; k_boolean; k_number; k_string; k_any; k_object; k_value; k_length; k_key; k_export; k_type; k_enum;
        t_colon; t_comma; t_quest; t_bar; t_eq; t_semi] -> neutral x.
Proof. cbn [In]. intro H. repeat (destruct H as [<-|H]; [split; reflexivity|]). contradiction. Qed.

Ltac kw := apply neutral_kw; cbn [In]; tauto.

Lemma neutral_strlit n : neutral (strlit n).
Proof. unfold strlit. split; reflexivity. Qed.

Lemma single_char_tok (c : N) (r : str) (x : N) : is_letter c = true -> str_eqb (c :: r) [x] = true -> is_letter x = true.
Proof.
  intros Hc H. cbn [str_eqb] in H. apply andb_true_iff in H as [H _]. apply N.eqb_eq in H. now subst.
Qed.

Lemma neutral_ident n : ident_like n = true -> neutral (to_jer n).
Proof.
  destruct n as [|c r]; cbn [ident_like]; [discriminate|]. intro Hc.
  assert (Hm : (if N.eqb c 45 then 95%N else c) = c).
  { destruct (N.eqb c 45) eqn:E; [|reflexivity]. apply N.eqb_eq in E. subst. discriminate. }
  unfold to_jer. cbn [map]. rewrite Hm.
  assert (Hne : forall x, is_letter x = false -> str_eqb (c :: map (fun c0 => if N.eqb c0 45 then 95%N else c0) r) [x] = false).
  { intros x Hx. destruct (str_eqb _ [x]) eqn:E; [|reflexivity].
    apply (single_char_tok c _ x Hc) in E. congruence. }
  split.
  - unfold closer_of, t_lbrace, t_lbrack, t_lparen. rewrite !Hne by reflexivity. reflexivity.
  - unfold is_closer, t_rbrace, t_rbrack, t_rparen. rewrite !Hne by reflexivity. reflexivity.
Qed.

Lemma nb_join_bar parts : Forall nb parts -> nb (join_bar parts).
Proof.
  induction 1 as [|p r Hp Hr IH]; [apply nb_nil|].
  cbn [join_bar]. destruct r as [|q r']; [exact Hp|].
  apply nb_app; [exact Hp|]. apply nb_cons; [kw | exact IH].
Qed.

Lemma nb_bits_obj : nb bits_obj.
Proof.
  unfold bits_obj.
  change [t_lbrace; k_value; t_colon; k_string; t_comma; k_length; t_colon; k_number; t_rbrace]
    with ([t_lbrace] ++ [k_value; t_colon; k_string; t_comma; k_length; t_colon; k_number] ++ [t_rbrace]).
  apply nb_brace. repeat (apply nb_cons; [kw|]). apply nb_nil.
Qed.

Theorem type_tokens_balanced : forall t, wf_names t = true -> nb (type_tokens t).
Proof.
  induction t using ty_ind_nested; intro Hwf; cbn [type_tokens];
    try (apply nb_single; kw).
  - apply nb_bits_obj.
  - (* enum *)
    apply nb_join_bar. apply Forall_forall. intros p Hp. apply in_map_iff in Hp as [n [<- _]].
    apply nb_single. apply neutral_strlit.
  - (* choice *)
    apply nb_join_bar. cbn [wf_names] in Hwf.
    induction H as [|[n a] r Ha _ IH]; [constructor|].
    apply andb_true_iff in Hwf as [Hwf Hr]. apply andb_true_iff in Hwf as [Hn Hwa].
    constructor; [|exact (IH Hr)].
    change ([t_lbrace; to_jer n; t_colon] ++ type_tokens a ++ [t_rbrace])
      with ([t_lbrace] ++ ([to_jer n; t_colon] ++ type_tokens a) ++ [t_rbrace]).
    apply nb_brace. apply nb_cons; [now apply neutral_ident|]. apply nb_cons; [kw|]. exact (Ha Hwa).
  - (* struct *)
    match goal with |- nb ([t_lbrace] ++ ?m ++ ?i ++ [t_rbrace]) => rewrite (app_assoc m i [t_rbrace]) end.
    apply nb_brace. apply nb_app.
    + cbn [wf_names] in Hwf.
      induction H as [|[[n o] a] r Ha _ IH]; [apply nb_nil|].
      apply andb_true_iff in Hwf as [Hwf Hr]. apply andb_true_iff in Hwf as [Hn Hwa].
      apply nb_app; [|exact (IH Hr)].
      apply nb_cons; [now apply neutral_ident|]. apply nb_app; [destruct o; [apply nb_single; kw | apply nb_nil]|].
      apply nb_cons; [kw|]. apply nb_app; [exact (Ha Hwa)|]. apply nb_single; kw.
    + destruct ext; [|apply nb_nil].
      change [t_lbrack; k_key; t_colon; k_string; t_rbrack; t_colon; k_any]
        with (([t_lbrack] ++ [k_key; t_colon; k_string] ++ [t_rbrack]) ++ [t_colon; k_any]).
      apply nb_app; [apply nb_brack|]; repeat (apply nb_cons; [kw|]); apply nb_nil.
  - (* of *)
    cbn [wf_names] in Hwf. specialize (IHt Hwf).
    assert (Hb : nb [t_lbrack; t_rbrack]).
    { change [t_lbrack; t_rbrack] with ([t_lbrack] ++ [] ++ [t_rbrack]). apply nb_brack, nb_nil. }
    destruct t; try (apply nb_app; [exact IHt | exact Hb]).
    + change ([t_lparen] ++ type_tokens (TEnum names) ++ [t_rparen; t_lbrack; t_rbrack])
        with ([t_lparen] ++ type_tokens (TEnum names) ++ [t_rparen] ++ [t_lbrack; t_rbrack]).
      rewrite !app_assoc. apply nb_app; [|exact Hb]. rewrite <- app_assoc. apply nb_paren. exact IHt.
    + change ([t_lparen] ++ type_tokens (TChoice alts) ++ [t_rparen; t_lbrack; t_rbrack])
        with ([t_lparen] ++ type_tokens (TChoice alts) ++ [t_rparen] ++ [t_lbrack; t_rbrack]).
      rewrite !app_assoc. apply nb_app; [|exact Hb]. rewrite <- app_assoc. apply nb_paren. exact IHt.
  - (* ref *)
    cbn [wf_names] in Hwf. apply nb_single. now apply neutral_ident.
Qed.

Theorem decl_balanced : forall name t,
  ident_like name = true -> wf_names t = true -> bal [] (decl_tokens name t) = true.
Proof.
  intros name t Hn Hwf.
  assert (H : nb (decl_tokens name t)).
  { destruct t; cbn [decl_tokens];
      try (apply nb_cons; [kw|]; apply nb_cons; [kw|]; apply nb_cons; [now apply neutral_ident|]; apply nb_cons; [kw|];
           apply nb_app; [now apply type_tokens_balanced | apply nb_single; kw]).
    - (* octets *)
      repeat (first [apply nb_cons; [first [kw | now apply neutral_ident]|] | apply nb_nil]).
    - (* enum *)
      cbn [app].
      apply nb_cons; [kw|]. apply nb_cons; [kw|]. apply nb_cons; [now apply neutral_ident|].
      match goal with |- nb (t_lbrace :: ?m ++ [t_rbrace; t_semi]) =>
        change (t_lbrace :: m ++ [t_rbrace; t_semi]) with ([t_lbrace] ++ m ++ [t_rbrace] ++ [t_semi]) end.
      rewrite !app_assoc. apply nb_app; [|apply nb_single; kw]. rewrite <- app_assoc. apply nb_brace.
      cbn [wf_names] in Hwf. induction names as [|n r IH]; [apply nb_nil|].
      cbn [forallb] in Hwf. apply andb_true_iff in Hwf as [Hn1 Hr].
      cbn [flat_map]. apply nb_app; [|exact (IH Hr)].
      apply nb_cons; [now apply neutral_ident|]. apply nb_cons; [kw|]. apply nb_cons; [apply neutral_strlit|].
      apply nb_single; kw. }
  specialize (H [] []). rewrite app_nil_r in H. exact H.
Qed.
