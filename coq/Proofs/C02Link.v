(* C02 / C05 across the linker: the components copied for COMPONENTS OF join the extension root of the including type,
   in order, and the type's own additions stay additions (Model/Expansion.v link_insert, link_marked). *)
From Coq Require Import NArith Arith List Bool Lia.
Require Import RasnV.Model.Base RasnV.Model.Expansion.
Import ListNotations.

Lemma firstn_insert (m : str) : forall k (ms : list str), k <= length ms -> firstn (S k) (firstn k ms ++ m :: skipn k ms) = firstn k ms ++ [m].
Proof.
  induction k as [|k IH]; intros ms H.
  - reflexivity.
  - destruct ms as [|x ms]; [cbn in H; lia|]. cbn [firstn skipn app]. f_equal. apply (IH ms). cbn in H. lia.
Qed.

Lemma skipn_insert (m : str) : forall k (ms : list str), k <= length ms -> skipn (S k) (firstn k ms ++ m :: skipn k ms) = skipn k ms.
Proof.
  induction k as [|k IH]; intros ms H.
  - reflexivity.
  - destruct ms as [|x ms]; [cbn in H; lia|]. cbn [firstn skipn app]. apply (IH ms). cbn in H. lia.
Qed.

Lemma insert_length (m : str) k (ms : list str) : length (firstn k ms ++ m :: skipn k ms) = S (length ms).
Proof. rewrite app_length. cbn [length]. rewrite Nat.add_succ_r, <- app_length, firstn_skipn. reflexivity. Qed.

Lemma link_insert_some copied : forall ms k, k <= length ms ->
  link_insert ms (Some k) copied = (firstn k ms ++ copied ++ skipn k ms, Some (k + length copied)).
Proof.
  unfold link_insert. induction copied as [|m r IH]; intros ms k Hk; cbn [fold_left].
  - cbn [app length]. rewrite firstn_skipn, Nat.add_0_r. reflexivity.
  - cbn [insert_copied]. rewrite IH by (rewrite insert_length; lia).
    rewrite firstn_insert, skipn_insert by exact Hk. rewrite <- app_assoc. cbn [app length].
    f_equal. f_equal. lia.
Qed.

Lemma link_insert_none copied : forall ms, link_insert ms None copied = (ms ++ copied, None).
Proof.
  unfold link_insert. induction copied as [|m r IH]; intro ms; cbn [fold_left insert_copied].
  - now rewrite app_nil_r.
  - rewrite IH, <- app_assoc. reflexivity.
Qed.

Lemma flags_go e : forall l i,
  flag_from e i l =
  map (fun p => (snd p, match e with Some k => Nat.leb k (fst p) | None => false end)) (combine (seq i (length l)) l).
Proof. induction l as [|x r IH]; intro i; cbn; [reflexivity | now rewrite IH]. Qed.

Lemma flags_below k : forall l i, i + length l <= k ->
  map (fun p : nat * str => (snd p, Nat.leb k (fst p))) (combine (seq i (length l)) l) = map (fun x => (x, false)) l.
Proof.
  induction l as [|x r IH]; intros i H; cbn [length seq combine map] in *; [reflexivity|].
  rewrite IH by lia. cbn [fst snd]. destruct (Nat.leb k i) eqn:E; [apply Nat.leb_le in E; lia | reflexivity].
Qed.

Lemma flags_above k : forall l i, k <= i ->
  map (fun p : nat * str => (snd p, Nat.leb k (fst p))) (combine (seq i (length l)) l) = map (fun x => (x, true)) l.
Proof.
  induction l as [|x r IH]; intros i H; cbn [length seq combine map] in *; [reflexivity|].
  rewrite IH by lia. cbn [fst snd]. destruct (Nat.leb k i) eqn:E; [reflexivity | apply Nat.leb_gt in E; lia].
Qed.

Lemma combine_seq_app (a b : list str) i :
  combine (seq i (length (a ++ b))) (a ++ b) = combine (seq i (length a)) a ++ combine (seq (i + length a) (length b)) b.
Proof.
  revert i. induction a as [|x r IH]; intro i; cbn [app length seq combine]; [now rewrite Nat.add_0_r|].
  rewrite IH. f_equal. f_equal. f_equal. f_equal. lia.
Qed.

(* with a marker: own root components, then the copied ones, all in the root; then the own additions, all additions *)
Theorem link_marked_with_marker own_root own_adds copied :
  link_marked own_root own_adds copied true =
  map (fun x => (x, false)) (own_root ++ copied) ++ map (fun x => (x, true)) own_adds.
Proof.
  unfold link_marked. rewrite link_insert_some by (rewrite app_length; lia). cbv beta iota.
  rewrite firstn_app, Nat.sub_diag, firstn_O, app_nil_r, firstn_all.
  rewrite skipn_app, Nat.sub_diag, skipn_all. cbn [skipn app].
  rewrite flags_go. rewrite app_assoc. rewrite combine_seq_app, map_app. cbn [Nat.add].
  rewrite flags_below by (rewrite app_length; lia). rewrite flags_above by (rewrite app_length; lia). reflexivity.
Qed.

(* without a marker nothing is an addition and the copied components come last *)
Theorem link_marked_without_marker own_root own_adds copied :
  link_marked own_root own_adds copied false = map (fun x => (x, false)) ((own_root ++ own_adds) ++ copied).
Proof.
  unfold link_marked. rewrite link_insert_none. cbv beta iota. rewrite flags_go.
  induction ((own_root ++ own_adds) ++ copied) as [|x r IH] using rev_ind; [reflexivity|].
  rewrite combine_seq_app, !map_app, IH. reflexivity.
Qed.

Example link_marked_example :
  link_marked [[97]%N] [[98]%N] [[120]%N; [121]%N] true = [([97]%N, false); ([120]%N, false); ([121]%N, false); ([98]%N, true)].
Proof. vm_compute. reflexivity. Qed.
