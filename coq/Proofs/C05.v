From Coq Require Import NArith Arith PeanoNat List Bool Lia.
Require Import RasnV.Model.Base RasnV.Model.Names RasnV.Model.Ext RasnV.Spec.Idents.
Import ListNotations.

(* ASN.1 identifiers contain no underscore, so a written component never looks like a group *)
Lemma asn1_tail_no_underscore s : asn1_tail s = true -> existsb (N.eqb underscore) s = false.
Proof.
  induction s as [|c r IH]; cbn [asn1_tail existsb]; intro H; [reflexivity|].
  destruct (N.eqb c hyphen) eqn:E.
  - apply andb_true_iff in H as [_ H]. rewrite (IH H), orb_false_r.
    apply N.eqb_eq in E. subst. reflexivity.
  - apply andb_true_iff in H as [H1 H]. rewrite (IH H), orb_false_r.
    unfold is_alnum, is_letter, is_lower, is_upper, is_digit, underscore in *.
    destruct (N.eqb 95 c) eqn:E2; [|reflexivity]. apply N.eqb_eq in E2. subst c. cbn in H1. discriminate.
Qed.

Lemma prefix_has_underscore s :
  starts_with group_prefix s = true -> existsb (N.eqb underscore) s = true.
Proof.
  unfold group_prefix.
  destruct s as [|c0 [|c1 [|c2 [|c3 r]]]]; cbn [starts_with];
    rewrite ?andb_false_r; try discriminate.
  intro H. apply andb_true_iff in H as [_ H]. apply andb_true_iff in H as [_ H].
  apply andb_true_iff in H as [_ H]. apply andb_true_iff in H as [H _].
  cbn [existsb]. unfold underscore. rewrite H. rewrite !orb_true_r. reflexivity.
Qed.

Lemma ident_no_underscore s : asn1_ident s = true -> existsb (N.eqb underscore) s = false.
Proof.
  destruct s as [|c r]; cbn [asn1_ident]; intro H; [discriminate|].
  apply andb_true_iff in H as [H1 H2]. cbn [existsb]. rewrite (asn1_tail_no_underscore r H2), orb_false_r.
  unfold is_letter, is_lower, is_upper, underscore in *.
  destruct (N.eqb 95 c) eqn:E; [|reflexivity]. apply N.eqb_eq in E. subst c. cbn in H1. discriminate.
Qed.

Lemma ident_not_group s : asn1_ident s = true -> starts_with group_prefix s = false.
Proof.
  intro H. destruct (starts_with group_prefix s) eqn:E; [|reflexivity].
  apply prefix_has_underscore in E. rewrite (ident_no_underscore s H) in E. discriminate.
Qed.

Lemma render_from_length e i ms : length (render_from e i ms) = length ms.
Proof. revert i. induction ms as [|m r IH]; intro i; cbn; auto. Qed.

Lemma render_from_nth e : forall ms i k m,
  nth_error ms k = Some m -> nth_error (render_from e i ms) k = Some (render_member e (i + k) m).
Proof.
  induction ms as [|m0 r IH]; intros i k m H; [destruct k; discriminate|].
  destruct k as [|k]; cbn in *.
  - inversion H; subst. rewrite Nat.add_0_r. reflexivity.
  - rewrite (IH (S i) k m H). replace (S i + k) with (i + S k) by lia. reflexivity.
Qed.

(* the members of a SEQUENCE/SET: exactly the written ones, in order, one per group *)
Lemma seq_members_order root marker adds :
  map iname (members (build_seq root marker adds))
  = map mname root ++ map (fun a => iname (of_addition a)) adds.
Proof. unfold build_seq. cbn. rewrite map_app, !map_map. reflexivity. Qed.

(* components after the marker, and only those, are marked as extension additions *)
Lemma seq_marked_iff root adds k f :
  Forall (fun m => asn1_ident (mname m) = true) root ->
  nth_error (render_seq (build_seq root true adds)) k = Some f ->
  (fann f <> NoAnn <-> length root <= k).
Proof.
  intros Hroot Hk. unfold render_seq, build_seq in Hk. cbn [members extensible] in Hk.
  assert (Hlen : k < length (map of_member root ++ map of_addition adds)).
  { rewrite <- (render_from_length (Some (length root)) 0). apply nth_error_Some. congruence. }
  destruct (nth_error (map of_member root ++ map of_addition adds) k) as [m|] eqn:Em;
    [|apply nth_error_None in Em; lia].
  rewrite (render_from_nth _ _ 0 k m Em) in Hk. inversion Hk; subst f. cbn [render_member fann annotation_at].
  rewrite ?Nat.add_0_l; cbn [Nat.add].
  destruct (Nat.leb_spec (length root) k) as [Hle|Hlt].
  - split; [intros _; exact Hle|]. intros _. destruct (starts_with group_prefix (iname m)); discriminate.
  - split; [intro H; exfalso; apply H; reflexivity | lia].
Qed.

Lemma seq_unmarked root adds k f :
  nth_error (render_seq (build_seq root false adds)) k = Some f -> fann f = NoAnn.
Proof.
  unfold render_seq, build_seq. cbn [members extensible]. intro Hk.
  assert (Hlen : k < length (map of_member root ++ map of_addition adds)).
  { rewrite <- (render_from_length None 0). apply nth_error_Some. congruence. }
  destruct (nth_error (map of_member root ++ map of_addition adds) k) as [m|] eqn:Em;
    [|apply nth_error_None in Em; lia].
  rewrite (render_from_nth _ _ 0 k m Em) in Hk. inversion Hk; subst. reflexivity.
Qed.

(* each [[ ]] group is one optional extension-addition-group member with exactly its components *)
Lemma seq_group_member root adds j v f r :
  nth_error adds j = Some (AGroup v f r) ->
  asn1_ident (mname f) = true ->
  nth_error (render_seq (build_seq root true adds)) (length root + j)
  = Some {| fname := group_prefix ++ mname f; foption := true; fann := ExtGroup;
            finner := Some (inner_fields (f :: r)) |}.
Proof.
  intros Hj Hf. unfold render_seq, build_seq. cbn [members extensible].
  assert (Em : nth_error (map of_member root ++ map of_addition adds) (length root + j)
               = Some (of_addition (AGroup v f r))).
  { rewrite nth_error_app2 by (rewrite map_length; lia). rewrite map_length.
    replace (length root + j - length root) with j by lia. apply map_nth_error. exact Hj. }
  rewrite (render_from_nth _ _ 0 _ _ Em). unfold render_member, annotation_at. cbn [of_addition iname iopt igroup option_map].
  assert (Hs : starts_with group_prefix (group_prefix ++ mname f) = true) by reflexivity.
  rewrite Hs. rewrite ?Nat.add_0_l; cbn [Nat.add].
  destruct (Nat.leb_spec (length root) (length root + j)); [|lia]. reflexivity.
Qed.

Lemma seq_plain_addition root adds j m :
  nth_error adds j = Some (AMember m) ->
  asn1_ident (mname m) = true ->
  nth_error (render_seq (build_seq root true adds)) (length root + j)
  = Some {| fname := mname m; foption := match mopt m with Optional => true | _ => false end;
            fann := ExtAddition; finner := None |}.
Proof.
  intros Hj Hm. unfold render_seq, build_seq. cbn [members extensible].
  assert (Em : nth_error (map of_member root ++ map of_addition adds) (length root + j)
               = Some (of_addition (AMember m))).
  { rewrite nth_error_app2 by (rewrite map_length; lia). rewrite map_length.
    replace (length root + j - length root) with j by lia. apply map_nth_error. exact Hj. }
  rewrite (render_from_nth _ _ 0 _ _ Em). unfold render_member, annotation_at. cbn [of_addition of_member iname iopt igroup option_map].
  rewrite (ident_not_group _ Hm). rewrite orb_false_r. rewrite ?Nat.add_0_l; cbn [Nat.add].
  destruct (Nat.leb_spec (length root) (length root + j)); [|lia]. reflexivity.
Qed.

Lemma seq_root_member root marker adds k m :
  nth_error root k = Some m ->
  asn1_ident (mname m) = true ->
  nth_error (render_seq (build_seq root marker adds)) k
  = Some {| fname := mname m; foption := match mopt m with Optional => true | _ => false end;
            fann := NoAnn; finner := None |}.
Proof.
  intros Hk Hm. unfold render_seq, build_seq. cbn [members extensible].
  assert (Hlt : k < length root) by (apply nth_error_Some; congruence).
  assert (Em : nth_error (map of_member root ++ map of_addition adds) k = Some (of_member m)).
  { rewrite nth_error_app1 by (rewrite map_length; exact Hlt). apply map_nth_error. exact Hk. }
  rewrite (render_from_nth _ _ 0 _ _ Em). unfold render_member. cbn [of_member iname iopt igroup option_map].
  rewrite (ident_not_group _ Hm), orb_false_r. f_equal. f_equal.
  unfold annotation_at. destruct marker; [|reflexivity]. rewrite ?Nat.add_0_l; cbn [Nat.add].
  destruct (Nat.leb_spec (length root) k); [lia | reflexivity].
Qed.

(* CHOICE *)
Lemma render_choice_from_nth e : forall ms i k m,
  nth_error ms k = Some m ->
  nth_error (render_choice_from e i ms) k = Some (mname m, annotation_at e (i + k) (mname m)).
Proof.
  induction ms as [|m0 r IH]; intros i k m H; [destruct k; discriminate|].
  destruct k as [|k]; cbn in *.
  - inversion H; subst. rewrite Nat.add_0_r. reflexivity.
  - rewrite (IH (S i) k m H). replace (S i + k) with (i + S k) by lia. reflexivity.
Qed.

Lemma choice_names root marker adds :
  map fst (render_choice (build_choice root marker adds)) = map mname (root ++ flat_map choice_alts adds).
Proof.
  unfold render_choice, build_choice. cbn [options cextensible].
  generalize (if marker then Some (length root) else None) as e. generalize 0 as i.
  induction (root ++ flat_map choice_alts adds) as [|m r IH]; intros i e; cbn; [reflexivity|].
  f_equal. apply IH.
Qed.

Lemma choice_marked_iff root adds k nm a :
  Forall (fun m => asn1_ident (mname m) = true) (root ++ flat_map choice_alts adds) ->
  nth_error (render_choice (build_choice root true adds)) k = Some (nm, a) ->
  (a = ExtAddition <-> length root <= k) /\ (a = NoAnn <-> k < length root).
Proof.
  intros Hall Hk. unfold render_choice, build_choice in Hk. cbn [options cextensible] in Hk.
  destruct (nth_error (root ++ flat_map choice_alts adds) k) as [m|] eqn:Em.
  - rewrite (render_choice_from_nth _ _ 0 k m Em) in Hk.
    remember (annotation_at (Some (length root)) (0 + k) (mname m)) as ann eqn:Ea.
    assert (Haa : a = ann) by congruence. subst a. clear Hk. rewrite Ea.
    rewrite Forall_forall in Hall. pose proof (Hall m (nth_error_In _ _ Em)) as Hid.
    unfold annotation_at. rewrite (ident_not_group _ Hid). rewrite ?Nat.add_0_l; cbn [Nat.add].
    destruct (Nat.leb_spec (length root) k); split; split; intro Hx; try discriminate; try lia; reflexivity.
  - exfalso. apply nth_error_None in Em.
    assert (k < length (render_choice_from (Some (length root)) 0 (root ++ flat_map choice_alts adds)))
      by (apply nth_error_Some; congruence).
    assert (forall e i ms, length (render_choice_from e i ms) = length ms) as L
      by (intros e i ms; revert i; induction ms; intro i; cbn; auto).
    rewrite L in H. lia.
Qed.

Lemma non_exhaustive_iff marker implied : non_exhaustive marker implied = true <-> marker = true \/ implied = true.
Proof. unfold non_exhaustive. apply orb_true_iff. Qed.
