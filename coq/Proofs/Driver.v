From Coq Require Import NArith List Bool Lia Permutation.
Require Import RasnV.Model.Base RasnV.Model.Driver.
Import ListNotations.

(* ---------- the order on keys ---------- *)
Definition lt (a b : str) : Prop := str_compare a b = Lt.

Lemma cmp_refl a : str_compare a a = Eq.
Proof. induction a as [|x a IH]; cbn; [reflexivity|]. now rewrite N.compare_refl. Qed.

Lemma cmp_eq a b : str_compare a b = Eq -> a = b.
Proof.
  revert b; induction a as [|x a IH]; destruct b as [|y b]; cbn; intro H; try reflexivity; try discriminate.
  destruct (N.compare x y) eqn:E; try discriminate. apply N.compare_eq_iff in E. subst. f_equal. now apply IH.
Qed.

Lemma cmp_antisym a b : str_compare b a = CompOpp (str_compare a b).
Proof.
  revert b; induction a as [|x a IH]; destruct b as [|y b]; cbn; try reflexivity.
  rewrite (N.compare_antisym x y). destruct (N.compare x y); cbn; [apply IH | reflexivity | reflexivity].
Qed.

Lemma lt_trans a b c : lt a b -> lt b c -> lt a c.
Proof.
  unfold lt. revert b c; induction a as [|x a IH]; destruct b as [|y b]; destruct c as [|z c]; cbn; intros H1 H2;
    try reflexivity; try discriminate.
  destruct (N.compare x y) eqn:E1; try discriminate.
  - apply N.compare_eq_iff in E1. subst. destruct (N.compare y z) eqn:E2; try discriminate; [|reflexivity].
    exact (IH _ _ H1 H2).
  - destruct (N.compare y z) eqn:E2; try discriminate.
    + apply N.compare_eq_iff in E2. subst. now rewrite E1.
    + assert (E : N.compare x z = Lt).
      { apply N.compare_lt_iff. apply N.compare_lt_iff in E1. apply N.compare_lt_iff in E2. eapply N.lt_trans; eassumption. }
      now rewrite E.
Qed.

Lemma lt_irrefl a : ~ lt a a.
Proof. unfold lt. rewrite cmp_refl. discriminate. Qed.

Lemma cmp_cases a b :
  (str_compare a b = Lt /\ str_compare b a = Gt) \/ (a = b) \/ (str_compare a b = Gt /\ str_compare b a = Lt).
Proof.
  destruct (str_compare a b) eqn:E.
  - right; left. now apply cmp_eq.
  - left. split; [reflexivity|]. rewrite cmp_antisym, E. reflexivity.
  - right; right. split; [reflexivity|]. rewrite cmp_antisym, E. reflexivity.
Qed.

Lemma gt_lt a b : str_compare a b = Gt -> lt b a.
Proof. intro H. unfold lt. rewrite cmp_antisym, H. reflexivity. Qed.

(* ---------- the map ---------- *)
Section MapFacts.
  Context {V : Type}.
  Implicit Types m : list (str * V).
  Implicit Types key : V -> str.

  Ltac absurd_order :=
    match goal with
    | H : lt ?a ?a |- _ => exfalso; exact (lt_irrefl _ H)
    | H1 : lt ?a ?b, H2 : lt ?b ?a |- _ => exfalso; exact (lt_irrefl _ (lt_trans _ _ _ H1 H2))
    | H1 : lt ?a ?b, H2 : lt ?b ?c, H3 : lt ?c ?a |- _ =>
        exfalso; exact (lt_irrefl _ (lt_trans _ _ _ H1 (lt_trans _ _ _ H2 H3)))
    end.

  Lemma insert_comm k1 (v1 : V) k2 v2 m :
    k1 <> k2 -> insert k1 v1 (insert k2 v2 m) = insert k2 v2 (insert k1 v1 m).
  Proof.
    intro Hne. induction m as [|[k' v'] r IH].
    - cbn [insert]. destruct (cmp_cases k1 k2) as [[E1 E2]|[E|[E1 E2]]]; [| contradiction |]; rewrite E1, E2; reflexivity.
    - destruct (cmp_cases k1 k') as [[A1 A2]|[A|[A1 A2]]]; destruct (cmp_cases k2 k') as [[B1 B2]|[B|[B1 B2]]];
        destruct (cmp_cases k1 k2) as [[C1 C2]|[C|[C1 C2]]]; try contradiction; subst;
        try (exfalso; apply Hne; reflexivity);
        try (pose proof (gt_lt _ _ A1)); try (pose proof (gt_lt _ _ B1)); try (pose proof (gt_lt _ _ C1));
        try (assert (lt k1 k') by exact A1); try (assert (lt k2 k') by exact B1); try (assert (lt k1 k2) by exact C1);
        try absurd_order;
        cbn [insert]; rewrite ?cmp_refl, ?A1, ?A2, ?B1, ?B2, ?C1, ?C2; cbn [insert];
        rewrite ?cmp_refl, ?A1, ?A2, ?B1, ?B2, ?C1, ?C2; try reflexivity;
        try (f_equal; exact IH).
  Qed.

  Definition from_list_r (key : V -> str) (l : list V) : list (str * V) :=
    fold_right (fun d m => insert (key d) d m) [] l.

  Lemma from_list_rev key l : from_list key l = from_list_r key (rev l).
  Proof. unfold from_list, from_list_r. rewrite <- fold_left_rev_right. reflexivity. Qed.

  Lemma from_list_r_perm key l l' :
    Permutation l l' -> NoDup (map key l) -> from_list_r key l = from_list_r key l'.
  Proof.
    induction 1 as [| x l l' Hp IH | x y l | l l' l'' Hp1 IH1 Hp2 IH2]; intro Hnd.
    - reflexivity.
    - cbn [from_list_r fold_right map] in *. inversion Hnd; subst. f_equal. now apply IH.
    - cbn [from_list_r fold_right map] in *. inversion Hnd as [|? ? Hx Hnd']; subst.
      apply insert_comm. intro E. apply Hx. rewrite E. now left.
    - rewrite IH1 by exact Hnd. apply IH2.
      eapply Permutation_NoDup; [apply Permutation_map; exact Hp1 | exact Hnd].
  Qed.

  (* the map is a function of the SET of definitions when their names are distinct *)
  Theorem from_list_perm key l l' :
    Permutation l l' -> NoDup (map key l) -> from_list key l = from_list key l'.
  Proof.
    intros Hp Hnd. rewrite !from_list_rev. apply from_list_r_perm.
    - eapply Permutation_trans; [apply Permutation_sym, Permutation_rev|].
      eapply Permutation_trans; [exact Hp | apply Permutation_rev].
    - rewrite map_rev. eapply Permutation_NoDup; [apply Permutation_rev | exact Hnd].
  Qed.

  (* every inserted definition is in the map when names are distinct *)
  Lemma in_insert k (v : V) m : In (k, v) (insert k v m).
  Proof.
    induction m as [|[k' v'] r IH]; cbn [insert]; [now left|].
    destruct (str_compare k k'); [now left | now left | right; exact IH].
  Qed.

  Lemma in_insert_other k (v : V) k0 v0 m : k0 <> k -> In (k0, v0) m -> In (k0, v0) (insert k v m).
  Proof.
    intros Hne. induction m as [|[k' v'] r IH]; cbn [insert In]; [tauto|].
    intros [E|Hin].
    - inversion E; subst. destruct (str_compare k k0) eqn:C.
      + apply cmp_eq in C. congruence.
      + right. now left.
      + now left.
    - destruct (str_compare k k'); [right; exact Hin | right; right; exact Hin | right; now apply IH].
  Qed.

  Lemma in_from_list_r key l d :
    NoDup (map key l) -> In d l -> In (key d, d) (from_list_r key l).
  Proof.
    induction l as [|x l IH]; cbn [from_list_r fold_right map In]; [tauto|].
    intros Hnd [->|Hin]; [apply in_insert|].
    inversion Hnd as [|? ? Hx Hnd']; subst. apply in_insert_other; [|now apply IH].
    intro E. apply Hx. rewrite <- E. now apply in_map.
  Qed.

  Theorem in_from_list key l d :
    NoDup (map key l) -> In d l -> In (key d, d) (from_list key l).
  Proof.
    intros Hnd Hin. rewrite from_list_rev. apply in_from_list_r.
    - rewrite map_rev. eapply Permutation_NoDup; [apply Permutation_rev | exact Hnd].
    - now apply in_rev in Hin.
  Qed.

  (* nothing appears in the map that was not inserted *)
  Lemma insert_in_inv k (v : V) m p : In p (insert k v m) -> p = (k, v) \/ In p m.
  Proof.
    induction m as [|[k' v'] r IH]; cbn [insert In]; [intros [E|[]]; left; now symmetry|].
    destruct (str_compare k k'); cbn [In].
    - intros [E|H]; [left; now symmetry | right; right; exact H].
    - intros [E|[E|H]]; [left; now symmetry | right; left; exact E | right; right; exact H].
    - intros [E|H]; [right; left; exact E|]. destruct (IH H) as [E|H']; [left; exact E | right; right; exact H'].
  Qed.

  Lemma from_list_r_in_inv key l p : In p (from_list_r key l) -> exists d, In d l /\ p = (key d, d).
  Proof.
    induction l as [|x l IH]; cbn [from_list_r fold_right In]; [tauto|].
    intro H. apply insert_in_inv in H as [->|H]; [exists x; split; [now left | reflexivity]|].
    destruct (IH H) as [d [Hd ->]]. exists d. split; [now right | reflexivity].
  Qed.
End MapFacts.

(* ---------- sortedness: the map is in strictly increasing key order ---------- *)
Require Import Sorting.Sorted.

Section SortedFacts.
  Context {V : Type}.
  Definition klt (p q : str * V) : Prop := lt (fst p) (fst q).
  Definition sorted (m : list (str * V)) : Prop := StronglySorted klt m.

  Lemma insert_forall (P : str * V -> Prop) k v m : P (k, v) -> Forall P m -> Forall P (insert k v m).
  Proof.
    intros Hk. induction 1 as [|[k' v'] r Hp Hr IH]; cbn [insert]; [repeat constructor; exact Hk|].
    destruct (str_compare k k'); repeat constructor; auto.
  Qed.

  Lemma insert_sorted k (v : V) m : sorted m -> sorted (insert k v m).
  Proof.
    induction 1 as [|[k' v'] r Hs IH Hall]; cbn [insert]; [repeat constructor|].
    destruct (cmp_cases k k') as [[E _]|[E|[E E2]]].
    - rewrite E. constructor; [constructor; assumption|].
      constructor; [exact E|]. eapply Forall_impl; [|exact Hall]. intros q Hq. unfold klt in *. cbn [fst] in *.
      eapply lt_trans; [exact E | exact Hq].
    - subst. rewrite cmp_refl. constructor; [assumption|]. exact Hall.
    - rewrite E. constructor; [exact IH|]. apply insert_forall; [exact E2 | exact Hall].
  Qed.

  Lemma from_list_r_sorted (key : V -> str) l : sorted (from_list_r key l).
  Proof. induction l as [|x l IH]; cbn [from_list_r fold_right]; [constructor | now apply insert_sorted]. Qed.

  Lemma filter_sorted (P : str * V -> bool) m : sorted m -> sorted (filter P m).
  Proof.
    induction 1 as [|p r Hs IH Hall]; cbn [filter]; [constructor|].
    destruct (P p); [|exact IH]. constructor; [exact IH|].
    apply Forall_forall. intros q Hq. apply filter_In in Hq as [Hq _]. rewrite Forall_forall in Hall. now apply Hall.
  Qed.

  Lemma sorted_head_min p r q : sorted (p :: r) -> In q (p :: r) -> q = p \/ klt p q.
  Proof.
    intros Hs [E|Hin]; [left; now symmetry|]. right. inversion Hs as [|? ? _ Hall]; subst.
    rewrite Forall_forall in Hall. now apply Hall.
  Qed.

  Lemma klt_irrefl p : ~ klt p p.
  Proof. apply lt_irrefl. Qed.

  Lemma klt_asym p q : klt p q -> klt q p -> False.
  Proof. unfold klt. intros H1 H2. exact (lt_irrefl _ (lt_trans _ _ _ H1 H2)). Qed.

  (* a sorted list is determined by its elements *)
  Lemma sorted_unique m m' : sorted m -> sorted m' -> (forall p, In p m <-> In p m') -> m = m'.
  Proof.
    intros Hs. revert m'. induction Hs as [|p r Hs IH Hall]; intros m' Hs' Heq.
    - destruct m' as [|q r']; [reflexivity|]. exfalso. apply (Heq q). now left.
    - destruct m' as [|q r']; [exfalso; apply (Heq p); now left|].
      assert (Hpq : p = q).
      { destruct (sorted_head_min q r' p Hs' (proj1 (Heq p) (or_introl eq_refl))) as [E|L1]; [exact E|].
        assert (Hs0 : sorted (p :: r)) by (constructor; assumption).
        destruct (sorted_head_min p r q Hs0 (proj2 (Heq q) (or_introl eq_refl))) as [E|L2]; [now symmetry|].
        exfalso. exact (klt_asym _ _ L1 L2). }
      subst q. f_equal. inversion Hs' as [|? ? Hs'' Hall']; subst. apply IH; [exact Hs''|].
      intro x. split; intro Hx.
      + destruct (proj1 (Heq x) (or_intror Hx)) as [E|H]; [|exact H]. subst x.
        rewrite Forall_forall in Hall. exfalso. exact (klt_irrefl _ (Hall _ Hx)).
      + destruct (proj2 (Heq x) (or_intror Hx)) as [E|H]; [|exact H]. subst x.
        rewrite Forall_forall in Hall'. exfalso. exact (klt_irrefl _ (Hall' _ Hx)).
  Qed.
End SortedFacts.

(* ---------- the driver ---------- *)
Lemma concat_perm {A} (l l' : list (list A)) : Permutation l l' -> Permutation (concat l) (concat l').
Proof.
  induction 1 as [| x l l' Hp IH | x y l | l l' l'' H1 IH1 H2 IH2]; cbn [concat].
  - constructor.
  - now apply Permutation_app_head.
  - rewrite !app_assoc. apply Permutation_app_tail. apply Permutation_app_comm.
  - eapply Permutation_trans; eassumption.
Qed.

Lemma concat_perm_inner {A} (l l' : list (list A)) :
  Forall2 (@Permutation A) l l' -> Permutation (concat l) (concat l').
Proof. induction 1 as [|x y l l' Hxy _ IH]; cbn [concat]; [constructor | now apply Permutation_app]. Qed.

Lemma concat_forall2 {A} (R : A -> A -> Prop) (l l' : list (list A)) :
  Forall2 (Forall2 R) l l' -> Forall2 R (concat l) (concat l').
Proof. induction 1 as [|x y l l' Hxy _ IH]; cbn [concat]; [constructor | now apply Forall2_app]. Qed.

(* the three ways of re-ordering an input: sources, modules inside a source, assignments inside a module *)
Lemma flatten_perm_sources s s' : Permutation s s' -> Permutation (flatten s) (flatten s').
Proof. unfold flatten. intro H. apply concat_perm. apply concat_perm. exact H. Qed.

Lemma flatten_perm_modules s s' : Forall2 (@Permutation (list def)) s s' -> Permutation (flatten s) (flatten s').
Proof. unfold flatten. intro H. apply concat_perm. apply concat_perm_inner. exact H. Qed.

Lemma flatten_perm_assignments s s' :
  Forall2 (Forall2 (@Permutation def)) s s' -> Permutation (flatten s) (flatten s').
Proof. unfold flatten. intro H. apply concat_perm_inner. apply concat_forall2. exact H. Qed.

Section DriverFacts.
  Variable outcome : def -> status.

  (* C11: bindings and warnings are a function of the set of definitions *)
  Theorem driver_perm s s' :
    Permutation (flatten s) (flatten s') -> NoDup (map d_name (flatten s)) ->
    blocks outcome s = blocks outcome s' /\ warning_subjects outcome s = warning_subjects outcome s'.
  Proof.
    intros Hp Hnd. unfold blocks, warning_subjects, tld_map.
    rewrite (from_list_perm d_name _ _ Hp Hnd). split; reflexivity.
  Qed.

  (* grouping keeps every definition, under its own module name, and invents none *)
  Lemma add_to_group_in d g x k :
    (exists ds, In (k, ds) (add_to_group d g) /\ In x ds) <->
    (exists ds, In (k, ds) g /\ In x ds) \/ (x = d /\ k = d_mod d).
  Proof.
    induction g as [|[k' ds'] r IH]; cbn [add_to_group].
    - split.
      + intros [ds [[E|[]] Hx]]. inversion E; subst. destruct Hx as [->|[]]. right. split; reflexivity.
      + intros [[ds [[] _]]|[-> ->]]. exists [d]. split; [now left | now left].
    - destruct (str_compare (d_mod d) k') eqn:C.
      + apply cmp_eq in C. subst k'. split.
        * intros [ds [[E|Hin] Hx]].
          -- inversion E; subst. apply in_app_or in Hx as [Hx|[->|[]]].
             ++ left. exists ds'. split; [now left | exact Hx].
             ++ right. split; reflexivity.
          -- left. exists ds. split; [now right | exact Hx].
        * intros [[ds [[E|Hin] Hx]]|[-> ->]].
          -- inversion E; subst. exists (ds ++ [d]). split; [now left | apply in_or_app; now left].
          -- exists ds. split; [now right | exact Hx].
          -- exists (ds' ++ [d]). split; [now left | apply in_or_app; right; now left].
      + split.
        * intros [ds [[E|Hin] Hx]].
          -- inversion E; subst. destruct Hx as [->|[]]. right. split; reflexivity.
          -- left. exists ds. split; [exact Hin | exact Hx].
        * intros [[ds [Hin Hx]]|[-> ->]].
          -- exists ds. split; [now right | exact Hx].
          -- exists [d]. split; [now left | now left].
      + split.
        * intros [ds [[E|Hin] Hx]].
          -- left. exists ds. split; [now left | exact Hx].
          -- destruct (proj1 IH (ex_intro _ ds (conj Hin Hx))) as [[ds0 [H0 Hx0]]|H0].
             ++ left. exists ds0. split; [now right | exact Hx0].
             ++ right. exact H0.
        * intros [[ds [[E|Hin] Hx]]|H0].
          -- exists ds. split; [now left | exact Hx].
          -- destruct (proj2 IH (or_introl (ex_intro _ ds (conj Hin Hx)))) as [ds0 [H1 H2]].
             exists ds0. split; [now right | exact H2].
          -- destruct (proj2 IH (or_intror H0)) as [ds0 [H1 H2]]. exists ds0. split; [now right | exact H2].
  Qed.

  Lemma group_in_gen ds : forall g x k,
    (exists l, In (k, l) (fold_left (fun g d => add_to_group d g) ds g) /\ In x l) <->
    (exists l, In (k, l) g /\ In x l) \/ (In x ds /\ k = d_mod x).
  Proof.
    induction ds as [|d ds IH]; intros g x k; cbn [fold_left].
    - split; [intro H; now left | intros [H|[[] _]]; exact H].
    - rewrite IH. rewrite add_to_group_in. cbn [In]. split.
      + intros [[H|[-> ->]]|[H ->]]; [now left | right; split; [now left | reflexivity] | right; split; [now right | reflexivity]].
      + intros [H|[[->|H] ->]]; [left; now left | left; right; split; reflexivity | right; split; [exact H | reflexivity]].
  Qed.

  Lemma group_in ds x k : (exists l, In (k, l) (group ds) /\ In x l) <-> (In x ds /\ k = d_mod x).
  Proof.
    unfold group. rewrite group_in_gen. split; [intros [[l [[] _]]|H]; exact H | intro H; now right].
  Qed.

  (* a definition is represented in the output iff it is in the input and has bindings *)
  Definition represented (s : list (list (list def))) (d : def) : Prop :=
    exists names, In (d_mod d, names) (blocks outcome s) /\ In (d_name d) names.

  Lemma in_tld_map s d : NoDup (map d_name (flatten s)) -> In d (flatten s) -> In d (map snd (tld_map s)).
  Proof.
    intros Hnd Hin. unfold tld_map. apply in_map_iff. exists (d_name d, d). split; [reflexivity|].
    now apply in_from_list.
  Qed.

  Lemma tld_map_in_inv s d : In d (map snd (tld_map s)) -> In d (flatten s).
  Proof.
    unfold tld_map. intro H. apply in_map_iff in H as [[k v] [E Hin]]. cbn [snd] in E. subst v.
    rewrite from_list_rev in Hin. apply from_list_r_in_inv in Hin as [d0 [Hd0 E]]. inversion E; subst.
    now apply in_rev.
  Qed.

  Theorem represented_if s d :
    NoDup (map d_name (flatten s)) -> In d (flatten s) -> has_bindings (outcome d) = true -> represented s d.
  Proof.
    intros Hnd Hin Hb. unfold represented, blocks.
    assert (Hs : In d (survivors outcome (tld_map s))).
    { unfold survivors. apply filter_In. split; [now apply in_tld_map|]. destruct (outcome d); try discriminate; reflexivity. }
    destruct (proj2 (group_in _ d (d_mod d)) (conj Hs eq_refl)) as [l [Hl Hd]].
    exists (map d_name (filter (fun d0 => has_bindings (outcome d0)) l)). split.
    - apply in_map_iff. exists (d_mod d, l). split; [reflexivity | exact Hl].
    - apply in_map. apply filter_In. split; assumption.
  Qed.

  Theorem warned_if s d :
    NoDup (map d_name (flatten s)) -> In d (flatten s) -> has_warning (outcome d) = true ->
    In (d_name d) (warning_subjects outcome s).
  Proof.
    intros Hnd Hin Hw. unfold warning_subjects, warned. apply in_map. apply filter_In. split; [now apply in_tld_map | exact Hw].
  Qed.

  (* C10: every definition is accounted for *)
  Theorem accounted s d :
    NoDup (map d_name (flatten s)) -> In d (flatten s) ->
    represented s d \/ In (d_name d) (warning_subjects outcome s) \/ outcome d = NoOutput.
  Proof.
    intros Hnd Hin. destruct (outcome d) eqn:E.
    - left. apply represented_if; [assumption | assumption | now rewrite E].
    - left. apply represented_if; [assumption | assumption | now rewrite E].
    - right; left. apply warned_if; [assumption | assumption | now rewrite E].
    - right; left. apply warned_if; [assumption | assumption | now rewrite E].
    - right; right. reflexivity.
  Qed.

  (* nothing is represented that is not a definition of the input with bindings *)
  Theorem represented_only_if s m n :
    (exists names, In (m, names) (blocks outcome s) /\ In n names) ->
    exists d, In d (flatten s) /\ d_mod d = m /\ d_name d = n /\ has_bindings (outcome d) = true.
  Proof.
    unfold blocks. intros [names [Hb Hn]]. apply in_map_iff in Hb as [[k l] [E Hl]]. cbn [fst snd] in E.
    inversion E; subst. apply in_map_iff in Hn as [d [<- Hd]]. apply filter_In in Hd as [Hd Hbd].
    destruct (proj1 (group_in _ d _) (ex_intro _ l (conj Hl Hd))) as [Hs Hk].
    unfold survivors in Hs. apply filter_In in Hs as [Hs _]. exists d. repeat split; [now apply tld_map_in_inv | now symmetry | exact Hbd].
  Qed.
End DriverFacts.

(* C10, locality: a change of what happens to one definition leaves the representation of every other one as it was *)
Theorem locality outcome outcome' s d :
  NoDup (map d_name (flatten s)) ->
  (forall x, x <> d -> outcome x = outcome' x) ->
  forall d', In d' (flatten s) -> d' <> d ->
    (represented outcome s d' <-> represented outcome' s d').
Proof.
  intros Hnd Hsame d' Hin Hne.
  assert (Hu : forall (x : def), In x (flatten s) -> d_mod x = d_mod d' -> d_name x = d_name d' -> x = d').
  { intros x Hx _ Hname.
    clear -Hnd Hx Hin Hname. induction (flatten s) as [|y l IH]; [contradiction|].
    cbn [map] in Hnd. inversion Hnd as [|? ? Hy Hnd']; subst.
    destruct Hx as [->|Hx]; destruct Hin as [->|Hin]; try reflexivity.
    - exfalso. apply Hy. rewrite Hname. now apply in_map.
    - exfalso. apply Hy. rewrite <- Hname. now apply in_map.
    - now apply IH. }
  split; intro H.
  - destruct (represented_only_if outcome s _ _ H) as [x [Hx [Hm [Hn Hb]]]].
    rewrite (Hu x Hx Hm Hn) in Hb. apply represented_if; [assumption | assumption|]. now rewrite <- Hsame.
  - destruct (represented_only_if outcome' s _ _ H) as [x [Hx [Hm [Hn Hb]]]].
    rewrite (Hu x Hx Hm Hn) in Hb. apply represented_if; [assumption | assumption|]. now rewrite Hsame.
Qed.

(* C12: the definitions of one module that reach the generator, in emission order, do not depend on which other
   modules are compiled with it *)
Theorem module_defs_independent s s' M :
  NoDup (map d_name (flatten s)) -> NoDup (map d_name (flatten s')) ->
  (forall d, d_mod d = M -> (In d (flatten s) <-> In d (flatten s'))) ->
  filter (fun p => str_eqb (d_mod (snd p)) M) (tld_map s) = filter (fun p => str_eqb (d_mod (snd p)) M) (tld_map s').
Proof.
  intros Hnd Hnd' Hsame. apply sorted_unique.
  - apply filter_sorted. unfold tld_map. rewrite from_list_rev. apply from_list_r_sorted.
  - apply filter_sorted. unfold tld_map. rewrite from_list_rev. apply from_list_r_sorted.
  - intros [k v]. rewrite !filter_In. cbn [snd].
    assert (Hchar : forall t, NoDup (map d_name (flatten t)) -> (In (k, v) (tld_map t) <-> (In v (flatten t) /\ k = d_name v))).
    { intros t Ht. split.
      - intro H. unfold tld_map in H. rewrite from_list_rev in H. apply from_list_r_in_inv in H as [d0 [Hd0 E]].
        inversion E; subst. split; [now apply in_rev | reflexivity].
      - intros [Hv ->]. unfold tld_map. now apply in_from_list. }
    rewrite (Hchar s Hnd), (Hchar s' Hnd'). split; intros [[Hv Hk] Hm]; (split; [split; [|exact Hk] | exact Hm]);
      apply str_eqb_eq in Hm; [now apply (Hsame v Hm) | now apply (Hsame v Hm)].
Qed.
