(* Model of the permitted-alphabet path:
     PerVisibleAlphabetConstraints::try_new / from_subtype_elem (incl. flatten_set) / AddAssign / finalize
     (intermediate/encoding_rules/per_visible.rs) and Rasn::format_alphabet_annotations
     (generator/rasn/utils.rs).  Only `charset_subsets` is modelled: it is all the generator reads.
     Set operations at the level of the constraint go through Model/PerVisible.fold in alphabet mode.
     Character sets and the known-multiplier test are Gen/T03.v (re-translated on every run).
     A contained subtype that is the whole constraint (`IA5String (A)`, after linking: the included type's string type
     and serial constraints) is [AIncl] below; inside a set operation it is PerVisible.Contained (ignored by the fold). *)
From Coq Require Import ZArith NArith List Bool.
Require Import RasnV.Model.Base RasnV.Model.PerVisible RasnV.Gen.T03.
Import ListNotations.

Inductive subset := SSingle (c : N) | SRange (from to : option N).

Definition first_char_index (cs : charset) (s : str) : res nat :=
  match s with
  | [] => Err                                               (* value.chars().next().ok_or_else(..)?  (a panic before 5a3df6a) *)
  | c :: _ => match find_char_index cs c with Some i => Ok i | None => Err end
  end.

(* the marker that ends the set inside `FROM (.., ...)` sits on its last element *)
Definition elem_marked (e : elem) : bool :=
  match e with Single _ x => x | Range _ _ x => x | _ => false end.
Fixpoint ends_with_marker (s : eos) : bool :=
  match s with El e => elem_marked e | SetOp _ _ r => ends_with_marker r end.

Fixpoint from_elem (cs : charset) (e : elem) : res (option (list subset)) :=
  match e with
  | Alpha inner =>
      if ends_with_marker inner then Ok None      (* X.691 10.3.10: an extensible permitted alphabet is not PER-visible *)
      else bind (from_alpha_inner cs inner) (fun l => Ok (Some l))
  | Single (VStr s) false =>
      if forallb (fun c => match find_char_index cs c with Some _ => true | None => false end) s
      then Ok (Some (map SSingle s)) else Err
  | Single _ _ => Ok None
  | Range lo hi x =>
      if x then Ok None
      else
        bind (match lo, hi with
              | Some (VStr mn), Some (VStr mx) =>
                  bind (first_char_index cs mn) (fun l => bind (first_char_index cs mx) (fun u => Ok (l, u)))
              | None, Some (VStr mx) => bind (first_char_index cs mx) (fun u => Ok (0%nat, u))
              | Some (VStr mn), None => bind (first_char_index cs mn) (fun l => Ok (l, (length cs - 1)%nat))
              | _, _ => Ok (0%nat, (length cs - 1)%nat)
              end) (fun lu =>
        let '(lower, upper) := lu in
        if Nat.ltb upper lower then Err
        else Ok (Some [SRange (nth_error cs lower) (nth_error cs upper)]))
  | _ => Ok None
  end
with from_alpha_inner (cs : charset) (inner : eos) : res (list subset) :=
  match inner with
  | El e => bind (from_elem cs e) (fun o => Ok (match o with Some l => l | None => [] end))
  | SetOp b _ r =>                                           (* flatten_set: the operators are not looked at *)
      bind (from_elem cs b) (fun o1 =>
      bind (from_alpha_inner cs r) (fun l2 =>
      Ok ((match o1 with Some l => l | None => [] end) ++ l2)))
  end.

(* PerVisibleAlphabetConstraints::try_new *)
Definition try_new (fuel : nat) (t : string_type) (c : constraint) : res (option (list subset)) :=
  if negb (known_multiplier t) then Ok None
  else if cext c then Ok None      (* X.691 10.3.10: an extensible permitted alphabet is not PER-visible *)
  else
    let cs := character_set t in
    match cset c with
    | El e => from_elem cs e
    | SetOp b o r =>
        bind (fold fuel b o r (Some cs) false) (fun fe =>
        match fe with None => Ok None | Some e => from_elem cs e end)
    end.

Definition subset_key (s : subset) : N :=
  match s with SSingle c => c | SRange (Some f) _ => f | SRange None _ => 0%N end.

(* sort_by_key is stable: insertion after the last element with a key <= *)
Fixpoint insert_sorted (x : subset) (l : list subset) : list subset :=
  match l with
  | [] => [x]
  | y :: r => if N.ltb (subset_key x) (subset_key y) then x :: l else y :: insert_sorted x r
  end.
Definition sort_subsets (l : list subset) : list subset := fold_left (fun acc x => insert_sorted x acc) l [].

(* format_alphabet_annotations: None = no annotation *)
Fixpoint collect (fuel : nat) (t : string_type) (cs : list constraint) : res (list subset) :=
  match cs with
  | [] => Ok []
  | c :: r =>
      bind (try_new fuel t c) (fun o =>
      bind (collect fuel t r) (fun l => Ok ((match o with Some p => p | None => [] end) ++ l)))
  end.

Definition alphabet_annotation (fuel : nat) (t : string_type) (cs : list constraint) : res (option (list subset)) :=
  match cs with
  | [] => Ok None
  | _ => bind (collect fuel t cs) (fun l => Ok (match sort_subsets l with [] => None | s => Some s end))
  end.

(* ---- a constraint that is either an ordinary one or the inclusion of another (linked) string type:
   from_subtype_elem, ContainedSubtype arm: default_for(string_type) += try_new(c, c_string.ty) for every constraint
   of the included type -- with the INCLUDED type's character set *)
Inductive aconstraint :=
| ACons (c : constraint)
| AIncl (t' : string_type) (cs' : list constraint).

Definition try_new_a (fuel : nat) (t : string_type) (a : aconstraint) : res (option (list subset)) :=
  match a with
  | ACons c => try_new fuel t c
  | AIncl t' cs' =>
      if negb (known_multiplier t) then Ok None
      else bind (collect fuel t' cs') (fun l => Ok (Some l))
  end.

Fixpoint collect_a (fuel : nat) (t : string_type) (cs : list aconstraint) : res (list subset) :=
  match cs with
  | [] => Ok []
  | c :: r =>
      bind (try_new_a fuel t c) (fun o =>
      bind (collect_a fuel t r) (fun l => Ok ((match o with Some p => p | None => [] end) ++ l)))
  end.

Definition alphabet_annotation_a (fuel : nat) (t : string_type) (cs : list aconstraint) : res (option (list subset)) :=
  match cs with
  | [] => Ok None
  | _ => bind (collect_a fuel t cs) (fun l => Ok (match sort_subsets l with [] => None | s => Some s end))
  end.
