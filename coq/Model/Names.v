(* Model of the name mangling of the rasn backend (generator/rasn/utils.rs:
   to_rust_snake_case, to_rust_const_case, to_rust_enum_identifier, to_rust_title_case) and of the
   TypeScript backend (to_jer_identifier).  Characters are code points; the lexers only accept
   ASCII letters, digits and hyphens (lexer/common.rs), so the char predicates are the ASCII ones.
   The keyword table is Gen.T02, re-translated from the source on every run. *)
From Coq Require Import NArith List Bool.
Require Import RasnV.Model.Base RasnV.Gen.T02.
Import ListNotations.
Local Open Scope N_scope.

Definition is_lower (c : N) : bool := (97 <=? c) && (c <=? 122).
Definition is_upper (c : N) : bool := (65 <=? c) && (c <=? 90).
Definition is_digit (c : N) : bool := (48 <=? c) && (c <=? 57).
Definition to_lower (c : N) : N := if is_upper c then c + 32 else c.
Definition to_upper (c : N) : N := if is_lower c then c - 32 else c.
Definition hyphen : N := 45.
Definition underscore : N := 95.

Definition replace_hyphen (s : str) : str := map (fun c => if c =? hyphen then underscore else c) s.

Fixpoint snake_body (s : str) : str :=
  match s with
  | [] => []
  | c :: r =>
      if is_lower c || (c =? underscore) || is_digit c then
        if negb (c =? underscore) && (match r with n :: _ => is_upper n | [] => false end)
        then c :: underscore :: snake_body r
        else c :: snake_body r
      else to_lower c :: snake_body r
  end.

Definition snake (s : str) : str :=
  let l := snake_body (replace_hyphen s) in
  if str_in l rust_keywords then 114 :: 95 :: l else l.            (* "r_" *)

Definition const_case (s : str) : str := map to_upper (snake s).

Definition enum_ident (s : str) : str :=
  let f := replace_hyphen s in
  if str_in s rust_keywords then 82 :: 95 :: f else f.               (* "R_" *)

(* the fold of to_rust_title_case, accumulator reversed *)
Fixpoint title_fold (acc_rev : str) (s : str) : str :=
  match s with
  | [] => rev acc_rev
  | c :: r =>
      match acc_rev with
      | [] => if is_lower c then title_fold [to_upper c] r else title_fold [c] r
      | l :: acc' => if l =? underscore then title_fold (to_upper c :: acc') r
                     else title_fold (c :: acc_rev) r
      end
  end.

Definition title (s : str) : str :=
  let t := title_fold [] (replace_hyphen s) in
  if str_in t rust_keywords then 82 :: 95 :: t else t.

Definition jer_ident (s : str) : str := replace_hyphen s.

(* `if name != original { identifier = original }` *)
Definition identifier_attr (mangled original : str) : option str :=
  if str_eqb mangled original then None else Some original.
