(* Model of tags and tagging mode:
     lexer/module_header.rs environments (TAGS clause -> TaggingEnvironment),
     lexer/common.rs asn_tag + intermediate/mod.rs From<..> for AsnTag (absent keyword = Automatic = inherit),
     impl Add for &TaggingEnvironment, ToplevelDefinition::apply_tagging_environment (recursive),
     generator/rasn/utils.rs format_tag, generator/rasn/builder.rs generate_choice (tagged CHOICE forced
     explicit), the automatic_tags rule of generate_choice / generate_sequence_or_set. *)
From Coq Require Import NArith List Bool.
Require Import RasnV.Model.Base.
Import ListNotations.

Inductive tenv := Automatic | Implicit | Explicit.            (* TaggingEnvironment *)
Inductive tclass := Universal | Application | Private | Context.

Definition tenv_eqb (a b : tenv) : bool :=
  match a, b with Automatic, Automatic | Implicit, Implicit | Explicit, Explicit => true | _, _ => false end.

(* header: Some kw for `kw TAGS`, None when the clause is absent *)
Definition header_env (clause : option tenv) : tenv :=
  match clause with
  | Some Automatic => Automatic
  | Some Explicit => Explicit
  | _ => Implicit                                             (* absent clause: Implicit (finding C03-no-tags-clause) *)
  end.

(* tag keyword: None = no IMPLICIT/EXPLICIT written *)
Definition tag_env (kw : option tenv) : tenv := match kw with Some e => e | None => Automatic end.

(* impl Add for &TaggingEnvironment: env + tag.environment *)
Definition env_add (env t : tenv) : tenv := match t with Automatic => env | _ => t end.

Record tag := { tenvironment : tenv; tcls : tclass; tnum : N }.

Definition apply_env (env : tenv) (t : tag) : tag :=
  {| tenvironment := env_add env (tenvironment t); tcls := tcls t; tnum := tnum t |}.

(* format_tag: Some (explicit?, class, number) *)
Definition format_tag (t : option tag) : option (bool * tclass * N) :=
  option_map (fun t => (tenv_eqb (tenvironment t) Explicit, tcls t, tnum t)) t.

(* where a tag can be written *)
Inductive position := TypeAssignment | Component | Alternative | NestedComponent | ElementOf.

(* what the tagged type is *)
Inductive tkind := Primitive | RefSequence | RefChoice | InlineChoice | OpenType.

(* the rendering of a written tag [class n kw] at a position, in a module with the given TAGS clause.
   A tagged top-level CHOICE assignment is forced explicit by generate_choice; in every other
   position the attribute carries what format_tag yields (rasn itself tags CHOICE and open types
   explicitly, so the attribute of a CHOICE-typed component is not observable behaviour). *)
Definition render_tag (clause : option tenv) (kw : option tenv) (cls : tclass) (n : N)
           (pos : position) (kind : tkind) : option (bool * tclass * N) :=
  let env := header_env clause in
  let t := apply_env env {| tenvironment := tag_env kw; tcls := cls; tnum := n |} in
  match pos, kind with
  | ElementOf, _ => None          (* generate_sequence_or_set_of builds the element's item with `tag: None`
                                     (finding C03-element-tag-dropped, pinned by a snapshot test) *)
  | TypeAssignment, InlineChoice =>
      if tenv_eqb env Explicit then format_tag (Some t)
      else format_tag (Some {| tenvironment := Explicit; tcls := cls; tnum := n |})
  | _, _ => format_tag (Some t)
  end.

(* automatic_tags: the module says AUTOMATIC TAGS and no component of the type itself carries a tag *)
Definition automatic_tags (clause : option tenv) (component_tagged : list bool) : bool :=
  tenv_eqb (header_env clause) Automatic && negb (existsb (fun b => b) component_tagged).

(* ---- types as far as tagging is concerned: constructed types with optionally tagged children at
   any depth (SEQUENCE/SET components, CHOICE alternatives, the element of SEQUENCE OF / SET OF) *)
Inductive tty :=
| TLeaf
| TNode (children : tlist)
with tlist :=
| TNil
| TCons (t : option tag) (c : tty) (r : tlist).

(* ToplevelDefinition::apply_tagging_environment, applied at every depth *)
Fixpoint apply_rec (env : tenv) (t : tty) : tty :=
  match t with
  | TLeaf => TLeaf
  | TNode cs => TNode (apply_list env cs)
  end
with apply_list (env : tenv) (l : tlist) : tlist :=
  match l with
  | TNil => TNil
  | TCons t c r => TCons (option_map (apply_env env) t) (apply_rec env c) (apply_list env r)
  end.

(* all tags of a type, outermost first *)
Fixpoint tags_of (t : tty) : list tag :=
  match t with
  | TLeaf => []
  | TNode cs => tags_of_list cs
  end
with tags_of_list (l : tlist) : list tag :=
  match l with
  | TNil => []
  | TCons t c r => (match t with Some x => [x] | None => [] end) ++ tags_of c ++ tags_of_list r
  end.
