(* Model of integer width selection:
   - Constraint::integer_constraints  (intermediate/constraints.rs) : head hand-modelled, ladder = Gen.T06
   - Constraint::integer_type_of      (intermediate/constraints.rs) : Unbounded when the last constraint is extensible, else
                                                                       fold with max_restrictive (Gen.T07); Integer::int_type and the linker call it
   - Rasn::int_type_token             (generator/rasn/utils.rs)     : option prologue hand-modelled, ladder = Gen.T06 *)
From Coq Require Import ZArith List Bool.
Require Import RasnV.Model.Base RasnV.Gen.T06 RasnV.Gen.T07.
Import ListNotations.
Local Open Scope Z_scope.

Definition i128_max : Z := 170141183460469231731687303715884105727.   (* 2^127 - 1 *)
Definition i128_min : Z := -170141183460469231731687303715884105728.  (* -2^127 *)

(* What unpack_as_value_range / unpack_as_strict_value see of one serial constraint. *)
Inductive int_constraint :=
| CRange (lo hi : option Z) (ext sext : bool) (* (lo..hi[, ...]); None = MIN / MAX / non-integer bound;
                                                  sext: marker at the level of the whole element set: ((lo..hi), ...) *)
| CSingle (v : Z) (ext sext : bool)          (* (v[, ...]) / ((v), ...) *)
| COther (last_ext : bool).               (* anything else: set operations, table constraints, ...; last_ext: a set operation
                                             whose marker the parser left on its last operand, `(2..3 | 5, ...)` *)

Definition integer_constraints (c : int_constraint) : int_ty :=
  match c with
  | CRange lo hi ext sext =>
      integer_constraints_ladder
        (match lo with Some i => Z.min i i128_max | None => i128_max end)
        (match hi with Some i => Z.max i i128_min | None => i128_min end) (ext || sext)
  | CSingle v ext sext => integer_constraints_ladder (Z.min v i128_max) (Z.max v i128_min) (ext || sext)
  | COther _ => integer_constraints_ladder i128_max i128_min false
  end.

(* Constraint::is_extensible: a marker on the element set as a whole or on its only element *)
Definition c_extensible (c : int_constraint) : bool :=
  match c with CRange _ _ ext sext | CSingle _ ext sext => ext || sext | COther e => e end.

(* the last of the serial constraints (X.680 50.8: it decides about extensibility) *)
Definition last_extensible (cs : list int_constraint) : bool :=
  match rev cs with c :: _ => c_extensible c | [] => false end.

(* Constraint::integer_type_of *)
Definition int_type (cs : list int_constraint) : int_ty :=
  if last_extensible cs then Unbounded
  else fold_left (fun acc c => max_restrictive (integer_constraints c) acc) cs Unbounded.

Definition int_type_token (omin omax : option Z) (ext : bool) : int_ty :=
  match omin, omax with
  | Some mi, Some ma => int_type_token_ladder mi ma ext
  | _, _ => Unbounded
  end.
