(* Model of the `use` line generated for one IMPORTS clause (C12): generator/rasn/mod.rs generate_module.
   No proofs here. *)
From Coq Require Import NArith List Bool.
Require Import RasnV.Model.Base RasnV.Model.Names.
Import ListNotations.
Local Open Scope N_scope.

(* `usage.contains("{}")` *)
Fixpoint has_braces (s : str) : bool :=
  match s with
  | a :: ((b :: _) as r) => (N.eqb a 123 && N.eqb b 125) || has_braces r
  | _ => false
  end.

(* `usage.chars().all(|c| c.is_uppercase() || c == '-')` *)
Definition class_like (s : str) : bool := forallb (fun c => is_upper c || N.eqb c hyphen) s.

Inductive use_items := Wildcard | Items (l : list str).

(* the symbols named by the use line; a symbol that starts with neither case of letter is skipped *)
Fixpoint plain_items (symbols : list str) : list str :=
  match symbols with
  | [] => []
  | u :: r =>
      match u with
      | c :: _ => if is_lower c then const_case u :: plain_items r
                  else if is_upper c then title u :: plain_items r
                  else plain_items r
      | [] => plain_items r
      end
  end.

Definition use_of_clause (symbols : list str) : use_items :=
  if existsb (fun u => has_braces u || class_like u) symbols then Wildcard else Items (plain_items symbols).
