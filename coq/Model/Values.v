(* Model of the value-literal machinery (C07):
   lexer/bit_string.rs bit_string_value (quoted forms), lexer/util.rs hex_to_bools (generated: Gen/T04.v) and
   take_until_and_not, lexer/character_string.rs raw_string_literal / cstring,
   validator/linking/utils.rs octet_string_to_bit_string / is_bit_set / bit_string_to_octet_string,
   validator/linking/mod.rs bit_string_value_from_named_bits,
   generator/rasn/utils.rs OID root detection and well-known arc resolution (table generated: Gen/T05.v).
   No proofs here. *)
From Coq Require Import ZArith NArith Arith List Bool.
Require Import RasnV.Model.Base RasnV.Model.Scan RasnV.Gen.T04 RasnV.Gen.T05.
Import ListNotations.

(* ---------- bstring / hstring ---------- *)
Definition QUOTE : N := 34%N.     (* quotation mark *)
Definition APOS : N := 39%N.      (* apostrophe *)

Definition is_hexdigit (c : N) : bool :=
  ((48 <=? c) && (c <=? 57) || (65 <=? c) && (c <=? 70))%N.

Fixpoint span_hex (l : list N) : list N * list N :=
  match l with
  | c :: r => if is_hexdigit c then let '(a, b) := span_hex r in (c :: a, b) else ([], l)
  | [] => ([], [])
  end.

Definition bstring_bits (ds : list N) : list bool := map (fun c => N.eqb c 49) ds.
Definition hstring_bits (ds : list N) : list bool := flat_map hex_to_bools ds.

(* bit_string_value, first alternative: trivia, ' digits ' then H or B; -> (bits, rest) *)
Definition lex_bits (s : list N) : option (list bool * list N) :=
  match skipper (length s + 1) s with
  | q :: r =>
      if N.eqb q APOS then
        let '(ds, r1) := span_hex r in
        match r1 with
        | q2 :: e :: r2 =>
            if N.eqb q2 APOS then
              if N.eqb e 66 then Some (bstring_bits ds, r2)
              else if N.eqb e 72 then Some (hstring_bits ds, r2)
              else None
            else None
        | _ => None
        end
      else None
  | [] => None
  end.

(* ---------- cstring ---------- *)
Fixpoint starts (pat l : list N) : bool :=
  match pat, l with
  | [], _ => true
  | p :: ps, x :: xs => N.eqb p x && starts ps xs
  | _ :: _, [] => false
  end.

(* byte offset of the first occurrence (str::find) *)
Fixpoint find_sub (pat l : list N) : option nat :=
  match l with
  | [] => if starts pat [] then Some 0 else None
  | _ :: r => if starts pat l then Some 0 else option_map S (find_sub pat r)
  end.

(* recursive_until of take_until_and_not: the split offset *)
Fixpoint recursive_until (fuel : nat) (t1 t2 l : list N) (index : nat) : option nat :=
  match fuel with
  | 0 => None
  | S f =>
      match find_sub t1 (skipn index l), find_sub t2 (skipn index l) with
      | None, _ => None
      | Some e, Some o =>
          if Nat.eqb e o then recursive_until f t1 t2 l (index + o + length t2)
          else Some (index + e)
      | Some e, None => Some (index + e)
      end
  end.

Definition take_until_and_not (t1 t2 l : list N) : option (list N * list N) :=
  match recursive_until (S (length l)) t1 t2 l 0 with
  | Some n => Some (firstn n l, skipn n l)
  | None => None
  end.

(* raw_string_literal = delimited(quotation mark, take_until_and_not(quotation mark, two quotation marks), quotation mark) *)
Definition raw_string_literal (l : list N) : option (list N * list N) :=
  match l with
  | q :: r =>
      if N.eqb q QUOTE then
        match take_until_and_not [QUOTE] [QUOTE; QUOTE] r with
        | Some (body, q2 :: rest) => if N.eqb q2 QUOTE then Some (body, rest) else None
        | _ => None
        end
      else None
  | [] => None
  end.

(* str::replace of two quotation marks by one *)
Fixpoint unescape (l : list N) : list N :=
  match l with
  | [] => []
  | x :: r =>
      match r with
      | y :: r' => if (N.eqb x QUOTE && N.eqb y QUOTE)%bool then QUOTE :: unescape r' else x :: unescape r
      | [] => [x]
      end
  end.

(* the line joining of cstring: split at line breaks, trim the spacing around each break *)
Definition is_nl (c : N) : bool := (N.eqb c 10 || N.eqb c 13 || N.eqb c 11 || N.eqb c 12)%bool.
Definition is_sp (c : N) : bool := (N.eqb c 32 || N.eqb c 9)%bool.

Fixpoint split_nl (l cur : list N) : list (list N) :=
  match l with
  | [] => [rev cur]
  | c :: r => if is_nl c then rev cur :: split_nl r [] else split_nl r (c :: cur)
  end.

Fixpoint trim_start (l : list N) : list N :=
  match l with
  | c :: r => if is_sp c then trim_start r else l
  | [] => []
  end.
Definition trim_end (l : list N) : list N := rev (trim_start (rev l)).

Fixpoint join_lines (first : bool) (ls : list (list N)) : list N :=
  match ls with
  | [] => []
  | x :: r =>
      let x1 := if first then x else trim_start x in
      match r with
      | [] => x1
      | _ => trim_end x1 ++ join_lines false r
      end
  end.

Definition cstring (l : list N) : option (list N * list N) :=
  match raw_string_literal l with
  | Some (body, rest) => Some (unescape (join_lines true (split_nl body [])), rest)
  | None => None
  end.

(* ---------- octets <-> bits ---------- *)
Fixpoint is_bit_set (fuel : nat) (rem limit : N) : list bool :=
  match fuel with
  | 0 => []
  | S f => (limit <=? rem)%N :: (if (2 <=? limit)%N then is_bit_set f (rem mod limit)%N (limit / 2)%N else [])
  end.

Definition octets_to_bits (bs : list N) : list bool := flat_map (fun b => is_bit_set 9 b 128%N) bs.

Fixpoint byte_of_from (i : nat) (bits : list bool) (acc : N) : N :=
  match bits with
  | [] => acc
  | b :: r => byte_of_from (S i) r (acc + if b then 2 ^ (N.of_nat (7 - i)) else 0)%N
  end.
Definition byte_of (bits : list bool) : N := byte_of_from 0 bits 0%N.

(* bits.chunks(8), each chunk must have 8 bits *)
Fixpoint bits_to_octets_f (fuel : nat) (bits : list bool) : option (list N) :=
  match fuel with
  | 0 => None
  | S f =>
      match bits with
      | [] => Some []
      | _ =>
          let chunk := firstn 8 bits in
          if Nat.eqb (length chunk) 8 then
            match bits_to_octets_f f (skipn 8 bits) with
            | Some r => Some (byte_of chunk :: r)
            | None => None
            end
          else None
      end
  end.
Definition bits_to_octets (bits : list bool) : option (list N) := bits_to_octets_f (S (length bits)) bits.

(* ---------- named bits ---------- *)
Fixpoint find_name (i : Z) (dist : list (str * Z)) : option str :=
  match dist with
  | [] => None
  | (n, v) :: r => if Z.eqb v i then Some n else find_name i r
  end.

Definition zrange_incl (hi : Z) : list Z := map Z.of_nat (seq 0 (Z.to_nat (hi + 1))).

Definition named_bits (highest : Z) (chosen : list str) (dist : list (str * Z)) : list bool :=
  map (fun i => existsb (fun bit => opt_eqb str_eqb (Some bit) (find_name i dist)) chosen) (zrange_incl highest).

(* ---------- OBJECT IDENTIFIER arcs ---------- *)
Record arc := { a_name : option str; a_num : option N }.

Definition ITU_T_NAME : str := [105; 116; 117; 45; 116]%N.
Definition CCITT_NAME : str := [99; 99; 105; 116; 116]%N.
Definition ISO_NAME : str := [105; 115; 111]%N.

Definition oid_root (arcs : list arc) : option N :=
  match arcs with
  | a :: _ =>
      if (opt_eqb str_eqb (a_name a) (Some ITU_T_NAME) || opt_eqb str_eqb (a_name a) (Some CCITT_NAME)
          || opt_n_eqb (a_num a) (Some 0%N))%bool then Some 0%N
      else if (opt_eqb str_eqb (a_name a) (Some ISO_NAME) || opt_n_eqb (a_num a) (Some 1%N))%bool then Some 1%N
      else None
  | [] => None
  end.

Definition resolve_arc (root : option N) (a : arc) : option N :=
  match a_num a with
  | Some n => Some n
  | None => well_known (a_name a) root
  end.

(* the numbers of the arcs when every arc resolves (the `Oid::const_new` branch); None: some arc is left as a reference *)
Fixpoint all_some {A} (l : list (option A)) : option (list A) :=
  match l with
  | [] => Some []
  | Some x :: r => match all_some r with Some r' => Some (x :: r') | None => None end
  | None :: _ => None
  end.

Definition oid_numbers (arcs : list arc) : option (list N) :=
  all_some (map (resolve_arc (oid_root arcs)) arcs).
