(* Base definitions shared by all models. No proofs of properties here. *)
From Coq Require Import ZArith NArith List Bool Lia.
Import ListNotations.

(* Strings are lists of code points (for ASCII text: bytes). *)
Definition str := list N.

Fixpoint str_eqb (a b : str) : bool :=
  match a, b with
  | [], [] => true
  | x :: a', y :: b' => N.eqb x y && str_eqb a' b'
  | _, _ => false
  end.

Lemma str_eqb_eq a b : str_eqb a b = true <-> a = b.
Proof.
  revert b; induction a as [|x a IH]; destruct b as [|y b]; simpl; split; intro H;
    try reflexivity; try discriminate.
  - apply andb_true_iff in H as [H1 H2]. apply N.eqb_eq in H1. apply IH in H2. congruence.
  - inversion H; subst. apply andb_true_iff; split; [apply N.eqb_refl | apply IH; reflexivity].
Qed.

Definition str_in (s : str) (l : list str) : bool := existsb (str_eqb s) l.

Lemma str_in_In s l : str_in s l = true <-> In s l.
Proof.
  unfold str_in. rewrite existsb_exists. split.
  - intros [x [Hx He]]. apply str_eqb_eq in He. subst. exact Hx.
  - intro H. exists s. split; [exact H | apply str_eqb_eq; reflexivity].
Qed.

(* Rust integer types the generator can pick (IntegerType in intermediate/mod.rs). *)
Inductive int_ty := Int8 | Uint8 | Int16 | Uint16 | Int32 | Uint32 | Int64 | Uint64 | Unbounded.

Definition int_ty_eqb (a b : int_ty) : bool :=
  match a, b with
  | Int8, Int8 | Uint8, Uint8 | Int16, Int16 | Uint16, Uint16 | Int32, Int32
  | Uint32, Uint32 | Int64, Int64 | Uint64, Uint64 | Unbounded, Unbounded => true
  | _, _ => false
  end.

Lemma int_ty_eqb_eq a b : int_ty_eqb a b = true <-> a = b.
Proof. destruct a, b; simpl; split; intro H; try reflexivity; try discriminate. Qed.

(* Indices of the elements of [l] on which [f] is false; used by the generated case files. *)
Fixpoint bad_from {A} (f : A -> bool) (i : N) (l : list A) : list N :=
  match l with
  | [] => []
  | x :: r => if f x then bad_from f (N.succ i) r else i :: bad_from f (N.succ i) r
  end.
Definition bad_indices {A} (f : A -> bool) (l : list A) : list N := bad_from f 0%N l.

Definition opt_eqb {A} (eqb : A -> A -> bool) (a b : option A) : bool :=
  match a, b with
  | None, None => true
  | Some x, Some y => eqb x y
  | _, _ => false
  end.

Fixpoint list_eqb {A} (eqb : A -> A -> bool) (a b : list A) : bool :=
  match a, b with
  | [], [] => true
  | x :: a', y :: b' => eqb x y && list_eqb eqb a' b'
  | _, _ => false
  end.
