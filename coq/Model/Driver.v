(* Model of the compilation driver (C10, C11, C12): lib.rs internal_compile, validator/mod.rs Validator::new / validate,
   the per-module generate_module loop of both back ends.  What happens to one definition inside the linker and the
   generator is abstracted to its observable outcome ([status]); the driver's own data flow -- the BTreeMap keyed by
   bare name, the grouping by module name, the emission in key order, the collection of warnings -- is modelled
   literally.  No proofs here. *)
From Coq Require Import NArith List Bool.
Require Import RasnV.Model.Base.
Import ListNotations.

(* String's Ord: lexicographic on code units *)
Fixpoint str_compare (a b : str) : comparison :=
  match a, b with
  | [], [] => Eq
  | [], _ :: _ => Lt
  | _ :: _, [] => Gt
  | x :: a', y :: b' => match N.compare x y with Eq => str_compare a' b' | c => c end
  end.

Section Map.
  Context {V : Type}.

  (* BTreeMap<String, V> as an association list in key order; insert replaces an existing key *)
  Fixpoint insert (k : str) (v : V) (m : list (str * V)) : list (str * V) :=
    match m with
    | [] => [(k, v)]
    | (k', v') :: r =>
        match str_compare k k' with
        | Lt => (k, v) :: m
        | Eq => (k, v) :: r
        | Gt => (k', v') :: insert k v r
        end
    end.

  (* `.into_iter().map(|x| (key, x)).collect()`: later entries replace earlier ones *)
  Definition from_list (key : V -> str) (l : list V) : list (str * V) :=
    fold_left (fun m d => insert (key d) d m) l [].

  Fixpoint lookup_key (k : str) (m : list (str * V)) : option V :=
    match m with
    | [] => None
    | (k', v) :: r => if str_eqb k k' then Some v else lookup_key k r
    end.
End Map.

(* a top-level assignment: its module, its bare name, and an identity standing for its text *)
Record def := mkdef { d_mod : str; d_name : str; d_id : N }.

(* what the linker + generator make of one definition *)
Inductive status :=
| Present          (* bindings under its own name, no warning *)
| PresentWarned    (* bindings, and a warning raised while linking it *)
| WarnedValidate   (* rejected by validate(): a warning, the definition does not reach the generator *)
| WarnedGen        (* rejected by the generator: a warning, no bindings *)
| NoOutput.        (* documented as producing nothing: classes, objects, parameterized templates *)

Definition reaches_generator (s : status) : bool := match s with WarnedValidate => false | _ => true end.
Definition has_bindings (s : status) : bool := match s with Present | PresentWarned => true | _ => false end.
Definition has_warning (s : status) : bool := match s with PresentWarned | WarnedValidate | WarnedGen => true | _ => false end.

Section Driver.
  Variable outcome : def -> status.

  (* sources -> modules -> assignments, flattened in the order given *)
  Definition flatten (sources : list (list (list def))) : list def := concat (concat sources).

  Definition tld_map (sources : list (list (list def))) : list (str * def) :=
    from_list d_name (flatten sources).

  (* validate(): definitions in key order; failures become warnings *)
  Definition survivors (m : list (str * def)) : list def :=
    filter (fun d => reaches_generator (outcome d)) (map snd m).
  Definition warned (m : list (str * def)) : list def :=
    filter (fun d => has_warning (outcome d)) (map snd m).

  (* grouping by module name, each group in arrival (= key) order *)
  Fixpoint add_to_group (d : def) (g : list (str * list def)) : list (str * list def) :=
    match g with
    | [] => [(d_mod d, [d])]
    | (k, ds) :: r =>
        match str_compare (d_mod d) k with
        | Lt => (d_mod d, [d]) :: g
        | Eq => (k, ds ++ [d]) :: r
        | Gt => (k, ds) :: add_to_group d r
        end
    end.
  Definition group (ds : list def) : list (str * list def) := fold_left (fun g d => add_to_group d g) ds [].

  (* the module blocks of the output: module name, names of the definitions that have bindings, in order *)
  Definition blocks (sources : list (list (list def))) : list (str * list str) :=
    map (fun g => (fst g, map d_name (filter (fun d => has_bindings (outcome d)) (snd g))))
        (group (survivors (tld_map sources))).

  Definition warning_subjects (sources : list (list (list def))) : list str :=
    map d_name (warned (tld_map sources)).
End Driver.
