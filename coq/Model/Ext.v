(* Model of extension markers, additions and addition groups:
   lexer/sequence.rs (sequence, extension_group), lexer/set.rs, lexer/choice.rs,
   intermediate/types.rs (From impls: members = root ++ additions, extensible = Some |root|),
   generator/rasn/utils.rs (format_sequence_or_set_members, format_choice_options, format_sequence_member),
   generator/rasn/builder.rs (#[non_exhaustive]).  Component lists without COMPONENTS OF. *)
From Coq Require Import NArith List Bool.
Require Import RasnV.Model.Base.
Import ListNotations.

Inductive optionality := Required | Optional | Default.

Record member := { mname : str; mopt : optionality }.

(* what may follow the marker in a SEQUENCE: a component or a [[ v: ... ]] group (non-empty) *)
Inductive addition :=
| AMember (m : member)
| AGroup (version : option N) (first : member) (rest : list member).

Definition group_prefix : str := [101;120;116;95;103;114;111;117;112;95]%N.   (* "ext_group_" *)

(* IR member: the written one, or the synthetic group member with its inner SEQUENCE *)
Record ir_member := { iname : str; iopt : optionality; igroup : option (list member) }.

Definition of_member (m : member) : ir_member := {| iname := mname m; iopt := mopt m; igroup := None |}.

Definition of_addition (a : addition) : ir_member :=
  match a with
  | AMember m => of_member m
  | AGroup _ f r => {| iname := group_prefix ++ mname f; iopt := Required; igroup := Some (f :: r) |}
  end.

Record seq_ir := { members : list ir_member; extensible : option nat }.

Definition build_seq (root : list member) (marker : bool) (adds : list addition) : seq_ir :=
  {| members := map of_member root ++ map of_addition adds;
     extensible := if marker then Some (length root) else None |}.

(* CHOICE: version brackets are flattened *)
Inductive choice_addition := CAlt (m : member) | CGroup (first : member) (rest : list member).

Definition choice_alts (a : choice_addition) : list member :=
  match a with CAlt m => [m] | CGroup f r => f :: r end.

Record choice_ir := { options : list member; cextensible : option nat }.

Definition build_choice (root : list member) (marker : bool) (adds : list choice_addition) : choice_ir :=
  {| options := root ++ flat_map choice_alts adds;
     cextensible := if marker then Some (length root) else None |}.

(* ---- generator *)
Inductive ext_annotation := NoAnn | ExtAddition | ExtGroup.

Fixpoint starts_with (p s : str) : bool :=
  match p, s with
  | [], _ => true
  | a :: p', b :: s' => N.eqb a b && starts_with p' s'
  | _ :: _, [] => false
  end.

Definition annotation_at (first_ext : option nat) (i : nat) (name : str) : ext_annotation :=
  match first_ext with
  | Some e => if Nat.leb e i then (if starts_with group_prefix name then ExtGroup else ExtAddition) else NoAnn
  | None => NoAnn
  end.

Record field := { fname : str; foption : bool; fann : ext_annotation; finner : option (list (str * bool)) }.

Definition inner_fields (ms : list member) : list (str * bool) :=
  map (fun m => (mname m, match mopt m with Optional => true | _ => false end)) ms.

Definition render_member (first_ext : option nat) (i : nat) (m : ir_member) : field :=
  {| fname := iname m;
     foption := match iopt m with Optional => true | _ => false end || starts_with group_prefix (iname m);
     fann := annotation_at first_ext i (iname m);
     finner := option_map inner_fields (igroup m) |}.

Fixpoint render_from (first_ext : option nat) (i : nat) (ms : list ir_member) : list field :=
  match ms with
  | [] => []
  | m :: r => render_member first_ext i m :: render_from first_ext (S i) r
  end.

Definition render_seq (s : seq_ir) : list field := render_from (extensible s) 0 (members s).

Fixpoint render_choice_from (first_ext : option nat) (i : nat) (ms : list member) : list (str * ext_annotation) :=
  match ms with
  | [] => []
  | m :: r => (mname m, annotation_at first_ext i (mname m)) :: render_choice_from first_ext (S i) r
  end.

Definition render_choice (c : choice_ir) : list (str * ext_annotation) :=
  render_choice_from (cextensible c) 0 (options c).

(* #[non_exhaustive]: marker, or EXTENSIBILITY IMPLIED in the module header *)
Definition non_exhaustive (marker implied : bool) : bool := marker || implied.
