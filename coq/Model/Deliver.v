(* Model of output delivery (C20): lib.rs compile() = internal_compile()?.fmt() ; output_generated(..)? ,
   output_generated's destination selection, bin.rs make_output_mode / exit status / module file selection, and the
   snippet wrapping of rasn-compiler-derive's asn1!.  The file system is abstracted to the places compile() can touch:
   the destination path, `generated.<ext>` inside it when it is a directory, and a bystander file.  No proofs here. *)
From Coq Require Import NArith List Bool.
Require Import RasnV.Model.Base.
Import ListNotations.

Inductive entry := Absent | File (content : str) | Dir.

Record fs := mkfs {
  can_write : bool;        (* the operating system lets the target file (dest, or dest/generated.<ext>) be created or
                              truncated: its directory exists, is a directory, and neither it nor the file is write-protected *)
  dest : entry;            (* what is at the destination path *)
  dest_gen : entry;        (* what is at <dest>/generated.<ext> (meaningful when dest is a directory) *)
  bystander : entry        (* another file in the same directory *)
}.

Inductive mode := MSingleFile | MStdout | MNoOutput.
Inductive outcome := Ok | Err.

(* fs::write(path, text) with path = dest, or dest/generated.<ext> when dest is a directory *)
Definition write (f : fs) (text : str) : fs * outcome :=
  match dest f with
  | Dir =>
      match dest_gen f with
      | Dir => (f, Err)
      | _ => if can_write f then (mkfs true Dir (File text) (bystander f), Ok) else (f, Err)
      end
  | _ =>
      if can_write f then (mkfs true (File text) (dest_gen f) (bystander f), Ok) else (f, Err)
  end.

(* compile(): [res] is what compile_to_string() yields on the same sources (None: Err) *)
Definition compile (m : mode) (f : fs) (res : option str) : fs * str * outcome :=
  match res with
  | None => (f, [], Err)
  | Some text =>
      match m with
      | MSingleFile => let '(f', o) := write f text in (f', [], o)
      | MStdout => (f, text, Ok)
      | MNoOutput => (f, [], Ok)
      end
  end.

(* bin.rs *)
Inductive out_arg := OutPath | OutStdout | OutNone | OutDefault.     (* -o PATH | --stdout | --no-output | nothing *)
Definition cli_mode (a : out_arg) : mode :=
  match a with OutPath => MSingleFile | OutStdout => MStdout | OutNone => MNoOutput | OutDefault => MSingleFile end.
Definition cli_exit (have_modules : bool) (o : outcome) : N :=
  if have_modules then match o with Ok => 0%N | Err => 1%N end else 1%N.

Fixpoint ends_with (suffix s : str) : bool :=
  if str_eqb s suffix then true else match s with [] => false | _ :: r => ends_with suffix r end.
Definition dot_asn : str := [46; 97; 115; 110]%N.
Definition dot_asn1 : str := [46; 97; 115; 110; 49]%N.
Definition is_module_file (name : str) : bool := ends_with dot_asn name || ends_with dot_asn1 name.

(* asn1!: a snippet that does not contain BEGIN is wrapped into a dummy module *)
Fixpoint contains (pat s : str) : bool :=
  (fix pre (p t : str) : bool := match p, t with [], _ => true | a :: p', b :: t' => N.eqb a b && pre p' t' | _ :: _, [] => false end) pat s
  || match s with [] => false | _ :: r => contains pat r end.
Definition kw_begin : str := [66; 69; 71; 73; 78]%N.
Definition macro_source (header footer v : str) : str :=
  if contains kw_begin v then v else header ++ v ++ footer.
