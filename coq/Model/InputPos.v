(* Model of the position bookkeeping of the input wrapper (src/input.rs): Input::from, Input::slice
   (as used by nom's take/take_split/slicing), reset_context; and of the line numbers that
   LexerError's Display and contextualize print (lexer/error.rs).  Bytes are N; '\n' = 10. *)
From Coq Require Import NArith Arith List Bool.
Require Import RasnV.Model.Base.
Import ListNotations.

Record input := {
  inner : list N;
  line : nat;                 (* starts at 1 *)
  column : nat;               (* starts at 1 *)
  offset : nat;               (* starts at 0 *)
  ctx_line : nat;
  ctx_offset : nat
}.

Definition init (src : list N) : input :=
  {| inner := src; line := 1; column := 1; offset := 0; ctx_line := 1; ctx_offset := 0 |}.

Definition count_nl (l : list N) : nat := length (filter (N.eqb 10) l).

(* position of the last '\n' in l, if any *)
Fixpoint last_nl_from (i : nat) (l : list N) (acc : option nat) : option nat :=
  match l with
  | [] => acc
  | c :: r => last_nl_from (S i) r (if N.eqb c 10 then Some i else acc)
  end.

(* self.inner[a..b]; None models the panic of an out-of-range slice *)
Definition slice (i : input) (a b : nat) : option input :=
  if Nat.leb a b && Nat.leb b (length (inner i)) then
    let new_inner := firstn (b - a) (skipn a (inner i)) in
    if Nat.eqb a 0 then
      Some {| inner := new_inner; line := line i; column := column i; offset := offset i;
              ctx_line := ctx_line i; ctx_offset := ctx_offset i |}
    else
      let consumed := firstn a (inner i) in
      Some {| inner := new_inner;
              line := line i + count_nl consumed;
              column := match last_nl_from 0 consumed None with
                        | Some p => a - p + 1
                        | None => column i + a
                        end;
              offset := offset i + a;
              ctx_line := ctx_line i; ctx_offset := ctx_offset i |}
  else None.

Definition reset_context (i : input) : input :=
  {| inner := inner i; line := line i; column := column i; offset := offset i;
     ctx_line := line i; ctx_offset := offset i |}.

Inductive op := OSlice (a b : nat) | OReset.

Definition step (i : input) (o : op) : option input :=
  match o with
  | OSlice a b => slice i a b
  | OReset => Some (reset_context i)
  end.

Fixpoint run (i : input) (ops : list op) : option input :=
  match ops with
  | [] => Some i
  | o :: r => match step i o with Some i' => run i' r | None => None end
  end.

(* ReportData keeps the numbers of the input where the (first, innermost) error sits *)
Record report := { r_line : nat; r_offset : nat; r_column : nat; r_ctx_line : nat; r_ctx_offset : nat }.
Definition report_of (i : input) : report :=
  {| r_line := line i; r_offset := offset i; r_column := column i;
     r_ctx_line := ctx_line i; r_ctx_offset := ctx_offset i |}.

(* the line number printed by Display, and the line marked by contextualize: the excerpt starts at
   ctx_line and its k-th line is numbered ctx_line + k; the mark goes to the one equal to r_line *)
Definition display_line (r : report) : nat := r_line r.
Definition marked_line (r : report) (excerpt_lines : nat) : option nat :=
  if Nat.leb (r_ctx_line r) (r_line r) && Nat.ltb (r_line r) (r_ctx_line r + excerpt_lines)
  then Some (r_line r) else None.
