(* Model of how the components of a constructed type become fields / variants (C02):
   intermediate/types.rs From<((Vec<SequenceComponent>, Option<ExtensionMarker>, Option<Vec<SequenceComponent>>), ..)>
   (assembly of the parsed component lists), generator/rasn/utils.rs format_sequence_or_set_members /
   format_sequence_member / format_choice_options / format_member_or_option / constraints_and_type_name / inner_name /
   default_method_name / needs_unnesting.  Names go through Model/Names.v.  No proofs here. *)
From Coq Require Import NArith Arith List Bool.
Require Import RasnV.Model.Base RasnV.Model.Names.
Import ListNotations.

(* the kinds of component type the generator distinguishes *)
Inductive cty :=
| KPlain (tok : str)                               (* a built-in type with a fixed Rust type, e.g. bool, Integer, u8, BitString *)
| KNested                                          (* ENUMERATED / CHOICE / SEQUENCE / SET written in place *)
| KOf (set : bool) (elem : cty) (elem_plain : bool) (rec : bool)   (* elem_plain: the element has no constraint and no tag *)
| KRef (module : option str) (name : str).

Inductive optionality := Required | Optional | Default.

Record member := mkmember { m_name : str; m_ty : cty; m_opt : optionality; m_rec : bool }.

Inductive comp := CMember (m : member) | CComponentsOf (ref : str).

Record seq := mkseq { members : list member; components_of : list str; extensible : option nat }.

(* ---- assembly of `{ root, ..., additions }` *)
Fixpoint only_members (l : list comp) : list member :=
  match l with [] => [] | CMember m :: r => m :: only_members r | CComponentsOf _ :: r => only_members r end.
Fixpoint only_refs (l : list comp) : list str :=
  match l with [] => [] | CMember _ :: r => only_refs r | CComponentsOf c :: r => c :: only_refs r end.

Definition assemble (root : list comp) (marker : bool) (adds : list comp) : seq :=
  (* the index of the first addition counts the members of the root; COMPONENTS OF entries are not members *)
  mkseq (only_members (root ++ adds)) (only_refs (root ++ adds)) (if marker then Some (length (only_members root)) else None).

(* ---- strings *)
Definition s_option_l : str := [79;112;116;105;111;110;60]%N.            (* Option< *)
Definition s_box_l : str := [66;111;120;60]%N.                            (* Box< *)
Definition s_seqof_l : str := [83;101;113;117;101;110;99;101;79;102;60]%N.   (* SequenceOf< *)
Definition s_setof_l : str := [83;101;116;79;102;60]%N.                   (* SetOf< *)
Definition s_gt : str := [62]%N.
Definition s_super : str := [115;117;112;101;114;58;58]%N.                (* super:: *)
Definition s_colons : str := [58;58]%N.
Definition s_default : str := [95;100;101;102;97;117;108;116]%N.          (* _default *)
Definition s_underscore : str := [95]%N.
Definition group_prefix : str := [101;120;116;95;103;114;111;117;112;95]%N.   (* ext_group_ *)

Definition boxed (rec : bool) (t : str) : str := if rec then s_box_l ++ t ++ s_gt else t.

Fixpoint starts_with (p s : str) : bool :=
  match p, s with
  | [], _ => true
  | a :: p', b :: s' => N.eqb a b && starts_with p' s'
  | _ :: _, [] => false
  end.
Definition is_group (name : str) : bool := starts_with group_prefix name.

Definition inner_name (name parent : str) : str := parent ++ title name.

Fixpoint needs_unnesting (t : cty) : bool :=
  match t with
  | KNested => true
  | KOf _ e plain _ => needs_unnesting e || negb plain
  | _ => false
  end.

Definition qualified (m : option str) (n : str) : str :=
  match m with Some md => s_super ++ snake md ++ s_colons ++ title n | None => title n end.

Fixpoint type_name (t : cty) (name parent : str) (rec : bool) : str :=
  match t with
  | KPlain tok => tok
  | KNested => boxed rec (inner_name name parent)
  | KOf set e _ r => (if set then s_setof_l else s_seqof_l) ++ type_name e name parent r ++ s_gt
  | KRef m n => boxed rec (qualified m n)
  end.

(* format_member_or_option: the type written for a member / alternative *)
Definition written_type (t : cty) (name parent : str) (rec : bool) : str :=
  if needs_unnesting t then boxed rec (inner_name name parent) else type_name t name parent rec.

(* extension annotation codes: 0 none, 1 extension_addition, 2 extension_addition_group *)
Definition ext_code (ext : option nat) (i : nat) (name : str) : N :=
  match ext with
  | Some k => if Nat.leb k i then (if is_group name then 2%N else 1%N) else 0%N
  | None => 0%N
  end.

Record field := mkfield { f_name : str; f_type : str; f_default : option str; f_ext : N }.

Definition default_method_name (parent field_name : str) : str :=
  snake parent ++ s_underscore ++ snake field_name ++ s_default.

Definition format_member (parent : str) (ext : option nat) (i : nat) (m : member) : field :=
  let t := written_type (m_ty m) (m_name m) parent (m_rec m) in
  let t' := match m_opt m with
            | Optional => s_option_l ++ t ++ s_gt
            | _ => if is_group (m_name m) then s_option_l ++ t ++ s_gt else t
            end in
  mkfield (snake (m_name m)) t'
          (match m_opt m with Default => Some (default_method_name parent (m_name m)) | _ => None end)
          (ext_code ext i (m_name m)).

Fixpoint format_from (parent : str) (ext : option nat) (i : nat) (ms : list member) : list field :=
  match ms with
  | [] => []
  | m :: r => format_member parent ext i m :: format_from parent ext (S i) r
  end.

Definition fields_of (parent : str) (s : seq) : list field := format_from parent (extensible s) 0 (members s).

(* CHOICE: one variant per alternative *)
Definition format_option (parent : str) (ext : option nat) (i : nat) (m : member) : field :=
  mkfield (enum_ident (m_name m)) (written_type (m_ty m) (m_name m) parent (m_rec m)) None (ext_code ext i (m_name m)).

Fixpoint options_from (parent : str) (ext : option nat) (i : nat) (ms : list member) : list field :=
  match ms with
  | [] => []
  | m :: r => format_option parent ext i m :: options_from parent ext (S i) r
  end.
Definition variants_of (parent : str) (s : seq) : list field := options_from parent (extensible s) 0 (members s).
