(* Model of the TypeScript back end's type rendering (C18):
   generator/typescript/utils.rs type_to_tokens / array_of / format_choice_options / format_sequence_or_set_members /
   to_jer_identifier, template.rs and builder.rs (one template per kind of top-level type).
   Output is modelled as the sequence of TypeScript tokens (white-space and comments carry no structure).
   No proofs here. *)
From Coq Require Import NArith List Bool.
Require Import RasnV.Model.Base.
Import ListNotations.

Definition tok := str.

(* the types the generator distinguishes, after linking *)
Inductive ty :=
| TNull | TBool | TNum                       (* INTEGER, REAL *)
| TBitsFixed | TBitsVar                      (* BIT STRING with exactly (SIZE (n)) / any other *)
| TOctets                                    (* OCTET STRING *)
| TStrLike                                   (* character strings, times, OBJECT IDENTIFIER *)
| TEnum (names : list str)
| TChoice (alts : list (str * ty))
| TStruct (members : list (str * bool * ty)) (ext : bool)     (* name, optional-or-default, type; extensible *)
| TOf (elem : ty)
| TRef (name : str)
| TAny.

Definition to_jer (s : str) : str := map (fun c => if N.eqb c 45 then 95%N else c) s.

(* single-character tokens and keywords *)
Definition t_lbrace : tok := [123]%N.   Definition t_rbrace : tok := [125]%N.
Definition t_lbrack : tok := [91]%N.    Definition t_rbrack : tok := [93]%N.
Definition t_lparen : tok := [40]%N.    Definition t_rparen : tok := [41]%N.
Definition t_colon : tok := [58]%N.     Definition t_comma : tok := [44]%N.
Definition t_quest : tok := [63]%N.     Definition t_bar : tok := [124]%N.
Definition t_eq : tok := [61]%N.        Definition t_semi : tok := [59]%N.
Definition k_null : tok := [110;117;108;108]%N.
Definition k_boolean : tok := [98;111;111;108;101;97;110]%N.
Definition k_number : tok := [110;117;109;98;101;114]%N.
Definition k_string : tok := [115;116;114;105;110;103]%N.
Definition k_any : tok := [97;110;121]%N.
Definition k_object : tok := [111;98;106;101;99;116]%N.
Definition k_value : tok := [118;97;108;117;101]%N.
Definition k_length : tok := [108;101;110;103;116;104]%N.
Definition k_key : tok := [107;101;121]%N.
Definition k_export : tok := [101;120;112;111;114;116]%N.
Definition k_type : tok := [116;121;112;101]%N.
Definition k_enum : tok := [101;110;117;109]%N.

Definition strlit (s : str) : tok := (34 :: s ++ [34])%N.

Definition bits_obj : list tok :=
  [t_lbrace; k_value; t_colon; k_string; t_comma; k_length; t_colon; k_number; t_rbrace].

(* `a | b | c` *)
Fixpoint join_bar (parts : list (list tok)) : list tok :=
  match parts with
  | [] => []
  | [p] => p
  | p :: r => p ++ t_bar :: join_bar r
  end.

Fixpoint type_tokens (t : ty) : list tok :=
  match t with
  | TNull => [k_null]
  | TBool => [k_boolean]
  | TNum => [k_number]
  | TBitsVar => bits_obj
  | TBitsFixed | TOctets | TStrLike => [k_string]
  | TEnum names => join_bar (map (fun n => [strlit n]) names)
  | TChoice alts =>
      join_bar ((fix go (l : list (str * ty)) : list (list tok) :=
                   match l with
                   | [] => []
                   | (n, a) :: r => ([t_lbrace; to_jer n; t_colon] ++ type_tokens a ++ [t_rbrace]) :: go r
                   end) alts)
  | TStruct members ext =>
      [t_lbrace] ++
      (fix go (l : list (str * bool * ty)) : list tok :=
         match l with
         | [] => []
         | (n, opt, a) :: r =>
             (to_jer n :: (if opt then [t_quest] else []) ++ [t_colon] ++ type_tokens a ++ [t_comma]) ++ go r
         end) members ++
      (if ext then [t_lbrack; k_key; t_colon; k_string; t_rbrack; t_colon; k_any] else []) ++
      [t_rbrace]
  | TOf e =>
      match e with
      | TChoice _ | TEnum _ => [t_lparen] ++ type_tokens e ++ [t_rparen; t_lbrack; t_rbrack]
      | _ => type_tokens e ++ [t_lbrack; t_rbrack]
      end
  | TRef n => [to_jer n]
  | TAny => [k_any]
  end.

(* one top-level type assignment *)
Definition decl_tokens (name : str) (t : ty) : list tok :=
  match t with
  | TEnum names =>
      [k_export; k_enum; to_jer name; t_lbrace] ++
      flat_map (fun n => [to_jer n; t_eq; strlit n; t_comma]) names ++
      [t_rbrace; t_semi]
  | TOctets => [k_export; k_type; to_jer name; t_eq; k_string; t_bar; k_object; t_semi]
  | _ => [k_export; k_type; to_jer name; t_eq] ++ type_tokens t ++ [t_semi]
  end.
