(* A fragment of Rust's static semantics, as far as the generated bindings depend on it (C01): item and member names are
   unique, every type name mentioned resolves, and every struct / enum has finite size (no by-value containment cycle).
   The checker runs on an abstraction of the generated items (names only).  No proofs here. *)
From Coq Require Import NArith Arith List Bool.
Require Import RasnV.Model.Base.
Import ListNotations.

(* one generated type item: its name, the names of its fields / variants, every type name it mentions, and the type names
   it contains by value (not behind Box, SequenceOf, SetOf or a reference) *)
Record item := mkitem { i_name : str; i_members : list str; i_mentions : list str; i_by_value : list str }.

Fixpoint dup_free (l : list str) : bool :=
  match l with [] => true | x :: r => negb (str_in x r) && dup_free r end.

Definition names_unique (items : list item) (others : list str) : bool :=
  dup_free (map i_name items ++ others) && forallb (fun it => dup_free (i_members it)) items.

(* every mentioned name is an item of the module, another value-namespace item, imported, or provided by the prelude *)
Definition resolved (items : list item) (universe : list str) : bool :=
  forallb (fun it => forallb (fun n => str_in n (map i_name items) || str_in n universe) (i_mentions it)) items.

(* finite size, by certificate: an ordering of the item names in which every by-value containment goes strictly backwards *)
Fixpoint index_of (n : str) (l : list str) : option nat :=
  match l with [] => None | x :: r => if str_eqb n x then Some 0 else option_map S (index_of n r) end.

Definition edge_ok (order : list str) (from to : str) : bool :=
  match index_of from order, index_of to order with
  | Some a, Some b => Nat.ltb b a
  | _, None => true          (* not an item of this module: its size is not this module's concern *)
  | None, _ => false
  end.

Definition finite_by (order : list str) (items : list item) : bool :=
  forallb (fun it => forallb (fun n => edge_ok order (i_name it) n) (i_by_value it)) items.

Definition well_formed (items : list item) (others universe order : list str) : bool :=
  names_unique items others && resolved items universe && finite_by order items.
