(* Model of the hoisting of types written in place (C01, C02): generator/rasn/utils.rs format_sequence_or_set_members /
   format_choice_options call generate_type for every member whose type needs_unnesting, under the name
   inner_name(member, parent); the member itself is written with that name (Model/Components.v written_type).
   Here the nesting is explicit, so that the set of emitted items can be related to the names they mention.
   SEQUENCE OF / SET OF around an in-place type is left out (its element is emitted under a different naming scheme).
   No proofs here. *)
From Coq Require Import NArith List Bool.
Require Import RasnV.Model.Base RasnV.Model.Names RasnV.Model.Components RasnV.Model.WellFormed.
Import ListNotations.

Inductive rty :=
| RPlain (tok : str)                          (* a built-in type with a fixed Rust type *)
| RRef (name : str)                           (* a reference to another assignment of the module *)
| REnum (names : list str)                    (* ENUMERATED in place *)
| RStruct (members : list (str * rty))        (* SEQUENCE / SET in place *)
| RChoice (alts : list (str * rty)).          (* CHOICE in place *)

Definition nests (t : rty) : bool := match t with REnum _ | RStruct _ | RChoice _ => true | _ => false end.

(* the type name a member is written with *)
Definition written (t : rty) (member parent : str) : str :=
  match t with
  | RPlain tok => tok
  | RRef n => title n
  | _ => inner_name member parent
  end.

(* all items emitted for the type named [name] *)
Fixpoint emit (name : str) (t : rty) : list item :=
  match t with
  | RPlain tok => [mkitem name [] [tok] [tok]]
  | RRef n => [mkitem name [] [title n] [title n]]
  | REnum names => [mkitem name (map enum_ident names) [] []]
  | RStruct ms =>
      mkitem name (map (fun m => snake (fst m)) ms) (map (fun m => written (snd m) (fst m) name) ms) [] ::
      (fix go (l : list (str * rty)) : list item :=
         match l with
         | [] => []
         | (n, t') :: r => (if nests t' then emit (inner_name n name) t' else []) ++ go r
         end) ms
  | RChoice alts =>
      mkitem name (map (fun m => enum_ident (fst m)) alts) (map (fun m => written (snd m) (fst m) name) alts) [] ::
      (fix go (l : list (str * rty)) : list item :=
         match l with
         | [] => []
         | (n, t') :: r => (if nests t' then emit (inner_name n name) t' else []) ++ go r
         end) alts
  end.

(* the prelude tokens and referenced assignments a type relies on *)
Fixpoint externals (t : rty) : list str :=
  match t with
  | RPlain tok => [tok]
  | RRef n => [title n]
  | REnum _ => []
  | RStruct ms => (fix go (l : list (str * rty)) : list str := match l with [] => [] | (_, t') :: r => externals t' ++ go r end) ms
  | RChoice alts => (fix go (l : list (str * rty)) : list str := match l with [] => [] | (_, t') :: r => externals t' ++ go r end) alts
  end.
