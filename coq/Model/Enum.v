(* Model of ENUMERATED numbering (lexer/enumerated.rs: enumeration_items, number_root_enumerals,
   number_additional_enumerals, enumerated_body; intermediate/types.rs: From<(..)> for Enumerated).
   Numbers are unbounded Z: the saturation guards at i128::MAX are not modelled (the property is
   not about overflow; inputs are assumed to stay below 2^127 - 1 - number of items). *)
From Coq Require Import ZArith List Bool.
Require Import RasnV.Model.Base.
Import ListNotations.
Local Open Scope Z_scope.

Definition item := (str * option Z)%type.            (* identifier, number written in the source *)

Definition zmem (z : Z) (l : list Z) : bool := existsb (Z.eqb z) l.

(* `while used.contains(&next) { next += 1 }` -- fuel |used| always suffices (Proofs/C14.v) *)
Fixpoint skip (used : list Z) (fuel : nat) (n : Z) : Z :=
  match fuel with
  | O => n
  | S f => if zmem n used then skip used f (n + 1) else n
  end.

Definition explicit_numbers (items : list item) : list Z :=
  flat_map (fun it => match snd it with Some z => [z] | None => [] end) items.

Fixpoint number_root_from (used : list Z) (next : Z) (items : list item) : list (str * Z) :=
  match items with
  | [] => []
  | (n, Some z) :: r => (n, z) :: number_root_from used next r
  | (n, None) :: r =>
      let v := skip used (length used) next in (n, v) :: number_root_from used (v + 1) r
  end.

Definition number_root (items : list item) : list (str * Z) :=
  number_root_from (explicit_numbers items) 0 items.

Fixpoint number_add_from (rootnums : list Z) (next : Z) (items : list item) : list (str * Z) :=
  match items with
  | [] => []
  | (n, Some z) :: r => (n, z) :: number_add_from rootnums (Z.max next (z + 1)) r
  | (n, None) :: r =>
      let v := skip rootnums (length rootnums) next in
      (n, v) :: number_add_from rootnums (Z.max v (v + 1)) r
  end.

Definition number_adds (root : list (str * Z)) (adds : list item) : list (str * Z) :=
  number_add_from (map snd root) 0 adds.

(* The IR: members = root ++ additions, extensible = Some |root| iff a marker was written. *)
Record enumerated := { members : list (str * Z); extensible : option nat }.

Definition build_enumerated (root : list item) (marker : bool) (adds : list item) : enumerated :=
  let r := number_root root in
  {| members := r ++ number_adds r adds;
     extensible := if marker then Some (length r) else None |}.
