(* Model of the rasn back end's option handling (C19): generator/rasn/mod.rs Backend::new (merging the required derives
   with the user's type annotations), utils.rs required_annotations, builder.rs generate_choice (From impls).
   No proofs here. *)
From Coq Require Import NArith List Bool.
Require Import RasnV.Model.Base.
Import ListNotations.

(* Backend::new: every derive of every `#[derive(..)]` annotation, in order, appended unless already present *)
Definition add_derive (acc : list str) (d : str) : list str := if str_in d acc then acc else acc ++ [d].
Definition merge_derives (required : list str) (user : list (list str)) : list str :=
  fold_left add_derive (concat user) required.

(* required_annotations: Copy appended for types that need it *)
Definition derives_of (merged : list str) (copy : str) (needs_copy : bool) : list str :=
  if needs_copy && negb (str_in copy merged) then merged ++ [copy] else merged.

(* generate_choice with generate_from_impls: one impl per alternative whose payload type occurs once in the CHOICE *)
Fixpoint count_ty (t : str) (l : list str) : nat :=
  match l with [] => 0 | x :: r => (if str_eqb t x then 1 else 0) + count_ty t r end.
Definition from_impl_alts (alts : list (str * str)) : list (str * str) :=
  filter (fun a => Nat.eqb (count_ty (snd a) (map snd alts)) 1) alts.
