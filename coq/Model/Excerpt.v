(* Model of the index arithmetic of the error excerpt:
     until_next_unindented (lexer/util.rs) and the slices of LexerError::contextualize (lexer/error.rs).
   Bytes of the UTF-8 source; a byte 128..191 is a continuation byte, i.e. not a char boundary.
   Every slice is made explicit: [None] would be a panic (index out of range / not on a boundary). *)
From Coq Require Import NArith Arith List Bool.
Require Import RasnV.Model.Base RasnV.Model.InputPos.
Import ListNotations.

Definition is_cont (b : N) : bool := N.leb 128 b && N.ltb b 192.

Definition is_boundary (s : list N) (i : nat) : bool :=
  match nth_error s i with
  | Some b => negb (is_cont b)
  | None => Nat.eqb i (length s)
  end.

(* ceil_char_boundary: min(index, len), then forward to the next boundary *)
Fixpoint ceil_from (fuel : nat) (s : list N) (i : nat) : nat :=
  match fuel with
  | O => length s
  | S f => if Nat.leb (length s) i then length s
           else if is_boundary s i then i else ceil_from f s (S i)
  end.
Definition ceil_char_boundary (s : list N) (i : nat) : nat := ceil_from (S (length s)) s (Nat.min i (length s)).

(* &input[a..] / &input[..b]: legal iff in range and on a boundary *)
Definition slice_ok (s : list N) (i : nat) : bool := Nat.leb i (length s) && is_boundary s i.

Definition is_alnum_ascii (b : N) : bool :=
  (N.leb 48 b && N.leb b 57) || (N.leb 65 b && N.leb b 90) || (N.leb 97 b && N.leb b 122).

(* the scan for "\n[A-Za-z0-9]": index (relative to [from]) of the alphanumeric byte, if any *)
Fixpoint find_unindented (s : list N) (idx : nat) (prev_nl : bool) : option nat :=
  match s with
  | [] => None
  | b :: r => if prev_nl && is_alnum_ascii b then Some idx else find_unindented r (S idx) (N.eqb b 10)
  end.

(* returns the end index of the excerpt (the excerpt is input[..end], trimmed afterwards) and whether
   every slice it performed was legal *)
Definition until_next_unindented (input : list N) (at_least_until fallback_len : nat) : nat * bool :=
  let a := ceil_char_boundary input at_least_until in
  match find_unindented (skipn a input) 0 false with
  | Some idx => let e := idx - 1 + a in (e, slice_ok input a && slice_ok input e)
  | None => let e := ceil_char_boundary input fallback_len in (e, slice_ok input a && slice_ok input e)
  end.

(* contextualize: &input[ctx_offset..] then until_next_unindented(.., offset - ctx_offset + 1, 300) *)
Definition contextualize_slices (src : list N) (r : report) : bool :=
  slice_ok src (r_ctx_offset r)
  && Nat.leb (r_ctx_offset r) (r_offset r)                                  (* no underflow in offset - ctx_offset *)
  && snd (until_next_unindented (skipn (r_ctx_offset r) src) (r_offset r - r_ctx_offset r + 1) 300).
