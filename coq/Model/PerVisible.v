(* Model of intermediate/encoding_rules/per_visible.rs:
     fold_constraint_set, intersect_single_and_range, union_single_and_range,
     compare_optional_asn1values, ASN1Value::min/max (intermediate/mod.rs),
     the PerVisible trait impls, TryFrom<Option<&SubtypeElements>> / TryFrom<&Constraint> for
     PerVisibleRangeConstraints, AddAssign, per_visible_range_constraints.
   A line-by-line transcription: match arms are kept in source order, arms that look unreachable
   return [Panic].  The recursion that re-wraps the inner set of a SIZE / FROM element is not
   structural in the source; it runs on explicit fuel here and [OutOfFuel] is a separate result
   (Proofs/C04.v shows which fuel suffices).  No proofs in this file. *)
From Coq Require Import ZArith NArith List Bool.
Require Import RasnV.Model.Base.
Import ListNotations.
Local Open Scope Z_scope.

Inductive aval := VInt (z : Z) | VStr (s : str) | VOther.

Inductive sop := Union | Inter | Except.

Inductive elem :=
| Single (v : aval) (x : bool)
| Range (lo hi : option aval) (x : bool)
| Size (inner : eos)
| Alpha (inner : eos)
| Contained                              (* ContainedSubtype whose own constraints are not PER-visible, no extension marker after it;
                                            inclusion of a constrained type is decided end to end (C04/C06/C15 inclusion families) *)
| NotPV                                  (* PATTERN, WITH COMPONENT(S), CONSTRAINED BY, SETTINGS, ... *)
with eos :=
| El (e : elem)
| SetOp (base : elem) (o : sop) (operant : eos).

Inductive res (A : Type) := Ok (a : A) | Err | Panic | OutOfFuel.
Arguments Ok {A} a. Arguments Err {A}. Arguments Panic {A}. Arguments OutOfFuel {A}.

Definition bind {A B} (r : res A) (f : A -> res B) : res B :=
  match r with Ok a => f a | Err => Err | Panic => Panic | OutOfFuel => OutOfFuel end.

(* ---- PerVisible trait *)
Fixpoint elem_pv (e : elem) : bool :=
  match e with
  | Single _ _ => true
  | Range _ _ _ => true
  | Size s => eos_pv s
  | Alpha p => eos_pv p
  | Contained => false
  | NotPV => false
  end
with eos_pv (s : eos) : bool :=
  match s with
  | El e => elem_pv e
  | SetOp base _ operant => elem_pv base || eos_pv operant       (* base || operant *)
  end.

(* ---- character sets: index = position in the list (BTreeMap<usize, char> built by enumerate) *)
Definition charset := list N.

Fixpoint find_index_from (i : nat) (cs : charset) (c : N) : option nat :=
  match cs with
  | [] => None
  | d :: r => if N.eqb c d then Some i else find_index_from (S i) r c
  end.
Definition find_char_index (cs : charset) (c : N) : option nat := find_index_from 0 cs c.

(* ASN1Value::min / max *)
Definition utf8_len (c : N) : nat :=
  if N.ltb c 128 then 1%nat else if N.ltb c 2048 then 2%nat else if N.ltb c 65536 then 3%nat else 4%nat.
Definition byte_len (s : str) : nat := fold_right (fun c n => (utf8_len c + n)%nat) 0%nat s.

Definition min_max (a b : aval) (cs : option charset) (getting_min : bool) : res aval :=
  match a, b, cs with
  | VInt s, VInt o, _ => Ok (VInt (if getting_min then Z.min s o else Z.max s o))
  | VStr s, VStr o, Some set =>
      if negb (Nat.eqb (byte_len s) 1) || negb (Nat.eqb (byte_len o) 1) then Err
      else match s, o with
           | sc :: _, oc :: _ =>
               match find_char_index set sc, find_char_index set oc with
               | Some si, Some oi =>
                   let return_self := if getting_min then Nat.leb si oi else Nat.leb oi si in
                   Ok (if return_self then a else b)
               | _, _ => Err
               end
           | _, _ => Err
           end
  | _, _, _ => Err
  end.
Definition vmin a b cs := min_max a b cs true.
Definition vmax a b cs := min_max a b cs false.

(* compare_optional_asn1values: an absent bound yields the other one (intersection rule) *)
Definition cmp_opt (f : aval -> aval -> res aval) (a b : option aval) : res (option aval) :=
  match a, b with
  | Some x, Some y => bind (f x y) (fun v => Ok (Some v))
  | None, Some y => Ok (Some y)
  | Some x, None => Ok (Some x)
  | None, None => Ok None
  end.

(* hull_optional_asn1values: an absent bound (MIN / MAX) leaves the hull unbounded (union rule) *)
Definition hull_opt (f : aval -> aval -> res aval) (a b : option aval) : res (option aval) :=
  match a, b with
  | Some x, Some y => bind (f x y) (fun v => Ok (Some v))
  | _, _ => Ok None
  end.

Definition is_int (v : aval) := match v with VInt _ => true | _ => false end.
Definition is_str (v : aval) := match v with VStr _ => true | _ => false end.
Definition ois_int (v : option aval) := match v with Some (VInt _) => true | _ => false end.
Definition ois_str (v : option aval) := match v with Some (VStr _) => true | _ => false end.

Definition str_contains (s : str) (c : N) : bool := existsb (N.eqb c) s.

Fixpoint map_opt {A B} (f : A -> option B) (l : list A) : option (list B) :=
  match l with
  | [] => Some []
  | a :: r => match f a, map_opt f r with Some b, Some bs => Some (b :: bs) | _, _ => None end
  end.

(* first minimum / last maximum by index (Iterator::min_by / max_by) *)
Fixpoint min_by_idx (best : N * nat) (l : list (N * nat)) : N * nat :=
  match l with
  | [] => best
  | p :: r => min_by_idx (if Nat.ltb (snd p) (snd best) then p else best) r
  end.
Fixpoint max_by_idx (best : N * nat) (l : list (N * nat)) : N * nat :=
  match l with
  | [] => best
  | p :: r => max_by_idx (if Nat.leb (snd best) (snd p) then p else best) r
  end.

Definition intersect_single_and_range (value : aval) (min max : option aval) (x1 x2 : bool)
           (cs : option charset) (rc : bool) : res (option elem) :=
  match cs with
  | Some _ =>
      if is_int value && (ois_str max || ois_str min) then
        if x2 then Ok None else Ok (Some (Range min max false))
      else if is_str value && (ois_int min || ois_int max) then
        if x1 then Ok None else Ok (Some (Single value false))
      else match value with
           | VInt v => Ok (Some (Single (VInt v) (x1 || x2)))
           | _ =>
               if x1 || x2 then Ok None
               else match value, cs with
                    | VStr s1, Some chars =>
                        match map_opt (fun c => option_map (fun i => (c, i)) (find_char_index chars c)) s1 with
                        | None => Err
                        | Some indices =>
                            let s_min := match indices with [] => None | p :: r => Some (VStr [fst (min_by_idx p r)]) end in
                            let s_max := match indices with [] => None | p :: r => Some (VStr [fst (max_by_idx p r)]) end in
                            bind (cmp_opt (fun a b => vmax a b cs) s_min min) (fun lo =>
                            bind (cmp_opt (fun a b => vmin a b cs) s_max max) (fun hi =>
                            Ok (Some (Range lo hi false))))
                        end
                    | _, _ => Err
                    end
           end
  | None =>
      if is_int value && (ois_str max || ois_str min) then Ok (Some (Single value x1))
      else if is_str value && (ois_int min || ois_int max) then Ok (Some (Range min max x2))
      else match value with
           | VInt v => Ok (Some (Single (VInt v) (x1 || x2)))
           | _ =>
               if x1 || x2 then Ok None
               else match value with
                    | VStr _ => if rc then Ok None else Err
                    | _ => Err
                    end
           end
  end.

Fixpoint seq_insert (i : nat) (l : list nat) : list nat :=   (* BTreeSet::insert on a sorted list *)
  match l with
  | [] => [i]
  | j :: r => if Nat.ltb i j then i :: l else if Nat.eqb i j then l else j :: seq_insert i r
  end.

Fixpoint contiguous_from (last : nat) (l : list nat) : bool :=
  match l with
  | [] => true
  | v :: r => if Nat.eqb v (S last) then contiguous_from v r else false
  end.

Definition union_single_and_range (v : aval) (min : option aval) (cs : option charset) (max : option aval)
           (x1 x2 : bool) (rc : bool) : res (option elem) :=
  if (is_int v && (ois_str max || ois_str min)) || (is_str v && (ois_int min || ois_int max)) then Ok None
  else match v with
       | VInt _ =>
           bind (hull_opt (fun a b => vmin a b cs) (Some v) min) (fun lo =>
           bind (hull_opt (fun a b => vmax a b cs) (Some v) max) (fun hi =>
           Ok (Some (Range lo hi (x1 || x2)))))
       | _ =>
           if x1 || x2 then Ok None
           else match v, min, max, cs with
                | VStr s1, Some (VStr mn), Some (VStr mx), Some chars =>
                    match mn, mx with
                    | mnc :: _, mxc :: _ =>
                        match find_char_index chars mnc, find_char_index chars mxc with
                        | Some min_i, Some max_i =>
                            match map_opt (find_char_index chars) s1 with
                            | None => Err
                            | Some idx1 =>
                                let set0 := fold_left (fun acc i => seq_insert i acc) idx1 [] in
                                let set1 := fold_left (fun acc i => seq_insert i acc) (seq min_i (S max_i - min_i)) set0 in
                                match set1 with
                                | [] => Err                                     (* empty: an error since the fix (indices[0] panicked before) *)
                                | first :: rest =>
                                    if contiguous_from first rest then
                                      match nth_error chars first, nth_error chars (last set1 first) with
                                      | Some a, Some b => Ok (Some (Range (Some (VStr [a])) (Some (VStr [b])) false))
                                      | _, _ => Panic
                                      end
                                    else
                                      match map_opt (nth_error chars) (seq min_i (S max_i - min_i)) with
                                      | Some more => Ok (Some (Single (VStr (s1 ++ more)) false))
                                      | None => Panic
                                      end
                                end
                            end
                        | _, _ => Err
                        end
                    | _, _ => Err                                                (* find_string_index: empty endpoint (a panic before 5a3df6a) *)
                    end
                | VStr _, _, _, None => if rc then Ok None else Err
                | _, _, _, _ => Err
                end
       end.

Definition mixed_int_then_str (min1 max1 min2 max2 : option aval) : bool :=
  (ois_int min1 || ois_int max1) && (ois_str min2 || ois_str max2).

(* the operator part of fold_constraint_set *)
Definition combine (base : elem) (o : sop) (fo : option elem) (cs : option charset) (rc : bool)
  : res (option elem) :=
  match o with
  | Inter =>
      if negb (elem_pv base) then Ok fo                              (* non-PER-visible parts are ignored *)
      else match fo with
           | None => Ok (Some base)
           | Some f =>
               if negb (elem_pv f) then Ok (Some base)
               else match base, f with
                    | Single v1 x1, Single v2 x2 =>
                        match v1, v2 with
                        | VInt _, VStr _ => if cs then Ok fo else Ok (Some base)
                        | VStr _, VInt _ => if cs then Ok (Some base) else Ok fo
                        | VInt i1, VInt i2 =>
                            if Z.eqb i1 i2 then Ok (Some (Single (VInt i2) (x1 || x2))) else Err
                        | VStr s1, VStr s2 =>
                            if x1 || x2 then Ok None
                            else let permitted := filter (str_contains s1) s2 in
                                 match permitted with
                                 | [] => Err
                                 | _ => Ok (Some (Single (VStr permitted) false))
                                 end
                        | _, _ => Err
                        end
                    | Single value x1, Range min max x2 => intersect_single_and_range value min max x1 x2 cs rc
                    | Range min max x2, Single value x1 => intersect_single_and_range value min max x1 x2 cs rc
                    | _, Single v x => Ok (Some (Single v x))
                    | Range min1 max1 x1, Range min2 max2 x2 =>
                        if mixed_int_then_str min1 max1 min2 max2 then
                          (if cs then (if negb x2 then Ok fo else Ok None) else Ok (Some base))
                        else if mixed_int_then_str min2 max2 min1 max1 then
                          (if cs then (if negb x1 then Ok (Some base) else Ok None) else Ok fo)
                        else
                          bind (cmp_opt (fun a b => vmax a b cs) min1 min2) (fun lo =>
                          bind (cmp_opt (fun a b => vmin a b cs) max1 max2) (fun hi =>
                          Ok (Some (Range lo hi (x1 || x2)))))
                    | _, _ => Panic                                                 (* unreachable!() *)
                    end
           end
  | Union =>
      if negb (elem_pv base) then Ok None
      else match fo with
           | None => Ok None
           | Some f =>
               if negb (elem_pv f) then Ok None
               else match base, f with
                    | Single v1 x1, Single v2 x2 =>
                        match v1, v2 with
                        | VStr _, VInt _ | VInt _, VStr _ => Ok None
                        | VInt a, VInt b => Ok (Some (Range (Some (VInt (Z.min b a))) (Some (VInt (Z.max b a))) (x1 || x2)))
                        | VStr s1, VStr s2 =>
                            Ok (Some (Single (VStr (s2 ++ filter (fun c => negb (str_contains s2 c)) s1)) (x1 || x2)))
                        | _, _ => Err
                        end
                    | Range min max x1, Single v x2 => union_single_and_range v min cs max x1 x2 rc
                    | Single v x1, Range min max x2 => union_single_and_range v min cs max x1 x2 rc
                    | Range min1 max1 x1, Range min2 max2 x2 =>
                        if mixed_int_then_str min1 max1 min2 max2 || mixed_int_then_str min2 max2 min1 max1 then Ok None
                        else
                          bind (hull_opt (fun a b => vmin a b cs) min1 min2) (fun lo =>
                          bind (hull_opt (fun a b => vmax a b cs) max1 max2) (fun hi =>
                          Ok (Some (Range lo hi (x1 || x2)))))
                    | _, _ => Panic                                                 (* unreachable!() *)
                    end
           end
  | Except =>
      if elem_pv base then
        let marked := match fo with Some (Single _ true) | Some (Range _ _ true) => true | _ => false end in
        Ok (Some (match base, marked with
                  | Single v _, true => Single v true
                  | Range lo hi _, true => Range lo hi true
                  | b, _ => b
                  end))
      else Ok None
  end.

Definition is_contained (e : elem) := match e with Contained => true | _ => false end.

(* the first `match (&set.base, &folded_operant)` of fold_constraint_set; [recur] is the recursive call *)
Definition dispatch (recur : elem -> sop -> eos -> res (option elem))
           (base : elem) (o : sop) (fo : option elem) (cs : option charset) (rc : bool) : res (option elem) :=
  let unwrap_none (inner : eos) :=
    match inner with
    | El e => Ok (Some e)
    | SetOp b2 o2 r2 => recur b2 o2 r2
    end in
  let except_base := match o, base, fo with
                     | Except, Alpha inner, Some _ | Except, Size inner, Some _ => Some inner
                     | _, _, _ => None
                     end in
  match except_base with
  | Some inner => unwrap_none inner           (* SIZE (a) EXCEPT x / FROM (a) EXCEPT x keep their base (fix 5aac876) *)
  | None =>
  match base, fo with
  | _, Some (Alpha inner) => recur base o inner
  | Alpha inner, Some b => recur b o inner
  | _, Some (Size inner) => recur base o inner
  | Size inner, Some b => recur b o inner
  | Contained, None => Ok None
  | Contained, Some Contained => Ok None
  | Contained, Some c => Ok (match o with Inter => Some c | _ => None end)
  | c, Some Contained => Ok (match o with Union => None | _ => Some c end)
  | Alpha inner, None => match o with Union => Ok None | _ => unwrap_none inner end
  | Size inner, None => match o with Union => Ok None | _ => unwrap_none inner end
  | _, _ => combine base o fo cs rc
  end
  end.

(* fold_constraint_set *)
Fixpoint fold (fuel : nat) (base : elem) (o : sop) (operant : eos) (cs : option charset) (rc : bool)
  : res (option elem) :=
  match fuel with
  | O => OutOfFuel
  | S fuel' =>
      bind (match operant with
            | El e => Ok (if elem_pv e then Some e else None)
            | SetOp b2 o2 r2 => fold fuel' b2 o2 r2 cs rc
            end) (fun fo =>
      dispatch (fun b o' r => fold fuel' b o' r cs rc) base o fo cs rc)
  end.

Definition fold_eos (fuel : nat) (s : eos) (cs : option charset) (rc : bool) : res (option elem) :=
  match s with
  | El e => Ok (Some e)
  | SetOp b o r => fold fuel b o r cs rc
  end.

(* ---- PerVisibleRangeConstraints *)
Record range := { rmin : option Z; rmax : option Z; rext : bool; rsize : bool }.
Definition range_default := {| rmin := None; rmax := None; rext := false; rsize := false |}.
Definition range_default_unsigned := {| rmin := Some 0; rmax := None; rext := false; rsize := false |}.

Definition as_int (v : option aval) : option Z := match v with Some (VInt z) => Some z | _ => None end.
Definition set_size (r : range) := {| rmin := rmin r; rmax := rmax r; rext := rext r; rsize := true |}.

(* trailing_extension_marker: the marker the lexer attached to the last element of the set *)
Fixpoint trailing_marker (r : eos) : bool :=
  match r with
  | SetOp _ _ r' => trailing_marker r'
  | El (Single _ x) => x
  | El (Range _ _ x) => x
  | El _ => false
  end.
Definition mark_ext (t : bool) (r : range) : range :=
  if t && match rmin r, rmax r with None, None => false | _, _ => true end
  then {| rmin := rmin r; rmax := rmax r; rext := true; rsize := rsize r |} else r.

(* TryFrom<Option<&SubtypeElements>> *)
Fixpoint range_of_elem (fuel : nat) (e : option elem) : res range :=
  match fuel with
  | O => OutOfFuel
  | S fuel' =>
      match e with
      | None => Ok range_default
      | Some (Alpha _) => Ok range_default
      | Some (Single v x) => Ok {| rmin := as_int (Some v); rmax := as_int (Some v); rext := x; rsize := false |}
      | Some (Range lo hi x) => Ok {| rmin := as_int lo; rmax := as_int hi; rext := x; rsize := false |}
      | Some (Size (El e')) => bind (range_of_elem fuel' (Some e')) (fun r => Ok (set_size r))
      | Some (Size (SetOp b o r)) =>
          bind (fold fuel' b o r None true) (fun fe => bind (range_of_elem fuel' fe) (fun v => Ok (mark_ext (trailing_marker r) (set_size v))))
      | Some Contained => Ok range_default_unsigned   (* per_visible_range_constraints (false, []) of the contained type: it is not an INTEGER in this model (the harness builds it from BOOLEAN), none of its constraints PER-visible *)
      | Some NotPV => Panic                     (* unreachable!() *)
      end
  end.

Definition opt_max (a b : option Z) : option Z :=        (* Option::max : None < Some *)
  match a, b with
  | Some x, Some y => Some (Z.max x y)
  | Some x, None => Some x
  | None, y => y
  end.
Definition opt_min_some (a b : option Z) : option Z :=
  match a, b with
  | Some x, Some y => Some (Z.min x y)
  | None, Some m | Some m, None => Some m
  | None, None => None
  end.

Definition add_assign (a b : range) : range :=
  {| rmin := opt_max (rmin a) (rmin b); rmax := opt_min_some (rmax a) (rmax b);
     rext := rext b (* X.680 50.8: the later constraint decides (fix for C04-serial-marker-inherited) *); rsize := rsize a || rsize b |}.

(* one serial constraint: the element set and the outer extension marker *)
Record constraint := { cset : eos; cext : bool }.

Definition is_size_elem (e : elem) := match e with Size _ => true | _ => false end.

(* set_has_size_element: one of the operands of the set is a SIZE constraint (fix c4a68ab) *)
Fixpoint set_has_size_tail (r : eos) : bool :=
  match r with
  | El e => is_size_elem e
  | SetOp b _ r' => is_size_elem b || set_has_size_tail r'
  end.
Definition set_has_size (b : elem) (r : eos) : bool := is_size_elem b || set_has_size_tail r.

(* TryFrom<&Constraint> *)
Definition range_of_constraint (fuel : nat) (c : constraint) : res range :=
  bind (match cset c with
        | El e => range_of_elem fuel (Some e)
        | SetOp b o r =>
            bind (fold fuel b o r None true) (fun fe =>
            bind (range_of_elem fuel fe) (fun v =>
            Ok (mark_ext (trailing_marker r)
                  (if set_has_size b r then set_size v else v))))
        end) (fun pv =>
  Ok (if cext c && match rmin pv, rmax pv with None, None => false | _, _ => true end
      then {| rmin := rmin pv; rmax := rmax pv; rext := true; rsize := rsize pv |} else pv)).

Fixpoint per_visible_range_from (fuel : nat) (acc : range) (cs : list constraint) : res range :=
  match cs with
  | [] => Ok acc
  | c :: r =>
      if eos_pv (cset c) then
        bind (range_of_constraint fuel c) (fun rc => per_visible_range_from fuel (add_assign acc rc) r)
      else per_visible_range_from fuel acc r
  end.

Definition per_visible_range_constraints (fuel : nat) (signed : bool) (cs : list constraint) : res range :=
  per_visible_range_from fuel (if signed then range_default else range_default_unsigned) cs.

(* depth of an element set: fuel = 2 * size always suffices in practice; see Proofs/C04.v *)
Fixpoint elem_size (e : elem) : nat :=
  match e with
  | Size s => S (eos_size s)
  | Alpha s => S (eos_size s)
  | _ => 1%nat
  end
with eos_size (s : eos) : nat :=
  match s with
  | El e => elem_size e
  | SetOp b _ r => (S (elem_size b) + eos_size r)%nat
  end.
