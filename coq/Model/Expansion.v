(* Model of the notations the linker expands (C09): COMPONENTS OF (validator/linking/mod.rs link_components_of_notation,
   driven by validator/mod.rs link: one pass over the definitions in descending name order, each resolved against the
   current state of the others, a referenced type that is not yet linked being linked first on a copy) and the selection type (link_choice_selection_type).  Types are reduced to what these
   steps read: the component names.  No proofs here. *)
From Coq Require Import NArith List Bool.
Require Import RasnV.Model.Base RasnV.Model.Driver.
Import ListNotations.

(* a component list as written: positions kept *)
Inductive citem := Own (name : str) | ComponentsOf (ref : str).

(* a type assignment: name, SEQUENCE (true) or SET (false), components as written *)
Record tdef := mktdef { t_name : str; t_is_seq : bool; t_items : list citem }.

Fixpoint own_names (l : list citem) : list str :=
  match l with [] => [] | Own n :: r => n :: own_names r | ComponentsOf _ :: r => own_names r end.
Fixpoint refs_of (l : list citem) : list str :=
  match l with [] => [] | Own _ :: r => refs_of r | ComponentsOf n :: r => n :: refs_of r end.

(* ---- what the linker does ---- *)
(* the state of one definition during linking: its members so far and the COMPONENTS OF references not yet resolved *)
Record lstate := mkls { l_name : str; l_is_seq : bool; l_members : list str; l_refs : list str }.

Definition init_state (d : tdef) : lstate := mkls (t_name d) (t_is_seq d) (own_names (t_items d)) (refs_of (t_items d)).

Fixpoint find_state (n : str) (st : list lstate) : option lstate :=
  match st with [] => None | s :: r => if str_eqb n (l_name s) then Some s else find_state n r end.

Definition mem_str (x : str) (l : list str) : bool := existsb (str_eqb x) l.

(* the map without the entry that is being linked (the driver takes it out with remove_entry) *)
Fixpoint remove_state (n : str) (st : list lstate) : list lstate :=
  match st with
  | [] => []
  | x :: r => if str_eqb n (l_name x) then remove_state n r else x :: remove_state n r
  end.

(* link_components_of_notation_from for one definition: each pending COMPONENTS OF reference that is not being visited and
   is found has its own pending references resolved first, on a copy (the referenced type may come later in the pass), then
   its members are appended; the pending references are removed.  `fuel` bounds the depth of the copies: every level adds a
   found name that is not yet in `visiting`, so the depth never exceeds the number of entries; the pass supplies one more
   than that, and every theorem about the pass states the height of the chain it speaks about. *)
Fixpoint link_full (fuel : nat) (st : list lstate) (visiting : list str) (s : lstate) : lstate :=
  match fuel with
  | 0 => s
  | S f =>
      mkls (l_name s) (l_is_seq s)
           (l_members s ++ flat_map (fun r => if mem_str r visiting then []
                                              else match find_state r st with
                                                   | Some t => l_members (link_full f st (r :: visiting) t)
                                                   | None => []
                                                   end) (l_refs s))
           []
  end.

Fixpoint replace_state (s : lstate) (st : list lstate) : list lstate :=
  match st with
  | [] => []
  | x :: r => if str_eqb (l_name s) (l_name x) then s :: r else x :: replace_state s r
  end.

(* one step of the pass: the definition named n is taken out, linked against the others, put back *)
Definition link_step (st : list lstate) (n : str) : list lstate :=
  match find_state n st with
  | Some s => replace_state (link_full (S (length st)) (remove_state n st) [] s) st
  | None => st
  end.

(* the pass: names in descending order *)
Definition link_pass (order : list str) (st : list lstate) : list lstate := fold_left link_step order st.

Definition descending (ds : list tdef) : list str := rev (map fst (from_list t_name ds)).

Definition linked_members (ds : list tdef) (n : str) : option (list str) :=
  option_map l_members (find_state n (link_pass (descending ds) (map init_state ds))).

(* ---- what the notation means (X.680 25.5 / 27.3): the components of the referenced type of the same kind take the
        place of the notation, transitively ---- *)
Fixpoint find_def (n : str) (ds : list tdef) : option tdef :=
  match ds with [] => None | d :: r => if str_eqb n (t_name d) then Some d else find_def n r end.

Fixpoint expand (fuel : nat) (ds : list tdef) (is_seq : bool) (items : list citem) : list str :=
  match fuel with
  | 0 => own_names items
  | S f =>
      flat_map (fun c => match c with
                         | Own n => [n]
                         | ComponentsOf r =>
                             match find_def r ds with
                             | Some d => if Bool.eqb (t_is_seq d) is_seq then expand f ds is_seq (t_items d) else []
                             | None => []
                             end
                         end) items
  end.

Definition expanded_members (ds : list tdef) (n : str) : option (list str) :=
  option_map (fun d => expand (length ds) ds (t_is_seq d) (t_items d)) (find_def n ds).

(* ---- where the copied components go when the including type has an extension marker: each one is inserted at the
        index of the first addition, which then moves up by one (link_components_of_notation; without a marker they are
        appended) ---- *)
Definition insert_copied (st : list str * option nat) (m : str) : list str * option nat :=
  let '(ms, e) := st in
  match e with
  | Some k => (firstn k ms ++ m :: skipn k ms, Some (S k))
  | None => (ms ++ [m], None)
  end.

Definition link_insert (members : list str) (ext : option nat) (copied : list str) : list str * option nat :=
  fold_left insert_copied copied (members, ext).

(* names with their addition flag: position >= index of the first addition *)
Fixpoint flag_from (e : option nat) (i : nat) (l : list str) : list (str * bool) :=
  match l with
  | [] => []
  | x :: r => (x, match e with Some k => Nat.leb k i | None => false end) :: flag_from e (S i) r
  end.

(* the fields of the linked type with their addition flag: own components before / after the marker, copied root components *)
Definition link_marked (own_root own_adds copied : list str) (marker : bool) : list (str * bool) :=
  let '(ms, e) := link_insert (own_root ++ own_adds) (if marker then Some (length own_root) else None) copied in
  flag_from e 0 ms.

(* ---- the shape of COMPONENTS OF chains the pass is proved right for (Proofs/C09Chain.v) ---- *)
(* the COMPONENTS OF entries of a definition come last *)
Definition trailing (d : tdef) : Prop :=
  t_items d = map Own (own_names (t_items d)) ++ map ComponentsOf (refs_of (t_items d)).

(* [acyclic_chain ds rank n]: n is defined, its COMPONENTS OF entries come last, and each names a defined type of the same
   kind, of smaller rank, that is itself the head of such a chain.  A rank that decreases along the references exists
   exactly when the chain is not circular (the height of a type in the chain is one). *)
Inductive acyclic_chain (ds : list tdef) (rank : str -> nat) : str -> Prop :=
| ac_intro n d :
    find_def n ds = Some d -> trailing d ->
    (forall r, In r (refs_of (t_items d)) ->
               rank r < rank n /\ exists dr, find_def r ds = Some dr /\ t_is_seq dr = t_is_seq d /\ acyclic_chain ds rank r) ->
    acyclic_chain ds rank n.

(* ---- what the pass yields when the notations stand anywhere (Proofs/C09Perm.v) ---- *)
(* own components first, then the referenced types' (same kind), in the order of the notations *)
Fixpoint appended (fuel : nat) (ds : list tdef) (is_seq : bool) (items : list citem) : list str :=
  match fuel with
  | 0 => own_names items
  | S f =>
      own_names items ++
      flat_map (fun r => match find_def r ds with
                         | Some d => if Bool.eqb (t_is_seq d) is_seq then appended f ds is_seq (t_items d) else []
                         | None => []
                         end) (refs_of items)
  end.

(* [any_chain]: like acyclic_chain without the requirement that the notations come last *)
Inductive any_chain (ds : list tdef) (rank : str -> nat) : str -> Prop :=
| anyc_intro n d :
    find_def n ds = Some d ->
    (forall r, In r (refs_of (t_items d)) ->
               rank r < rank n /\ exists dr, find_def r ds = Some dr /\ t_is_seq dr = t_is_seq d /\ any_chain ds rank r) ->
    any_chain ds rank n.

(* ---- selection type: `alt < Choice` is the type of that alternative ---- *)
Definition select (alts : list (str * N)) (alt : str) : option N :=
  (fix go (l : list (str * N)) : option N :=
     match l with [] => None | (n, t) :: r => if str_eqb n alt then Some t else go r end) alts.
