(* Model of the hand-written trivia scanners of the lexer (bytes of the UTF-8 source; ASCII bytes
   never occur inside a multi-byte character, so scanning bytes and scanning chars find the same
   two-byte tags):
     multispace0 / multispace1 (nom), line_comment, block_comment with take_until_unbalanced,
     comment = skip_ws(alt(block_comment, line_comment)),
     the prefix of skip_ws_and_comments = many0(alt(comment, multispace1))
   (lexer/common.rs, lexer/util.rs).
   take_until_unbalanced is also modelled with its index arithmetic ([tub], [Panic] = a slice out of
   range / an arithmetic overflow) for the totality statement of C08. *)
From Coq Require Import NArith Arith List Bool.
Require Import RasnV.Model.Base.
Import ListNotations.

Definition is_ws (b : N) : bool := N.eqb b 32 || N.eqb b 9 || N.eqb b 13 || N.eqb b 10.

Fixpoint skip_ws (s : list N) : list N :=
  match s with
  | b :: r => if is_ws b then skip_ws r else s
  | [] => []
  end.

Definition starts2 (a b : N) (s : list N) : bool :=
  match s with x :: y :: _ => N.eqb x a && N.eqb y b | _ => false end.

(* take_until_or("\n", "--") then (if neither occurs) rest: the remainder from the terminator on *)
Fixpoint line_body (s : list N) : list N :=
  match s with
  | [] => []
  | x :: r => if N.eqb x 10 || starts2 45 45 s then s else line_body r
  end.

Definition line_comment (s : list N) : option (list N) :=
  if starts2 45 45 s then
    let r := line_body (skipn 2 s) in
    Some (if starts2 45 45 r then skipn 2 r else r)
  else None.

(* take_until_unbalanced("/*", "*/"): the remainder starting at the unbalanced closing tag *)
Fixpoint block_scan (depth : nat) (s : list N) : option (list N) :=
  match s with
  | [] => None
  | x :: r =>
      match r with
      | y :: r' =>
          if N.eqb x 47 && N.eqb y 42 then block_scan (S depth) r'
          else if N.eqb x 42 && N.eqb y 47 then
            match depth with O => Some s | S d => block_scan d r' end
          else block_scan depth r
      | [] => None
      end
  end.

Definition block_comment (s : list N) : option (list N) :=
  if starts2 47 42 s then
    match block_scan 0 (skipn 2 s) with Some r => Some (skipn 2 r) | None => None end
  else None.

Definition comment (s : list N) : option (list N) :=
  let s' := skip_ws s in
  match block_comment s' with Some r => Some r | None => line_comment s' end.

(* many0(alt(comment, multispace1)) *)
Fixpoint skipper (fuel : nat) (s : list N) : list N :=
  match fuel with
  | O => s
  | S f =>
      match comment s with
      | Some r => skipper f r
      | None =>
          match s with
          | b :: _ => if is_ws b then skipper f (skip_ws s) else s
          | [] => s
          end
      end
  end.

(* ---- take_until_unbalanced with its index arithmetic *)
Inductive outcome (A : Type) := Done (a : A) | Fail | Panic.
Arguments Done {A} a. Arguments Fail {A}. Arguments Panic {A}.

(* i.slice(index..): out of range is a panic *)
Definition slice_from (s : list N) (index : nat) : outcome (list N) :=
  if Nat.leb index (length s) then Done (skipn index s) else Panic.

(* the loop: returns the index of the unbalanced closing tag, or Fail at the end of input *)
Fixpoint tub (fuel : nat) (s : list N) (o1 o2 c1 c2 : N) (index : nat) (counter : nat) : outcome nat :=
  match fuel with
  | O => Fail
  | S f =>
      if Nat.leb (length s) index then Fail                           (* index >= i.len(): break *)
      else match slice_from s index with
           | Panic => Panic
           | Fail => Fail
           | Done input =>
               if starts2 o1 o2 input then tub f s o1 o2 c1 c2 (index + 2) (S counter)
               else if starts2 c1 c2 input then
                 match counter with
                 | O => Done index                                     (* index -= closing_tag.len() after += *)
                 | S k => tub f s o1 o2 c1 c2 (index + 2) k
                 end
               else tub f s o1 o2 c1 c2 (index + 1) counter            (* one byte of the next char *)
           end
  end.
