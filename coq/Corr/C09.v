From Coq Require Import NArith List Bool.
Require Export RasnV.Model.Base RasnV.Model.Driver RasnV.Model.Expansion.
Import ListNotations.

Definition names_eqb := list_eqb str_eqb.

(* (definitions, name, observed field names of that type) against the linker model *)
Definition corr (c : list tdef * str * list str) : bool :=
  let '(ds, n, obs) := c in opt_eqb names_eqb (linked_members ds n) (Some obs).

(* ... and against the meaning of the notation *)
Definition spec (c : list tdef * str * list str) : bool :=
  let '(ds, n, obs) := c in opt_eqb names_eqb (expanded_members ds n) (Some obs).
