From Coq Require Import ZArith NArith List Bool.
Require Export RasnV.Model.Base RasnV.Model.PerVisible.
Import ListNotations.
Local Open Scope Z_scope.

Definition aval_eqb (a b : aval) : bool :=
  match a, b with
  | VInt x, VInt y => Z.eqb x y
  | VStr x, VStr y => str_eqb x y
  | VOther, VOther => true
  | _, _ => false
  end.

Fixpoint elem_eqb (a b : elem) : bool :=
  match a, b with
  | Single v x, Single w y => aval_eqb v w && Bool.eqb x y
  | Range l h x, Range l' h' y => opt_eqb aval_eqb l l' && opt_eqb aval_eqb h h' && Bool.eqb x y
  | Size i, Size j => eos_eqb i j
  | Alpha i, Alpha j => eos_eqb i j
  | Contained, Contained => true
  | NotPV, NotPV => true
  | _, _ => false
  end
with eos_eqb (a b : eos) : bool :=
  match a, b with
  | El x, El y => elem_eqb x y
  | SetOp b1 o1 r1, SetOp b2 o2 r2 =>
      elem_eqb b1 b2 && (match o1, o2 with Union, Union | Inter, Inter | Except, Except => true | _, _ => false end)
      && eos_eqb r1 r2
  | _, _ => false
  end.

(* implementation outcome: 0 = Ok, 1 = Err, 2 = panic *)
Definition res_matches {A} (eqb : A -> A -> bool) (m : res A) (kind : N) (v : option A) : bool :=
  match m, kind, v with
  | Ok a, 0%N, Some b => eqb a b
  | Err, 1%N, _ => true
  | Panic, 2%N, _ => true
  | _, _, _ => false
  end.

Definition fuel_for (s : eos) : nat := (2 * eos_size s + 4)%nat.

(* (base, op, operant, charset, range_constraint, impl kind, impl value) *)
Definition corr_fold (c : elem * sop * eos * option charset * bool * N * option (option elem)) : bool :=
  let '(b, o, r, cs, rc, kind, v) := c in
  res_matches (opt_eqb elem_eqb) (fold (fuel_for (SetOp b o r)) b o r cs rc) kind v.

Definition range_eqb (a b : range) : bool :=
  opt_eqb Z.eqb (rmin a) (rmin b) && opt_eqb Z.eqb (rmax a) (rmax b)
  && Bool.eqb (rext a) (rext b) && Bool.eqb (rsize a) (rsize b).

Definition fuel_cs (cs : list constraint) : nat :=
  (fold_right (fun c n => (2 * eos_size (cset c) + n)%nat) 6%nat cs).

Definition corr_range (c : bool * list constraint * N * option range) : bool :=
  let '(signed, cs, kind, v) := c in
  res_matches range_eqb (per_visible_range_constraints (fuel_cs cs) signed cs) kind v.

(* ---------------- Spec oracle on implementation output (flat source expressions, <= 3 operands) *)
Require Import RasnV.Spec.Subtype.

Definition geb_opt (lo : option Z) (z : Z) : bool := match lo with Some l => Z.leb l z | None => true end.
Definition leb_opt (z : Z) (hi : option Z) : bool := match hi with Some h => Z.leb z h | None => true end.

Definition semb_elem (e : elem) (z : Z) : bool :=
  match e with
  | Single (VInt v) _ => Z.eqb z v
  | Range lo hi _ => geb_opt (as_int lo) z && leb_opt z (as_int hi)
  | _ => true
  end.

Definition flat := (list elem * list sop)%type.

Definition semb_flat (f : flat) (z : Z) : bool :=
  match f with
  | ([e1], _) => semb_elem e1 z
  | ([e1; e2], [o1]) =>
      let s1 := semb_elem e1 z in let s2 := semb_elem e2 z in
      match o1 with Union => s1 || s2 | Inter => s1 && s2 | Except => s1 && negb s2 end
  | ([e1; e2; e3], [o1; o2]) =>
      let s1 := semb_elem e1 z in let s2 := semb_elem e2 z in let s3 := semb_elem e3 z in
      match o1, o2 with
      | Union, Union => s1 || s2 || s3
      | Union, Inter => s1 || (s2 && s3)
      | Union, Except => s1 || (s2 && negb s3)
      | Inter, Union => (s1 && s2) || s3
      | Inter, Inter => s1 && s2 && s3
      | Inter, Except => s1 && (s2 && negb s3)
      | Except, Union => (s1 && negb s2) || s3
      | Except, Inter => (s1 && negb s2) && s3
      | Except, Except => s1 && negb s2
      end
  | _ => true
  end.

Definition pv_flat (f : flat) : piv :=
  match f with
  | ([e1], _) => pv_elem e1
  | ([e1; e2], [o1]) => pv_combine o1 (pv_elem e1) (pv_elem e2)
  | ([e1; e2; e3], [o1; o2]) => pv_prec3 e1 o1 e2 o2 e3
  | _ => NV
  end.

(* all intersections non-empty, read with X.680 precedence *)
Definition nonempty_flat (f : flat) : bool :=
  match f with
  | ([e1; e2], [Inter]) => nonempty_iv (pv_flat f)
  | ([e1; e2; e3], [o1; o2]) =>
      match o1, o2 with
      | Inter, Inter => nonempty_iv (pv_combine Inter (pv_elem e2) (pv_elem e3)) && nonempty_iv (pv_flat f)
      | Inter, _ => nonempty_iv (pv_combine Inter (pv_elem e1) (pv_elem e2))
      | _, Inter => nonempty_iv (pv_combine Inter (pv_elem e2) (pv_elem e3))
      | _, _ => true
      end
  | _ => true
  end.

Definition bounds_of (e : elem) : list Z :=
  match e with
  | Single (VInt v) _ => [v]
  | Range lo hi _ => (match as_int lo with Some l => [l] | None => [] end) ++ (match as_int hi with Some h => [h] | None => [] end)
  | _ => []
  end.

Definition probes (f : flat) : list Z :=
  flat_map (fun v => [v - 1; v; v + 1]) (flat_map bounds_of (fst f)) ++ [0; 3].

Definition ranges_ok (e : elem) : bool :=      (* lower bound <= upper bound, as X.680 requires *)
  match e with
  | Range (Some (VInt l)) (Some (VInt h)) _ => Z.leb l h
  | _ => true
  end.

(* (flat expression, outer marker, signed, observed min, max, ext)
   -> never excludes (on probe points); exact when intersections are non-empty; marker exact *)
Definition oracle (c : flat * bool * bool * option Z * option Z * bool) : bool :=
  let '(f, outer, signed, omin, omax, oext) := c in
  if negb (forallb ranges_ok (fst f)) then true else
  let base_lo := if signed then None else Some 0 in
  forallb (fun z => implb (semb_flat f z && (signed || Z.leb 0 z)) (geb_opt omin z && leb_opt z omax)) (probes f)
  && (if nonempty_flat f then
        match pv_flat f with
        | NV => opt_eqb Z.eqb omin base_lo && opt_eqb Z.eqb omax None
        | IV lo hi => opt_eqb Z.eqb omin (meet_lo lo base_lo) && opt_eqb Z.eqb omax hi
        end
      else true)
  && match omin, omax with
     | None, None => true                       (* nothing is emitted for an unbounded range *)
     | Some 0, None => if signed then Bool.eqb oext (outer || existsb elem_x (fst f)) else true
     | _, _ => Bool.eqb oext (outer || existsb elem_x (fst f))
     end.

(* the two parts of [oracle] that do not ask for exactness: nothing permitted is excluded (probe points), marker exact.
   Used where the implementation documents a deliberate over-approximation (a contained subtype inside a set operation). *)
Definition oracle_sound (c : flat * bool * bool * option Z * option Z * bool) : bool :=
  let '(f, outer, signed, omin, omax, oext) := c in
  if negb (forallb ranges_ok (fst f)) then true else
  forallb (fun z => implb (semb_flat f z && (signed || Z.leb 0 z)) (geb_opt omin z && leb_opt z omax)) (probes f)
  && match omin, omax with
     | None, None => true
     | Some 0, None => if signed then Bool.eqb oext (outer || existsb elem_x (fst f)) else true
     | _, _ => Bool.eqb oext (outer || existsb elem_x (fst f))
     end.

Definition ops_monotone (f : flat) : bool :=
  match snd f with
  | [o1; o2] => monotone3 o1 o2
  | _ => true
  end.

(* ---- serial constraints (each a flat expression with an optional outer marker) *)
Definition meet_piv (a b : piv) : piv :=
  match a, b with
  | IV l1 h1, IV l2 h2 => IV (meet_lo l1 l2) (meet_hi h1 h2)
  | IV l h, NV | NV, IV l h => IV l h
  | NV, NV => NV
  end.

(* X.680 50.8: a serially applied constraint is applied to the parent without its extension marker and additions: the
   result is extensible exactly when the LAST constraint carries a marker *)
Definition last_marker (cs : list (flat * bool)) : bool :=
  match rev cs with
  | fc :: _ => snd fc || existsb elem_x (fst (fst fc))
  | [] => false
  end.

Definition oracle_serial (c : list (flat * bool) * bool * option Z * option Z * bool) : bool :=
  let '(cs, signed, omin, omax, oext) := c in
  if negb (forallb (fun fc => forallb ranges_ok (fst (fst fc))) cs) then true else
  let base_lo := if signed then None else Some 0 in
  let pts := flat_map (fun fc => probes (fst fc)) cs in
  let total := fold_left (fun acc fc => meet_piv acc (pv_flat (fst fc))) cs (IV base_lo None) in
  forallb (fun z => implb (forallb (fun fc => semb_flat (fst fc) z) cs && (signed || Z.leb 0 z))
                          (geb_opt omin z && leb_opt z omax)) pts
  && (if forallb (fun fc => nonempty_flat (fst fc)) cs && nonempty_iv total then
        match total with
        | NV => true
        | IV lo hi => opt_eqb Z.eqb omin lo && opt_eqb Z.eqb omax hi
        end
      else true)
  && match omin, omax with
     | None, None => true
     | Some 0, None => if signed then Bool.eqb oext (last_marker cs) else true
     | _, _ => Bool.eqb oext (last_marker cs)
     end.

(* the reading the implementation follows: extensible when any of the serial constraints carries a marker *)
Definition any_marker (cs : list (flat * bool)) : bool := existsb (fun fc => snd fc || existsb elem_x (fst (fst fc))) cs.

Definition serial_monotone (c : list (flat * bool)) : bool := forallb (fun fc => ops_monotone (fst fc)) c.
