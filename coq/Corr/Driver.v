From Coq Require Import NArith List Bool.
Require Export RasnV.Model.Base RasnV.Model.Names RasnV.Model.Driver RasnV.Model.Imports.
Import ListNotations.

Definition names_eqb := list_eqb str_eqb.
Definition block_eqb (a b : str * list str) : bool := str_eqb (fst a) (fst b) && names_eqb (snd a) (snd b).

Definition status_of_n (n : N) : status :=
  if N.eqb n 0 then Present else if N.eqb n 1 then PresentWarned else if N.eqb n 2 then WarnedValidate
  else if N.eqb n 3 then WarnedGen else NoOutput.

(* sources as (module, name, id, status code) ; the outcome of a definition is looked up by its id *)
Definition mk (t : str * str * N * N) : def := let '(m, n, i, _) := t in mkdef m n i.
Fixpoint status_tbl (l : list (str * str * N * N)) (d : def) : status :=
  match l with
  | [] => NoOutput
  | (_, _, i, c) :: r => if N.eqb i (d_id d) then status_of_n c else status_tbl r d
  end.

(* (sources, observed blocks (module, names with bindings in order), observed number of warnings) *)
Definition corr (c : list (list (list (str * str * N * N))) * list (str * list str) * N) : bool :=
  let '(src, obs_blocks, obs_warnings) := c in
  let tbl := concat (concat src) in
  let s := map (map (map mk)) src in
  let pred := blocks (status_tbl tbl) s in
  (* a block without any binding may be present or absent in the text: compare the non-empty ones *)
  list_eqb block_eqb (filter (fun b => negb (match snd b with [] => true | _ => false end)) pred)
                     (filter (fun b => negb (match snd b with [] => true | _ => false end)) obs_blocks)
  && N.eqb (N.of_nat (length (warning_subjects (status_tbl tbl) s))) obs_warnings.

(* use lines: (symbols of the clause, observed: None = wildcard, Some items) *)
Definition corr_use (c : list str * option (list str)) : bool :=
  match use_of_clause (fst c), snd c with
  | Wildcard, None => true
  | Items l, Some l' => names_eqb l l'
  | _, _ => false
  end.

(* the same with "at least as many warnings as predicted": used when definitions depend on a replaced one, whose
   additional link-time warnings cannot be attributed *)
Definition corr_ge (c : list (list (list (str * str * N * N))) * list (str * list str) * N) : bool :=
  let '(src, obs_blocks, obs_warnings) := c in
  let tbl := concat (concat src) in
  let s := map (map (map mk)) src in
  let pred := blocks (status_tbl tbl) s in
  list_eqb block_eqb (filter (fun b => negb (match snd b with [] => true | _ => false end)) pred)
                     (filter (fun b => negb (match snd b with [] => true | _ => false end)) obs_blocks)
  && N.leb (N.of_nat (length (warning_subjects (status_tbl tbl) s))) obs_warnings.
