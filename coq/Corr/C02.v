From Coq Require Import NArith Arith List Bool.
Require Export RasnV.Model.Base RasnV.Model.Names RasnV.Model.Components.
Require RasnV.Model.Expansion.
Import ListNotations.

Definition field_eqb (a b : field) : bool :=
  str_eqb (f_name a) (f_name b) && str_eqb (f_type a) (f_type b)
  && opt_eqb str_eqb (f_default a) (f_default b) && N.eqb (f_ext a) (f_ext b).

(* (is CHOICE, parent Rust name, root members, marker, additions, observed fields / variants) *)
Definition corr (c : bool * str * list member * bool * list member * list field) : bool :=
  let '(is_choice, parent, r, marker, a, obs) := c in
  let s := assemble (map CMember r) marker (map CMember a) in
  list_eqb field_eqb (if is_choice then variants_of parent s else fields_of parent s) obs.

(* COMPONENTS OF with an extension marker: (own root components, own additions, copied components, marker,
   observed (field name, extension_addition?)) against the linker model *)
Definition flagged_eqb (a b : str * bool) : bool := str_eqb (fst a) (fst b) && Bool.eqb (snd a) (snd b).
Definition corr_link (c : list str * list str * list str * bool * list (str * bool)) : bool :=
  let '(own_root, own_adds, copied, marker, obs) := c in
  list_eqb flagged_eqb (Expansion.link_marked own_root own_adds copied marker) obs.
