From Coq Require Import NArith Arith List Bool.
Require Export RasnV.Model.Base RasnV.Model.Names RasnV.Model.Components.
Import ListNotations.

Definition field_eqb (a b : field) : bool :=
  str_eqb (f_name a) (f_name b) && str_eqb (f_type a) (f_type b)
  && opt_eqb str_eqb (f_default a) (f_default b) && N.eqb (f_ext a) (f_ext b).

(* (is CHOICE, parent Rust name, root members, marker, additions, observed fields / variants) *)
Definition corr (c : bool * str * list member * bool * list member * list field) : bool :=
  let '(is_choice, parent, r, marker, a, obs) := c in
  let s := assemble (map CMember r) marker (map CMember a) in
  list_eqb field_eqb (if is_choice then variants_of parent s else fields_of parent s) obs.
