(* Executable comparison functions used by the generated case files of C06. *)
From Coq Require Import ZArith List Bool.
Require Export RasnV.Model.Base RasnV.Gen.T06 RasnV.Gen.T07 RasnV.Model.IntWidth RasnV.Spec.IntFits.
Import ListNotations.
Local Open Scope Z_scope.

(* direct: (omin, omax, ext, observed) *)
Definition corr_token (c : option Z * option Z * bool * int_ty) : bool :=
  let '(lo, hi, ext, obs) := c in int_ty_eqb (int_type_token lo hi ext) obs.

Definition corr_constraint (c : option Z * option Z * bool * bool * int_ty) : bool :=
  let '(lo, hi, ext, sext, obs) := c in int_ty_eqb (integer_constraints (CRange lo hi ext sext)) obs.

Definition corr_max_restrictive (c : int_ty * int_ty * int_ty) : bool :=
  let '(a, b, obs) := c in int_ty_eqb (max_restrictive a b) obs.

(* end-to-end: position 0 = type assignment (int_type), 1 = component-like (int_type_token on the
   folded range), 3 = type assignment written ((lo..hi), ...); the folded range of a single
   (lo..hi[,...]) constraint is (lo, hi, ext). *)
Definition corr_e2e (c : N * option Z * option Z * bool * int_ty) : bool :=
  let '(pos, lo, hi, ext, obs) := c in
  match pos with
  | 0%N => int_ty_eqb (int_type [CRange lo hi ext false]) obs
  | 3%N => int_ty_eqb (int_type [CRange lo hi false ext]) obs
  | _ => int_ty_eqb (int_type_token lo hi ext) obs
  end.

(* serial constraints on the assignment path (Constraint::integer_type_of) *)
Definition corr_assign_serial (c : list int_constraint * int_ty) : bool :=
  let '(cs, obs) := c in int_ty_eqb (int_type cs) obs.

(* Spec oracle applied to the implementation's observed type:
   holds both ends (hence, by convexity, every permitted value) and is fixed-width only if
   the constraint is non-extensible with both bounds finite. [lits] are literals declared with it. *)
Definition spec_e2e (c : option Z * option Z * bool * int_ty * list Z) : bool :=
  let '(lo, hi, ext, obs, lits) := c in
  let ends := (match lo with Some l => [l] | None => [] end) ++ (match hi with Some h => [h] | None => [] end) in
  forallb (fitsb obs) ends && forallb (fitsb obs) lits &&
  (int_ty_eqb obs Unbounded ||
   (negb ext && match lo, hi with Some _, Some _ => true | _, _ => false end)).

(* ---- set operations and parenthesised markers (component path through the PER-visible fold) *)
Require Export RasnV.Model.PerVisible RasnV.Spec.Subtype RasnV.Corr.C04.

(* model: width of a component / element constrained by one serial list of constraints *)
Definition component_type (cs : list constraint) : option int_ty :=
  match per_visible_range_constraints (fuel_cs cs) true cs with
  | Ok r => Some (int_type_token (rmin r) (rmax r) (rext r))
  | _ => None
  end.

Definition corr_component (c : list constraint * int_ty) : bool :=
  let '(cs, obs) := c in
  match component_type cs with Some t => int_ty_eqb t obs | None => false end.

Definition finite_piv (p : piv) : bool := match p with IV (Some _) (Some _) => true | _ => false end.

(* oracle: holds every permitted probe value; fixed width only if unmarked with finite effective bounds *)
Definition spec_setop (c : flat * bool * int_ty) : bool :=
  let '(f, marker, obs) := c in
  if negb (forallb ranges_ok (fst f)) then true else
  forallb (fun z => implb (semb_flat f z) (fitsb obs z)) (probes f)
  && (int_ty_eqb obs Unbounded || (negb marker && negb (existsb elem_x (fst f)) && finite_piv (pv_flat f))).
