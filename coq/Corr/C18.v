From Coq Require Import NArith List Bool.
Require Export RasnV.Model.Base RasnV.Model.TsGen RasnV.Spec.TsShape.
Import ListNotations.

Definition toks_eqb := list_eqb str_eqb.

(* (name, type, observed tokens of the declaration) *)
Definition corr (c : str * ty * list tok) : bool :=
  let '(n, t, obs) := c in toks_eqb (decl_tokens n t) obs.

(* the observed declaration against the canonical notation of the JER shape, and its balance *)
Definition spec_decl (c : str * ty * list tok) : bool :=
  let '(n, t, obs) := c in toks_eqb (print_decl (jer_decl n t)) obs && bal [] obs.
