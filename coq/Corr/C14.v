From Coq Require Import ZArith List Bool.
Require Export RasnV.Model.Base RasnV.Model.Enum RasnV.Spec.EnumSpec.
Import ListNotations.
Local Open Scope Z_scope.

Definition pair_eqb (a b : str * Z) : bool := str_eqb (fst a) (fst b) && Z.eqb (snd a) (snd b).

Definition case := (list item * bool * list item * list (str * Z) * option N)%type.

(* model = implementation (members and first-addition index) *)
Definition corr (c : case) : bool :=
  let '(root, marker, adds, obs, ext) := c in
  let m := build_enumerated root marker adds in
  list_eqb pair_eqb (members m) obs
  && opt_eqb N.eqb (option_map N.of_nat (extensible m)) ext.

(* explicit additions legal w.r.t. the observed numbering (X.680 20.5) *)
Fixpoint adds_legal (seen : list Z) (its : list item) (ns : list Z) : bool :=
  match its, ns with
  | (_, Some _) :: r, n :: ns' => negb (zmem n seen) && adds_legal (n :: seen) r ns'
  | (_, None) :: r, n :: ns' => adds_legal (n :: seen) r ns'
  | _, _ => true
  end.

(* Spec oracle on the implementation's output *)
Definition spec (c : case) : bool :=
  let '(root, marker, adds, obs, ext) := c in
  let nums := map snd obs in
  oracle root adds obs
  && (if explicit_root_nodup root && adds_legal (rev (firstn (length root) nums)) adds (skipn (length root) nums)
      then fresh_each [] nums else true)
  && opt_eqb N.eqb ext (if marker then Some (N.of_nat (length root)) else None).
