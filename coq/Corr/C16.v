From Coq Require Import NArith List Bool.
Require Export RasnV.Model.Base RasnV.Gen.T02 RasnV.Model.Names RasnV.Spec.Idents.
Import ListNotations.
Local Open Scope N_scope.

(* direct: (asn name, snake, const, enum, title) as returned by the hooks *)
Definition corr_direct (c : str * str * str * str * str) : bool :=
  let '(s, sn, co, en, ti) := c in
  str_eqb (snake s) sn && str_eqb (const_case s) co && str_eqb (enum_ident s) en && str_eqb (title s) ti.

Definition spec_direct (c : str * str * str * str * str) : bool :=
  let '(s, sn, co, en, ti) := c in
  let ok r := rust_ident_ok r && (str_eqb (skeleton r) (skeleton s) || str_eqb (skeleton r) (114 :: skeleton s)) in
  ok sn && ok co && ok en && ok ti.

(* end to end: role 0 module, 1 type, 2 component, 3 alternative, 4 enumeral, 5 value *)
Definition mangle (role : N) (s : str) : str :=
  match role with
  | 0 => snake s | 1 => title s | 2 => snake s | 3 => enum_ident s | 4 => enum_ident s | _ => const_case s
  end.

Definition corr_e2e (c : N * str * str * option str) : bool :=
  let '(role, s, r, ann) := c in
  str_eqb (mangle role s) r
  && match role with
     | 0 | 5 => true
     | _ => opt_eqb str_eqb (identifier_attr (mangle role s) s) ann
     end.

Definition spec_e2e (c : N * str * str * option str) : bool :=
  let '(role, s, r, ann) := c in
  rust_ident_ok r
  && (str_eqb (skeleton r) (skeleton s) || str_eqb (skeleton r) (114 :: skeleton s))
  && match role with
     | 0 | 5 => true
     | _ => if str_eqb r s then true else opt_eqb str_eqb ann (Some s)
     end.
