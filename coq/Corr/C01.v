From Coq Require Import NArith Arith List Bool.
Require Export RasnV.Model.Base RasnV.Model.WellFormed.
Import ListNotations.

(* (items, other value/type names of the module, universe of resolvable names, finite-size certificate,
    what rustc reported for this module: duplicate names?, unresolved names?, infinite size?) *)
Definition corr (c : list item * list str * list str * list str * bool * bool * bool) : bool :=
  let '(items, others, universe, order, rustc_dup, rustc_unresolved, rustc_infinite) := c in
  Bool.eqb (negb (names_unique items others)) rustc_dup
  && Bool.eqb (negb (resolved items universe)) rustc_unresolved
  && Bool.eqb (negb (finite_by order items)) rustc_infinite.
