From Coq Require Import NArith List Bool.
Require Export RasnV.Model.Base RasnV.Model.Ext.
Import ListNotations.

Definition ann_eqb (a b : ext_annotation) : bool :=
  match a, b with NoAnn, NoAnn | ExtAddition, ExtAddition | ExtGroup, ExtGroup => true | _, _ => false end.

Definition inner_eqb (a b : list (str * bool)) : bool :=
  list_eqb (fun x y => str_eqb (fst x) (fst y) && Bool.eqb (snd x) (snd y)) a b.

Definition field_eqb (a b : field) : bool :=
  str_eqb (fname a) (fname b) && Bool.eqb (foption a) (foption b) && ann_eqb (fann a) (fann b)
  && opt_eqb inner_eqb (finner a) (finner b).

(* SEQUENCE / SET: (root, marker, additions, implied, observed fields, observed non_exhaustive) *)
Definition corr_seq (c : list member * bool * list addition * bool * list field * bool) : bool :=
  let '(root, marker, adds, implied, obs, ne) := c in
  list_eqb field_eqb (render_seq (build_seq root marker adds)) obs
  && Bool.eqb (non_exhaustive marker implied) ne.

(* spec oracle, written without the index arithmetic of the model: the observed fields are the root
   components unannotated, then each addition annotated by its kind, groups optional with their inner *)
Definition spec_root (m : member) : field :=
  {| fname := mname m; foption := match mopt m with Optional => true | _ => false end; fann := NoAnn; finner := None |}.
Definition spec_add (a : addition) : field :=
  match a with
  | AMember m => {| fname := mname m; foption := match mopt m with Optional => true | _ => false end;
                    fann := ExtAddition; finner := None |}
  | AGroup _ f r => {| fname := group_prefix ++ mname f; foption := true; fann := ExtGroup;
                       finner := Some (inner_fields (f :: r)) |}
  end.
Definition spec_seq (c : list member * bool * list addition * bool * list field * bool) : bool :=
  let '(root, marker, adds, implied, obs, ne) := c in
  list_eqb field_eqb (map spec_root root ++ map spec_add adds) obs
  && Bool.eqb (marker || implied) ne.

(* CHOICE: (root, marker, additions, implied, observed (name, annotation), non_exhaustive) *)
Definition corr_choice (c : list member * bool * list choice_addition * bool * list (str * ext_annotation) * bool) : bool :=
  let '(root, marker, adds, implied, obs, ne) := c in
  list_eqb (fun x y => str_eqb (fst x) (fst y) && ann_eqb (snd x) (snd y)) (render_choice (build_choice root marker adds)) obs
  && Bool.eqb (non_exhaustive marker implied) ne.

Definition spec_choice (c : list member * bool * list choice_addition * bool * list (str * ext_annotation) * bool) : bool :=
  let '(root, marker, adds, implied, obs, ne) := c in
  list_eqb (fun x y => str_eqb (fst x) (fst y) && ann_eqb (snd x) (snd y))
           (map (fun m => (mname m, NoAnn)) root ++ map (fun m => (mname m, ExtAddition)) (flat_map choice_alts adds)) obs
  && Bool.eqb (marker || implied) ne.
