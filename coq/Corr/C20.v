From Coq Require Import NArith List Bool.
Require Export RasnV.Model.Base RasnV.Model.Deliver.
Import ListNotations.

Definition entry_eqb (a b : entry) : bool :=
  match a, b with
  | Absent, Absent => true
  | Dir, Dir => true
  | File x, File y => str_eqb x y
  | _, _ => false
  end.
Definition fs_eqb (a b : fs) : bool :=
  entry_eqb (dest a) (dest b) && entry_eqb (dest_gen a) (dest_gen b) && entry_eqb (bystander a) (bystander b).
Definition outcome_eqb (a b : outcome) : bool := match a, b with Ok, Ok | Err, Err => true | _, _ => false end.

(* (mode, state before, reference result, observed state after, observed stdout, observed outcome) *)
Definition corr (c : mode * fs * option str * fs * str * outcome) : bool :=
  let '(m, f, res, f', out, o) := c in
  let '(mf, mout, mo) := compile m f res in
  fs_eqb mf f' && str_eqb mout out && outcome_eqb mo o.

(* CLI: (have modules, model outcome, observed exit status) *)
Definition corr_exit (c : bool * outcome * N) : bool := let '(h, o, e) := c in N.eqb (cli_exit h o) e.

(* CLI module selection: (file name, picked up?) *)
Definition corr_pick (c : str * bool) : bool := Bool.eqb (is_module_file (fst c)) (snd c).

(* asn1!: (header, footer, snippet, source the macro would compile) -- header and footer are re-read from the derive crate *)
Definition corr_macro (c : str * str * str * str) : bool :=
  let '(h, f, v, obs) := c in str_eqb (macro_source h f v) obs.
