From Coq Require Import ZArith NArith List Bool.
Require Export RasnV.Model.Base RasnV.Model.PerVisible RasnV.Gen.T03 RasnV.Model.Alphabet RasnV.Spec.AlphaSpec RasnV.Corr.C04.
Import ListNotations.

Definition subset_eqb (a b : subset) : bool :=
  match a, b with
  | SSingle x, SSingle y => N.eqb x y
  | SRange f t, SRange f' t' => opt_eqb N.eqb f f' && opt_eqb N.eqb t t'
  | _, _ => false
  end.

(* (string type, serial constraints, kind, observed annotation) *)
Definition corr_alpha (c : string_type * list constraint * N * option (option (list subset))) : bool :=
  let '(t, cs, kind, v) := c in
  res_matches (opt_eqb (list_eqb subset_eqb)) (alphabet_annotation (fuel_cs cs) t cs) kind v.

(* the translated table against the implementation's: length, checksum, first 200 and last 50 entries *)
Definition corr_charset (c : string_type * N * N * list N * list N) : bool :=
  let '(t, len, sum, hd, tl) := c in
  let cs := character_set t in
  N.eqb (N.of_nat (length cs)) len && N.eqb (fold_left N.add cs 0%N) sum
  && list_eqb N.eqb (firstn 200 cs) hd && list_eqb N.eqb (skipn (length cs - 50) cs) tl.

(* ---- Spec oracle: the set of characters a FROM expression denotes (X.680 51.7), evaluated on the
   characters of the base alphabet, against the set the annotation denotes *)
(* one FROM(inner) constraint on type t: the annotation denotes exactly the permitted characters,
   and nothing outside the base alphabet *)
Definition oracle_from (c : string_type * eos * option (list subset)) : bool :=
  let '(t, inner, obs) := c in
  (* every table is ascending except the 74-entry PrintableString one: a code point below 300 is in the
     base alphabet iff it is among its first 400 entries *)
  let base := firstn 400 (character_set t) in
  match obs with
  | None => false
  | Some l =>
      forallb (fun ch => Bool.eqb (denote l ch) (semb_alpha_rn inner ch)) (firstn 300 base)
      && forallb (fun ch => negb (denote l ch)) (filter (fun ch => negb (existsb (N.eqb ch) base)) (map N.of_nat (seq 0 300)))
  end.

(* soundness half of [oracle_from]: every permitted character of the base alphabet is denoted (no annotation denotes all),
   and nothing outside the base alphabet is *)
Definition oracle_from_sound (c : string_type * eos * option (list subset)) : bool :=
  let '(t, inner, obs) := c in
  let base := firstn 400 (character_set t) in
  match obs with
  | None => true
  | Some l =>
      forallb (fun ch => implb (semb_alpha_rn inner ch) (denote l ch)) (firstn 300 base)
      && forallb (fun ch => negb (denote l ch)) (filter (fun ch => negb (existsb (N.eqb ch) base)) (map N.of_nat (seq 0 300)))
  end.

(* model of a whole-constraint inclusion against the observed annotation: (type, included type, its constraints, observed) *)
Definition corr_incl (c : string_type * string_type * list constraint * option (list subset)) : bool :=
  let '(t, t', cs', v) := c in
  match alphabet_annotation_a (fuel_cs cs') t [AIncl t' cs'] with
  | Ok o => opt_eqb (list_eqb subset_eqb) o v
  | _ => false
  end.
