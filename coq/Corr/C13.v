From Coq Require Import NArith Arith List Bool.
Require Export RasnV.Model.Base RasnV.Model.Scan.
Import ListNotations.

(* (source bytes, observed remaining length after skip_ws_and_comments or None on a parse error,
    observed remaining length after `comment` or None) *)
Definition corr (c : list N * option N * option N) : bool :=
  let '(s, rest, com) := c in
  opt_eqb N.eqb (Some (N.of_nat (length (skipper (length s + 1) s)))) rest
  && opt_eqb N.eqb (option_map (fun r => N.of_nat (length r)) (comment s)) com.
