From Coq Require Import ZArith NArith Arith List Bool.
Require Export RasnV.Model.Base RasnV.Model.Scan RasnV.Gen.T04 RasnV.Gen.T05 RasnV.Model.Values RasnV.Spec.ValSpec.
Import ListNotations.

Definition bools_eqb := list_eqb Bool.eqb.
Definition ns_eqb := list_eqb N.eqb.

(* hex_to_bools: (char code, observed 4 bools) *)
Definition corr_hex (c : N * list bool) : bool := bools_eqb (hex_to_bools (fst c)) (snd c).

(* bit_string_value on the quoted forms: (source bytes, observed (bits, remaining length)) *)
Definition corr_lexbits (c : list N * option (list bool * N)) : bool :=
  let '(s, obs) := c in
  match lex_bits s, obs with
  | Some (b, r), Some (b', n) => bools_eqb b b' && N.eqb (N.of_nat (length r)) n
  | None, None => true
  | _, _ => false
  end.

(* cstring: (source bytes, observed (utf-8 bytes of the value, remaining length)) *)
Definition corr_cstring (c : list N * option (list N * N)) : bool :=
  let '(s, obs) := c in
  match cstring s, obs with
  | Some (v, r), Some (v', n) => ns_eqb v v' && N.eqb (N.of_nat (length r)) n
  | None, None => true
  | _, _ => false
  end.

Definition corr_o2b (c : list N * list bool) : bool := bools_eqb (octets_to_bits (fst c)) (snd c).

Definition corr_b2o (c : list bool * option (list N)) : bool :=
  opt_eqb ns_eqb (bits_to_octets (fst c)) (snd c).

Definition corr_named (c : Z * list str * list (str * Z) * list bool) : bool :=
  let '(h, chosen, dist, obs) := c in bools_eqb (named_bits h chosen dist) obs.

Definition corr_wk (c : option str * option N * option N) : bool :=
  let '(name, root, obs) := c in opt_n_eqb (well_known name root) obs.

(* end to end: (arcs as written, observed numbers of the `Oid::const_new(&[..])` initialiser or None when the
   initialiser is not of that shape) against the model, and against the specification *)
Definition mk_arc (a : src_arc) : arc := {| a_name := fst a; a_num := snd a |}.
Definition corr_oid (c : list src_arc * option (list N)) : bool :=
  opt_eqb ns_eqb (oid_numbers (map mk_arc (fst c))) (snd c).
Definition spec_oid (c : list src_arc * option (list N)) : bool :=
  match oid_sem (fst c) with
  | Some ns => opt_eqb ns_eqb (Some ns) (snd c)
  | None => true
  end.

(* spec-level oracles for the literal forms (used by the failing-input search) *)
Definition spec_hstring (c : list N * list bool) : bool :=
  bools_eqb (flat_map (fun d => bits_be 4 (hexval d)) (fst c)) (snd c).
Definition spec_octets (c : list N * list bool) : bool :=
  bools_eqb (flat_map (bits_be 8) (fst c)) (snd c).
