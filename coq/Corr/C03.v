From Coq Require Import NArith List Bool.
Require Export RasnV.Model.Base RasnV.Model.Tagging RasnV.Spec.TagSpec.
Require Import RasnV.Proofs.C03.
Import ListNotations.

Definition obs_eqb (a b : option (bool * tclass * N)) : bool :=
  opt_eqb (fun x y => Bool.eqb (fst (fst x)) (fst (fst y)) && tclass_eqb (snd (fst x)) (snd (fst y)) && N.eqb (snd x) (snd y)) a b.

Definition case := (option tenv * option tenv * tclass * N * position * tkind * option (bool * tclass * N))%type.

Definition corr (c : case) : bool :=
  let '(clause, kw, cls, n, pos, kind, obs) := c in obs_eqb (render_tag clause kw cls n pos kind) obs.

(* spec on the observed attribute: class and number always; explicitness where observable and legal *)
Definition spec (c : case) : bool :=
  let '(clause, kw, cls, n, pos, kind, obs) := c in
  match obs with
  | None => false
  | Some (e, c', n') =>
      tclass_eqb c' cls && N.eqb n' n &&
      (if legal_tag kw kind && attr_observable pos kind then Bool.eqb e (spec_explicit clause kw kind) else true)
  end.

Definition is_known_no_clause (c : case) : bool :=
  let '(clause, kw, cls, n, pos, kind, obs) := c in known_no_clause clause kw.
Definition is_known_element (c : case) : bool :=
  let '(clause, kw, cls, n, pos, kind, obs) := c in known_element pos.

(* automatic tagging: (clause, tagged flags of the components, observed automatic_tags) *)
Definition corr_auto (c : option tenv * list bool * bool) : bool :=
  let '(clause, tagged, obs) := c in Bool.eqb (automatic_tags clause tagged) obs.
Definition spec_auto (c : option tenv * list bool * bool) : bool :=
  let '(clause, tagged, obs) := c in Bool.eqb (spec_automatic clause tagged) obs.
