From Coq Require Import NArith List Bool.
Require Export RasnV.Model.Base RasnV.Model.Config RasnV.Gen.T19.
Import ListNotations.

Definition names_eqb := list_eqb str_eqb.

(* (user derive lists, needs Copy?, observed derive list of an item) *)
Definition corr_derives (c : list (list str) * bool * list str) : bool :=
  let '(user, cp, obs) := c in
  names_eqb (derives_of (merge_derives required_derives user) copy_derive cp) obs.

(* (alternatives of a CHOICE as (variant, payload type), observed variants that got a From impl, in order) *)
Definition corr_from (c : list (str * str) * list str) : bool :=
  names_eqb (map fst (from_impl_alts (fst c))) (snd c).
