From Coq Require Import NArith Arith List Bool.
Require Export RasnV.Model.Base RasnV.Model.InputPos.
Import ListNotations.

Definition opn := (option (N * N))%type.
Definition to_op (o : opn) : op := match o with Some (a, b) => OSlice (N.to_nat a) (N.to_nat b) | None => OReset end.

Definition state_eqb (i : input) (s : N * N * N * N * N * N) : bool :=
  let '(l, c, o, cl, co, len) := s in
  N.eqb (N.of_nat (line i)) l && N.eqb (N.of_nat (column i)) c && N.eqb (N.of_nat (offset i)) o
  && N.eqb (N.of_nat (ctx_line i)) cl && N.eqb (N.of_nat (ctx_offset i)) co && N.eqb (N.of_nat (length (inner i))) len.

(* run the operations one by one and compare every intermediate state; [panicked] = the
   implementation panicked (out-of-range slice) at the first operation the model rejects *)
Fixpoint corr_from (i : input) (ops : list opn) (obs : list (N * N * N * N * N * N)) (panicked : bool) : bool :=
  match ops with
  | [] => match obs with [] => negb panicked | _ => false end
  | o :: r =>
      match step i (to_op o), obs with
      | Some i', s :: obs' => state_eqb i' s && corr_from i' r obs' panicked
      | None, [] => panicked
      | _, _ => false
      end
  end.

Definition corr (c : list N * list opn * list (N * N * N * N * N * N) * bool) : bool :=
  let '(src, ops, obs, panicked) := c in corr_from (init src) ops obs panicked.

(* Spec oracle on a reported error: (source bytes, offset, line, ctx_offset, ctx_line) *)
Definition spec_report (c : list N * N * N * N * N) : bool :=
  let '(src, off, ln, coff, cln) := c in
  let o := N.to_nat off in
  Nat.leb o (length src)
  && N.eqb ln (N.of_nat (1 + count_nl (firstn o src)))
  && N.leb coff off
  && N.eqb cln (N.of_nat (1 + count_nl (firstn (N.to_nat coff) src))).
