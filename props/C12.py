"""C12 -- modules compile independently of their neighbours; IMPORTS become use lines."""
import copy
import json
import re
from props import modgen as MG
from common import cn, clist, cstr, copt, run_harness, coq_eval_bad

REQ = ['RasnV.Corr.Driver']
KNOWN_WILDCARD = 'C12-wildcard-on-class-import'


def rust_mod(name):
    """to_rust_snake_case of a module name (Model/Names.v snake): a `_` before every capital that follows a lower-case letter or digit"""
    s_ = name.replace('-', '_')
    out = []
    for i, c in enumerate(s_):
        if c.islower() or c == '_' or c.isdigit():
            out.append(c)
            if c != '_' and i + 1 < len(s_) and s_[i + 1].isupper():
                out.append('_')
        else:
            out.append(c.lower())
    return ''.join(out)


def import_closure(ms, mname):
    """names of the modules `mname` imports from, transitively"""
    seen, todo = set(), [mname]
    while todo:
        m = todo.pop()
        for dep in MG.imports_of(ms, m):
            if dep not in seen and dep != mname:
                seen.add(dep)
                todo.append(dep)
    return seen


def subset(ms, names):
    q = copy.deepcopy(ms)
    q.modules = [m for m in q.modules if m[0] in names]
    return q


def block_json(r, mname):
    for m in r.get('items', []):
        if m.get('kind') == 'mod' and m['name'] == rust_mod(mname):
            return json.dumps(m, sort_keys=True)
    return None


def use_lines(r, mname):
    """-> {rust module: None (wildcard) | [items]} from `use super::<m>::{..}` of the block"""
    out = {}
    for m in r.get('items', []):
        if m.get('kind') == 'mod' and m['name'] == rust_mod(mname):
            for it in m['items']:
                if it.get('kind') == 'use':
                    mm = re.fullmatch(r'super::([A-Za-z0-9_]+)::\{(.*)\}', it['tree'].replace(' ', ''))
                    if mm:
                        body = mm.group(2)
                        out[mm.group(1)] = None if body == '*' else [x for x in body.split(',') if x]
    return out


def add_qualified(ck, ms):
    """turn some cross-module references into module-qualified ones (Mod.Type); the IMPORTS clause stays"""
    for mname, _, defs in ms.modules:
        owner = {d.name: d.module for d in ms.all_defs()}
        for d in defs:
            for dep in d.deps:
                if owner.get(dep) not in (None, mname) and ck.rng.random() < 0.3:
                    d.text = re.sub(r'(?<![A-Za-z0-9.-])%s(?![A-Za-z0-9-])' % re.escape(dep), '%s.%s' % (owner[dep], dep), d.text, count=1)
                    d.qualified = True


ck_hump = ['NetV2Mod', 'X509v3Ext', 'PartsCatalog', 'ABCDefs9Mod']


def rename_modules(ms, f):
    """module names with capital humps and digits (`NetV2Mod03-a`): snake-casing and plain lower-casing differ on them"""
    ms.modules = [(f(n), o, ds) for n, o, ds in ms.modules]
    for d in ms.all_defs():
        d.module = f(d.module)


def run(ck):
    ck.coverage['rule'] = ('generated sets of 2..5 modules with differing tagging and extensibility defaults and an import graph between them (types '
                           'and values used in components, element types, aliases and value governors; some references module-qualified): the set '
                           'compiled together, in several orders and as one or several sources, and each module compiled with only its import '
                           'closure -- the `pub mod` block of each module (syn projection) compared across all these compilations; the use lines '
                           'of every block compared with the model of the IMPORTS clause (inside Coq), incl. clauses naming a class or a '
                           'parameterized reference')
    ck.assumptions += ['that linking reads only the imported modules and that per-module defaults do not leak is decided by this comparison, '
                       'not derived; cyclic import graphs are generated through forward references inside the closure only']
    ck.prove('Props/C12.v', ['RasnV.Props.C12'], extra=['Corr/Driver.vo'])
    n = 50 if ck.tier == 'quick' else 1200
    cases, meta = [], []
    for k in range(n):
        ms = MG.gen_module_set(ck.rng, k, nmods=ck.rng.randint(2, 5), max_defs=6)
        # make the defaults differ between neighbours
        for i, (mn, opts, _) in enumerate(ms.modules):
            opts['tagging'] = MG.TAGGING[(k + i) % 4]
            opts['ext'] = (k + i) % 3 == 0
        if k % 3 == 1:
            rename_modules(ms, lambda n: n.replace('Mod', ck_hump[k % len(ck_hump)]))
        if ck.rng.random() < 0.5:
            add_qualified(ck, ms)
        names = [m[0] for m in ms.modules]
        cases.append({'op': 'compile', 'sources': MG.render(ms)})
        meta.append((k, 'all', ms, None))
        q = copy.deepcopy(ms)
        q.modules = list(reversed(q.modules))
        cases.append({'op': 'compile', 'sources': MG.render(q, split_sources=True)})
        meta.append((k, 'all-reversed-split', ms, None))
        for mn in names:
            clo = import_closure(ms, mn) | {mn}
            cases.append({'op': 'compile', 'sources': MG.render(subset(ms, clo))})
            meta.append((k, 'closure', ms, mn))
            # a random super-set of the closure, other order
            extra = clo | {x for x in names if ck.rng.random() < 0.5}
            sub = subset(ms, extra)
            ck.rng.shuffle(sub.modules)
            cases.append({'op': 'compile', 'sources': MG.render(sub, split_sources=ck.rng.random() < 0.5)})
            meta.append((k, 'superset', ms, mn))
    ck.sample({'asn1': cases[0]['sources'][0][:1500]})
    res = run_harness(cases)
    full = {}
    use_terms, use_idx = [], []
    for i, (c, (k, kind, ms, mn), r) in enumerate(zip(cases, meta, res)):
        ck.note_case('\n'.join(c['sources']))
        ck.count(kind)
        if 'panic' in r or 'crash' in r:
            ck.count('panic-or-crash')
            continue
        if not r.get('ok') or 'items' not in r:
            ck.violation('impl-violation', c['sources'], impl={x: y for x, y in r.items() if x not in ('generated', 'items')},
                         why='a set of modules of the supported notation is rejected (%s)' % kind)
            continue
        mods_emitted = {m['name'] for m in r['items'] if m.get('kind') == 'mod'}
        for mname_, _, _ in (ms.modules if kind == 'all' else []):     # only the complete set is closed under references
            bj = block_json(r, mname_) or ''
            missing = sorted(set(re.findall(r'super::([A-Za-z0-9_]+)::', bj)) - mods_emitted)
            if missing:
                ck.violation('impl-violation', c['sources'], module=mname_, paths=missing, emitted=sorted(mods_emitted),
                             why='a module-qualified reference / use line names a sibling module that is not emitted under that name')
        if kind == 'all':
            full[k] = r
            for mname, _, defs in ms.modules:
                obs = use_lines(r, mname)
                for src_mod, symbols in sorted(MG.imports_of(ms, mname).items()):
                    o = obs.get(rust_mod(src_mod), 'missing')
                    if o == 'missing':
                        ck.violation('impl-violation', c['sources'], module=mname, why='no use line for the IMPORTS clause FROM %s' % src_mod)
                        continue
                    # the governing types of imported values are appended to the clause when the same module defines them
                    owner_d = {d.name: d for d in ms.all_defs()}
                    assoc = []
                    every = [x for v in MG.imports_of(ms, mname).values() for x in v]
                    for sym in sorted(every):
                        d = owner_d.get(sym)
                        if d is not None and d.is_value and d.governor in owner_d and owner_d[d.governor].module == src_mod \
                                and d.governor not in symbols and d.governor not in assoc:
                            assoc.append(d.governor)
                    if o is not None and assoc:
                        tail = o[len(o) - len(assoc):]
                        want_tail = [re.sub(r'(^|[-_])([a-z0-9])', lambda m: m.group(2).upper(), a).replace('-', '') for a in assoc]
                        if sorted(tail) != sorted(want_tail):
                            ck.violation('impl-violation', c['sources'], module=mname,
                                         why='the use line FROM %s does not end with the governing types %s of the imported values: %s' % (src_mod, want_tail, o))
                            continue
                        o = o[:len(o) - len(assoc)]
                    use_terms.append('(%s, %s)' % (clist(sorted(symbols), cstr), copt(o, lambda l: clist(l, cstr) if l else '(@nil str)')))
                    use_idx.append((i, mname, src_mod))
                extra = set(obs) - {rust_mod(x) for x in MG.imports_of(ms, mname)}
                # importing a value also imports its governing type from the module that defines it (fill_in_associated_type_imports)
                owner = {d.name: d for d in ms.all_defs()}
                for symbols in MG.imports_of(ms, mname).values():
                    for sym in symbols:
                        d = owner.get(sym)
                        if d is not None and d.is_value and d.governor and d.governor in owner:
                            extra.discard(rust_mod(owner[d.governor].module))
                if extra:
                    ck.violation('impl-violation', c['sources'], module=mname, why='use lines for modules that are not imported: %s' % sorted(extra))
            continue
        base = full.get(k)
        if base is None:
            continue
        targets = [mn] if mn else [m[0] for m in ms.modules]
        for t in targets:
            a, b = block_json(base, t), block_json(r, t)
            if a != b:
                ck.violation('impl-violation', {'together': MG.render(ms), 'other': c['sources']}, module=t, compilation=kind,
                             why='the bindings of module %s differ between the compilation of all modules and the compilation %s'
                                 % (t, 'with its import closure only' if kind == 'closure' else 'of another subset / order'),
                             first_difference=first_diff(a or '', b or ''))
    for j in coq_eval_bad('C12', REQ, 'list str * option (list str)', 'corr_use', use_terms, label='use'):
        i, mname, src_mod = use_idx[j]
        ck.broken.append({'kind': 'correspondence', 'item': 'use line of an IMPORTS clause',
                          'detail': 'model and implementation disagree on the use line of %s FROM %s: %s' % (mname, src_mod, use_terms[j][:400])})
    # clauses naming a class or a parameterized reference: wildcard (known finding)
    probe = ('Mw-a DEFINITIONS AUTOMATIC TAGS ::= BEGIN\nIMPORTS Plain-t, MY-CLASS FROM Mw-b;\nUse-t ::= SEQUENCE { p Plain-t, c MY-CLASS.&code }\nEND\n'
             'Mw-b DEFINITIONS AUTOMATIC TAGS ::= BEGIN\nPlain-t ::= INTEGER\nOther-t ::= BOOLEAN\nOp-code ::= INTEGER (0..9)\n'
             'MY-CLASS ::= CLASS { &id INTEGER UNIQUE, &code Op-code }\nEND\n')
    r = run_harness([{'op': 'compile', 'sources': [probe]}])[0]
    ck.note_case(probe)
    obs = use_lines(r, 'Mw-a') if r.get('ok') and 'items' in r else {}
    # whatever form the use line takes, every type the importing module mentions must be declared there or reachable through it
    if r.get('ok') and 'items' in r:
        blocks = {m['name']: m for m in r['items'] if m.get('kind') == 'mod'}
        declared = lambda mod: {it['name'] for it in blocks.get(mod, {}).get('items', []) if it.get('kind') in ('struct', 'enum', 'type')}
        reachable = set(declared('mw_a'))
        for mod, lst in obs.items():
            reachable |= declared(mod) if lst is None else set(lst)
        mentioned = set()
        for it in blocks.get('mw_a', {}).get('items', []):
            if it.get('kind') == 'struct' and it['name'] == 'UseT':
                for f in it['fields']:
                    mentioned |= set(re.findall(r'\b[A-Z][A-Za-z0-9]*\b', f['ty']))
        unresolved = sorted(mentioned - reachable - {'Integer', 'Option', 'Any', 'Box', 'SequenceOf', 'SetOf'})
        if unresolved or 'UseT' not in declared('mw_a'):
            ck.violation('impl-violation', probe, use=obs, unresolved=unresolved,
                         why='the importing module mentions types that are neither declared in it nor brought in by its use lines')
    if obs.get('mw_b', 'missing') != ['PlainT']:
        if ck.is_known(KNOWN_WILDCARD):
            ck.known_hit(KNOWN_WILDCARD, {'asn1': probe, 'use': obs})
        else:
            ck.violation('impl-violation', probe, use=obs, why='an IMPORTS clause that also names a class does not become a use line of exactly the imported symbols')
    ck.coverage['traces_validated_against_impl'] = len(use_terms)


def first_diff(a, b):
    for i, (x, y) in enumerate(zip(a, b)):
        if x != y:
            return {'at': i, 'together': a[max(0, i - 120):i + 80], 'other': b[max(0, i - 120):i + 80]}
    return {'at': min(len(a), len(b)), 'together_len': len(a), 'other_len': len(b)}


def replay(ck, data):
    ck.prove('Props/C12.v', ['RasnV.Props.C12'], extra=['Corr/Driver.vo'])
    for v in data.get('violations', []):
        c = v.get('case')
        if isinstance(c, dict) and c.get('together') and v.get('module'):
            rs = run_harness([{'op': 'compile', 'sources': c['together']}, {'op': 'compile', 'sources': c['other']}])
            ck.note_case(json.dumps(c)[:300])
            if block_json(rs[0], v['module']) != block_json(rs[1], v['module']):
                ck.violation('impl-violation', c, module=v['module'], why='still differs')
