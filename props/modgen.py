"""Generator of module sets for the driver properties (C10, C11, C12): modules with differing tagging / extensibility
defaults, globally distinct prefix-free names, references inside and across modules (IMPORTS), values, and
parseable-but-unsupported replacements with a known outcome."""
import re

TAGGING = ['AUTOMATIC TAGS', 'EXPLICIT TAGS', 'IMPLICIT TAGS', '']
# outcome codes of Corr/Driver.v status_of_n
PRESENT, PRESENT_WARNED, WARNED_VALIDATE, WARNED_GEN, NO_OUTPUT = 0, 1, 2, 3, 4


class Def:
    def __init__(self, module, name, kind, text, deps=(), status=PRESENT, is_value=False):
        self.module, self.name, self.kind, self.text = module, name, kind, text
        self.deps = list(deps)
        self.status = status
        self.is_value = is_value
        self.uid = None
        self.governor = None

    def asn(self):
        return self.text


class ModuleSet:
    def __init__(self):
        self.modules = []       # [(name, header options, [Def])]

    def all_defs(self):
        return [d for _, _, ds in self.modules for d in ds]


def type_name(rng, k, i):
    return 'Ty%02d%02d%s' % (k % 100, i, rng.choice(['', '-x', 'Rec', '-Item']))


def value_name(k, i):
    return 'val%02d%02d' % (k % 100, i)


def gen_module_set(rng, k, nmods=None, max_defs=8, cross=True):
    ms = ModuleSet()
    nmods = nmods or rng.randint(1, 4)
    pool = []          # Defs of kind type usable as references: only plain supported ones
    all_values = []
    counter = 0
    for mi in range(nmods):
        mname = 'Mod%02d-%s' % (k % 100, 'abcde'[mi])
        tagging = rng.choice(TAGGING)
        ext = rng.random() < 0.3
        defs = []
        for _ in range(rng.randint(1, max_defs)):
            counter += 1
            r = rng.random()
            local = [d for d in pool if d.module == mname]
            foreign = [d for d in pool if d.module != mname] if cross else []
            cands = local + foreign
            if r < 0.2 or not cands:
                name = type_name(rng, k, counter)
                lo = rng.randint(-5, 5)
                d = Def(mname, name, 'int', '%s ::= INTEGER (%d..%d)' % (name, lo, lo + rng.randint(0, 300)))
            elif r < 0.28 and [x for x in pool if x.kind == 'nint' and x.module == mname]:
                # a constraint written with the named numbers of the parent type
                ref = rng.choice([x for x in pool if x.kind == 'nint' and x.module == mname])
                name = type_name(rng, k, counter)
                d = Def(mname, name, 'nint-sub', '%s ::= %s (low..high)' % (name, ref.name), deps=[ref.name])
            elif r < 0.33:
                name = type_name(rng, k, counter)
                lo = rng.randint(0, 5)
                d = Def(mname, name, 'nint', '%s ::= INTEGER { low(%d), high(%d) }' % (name, lo, lo + rng.randint(1, 40)))
            elif r < 0.40 and [x for x in all_values if x.governor]:
                # a bound given by a value of another (or this) module: only the value is imported, not its type
                v = rng.choice([x for x in all_values if x.governor])
                name = type_name(rng, k, counter)
                d = Def(mname, name, 'int-by-value', '%s ::= INTEGER (-1000..%s)' % (name, v.name), deps=[v.name])
            elif r < 0.47 and [x for x in pool if x.kind in ('seq', 'components-of') and x.module == mname and 'SEQUENCE' in x.text]:
                ref = rng.choice([x for x in pool if x.kind in ('seq', 'components-of') and x.module == mname and 'SEQUENCE' in x.text])
                name = type_name(rng, k, counter)
                d = Def(mname, name, 'components-of', '%s ::= SEQUENCE { COMPONENTS OF %s, own%d BOOLEAN }' % (name, ref.name, counter), deps=[ref.name])
            elif r < 0.52:
                name = type_name(rng, k, counter)
                d = Def(mname, name, 'enum', '%s ::= ENUMERATED { e%da, e%db%s }' % (name, counter, counter, rng.choice(['', ', ...'])))
            elif r < 0.70:
                name = type_name(rng, k, counter)
                refs = [rng.choice(cands) for _ in range(rng.randint(1, 3))]
                members = ['m%d%s %s%s' % (j, 'abc'[j], ref.name, rng.choice(['', ' OPTIONAL', '']))
                           for j, ref in enumerate(refs)]
                members.append('flag BOOLEAN')
                members.append('tagged [%d] INTEGER' % rng.randint(0, 30))
                if rng.random() < 0.3:
                    members.append('...')
                d = Def(mname, name, 'seq', '%s ::= %s { %s }' % (name, rng.choice(['SEQUENCE', 'SET']), ', '.join(members)), deps=[x.name for x in refs])
            elif r < 0.78:
                name = type_name(rng, k, counter)
                refs = [rng.choice(cands) for _ in range(rng.randint(1, 3))]
                alts = ['c%d%s %s' % (j, 'xyz'[j], ref.name) for j, ref in enumerate(refs)] + ['none NULL']
                d = Def(mname, name, 'choice', '%s ::= CHOICE { %s }' % (name, ', '.join(alts)), deps=[x.name for x in refs])
            elif r < 0.85:
                name = type_name(rng, k, counter)
                ref = rng.choice(cands)
                d = Def(mname, name, 'of', '%s ::= SEQUENCE %sOF %s' % (name, rng.choice(['', '(SIZE (1..4)) ']), ref.name), deps=[ref.name])
            elif r < 0.90:
                name = type_name(rng, k, counter)
                ref = rng.choice(cands)
                d = Def(mname, name, 'alias', '%s ::= %s' % (name, ref.name), deps=[ref.name])
            else:
                name = value_name(k, counter)
                ints = [x for x in cands if x.kind == 'int']
                if ints and rng.random() < 0.5:
                    ref = rng.choice(ints)
                    lo = int(re.search(r'\((-?\d+)\.\.', ref.text).group(1))
                    d = Def(mname, name, 'value', '%s %s ::= %d' % (name, ref.name, lo), deps=[ref.name], is_value=True)
                    d.governor = ref.name
                else:
                    d = Def(mname, name, 'value', '%s %s' % (name, rng.choice(['INTEGER ::= %d' % rng.randint(-9, 99), 'BOOLEAN ::= TRUE',
                                                                                 'OCTET STRING ::= \'AB\'H'])), is_value=True)
            d.uid = counter
            defs.append(d)
            if not d.is_value:
                if d.kind not in ('nint-sub',):
                    pool.append(d)
            else:
                all_values.append(d)
        ms.modules.append((mname, {'tagging': tagging, 'ext': ext}, defs))
    return ms


UNSUPPORTED = [
    ('real', lambda n: '%s ::= REAL' % n, WARNED_GEN),
    ('videotex', lambda n: '%s ::= VideotexString' % n, WARNED_GEN),
    ('inverted', lambda n: '%s ::= INTEGER (5..1)' % n, WARNED_VALIDATE),
    ('time', lambda n: '%s ::= TIME' % n, WARNED_GEN),
    ('class', lambda n: '%s ::= CLASS { &id INTEGER UNIQUE, &Type }' % n.upper().replace('-', ''), NO_OUTPUT),
    ('template', lambda n: '%s {T} ::= SEQUENCE { t T }' % n, NO_OUTPUT),
    ('macro-first', lambda n: 'AA-%s MACRO ::= BEGIN TYPE NOTATION ::= "X" VALUE NOTATION ::= value (VALUE INTEGER) END' % n.upper(), WARNED_GEN),
    ('macro-last', lambda n: 'ZZ-%s MACRO ::= BEGIN TYPE NOTATION ::= "X" VALUE NOTATION ::= value (VALUE INTEGER) END' % n.upper(), WARNED_GEN),
]
UNSUPPORTED_VALUES = [
    ('realvalue', lambda n: '%s REAL ::= 5' % n, WARNED_GEN),
]


def render(ms, split_sources=False, order=None):
    """-> list of source texts.  order: optional (module order, {module: def order})"""
    texts = []
    mods = list(ms.modules)
    for mname, opts, defs in mods:
        imports = {}
        local = {d.name for d in defs}
        owner = {d.name: d.module for d in ms.all_defs()}
        for d in defs:
            for dep in d.deps:
                if dep not in local and dep in owner:
                    imports.setdefault(owner[dep], [])
                    if dep not in imports[owner[dep]]:
                        imports[owner[dep]].append(dep)
        header = '%s DEFINITIONS %s%s::= BEGIN\n' % (mname, (opts['tagging'] + ' ') if opts['tagging'] else '',
                                                      'EXTENSIBILITY IMPLIED ' if opts['ext'] else '')
        imp = ''
        if imports:
            # the clause is part of the module header, not of the assignments: it is written in one fixed order
            imp = 'IMPORTS ' + ' '.join('%s FROM %s' % (', '.join(sorted(v)), m) for m, v in sorted(imports.items())) + ';\n'
        texts.append(header + imp + '\n'.join(d.asn() for d in defs) + '\nEND\n')
    return texts if split_sources else [''.join(texts)]


def imports_of(ms, mname):
    for n, opts, defs in ms.modules:
        if n == mname:
            local = {d.name for d in defs}
            owner = {d.name: d.module for d in ms.all_defs()}
            out = {}
            for d in defs:
                for dep in d.deps:
                    if dep not in local and dep in owner:
                        out.setdefault(owner[dep], [])
                        if dep not in out[owner[dep]]:
                            out[owner[dep]].append(dep)
            return out
    return {}


def norm_name(s):
    return re.sub(r'[^a-z0-9]', '', s.lower())


def items_by_def(block_items, defs):
    """attribute the items of one `pub mod` block to the definitions of that module by name prefix (names are prefix-free)"""
    keys = {norm_name(d.name): d.name for d in defs}
    out = {d.name: [] for d in defs}
    rest = []
    for it in block_items:
        if it.get('kind') in ('use', 'extern_crate'):
            continue
        nm = it.get('name') or it.get('self_ty') or it.get('for') or ''
        n = norm_name(nm)
        hit = None
        for k in keys:
            if n.startswith(k) or ('anonymous' + k) in n or n.startswith('inner' + k):
                hit = keys[k]
                break
        if hit is None:
            # impl blocks and helper functions mention the owner in their text
            txt = norm_name(str(it))
            for k in keys:
                if k in txt:
                    hit = keys[k]
                    break
        if hit:
            out[hit].append(it)
        else:
            rest.append(it)
    return out, rest


def blocks_of(result):
    """-> {rust module name: items}"""
    return {m['name']: m['items'] for m in result.get('items', []) if m.get('kind') == 'mod'}
