"""C03 -- tags and tagging mode follow X.680 under the module's tagging environment."""
import itertools
import re
from common import cz, cn, cbool, copt, clist, cstr, run_harness, coq_eval_bad_multi

REQ = ['RasnV.Corr.C03']
CLAUSES = [('Explicit', 'EXPLICIT TAGS'), ('Implicit', 'IMPLICIT TAGS'), ('Automatic', 'AUTOMATIC TAGS'), (None, '')]
KWS = [(None, ''), ('Implicit', ' IMPLICIT'), ('Explicit', ' EXPLICIT')]
CLASSES = [('Context', ''), ('Application', 'APPLICATION '), ('Private', 'PRIVATE '), ('Universal', 'UNIVERSAL ')]
POSITIONS = ['TypeAssignment', 'Component', 'Alternative', 'NestedComponent', 'ElementOf']
KINDS = {'Primitive': 'INTEGER', 'RefSequence': 'Rs', 'RefChoice': 'Rc', 'InlineChoice': 'CHOICE { y NULL, w BOOLEAN }', 'OpenType': 'ANY'}
RCLASS = {'context': 'Context', 'application': 'Application', 'private': 'Private', 'universal': 'Universal'}
KNOWN_NO_CLAUSE = 'C03-no-tags-clause'
KNOWN_ELEMENT = 'C03-element-tag-dropped'


def module(clause_txt, body):
    return ('M DEFINITIONS %s ::= BEGIN\nRs ::= SEQUENCE { z NULL }\nRc ::= CHOICE { y NULL, w BOOLEAN }\n%s\nEND\n'
            % (clause_txt, body))


NEST_VARIANTS = [('SEQUENCE', '', 2), ('SEQUENCE', '[9] IMPLICIT ', 2), ('SEQUENCE', '[9] EXPLICIT ', 2), ('SET', '[9] IMPLICIT ', 2),
                 ('CHOICE', '[9] EXPLICIT ', 2), ('SEQUENCE', '[9] IMPLICIT ', 3), ('SEQUENCE', '[9] EXPLICIT ', 3), ('SEQUENCE', '', 3)]


def nested_body(variant, tagged):
    """the tagged component sits in an anonymous nested type whose own component may carry a tag with a keyword"""
    cont, ptag, depth = variant
    inner = '%s { a %s, b BOOLEAN }' % (cont, tagged)
    if depth == 3:
        inner = 'SEQUENCE { n %s%s, q NULL }' % (ptag, inner)
        return 'Tt ::= SEQUENCE { m %s }' % inner, 'TtMN'
    return 'Tt ::= SEQUENCE { n %s%s }' % (ptag, inner), 'TtN'


def body_for(pos, tagged):
    if pos == 'TypeAssignment':
        return 'Tt ::= %s' % tagged
    if pos == 'Component':
        return 'Tt ::= SEQUENCE { a %s, b BOOLEAN }' % tagged
    if pos == 'Alternative':
        return 'Tt ::= CHOICE { a %s, b BOOLEAN }' % tagged
    if pos == 'NestedComponent':
        return 'Tt ::= SEQUENCE { n SEQUENCE { a %s, b BOOLEAN } }' % tagged
    return 'Tt ::= SEQUENCE OF %s' % tagged


def tag_attr(attrs):
    """-> (explicit, class, n) or None"""
    for a in attrs:
        m = re.search(r'\btag\((explicit\()?(\w+),(\d+)\)', a)
        if m:
            return (bool(m.group(1)), RCLASS.get(m.group(2), m.group(2)), int(m.group(3)))
    return None


def find_item(mod, name):
    for it in mod['items']:
        if it.get('kind') in ('struct', 'enum') and it.get('name') == name:
            return it
    return None


def observe(mod, pos, nested_name=None):
    if pos == 'TypeAssignment':
        it = find_item(mod, 'Tt')
        return None if it is None else ('ok', tag_attr(it['attrs']))
    if pos == 'Component':
        it = find_item(mod, 'Tt')
        return None if it is None else ('ok', tag_attr(it['fields'][0]['attrs']))
    if pos == 'Alternative':
        it = find_item(mod, 'Tt')
        return None if it is None else ('ok', tag_attr(it['variants'][0]['attrs']))
    if pos == 'NestedComponent':
        it = find_item(mod, nested_name or 'TtN')
        if it is None:
            return None
        first = it['fields'][0] if it['kind'] == 'struct' else it['variants'][0]
        return ('ok', tag_attr(first['attrs']))
    it = find_item(mod, 'AnonymousTt')
    if it is None:
        # element type is a plain reference: no item of its own, the tag has nowhere to go
        return ('ok', None) if find_item(mod, 'Tt') is not None else None
    return ('ok', tag_attr(it['attrs']))


def c_obs(o):
    return 'None' if o is None else '(Some (%s, %s, %s))' % (cbool(o[0]), o[1], cn(o[2]))


def judge(ck, cases, results):
    terms, idx, aterms, aidx = [], [], [], []
    for i, (c, r) in enumerate(zip(cases, results)):
        ck.note_case(c['sources'][0])
        if 'panic' in r or 'crash' in r:
            ck.violation('impl-violation', c['sources'][0], impl=r, why='compiler crashed')
            continue
        if not r.get('ok') or 'items' not in r:
            ck.violation('impl-violation', c['sources'][0], impl={k: v for k, v in r.items() if k != 'generated'},
                         why='legal tagged module rejected or generated code unparsable')
            continue
        mods = [m for m in r['items'] if m.get('kind') == 'mod']
        mod = next((m for m in mods if m['name'] == c.get('_mod')), mods[0])
        if c['_fam'] == 'tag':
            clause, kw, cls, n, pos, kind = c['_m']
            ck.count(pos)
            o = observe(mod, pos, c.get('_nested_name'))
            if o is None:
                ck.violation('impl-violation', c['sources'][0], why='the tagged type was not generated', warnings=r.get('warnings'))
                continue
            terms.append('(%s, %s, %s, %s, %s, %s, %s)' % (copt(clause, str), copt(kw, str), cls, cn(n), pos, kind, c_obs(o[1])))
            idx.append(i)
        else:
            clause, tagged, nested, ty = c['_m']
            ck.count('auto')
            it = find_item(mod, 'TtN' if nested else 'Tt')
            if it is None:
                ck.violation('impl-violation', c['sources'][0], why='type not generated', warnings=r.get('warnings'))
                continue
            obs = any(re.search(r'\bautomatic_tags\b', a) for a in it['attrs'])
            aterms.append('(%s, %s, %s)' % (copt(clause, str), clist([cbool(b) for b in tagged]), cbool(obs)))
            aidx.append(i)
    bs, bc, kn, ke = coq_eval_bad_multi('C03', REQ, 'case', ['spec', 'corr', 'fun c => negb (is_known_no_clause c)',
                                                              'fun c => negb (is_known_element c)'], terms, label='tag')
    known = set(kn)     # indices where is_known_no_clause is TRUE are the ones failing `negb`
    known_el = set(ke)
    for j in bs:
        c = cases[idx[j]]
        if j in known_el and ck.is_known(KNOWN_ELEMENT):
            ck.known_hit(KNOWN_ELEMENT, {'asn1': c['sources'][0].split('\n')[-3], 'term': terms[j]})
        elif j in known and ck.is_known(KNOWN_NO_CLAUSE):
            ck.known_hit(KNOWN_NO_CLAUSE, {'asn1': c['sources'][0].split('\n')[-3], 'term': terms[j]})
        else:
            ck.violation('impl-violation', c['sources'][0], term=terms[j], config=list(c['_m']),
                         why='a written tag is missing from the bindings, has the wrong class/number, or is applied '
                             'explicitly/implicitly against X.680 31.2.7')
    for j in set(bc) - set(bs):
        ck.broken.append({'kind': 'correspondence', 'item': 'H9/H11 tag rendering',
                          'detail': 'model and implementation disagree on %s (%s)' % (cases[idx[j]]['sources'][0], terms[j])})
    bs, bc = coq_eval_bad_multi('C03', REQ, 'option tenv * list bool * bool', ['spec_auto', 'corr_auto'], aterms, label='auto')
    for j in bs:
        ck.violation('impl-violation', cases[aidx[j]]['sources'][0], term=aterms[j],
                     why='automatic_tags present/absent against X.680 25.3/29.2 (AUTOMATIC TAGS and no component tagged)')
    for j in set(bc) - set(bs):
        ck.broken.append({'kind': 'correspondence', 'item': 'H11 automatic_tags rule',
                          'detail': 'model and implementation disagree on %s (%s)' % (cases[aidx[j]]['sources'][0], aterms[j])})
    ck.coverage['traces_validated_against_impl'] = len(terms) + len(aterms)


def run(ck):
    ck.coverage['rule'] = ('exhaustive: module default {EXPLICIT, IMPLICIT, AUTOMATIC, none} x keyword {none, IMPLICIT, EXPLICIT} x class x '
                           'position {type assignment, component, alternative, component of an anonymous nested type, SEQUENCE OF element} '
                           'x kind {primitive, referenced SEQUENCE, referenced CHOICE, inline CHOICE, open type} = 1200 modules, attributes read '
                           'with syn; plus seeded random SEQUENCE/SET/CHOICE types with tagged/untagged components for the automatic_tags rule')
    ck.coverage['exhaustive'] = True
    ck.assumptions += ['the DER observation of C03 (explicit wrappers in the encoding) needs the generated crate to be compiled against rasn; '
                       'this check reads the generated attributes; for CHOICE / open-type components rasn applies explicit tagging itself, '
                       'so their explicitness is not compared']
    ck.prove('Props/C03.v', ['RasnV.Props.C03'], extra=['Corr/C03.vo'])
    cases = []
    for (clause, ctxt), (kw, kwtxt), (cls, clstxt), pos, (kind, ktxt) in itertools.product(CLAUSES, KWS, CLASSES, POSITIONS, KINDS.items()):
        n = ck.rng.randint(0, 30)
        tagged = '[%s%d]%s %s' % (clstxt, n, kwtxt, ktxt)
        cases.append({'op': 'compile', 'sources': [module(ctxt, body_for(pos, tagged))], '_fam': 'tag',
                      '_m': (clause, kw, cls, n, pos, kind)})
    # deeper nesting, parents tagged with their own keyword (the parent's keyword must not leak into the child)
    for (clause, ctxt), (kw, kwtxt), (cls, clstxt), variant, (kind, ktxt) in itertools.product(
            CLAUSES, KWS, CLASSES[:2], NEST_VARIANTS, [('Primitive', 'INTEGER'), ('RefSequence', 'Rs')]):
        n = ck.rng.randint(0, 30)
        tagged = '[%s%d]%s %s' % (clstxt, n, kwtxt, ktxt)
        body, nname = nested_body(variant, tagged)
        cases.append({'op': 'compile', 'sources': [module(ctxt, body)], '_fam': 'tag', '_nested_name': nname,
                      '_m': (clause, kw, cls, n, 'NestedComponent', kind)})
    # two modules with different TAGS clauses in one compilation: nothing leaks from one into the other
    for (c1, t1), (c2, t2) in itertools.product(CLAUSES, CLAUSES):
        for first, second in (('Ma', 'Mb'), ('Mz', 'Mb')):
            k = ck.rng.randint(1, 4)
            tagged = [ck.rng.random() < 0.3 for _ in range(k)]
            comps = ', '.join('c%d %s%s' % (i, '[%d] ' % i if t else '', 'INTEGER') for i, t in enumerate(tagged))
            other = '%s DEFINITIONS %s ::= BEGIN\nOo ::= SEQUENCE { x INTEGER, y BOOLEAN }\nEND\n' % (first, t1)
            src = other + '%s DEFINITIONS %s ::= BEGIN\nRs ::= SEQUENCE { z NULL }\nTt ::= SEQUENCE { %s }\nEND\n' % (second, t2, comps)
            cases.append({'op': 'compile', 'sources': [src], '_fam': 'auto', '_mod': second.lower(), '_m': (c2, tagged, False, 'SEQUENCE')})
            n = ck.rng.randint(0, 30)
            src2 = other + '%s DEFINITIONS %s ::= BEGIN\nTt ::= [APPLICATION %d] CHOICE { y NULL, w BOOLEAN }\nEND\n' % (second, t2, n)
            cases.append({'op': 'compile', 'sources': [src2], '_fam': 'tag', '_mod': second.lower(),
                          '_m': (c2, None, 'Application', n, 'TypeAssignment', 'InlineChoice')})
    for _ in range(300 if ck.tier == 'quick' else 6000):
        clause, ctxt = ck.rng.choice(CLAUSES)
        k = ck.rng.randint(1, 5)
        tagged = [ck.rng.random() < 0.25 for _ in range(k)]
        ty = ck.rng.choice(['SEQUENCE', 'SET', 'CHOICE'])
        comps = ', '.join('c%d %s%s' % (i, '[%d] ' % i if t else '', ck.rng.choice(['INTEGER', 'BOOLEAN', 'Rs'])) for i, t in enumerate(tagged))
        nested = ck.rng.random() < 0.4
        body = 'Tt ::= SEQUENCE { n %s { %s } }' % (ty, comps) if nested else 'Tt ::= %s { %s }' % (ty, comps)
        cases.append({'op': 'compile', 'sources': [module(ctxt, body)], '_fam': 'auto', '_m': (clause, tagged, nested, ty)})
    ck.sample({'asn1': cases[7]['sources'][0]})
    ck.sample({'asn1': cases[-1]['sources'][0]})
    judge(ck, cases, run_harness(cases))


def replay(ck, data):
    ck.prove('Props/C03.v', ['RasnV.Props.C03'], extra=['Corr/C03.vo'])
    cases = []
    for v in data.get('violations', []):
        if v.get('config'):
            clause, kw, cls, n, pos, kind = v['config']
            cases.append({'op': 'compile', 'sources': [v['case']], '_fam': 'tag', '_m': (clause, kw, cls, n, pos, kind)})
    judge(ck, cases, run_harness(cases))
