"""C09 -- notations defined by expansion compile like their hand-expanded form."""
import itertools
import json
from common import cbool, clist, cstr, run_harness, coq_eval_bad_multi

REQ = ['RasnV.Corr.C09']
K_APPENDED = 'C09-components-of-appended'
K_CHAIN = 'C09-components-of-chain-order'
K_SET = 'C09-components-of-set'
PREFIXES = ['Aa', 'Mm', 'Zz', 'Bb', 'Yy']


def strip_docs(x):
    if isinstance(x, dict):
        return {k: strip_docs(v) for k, v in x.items() if k != 'docs'}
    if isinstance(x, list):
        return [strip_docs(v) for v in x]
    return x


def items_named(r, names):
    """{name: json of the items (struct/enum + impl + helper fns) whose name starts with it}"""
    out = {n: [] for n in names}
    for m in r.get('items', []):
        if m.get('kind') != 'mod':
            continue
        for it in m['items']:
            nm = it.get('name') or it.get('self_ty') or ''
            for n in names:
                if nm == n or nm.startswith(n) or nm.lower().startswith(n.lower() + '_'):
                    out[n].append(strip_docs(it))
                    break
    return {n: json.dumps(v, sort_keys=True) for n, v in out.items()}


# pairs on which the unchanged tree differs (known findings): (slug, subject types, sugared body, expanded body)
KNOWN_PAIRS = [
    ('C09-selection-loses-tag', ['Sel'], 'Alt ::= CHOICE { num [0] INTEGER, str [1] IA5String }\nSel ::= num < Alt',
     'Alt ::= CHOICE { num [0] INTEGER, str [1] IA5String }\nSel ::= [0] INTEGER'),
    ('C09-constraint-on-dummy-type', ['Inst'], 'Tight { T } ::= SEQUENCE { t T (0..5) }\nInst ::= Tight { INTEGER }', 'Inst ::= SEQUENCE { t INTEGER (0..5) }'),
    ('C09-dummy-value-shadowed', ['Abc'], 'lim INTEGER ::= 7\nZrange { INTEGER:lim } ::= INTEGER (0..lim)\nAbc ::= Zrange { 3 }', 'lim INTEGER ::= 7\nAbc ::= INTEGER (0..3)'),
    ('C09-same-named-value-arguments', ['Inst'], 'lo INTEGER ::= 2\nhi INTEGER ::= 9\nBounded { INTEGER:lo, INTEGER:hi } ::= INTEGER (lo..hi)\nInst ::= Bounded { lo, hi }',
     'lo INTEGER ::= 2\nhi INTEGER ::= 9\nInst ::= INTEGER (2..9)'),
    ('C09-named-number-in-member', ['Ss'], 'Ss ::= SEQUENCE { x INTEGER { peak(20) } (0..peak) }', 'Ss ::= SEQUENCE { x INTEGER { peak(20) } (0..20) }'),
    ('C09-value-beats-named-number', ['Zed'], 'top INTEGER ::= 3\nZed ::= INTEGER { top(20) } (0..top)', 'top INTEGER ::= 3\nZed ::= INTEGER { top(20) } (0..20)'),
    ('C09-class-field-in-list-or-set', ['Use'], 'CLS ::= CLASS { &id INTEGER UNIQUE, &Fixed BOOLEAN }\nUse ::= SEQUENCE { l SEQUENCE OF CLS.&id }',
     'Use ::= SEQUENCE { l SEQUENCE OF INTEGER }'),
    ('C09-class-field-in-list-or-set', ['Use'], 'CLS ::= CLASS { &id INTEGER UNIQUE, &Fixed BOOLEAN }\nUse ::= SET { id CLS.&id }', 'Use ::= SET { id INTEGER }'),
    ('C09-value-parameter-in-default', ['I8'], 'P5 {INTEGER:dflt} ::= SEQUENCE { k INTEGER DEFAULT dflt }\nI8 ::= P5 {42}', 'I8 ::= SEQUENCE { k INTEGER DEFAULT 42 }'),
    ('C09-tag-on-template-lost', ['I9', 'I10', 'I11'],
     'Zed ::= BOOLEAN\nP15 {T} ::= [APPLICATION 5] SEQUENCE { a T }\nI9 ::= P15 {Zed}\nP16 {T} ::= [3] CHOICE { a T, b NULL }\nI10 ::= P16 {Zed}\nP17 {T} ::= [PRIVATE 2] SEQUENCE OF T\nI11 ::= P17 {Zed}',
     'Zed ::= BOOLEAN\nI9 ::= [APPLICATION 5] SEQUENCE { a Zed }\nI10 ::= [3] CHOICE { a Zed, b NULL }\nI11 ::= [PRIVATE 2] SEQUENCE OF Zed'),
    ('C09-constraint-on-class-field-dropped', ['C5', 'C6'],
     'MY-CLASS ::= CLASS { &id INTEGER (0..255) UNIQUE, &name IA5String (SIZE(1..64)) }\nC5 ::= MY-CLASS.&id (0..7)\nC6 ::= SEQUENCE { a MY-CLASS.&id (0..7), n MY-CLASS.&name (SIZE(1..8)) }',
     'C5 ::= INTEGER (0..255) (0..7)\nC6 ::= SEQUENCE { a INTEGER (0..255) (0..7), n IA5String (SIZE(1..64)) (SIZE(1..8)) }'),
    ('C09-components-of-template-instance', ['Zz5'],
     'Zed ::= BOOLEAN\nZz5 ::= SEQUENCE { z NULL, COMPONENTS OF Ainst }\nAinst ::= T5 {Zed}\nT5 {T} ::= SEQUENCE { a T }',
     'Zed ::= BOOLEAN\nZz5 ::= SEQUENCE { z NULL, a Zed }\nAinst ::= SEQUENCE { a Zed }'),
    ('C09-non-parameter-reference-inlined', ['Inst'], 'Other ::= INTEGER (0..9)\nTpl { T } ::= SEQUENCE { first T, third Other }\nInst ::= Tpl { BOOLEAN }',
     'Other ::= INTEGER (0..9)\nInst ::= SEQUENCE { first BOOLEAN, third Other }'),
]


def pair_cases(ck):
    """(family, subject type names, sugared module, expanded module)"""
    rng = ck.rng
    out = []
    n = 25 if ck.tier == 'quick' else 500
    for k in range(n):
        p, q, r = rng.sample(PREFIXES, 3)
        # A: value references / named numbers inside constraints, chains of 1..4 levels
        depth = rng.randint(1, 4)
        top = rng.randint(10, 70000)
        lo = rng.randint(-5, 5)
        names = ['%sv%d-%d' % (rng.choice(PREFIXES).lower(), k, i) for i in range(depth)]
        chain = ''.join('%s INTEGER ::= %s\n' % (names[i], names[i + 1] if i + 1 < depth else str(top)) for i in range(depth))
        order = chain.splitlines()
        rng.shuffle(order)
        subj = '%sLim%d' % (p, k)
        sug = 'Ma%d DEFINITIONS AUTOMATIC TAGS ::= BEGIN\n%s ::= INTEGER (%d..%s)\n%s\nS%d ::= SEQUENCE { f INTEGER (%d..%s), g OCTET STRING (SIZE (1..%s)) }\nEND\n' \
              % (k, subj, lo, names[0], '\n'.join(order), k, lo, names[0], names[0])
        exp = 'Ma%d DEFINITIONS AUTOMATIC TAGS ::= BEGIN\n%s ::= INTEGER (%d..%d)\n%s\nS%d ::= SEQUENCE { f INTEGER (%d..%d), g OCTET STRING (SIZE (1..%d)) }\nEND\n' \
              % (k, subj, lo, top, '\n'.join(order), k, lo, top, top)
        out.append(('value-in-constraint', [subj, 'S%d' % k], sug, exp))
        # named numbers of the type itself / of the parent type
        hi = rng.randint(6, 300)
        out.append(('named-number-in-constraint', ['%sNn%d' % (q, k), '%sSub%d' % (r, k)],
                    'Mb%d DEFINITIONS ::= BEGIN\n%sNn%d ::= INTEGER { lo(%d), hi(%d) } (lo..hi)\n%sSub%d ::= %sNn%d (lo..%d)\nEND\n' % (k, q, k, lo, hi, r, k, q, k, hi - 1),
                    'Mb%d DEFINITIONS ::= BEGIN\n%sNn%d ::= INTEGER { lo(%d), hi(%d) } (%d..%d)\n%sSub%d ::= %sNn%d (%d..%d)\nEND\n' % (k, q, k, lo, hi, lo, hi, r, k, q, k, lo, hi - 1)))
        # another type defining the same identifiers with other numbers, sorting before or after
        dec = rng.choice(PREFIXES)
        out.append(('named-number-with-decoy', ['%sNn%d' % (q, k), '%sSub%d' % (r, k)],
                    'Mf%d DEFINITIONS ::= BEGIN\n%sDecoy%d ::= INTEGER { lo(%d), hi(%d) }\n%sNn%d ::= INTEGER { lo(%d), hi(%d) } (lo..hi)\n%sSub%d ::= %sNn%d (lo..%d)\nEND\n'
                    % (k, dec, k, lo - 7, hi + 11, q, k, lo, hi, r, k, q, k, hi - 1),
                    'Mf%d DEFINITIONS ::= BEGIN\n%sDecoy%d ::= INTEGER { lo(%d), hi(%d) }\n%sNn%d ::= INTEGER { lo(%d), hi(%d) } (%d..%d)\n%sSub%d ::= %sNn%d (%d..%d)\nEND\n'
                    % (k, dec, k, lo - 7, hi + 11, q, k, lo, hi, lo, hi, r, k, q, k, lo, hi - 1)))
        # several instantiations inside one container
        args = [('BOOLEAN', 3), ('OCTET STRING', 200), ('NULL', 70000)][:rng.randint(2, 3)]
        rng.shuffle(args)
        win = '%sWin%d' % (dec, k)
        sug = 'Mg%d DEFINITIONS AUTOMATIC TAGS ::= BEGIN\n%s {T, INTEGER:n} ::= SEQUENCE { a T, b INTEGER (0..n) }\n%sFrame%d ::= SEQUENCE { %s }\nEND\n' \
              % (k, win, p, k, ', '.join('m%d %s {%s, %d}' % (i, win, a, n) for i, (a, n) in enumerate(args)))
        exp = 'Mg%d DEFINITIONS AUTOMATIC TAGS ::= BEGIN\n%sFrame%d ::= SEQUENCE { %s }\nEND\n' \
              % (k, p, k, ', '.join('m%d SEQUENCE { a %s, b INTEGER (0..%d) }' % (i, a, n) for i, (a, n) in enumerate(args)))
        out.append(('parameterized-in-components', ['%sFrame%d' % (p, k)], sug, exp))
        # notations combined: the copied / selected / class field type carries a value reference
        vref = '%stop%d' % (rng.choice(PREFIXES).lower(), k)
        base, wide, shape, tube = '%sBase%d' % (q, k), '%sWide%d' % (r, k), '%sShape%d' % (p, k), '%sTube%d' % (dec, k)
        cls2 = 'ITM%s' % 'ABCDEFGHIJ'[k % 10]
        sug = ('Mh%d DEFINITIONS AUTOMATIC TAGS ::= BEGIN\n%s INTEGER ::= %d\n%s ::= SEQUENCE { depth INTEGER (0..%s), ok BOOLEAN }\n'
               '%s ::= SEQUENCE { more BOOLEAN, COMPONENTS OF %s }\n%s ::= CHOICE { radius INTEGER (0..%s), name IA5String }\n%s ::= radius < %s\n'
               '%s ::= CLASS { &id INTEGER (0..%s) UNIQUE, &flag BOOLEAN }\n%sRec%d ::= SEQUENCE { id %s.&id, flag %s.&flag }\nEND\n'
               % (k, vref, top, base, vref, wide, base, shape, vref, tube, shape, cls2, vref, p, k, cls2, cls2))
        exp = ('Mh%d DEFINITIONS AUTOMATIC TAGS ::= BEGIN\n%s INTEGER ::= %d\n%s ::= SEQUENCE { depth INTEGER (0..%d), ok BOOLEAN }\n'
               '%s ::= SEQUENCE { more BOOLEAN, depth INTEGER (0..%d), ok BOOLEAN }\n%s ::= CHOICE { radius INTEGER (0..%d), name IA5String }\n%s ::= INTEGER (0..%d)\n'
               '%sRec%d ::= SEQUENCE { id INTEGER (0..%d), flag BOOLEAN }\nEND\n'
               % (k, vref, top, base, top, wide, top, shape, top, tube, top, p, k, top))
        out.append(('combined-notations', [wide, tube, '%sRec%d' % (p, k)], sug, exp))
        # C: parameterized types with 1..3 parameters, instantiated 1..3 times
        targ = rng.choice(['BOOLEAN', 'IA5String', 'NULL', 'INTEGER'])
        v = rng.randint(1, 4000)
        tpl = '%sTpl%d' % (p, k)
        ins = ['%sIns%d-%d' % (rng.choice(PREFIXES), k, i) for i in range(rng.randint(1, 3))]
        sug = 'Mc%d DEFINITIONS AUTOMATIC TAGS ::= BEGIN\n%s {T, INTEGER:n} ::= SEQUENCE { a T, b INTEGER (0..n), c SEQUENCE OF T OPTIONAL }\n%s\nEND\n' \
              % (k, tpl, '\n'.join('%s ::= %s {%s, %d}' % (x, tpl, targ, v + i) for i, x in enumerate(ins)))
        exp = 'Mc%d DEFINITIONS AUTOMATIC TAGS ::= BEGIN\n%s\nEND\n' \
              % (k, '\n'.join('%s ::= SEQUENCE { a %s, b INTEGER (0..%d), c SEQUENCE OF %s OPTIONAL }' % (x, targ, v + i, targ) for i, x in enumerate(ins)))
        out.append(('parameterized', [x.replace('-', '') for x in ins], sug, exp))
        # C2: the type argument carries a constraint with a value reference, the value argument is a value reference
        cap, capv = '%scap%d' % (rng.choice(PREFIXES).lower(), k), rng.randint(2, 60000)
        tpl2, ins2 = '%sTpm%d' % (q, k), '%sInq%d' % (rng.choice(PREFIXES), k)
        sug = ('Mi%d DEFINITIONS AUTOMATIC TAGS ::= BEGIN\n%s INTEGER ::= %d\n%s {T, INTEGER:n} ::= SEQUENCE { a T, b OCTET STRING (SIZE (1..n)) }\n'
               '%s ::= %s { INTEGER (0..%s), %s }\n%sFlag%d ::= %s { BOOLEAN, 4 }\nEND\n' % (k, cap, capv, tpl2, ins2, tpl2, cap, cap, ins2, k, tpl2))
        exp = ('Mi%d DEFINITIONS AUTOMATIC TAGS ::= BEGIN\n%s INTEGER ::= %d\n%s ::= SEQUENCE { a INTEGER (0..%d), b OCTET STRING (SIZE (1..%d)) }\n'
               '%sFlag%d ::= SEQUENCE { a BOOLEAN, b OCTET STRING (SIZE (1..4)) }\nEND\n' % (k, cap, capv, ins2, capv, capv, ins2, k))
        out.append(('parameterized-reference-arguments', [ins2], sug, exp))
        # D: selection types
        alts = [('aa', 'NULL'), ('bb', 'INTEGER (0..%d)' % rng.randint(1, 300)), ('cc', 'SEQUENCE { x BOOLEAN }'), ('dd', 'IA5String')]
        pick = rng.choice(alts)
        ch = '%sCh%d' % (q, k)
        sel = '%sSel%d' % (r, k)
        sug = 'Md%d DEFINITIONS AUTOMATIC TAGS ::= BEGIN\n%s ::= CHOICE { %s }\n%s ::= %s < %s\nHold%d ::= SEQUENCE { m %s < %s OPTIONAL }\nEND\n' \
              % (k, ch, ', '.join('%s %s' % a for a in alts), sel, pick[0], ch, k, pick[0], ch)
        exp = 'Md%d DEFINITIONS AUTOMATIC TAGS ::= BEGIN\n%s ::= CHOICE { %s }\n%s ::= %s\nHold%d ::= SEQUENCE { m %s OPTIONAL }\nEND\n' \
              % (k, ch, ', '.join('%s %s' % a for a in alts), sel, pick[1], k, pick[1])
        out.append(('selection', [sel, 'Hold%d' % k], sug, exp))
        # E: fixed-type class fields
        cls = 'CLS%s' % 'ABCDEFGHIJ'[k % 10]
        sug = 'Me%d DEFINITIONS AUTOMATIC TAGS ::= BEGIN\n%s ::= CLASS { &id INTEGER UNIQUE, &Fixed BOOLEAN, &str IA5String OPTIONAL }\n%sUse%d ::= SEQUENCE { f %s.&id, g %s.&Fixed, h %s.&str OPTIONAL }\nEND\n' \
              % (k, cls, p, k, cls, cls, cls)
        exp = 'Me%d DEFINITIONS AUTOMATIC TAGS ::= BEGIN\n%sUse%d ::= SEQUENCE { f INTEGER, g BOOLEAN, h IA5String OPTIONAL }\nEND\n' % (k, p, k)
        out.append(('class-field', ['%sUse%d' % (p, k)], sug, exp))
        # F: COMPONENTS OF (trailing) inside several nested members and alternatives of one type: each of them is expanded
        base = '%sBase%d' % (q, k)
        nmem = rng.randint(2, 4)
        inner = lambda tag, body: 'SEQUENCE { %s1 NULL, %s }' % (tag, body)
        mems_s = ', '.join('m%d %s' % (j, inner('m%d' % j, 'COMPONENTS OF ' + base)) for j in range(nmem))
        mems_e = ', '.join('m%d %s' % (j, inner('m%d' % j, 'x1 INTEGER, x2 BOOLEAN')) for j in range(nmem))
        alts_s = ', '.join('c%d %s' % (j, inner('c%d' % j, 'COMPONENTS OF ' + base)) for j in range(2))
        alts_e = ', '.join('c%d %s' % (j, inner('c%d' % j, 'x1 INTEGER, x2 BOOLEAN')) for j in range(2))
        head = 'Mg%d DEFINITIONS AUTOMATIC TAGS ::= BEGIN\n%s ::= SEQUENCE { x1 INTEGER, x2 BOOLEAN }\n' % (k, base)
        sug = head + 'Nst%d ::= SEQUENCE { %s, pick CHOICE { %s } }\nEND\n' % (k, mems_s, alts_s)
        exp = head + 'Nst%d ::= SEQUENCE { %s, pick CHOICE { %s } }\nEND\n' % (k, mems_e, alts_e)
        out.append(('components-of-nested', ['Nst%d' % k], sug, exp))
        # G: one or two COMPONENTS OF at the end of the root of an extensible type whose referenced types are extensible too: only
        #    their roots are copied, in the order of the notations, and the type's own additions stay additions
        r1, r2 = '%sRa%d' % (p, k), '%sRb%d' % (r, k)
        two = rng.random() < 0.6
        a1 = ', ..., p9 NULL' if rng.random() < 0.5 else ''
        a2 = ', ..., [[ q8 NULL, q9 BOOLEAN ]]' if rng.random() < 0.5 else ''
        head = ('Mh%d DEFINITIONS AUTOMATIC TAGS ::= BEGIN\n%s ::= SEQUENCE { p1 INTEGER, p2 BOOLEAN OPTIONAL%s }\n%s ::= SEQUENCE { q1 IA5String%s }\n'
                % (k, r1, a1, r2, a2))
        own = 'o1 NULL, o2 INTEGER (0..%d)' % rng.randint(1, 200)
        adds = rng.choice([', ...', ', ..., e1 BOOLEAN', ', ..., e1 BOOLEAN, [[ e2 NULL, e3 INTEGER ]]'])
        sug = head + '%sExt%d ::= SEQUENCE { %s, COMPONENTS OF %s%s%s }\nEND\n' % (q, k, own, r1, (', COMPONENTS OF %s' % r2) if two else '', adds)
        exp = head + '%sExt%d ::= SEQUENCE { %s, p1 INTEGER, p2 BOOLEAN OPTIONAL%s%s }\nEND\n' % (q, k, own, ', q1 IA5String' if two else '', adds)
        out.append(('components-of-before-marker', ['%sExt%d' % (q, k)], sug, exp))
    return out


def components_cases(ck):
    """COMPONENTS OF: definitions as (name, is_seq, items) with items ('own', n) / ('of', ref)"""
    rng = ck.rng
    out = []
    n = 40 if ck.tier == 'quick' else 900
    for k in range(n):
        levels = rng.randint(1, 3)
        prefs = rng.sample(PREFIXES, levels + 1)
        names = ['%sCo%d' % (prefs[i], k) for i in range(levels + 1)]
        is_seq = rng.random() < 0.8
        defs = []
        counter = 0
        for i, nm in enumerate(names):
            items = []
            for _ in range(rng.randint(1, 3)):
                counter += 1
                items.append(('own', 'f%d' % counter))
            if i > 0:
                pos = rng.choice([0, len(items), rng.randint(0, len(items))])
                items.insert(pos, ('of', names[i - 1]))
                if i > 1 and rng.random() < 0.35:
                    # a second notation in the same list, to a type further down the chain
                    pos2 = rng.choice([0, len(items), rng.randint(0, len(items))])
                    items.insert(pos2, ('of', names[rng.randint(0, i - 2)]))
            defs.append((nm, is_seq, items))
        rng.shuffle(defs)
        out.append(defs)
    return out


def comp_asn(k, defs):
    lines = []
    for nm, is_seq, items in defs:
        parts = [('COMPONENTS OF %s' % x[1]) if x[0] == 'of' else ('%s BOOLEAN' % x[1]) for x in items]
        lines.append('%s ::= %s { %s }' % (nm, 'SEQUENCE' if is_seq else 'SET', ', '.join(parts)))
    return 'Mo%d DEFINITIONS AUTOMATIC TAGS ::= BEGIN\n%s\nEND\n' % (k, '\n'.join(lines))


def comp_term(defs):
    return clist(['(mktdef %s %s %s)' % (cstr(nm), cbool(sq), clist([('(Own %s)' % cstr(x[1])) if x[0] == 'own' else ('(ComponentsOf %s)' % cstr(x[1]))
                                                                       for x in items])) for nm, sq, items in defs])


def classify(defs, name, obs, exp):
    """which known class explains obs != expansion (None: no known class does).  The classes are kept as narrow as their
    descriptions: `appended` needs a COMPONENTS OF entry that is not the last entry of its list and explains a permutation only;
    a chain with trailing COMPONENTS OF entries is proved right at any depth and in any name order (C09_pass_acyclic_chain), so a
    difference there is never a known finding.
    (The class K_SET -- COMPONENTS OF a SET type copied nothing -- was repaired in /repo: SET chains are judged like SEQUENCE chains.)"""
    d = {x[0]: x for x in defs}
    reach, todo = [], [name]
    while todo:
        n = todo.pop()
        if n in reach or n not in d:
            continue
        reach.append(n)
        todo += [x[1] for x in d[n][2] if x[0] == 'of']
    non_trailing = any(x[0] == 'of' and any(y[0] == 'own' for y in d[n][2][i + 1:]) for n in reach for i, x in enumerate(d[n][2]))
    # the known departure, exactly: own components first, then what each notation stands for, in the order of the notations
    if non_trailing and obs == appended_py(defs, name):
        return K_APPENDED
    # (the classes K_SET and K_CHAIN were repaired in /repo; a chain with trailing entries is proved right, C09_pass_acyclic_chain)
    return None


def appended_py(defs, name, seen=()):
    d = {x[0]: x for x in defs}[name]
    out = [it[1] for it in d[2] if it[0] == 'own']
    for it in d[2]:
        if it[0] == 'of' and it[1] not in seen and it[1] != name:
            out += appended_py(defs, it[1], seen + (name,))
    return out


def expand_py(defs, name, seen=()):
    d = {x[0]: x for x in defs}[name]
    out = []
    for it in d[2]:
        if it[0] == 'own':
            out.append(it[1])
        elif it[1] not in seen and {x[0]: x for x in defs}[it[1]][1] == d[1]:
            out += expand_py(defs, it[1], seen + (name,))
    return out


def run(ck):
    ck.coverage['rule'] = ('pairs (sugared module, hand-expanded module): value-reference chains of 1..4 levels and named numbers inside INTEGER and SIZE '
                           'constraints, parameterized types with a type and a value parameter instantiated 1..3 times, selection of any alternative '
                           '(as an assignment and in a component), fixed-type class fields -- the subject types\' items (syn projection, docs '
                           'removed) compared between the two compilations; names drawn so that referenced names sort before and after the '
                           'referencing ones, definitions in shuffled order.  COMPONENTS OF chains of 1..3 levels at any position, SEQUENCE and '
                           'SET: the field names of every type compared with the linker model and with the meaning of the notation (inside Coq)')
    ck.assumptions += ['the full COMPONENTS OF statement is refuted (one known finding: the position of the copied components); proved: the single linking step, and the whole pass for every chain that is not circular and whose COMPONENTS OF entries come last -- any depth, any name order, SEQUENCE or SET (C09_pass_acyclic_chain; C09_pass_depth_one); with the notations at any position the linked fields are a permutation of the expansion, in exactly the appended order (C09_pass_permutation, C09_pass_appended_exactly)']
    ck.prove('Props/C09.v', ['RasnV.Props.C09'], extra=['Corr/C09.vo'])
    pairs = pair_cases(ck)
    cases = []
    for fam, subj, sug, exp in pairs:
        cases.append({'op': 'compile', 'sources': [sug]})
        cases.append({'op': 'compile', 'sources': [exp]})
    res = run_harness(cases)
    ck.sample({'sugared': pairs[0][2], 'expanded': pairs[0][3]})
    for i, (fam, subj, sug, exp) in enumerate(pairs):
        a, b = res[2 * i], res[2 * i + 1]
        ck.note_case(sug)
        ck.count(fam)
        if any('panic' in x or 'crash' in x for x in (a, b)):
            ck.count('panic-or-crash')
            continue
        if not b.get('ok') or 'items' not in b or b.get('warnings'):
            ck.broken.append({'kind': 'generator', 'item': 'C09 expanded module', 'detail': exp[:500] + json.dumps(b.get('warnings') or b.get('err'))[:300]})
            continue
        if not a.get('ok') or 'items' not in a:
            ck.violation('impl-violation', {'sugared': sug, 'expanded': exp}, family=fam, impl={k: v for k, v in a.items() if k not in ('generated', 'items')},
                         why='the sugared module is rejected although its expansion compiles')
            continue
        names = [s.replace('-', '') for s in subj]
        ia, ib = items_named(a, names), items_named(b, names)
        for nme in names:
            if ia[nme] != ib[nme] or a.get('warnings'):
                ck.violation('impl-violation', {'sugared': sug, 'expanded': exp}, family=fam, type=nme, warnings=a.get('warnings'),
                             why='%s (%s) compiles differently from its hand-expanded form' % (nme, fam),
                             sugared_items=ia[nme][:500], expanded_items=ib[nme][:500])
                break
    # ---- pairs of the known findings: a hit while they differ, nothing when they no longer do
    kcases = []
    for slug, subj, sug, exp in KNOWN_PAIRS:
        kcases += [{'op': 'compile', 'sources': ['Mk DEFINITIONS AUTOMATIC TAGS ::= BEGIN\n%s\nEND\n' % sug]},
                   {'op': 'compile', 'sources': ['Mk DEFINITIONS AUTOMATIC TAGS ::= BEGIN\n%s\nEND\n' % exp]}]
    kres = run_harness(kcases)
    for i, (slug, subj, sug, exp) in enumerate(KNOWN_PAIRS):
        a, b = kres[2 * i], kres[2 * i + 1]
        ck.note_case('known-pair:' + sug)
        ck.count('known-pair')
        if any('panic' in x or 'crash' in x for x in (a, b)) or not b.get('ok'):
            ck.count('panic-or-crash')
            continue
        same = a.get('ok') and not a.get('warnings') and items_named(a, subj) == items_named(b, subj)
        if not same:
            if ck.is_known(slug):
                ck.known_hit(slug, {'sugared': sug, 'expanded': exp})
            else:
                ck.violation('impl-violation', {'sugared': sug, 'expanded': exp}, family='known-pair', type=subj[0],
                             why='%s compiles differently from its hand-expanded form' % subj[0])
    # ---- COMPONENTS OF
    comps = components_cases(ck)
    cres = run_harness([{'op': 'compile', 'sources': [comp_asn(k, d)]} for k, d in enumerate(comps)])
    terms, idx = [], []
    for k, (defs, r) in enumerate(zip(comps, cres)):
        src = comp_asn(k, defs)
        ck.note_case(src)
        ck.count('components-of')
        if 'panic' in r or 'crash' in r:
            ck.count('panic-or-crash')
            continue
        if not r.get('ok') or 'items' not in r:
            ck.violation('impl-violation', src, why='a module using COMPONENTS OF is rejected', impl={x: y for x, y in r.items() if x not in ('generated', 'items')})
            continue
        mod = [m for m in r['items'] if m.get('kind') == 'mod'][0]
        structs = {it['name']: [f['name'] for f in it.get('fields', [])] for it in mod['items'] if it.get('kind') == 'struct'}
        for nm, _, _ in defs:
            if nm not in structs:
                ck.violation('impl-violation', src, type=nm, why='no struct for %s' % nm, warnings=r.get('warnings'))
                continue
            terms.append('(%s, %s, %s)' % (comp_term(defs), cstr(nm), clist(structs[nm], cstr)))
            idx.append((k, nm, structs[nm]))
    bad = coq_eval_bad_multi('C09', REQ, 'list tdef * str * list str', ['corr', 'spec'], terms, label='components')
    for j in bad[0]:
        k, nm, obs = idx[j]
        ck.broken.append({'kind': 'correspondence', 'item': 'COMPONENTS OF linking pass',
                          'detail': 'model and implementation disagree on the fields of %s (%s) in %s' % (nm, obs, comp_asn(k, comps[k]))})
    for j in bad[1]:
        k, nm, obs = idx[j]
        slug = classify(comps[k], nm, obs, expand_py(comps[k], nm))
        if slug and ck.is_known(slug):
            ck.known_hit(slug, {'asn1': comp_asn(k, comps[k]), 'type': nm, 'fields': obs, 'expansion': expand_py(comps[k], nm)})
        else:
            ck.violation('impl-violation', comp_asn(k, comps[k]), type=nm, fields=obs, expansion=expand_py(comps[k], nm),
                         why='the fields of %s are not those of its expansion' % nm)
    ck.coverage['traces_validated_against_impl'] = len(terms)


def replay(ck, data):
    ck.prove('Props/C09.v', ['RasnV.Props.C09'], extra=['Corr/C09.vo'])
    for v in data.get('violations', []):
        c = v.get('case')
        if isinstance(c, dict) and c.get('sugared'):
            a, b = run_harness([{'op': 'compile', 'sources': [c['sugared']]}, {'op': 'compile', 'sources': [c['expanded']]}])
            ck.note_case(c['sugared'])
            nme = v.get('type')
            if not a.get('ok') or (nme and items_named(a, [nme]) != items_named(b, [nme])):
                ck.violation('impl-violation', c, type=nme, why='still compiles differently from its hand-expanded form')
