"""C20 -- compile() delivers exactly the compiled text, and nothing on failure."""
import json
import os
import shutil
import subprocess
import translate
from common import cn, cbool, copt, clist, cstr, cbytes, run_harness, coq_eval_bad, CACHE

REQ = ['RasnV.Corr.C20']
WORK = os.path.join(CACHE, 'tmp', 'C20-%d' % os.getpid())
CLI_TARGET = os.path.join(CACHE, 'cli-target')

GOOD = [
    'Ma DEFINITIONS AUTOMATIC TAGS ::= BEGIN\nAa ::= INTEGER (0..5)\nBb ::= SEQUENCE { a Aa, b BOOLEAN OPTIONAL }\nEND\n',
    'Mb DEFINITIONS ::= BEGIN\nCc ::= ENUMERATED { x, y }\nv INTEGER ::= 5\n-- é €\nEND\n',
    'Mc DEFINITIONS AUTOMATIC TAGS ::= BEGIN\nDd ::= CHOICE { a NULL, b IA5String }\nEND\nMd DEFINITIONS ::= BEGIN\nEe ::= SET OF BOOLEAN\nEND\n',
    'Me DEFINITIONS ::= BEGIN\nEND\n',
]
WARN = ['Mw DEFINITIONS ::= BEGIN\nAa ::= TIME\nBb ::= BOOLEAN\nEND\n']
BAD = [
    'Mx DEFINITIONS ::= BEGIN\nAa ::= INTEGER (0..\nEND\n',
    'Mx DEFINITIONS ::= BEGIN Aa ::= § END',
    '',
    'not asn1 at all',
    'Ma DEFINITIONS ::= BEGIN\nAa ::= INTEGER\nEND\nMy DEFINITIONS ::= BEGIN\nBb ::= SEQUENCE {\nEND\n',
]
DEST_STATES = ['absent', 'existing', 'dir', 'dir-existing-gen', 'dir-gen-is-dir', 'missing-parent', 'parent-is-file', 'readonly-file',
               'readonly-parent', 'readonly-parent-absent', 'readonly-dir', 'dir-dotted', 'noext-absent', 'noext-existing']


def unprotect(path):
    if os.path.exists(path):
        subprocess.run(['chattr', '-R', '-i', path], stdout=subprocess.DEVNULL, stderr=subprocess.DEVNULL)


def snapshot(root):
    out = {}
    for d, dirs, files in os.walk(root):
        rel = os.path.relpath(d, root)
        out[rel + '/'] = None
        for f in files:
            p = os.path.join(d, f)
            try:
                with open(p, 'rb') as fh:
                    out[os.path.relpath(p, root)] = fh.read()
            except OSError:
                out[os.path.relpath(p, root)] = b'<unreadable>'
    return out


def entry_at(root, rel):
    p = os.path.join(root, rel)
    if os.path.isdir(p):
        return ('dir',)
    if os.path.isfile(p):
        with open(p, 'rb') as fh:
            return ('file', fh.read())
    return ('absent',)


def centry(e):
    if e[0] == 'absent':
        return 'Absent'
    if e[0] == 'dir':
        return 'Dir'
    return '(File %s)' % cbytes(e[1])


def prepare(case_dir, state, ext):
    """-> (dest path, rel path of dest, rel path of dest/generated.ext, can_write, protected paths)"""
    os.makedirs(case_dir)
    with open(os.path.join(case_dir, 'bystander.txt'), 'wb') as f:
        f.write(b'B')
    prot = []
    can = True
    if state in ('absent', 'existing', 'readonly-file', 'readonly-parent', 'readonly-parent-absent'):
        os.makedirs(os.path.join(case_dir, 'o'))
        rel = 'o/out' + ext
        if state not in ('absent', 'readonly-parent-absent'):
            with open(os.path.join(case_dir, rel), 'wb') as f:
                f.write(b'OLD CONTENT\n' * 130)
        if state == 'readonly-file':
            prot.append(os.path.join(case_dir, rel))
            can = False
        if state == 'readonly-parent':
            # the entries of a write-protected directory cannot change, the content of an existing file in it can
            prot.append(os.path.join(case_dir, 'o'))
        if state == 'readonly-parent-absent':
            prot.append(os.path.join(case_dir, 'o'))
            can = False
    elif state in ('noext-absent', 'noext-existing'):
        # a file destination without an extension
        os.makedirs(os.path.join(case_dir, 'o'))
        rel = 'o/bindings'
        if state == 'noext-existing':
            with open(os.path.join(case_dir, rel), 'wb') as f:
                f.write(b'OLD CONTENT THAT IS LONGER THAN ANY GENERATED TEXT ' * 30)
    elif state in ('dir', 'dir-existing-gen', 'dir-gen-is-dir', 'readonly-dir', 'dir-dotted'):
        rel = 'outdir' if state != 'dir-dotted' else 'out.v2'
        os.makedirs(os.path.join(case_dir, rel))
        if state == 'dir-existing-gen':
            with open(os.path.join(case_dir, rel, 'generated' + ext), 'wb') as f:
                f.write(b'STALE\n' * 260)
        if state == 'dir-gen-is-dir':
            os.makedirs(os.path.join(case_dir, rel, 'generated' + ext))
        if state == 'readonly-dir':
            prot.append(os.path.join(case_dir, rel))
            can = False
    elif state == 'missing-parent':
        rel = 'nope/out' + ext
        can = False
    elif state == 'parent-is-file':
        with open(os.path.join(case_dir, 'afile'), 'wb') as f:
            f.write(b'F')
        rel = 'afile/out' + ext
        can = False
    else:
        raise ValueError(state)
    for p in prot:
        subprocess.run(['chattr', '+i', p], check=True)
    return os.path.join(case_dir, rel), rel, rel + '/generated' + ext, can, prot


def build_cli(ck):
    env = dict(os.environ, CARGO_NET_OFFLINE='true', CARGO_TARGET_DIR=CLI_TARGET)
    p = subprocess.run(['cargo', 'build', '--offline', '-q', '-p', 'rasn-compiler', '--features', 'cli', '--bin', 'rasn_compiler_cli'],
                       cwd='/repo', env=env, capture_output=True, text=True)
    if p.returncode != 0:
        ck.broken.append({'kind': 'build', 'item': 'rasn_compiler_cli', 'detail': p.stderr[-1500:]})
        return None
    return os.path.join(CLI_TARGET, 'debug', 'rasn_compiler_cli')


def write_sources(case_dir, texts):
    os.makedirs(os.path.join(case_dir, 'src'))
    paths = []
    for i, t in enumerate(texts):
        p = os.path.join(case_dir, 'src', 'm%d.asn1' % i)
        with open(p, 'w', encoding='utf-8') as f:
            f.write(t)
        paths.append(p)
    return paths


def run(ck):
    ck.coverage['rule'] = ('library: compile() through the harness on real directories -- module sets {valid, valid with warnings, malformed} x '
                           'both back ends x output mode {file, none} x destination state {absent, existing file, directory, directory with a '
                           'stale generated file, directory whose generated.<ext> is a directory, missing parent, parent is a file, '
                           'write-protected file / parent / directory (chattr +i)} x sources as literals / one path / several paths, the whole '
                           'directory tree compared before and after and the delivered bytes compared with compile_to_string(); command-line '
                           'tool as a child process: -o / --stdout / --no-output / default output x -m files / -d directory searched recursively, '
                           'exit status, standard output and directory tree; asn1!: the wrapper re-read from the derive crate (T20), wrapped '
                           'snippets compiled by the library and parsed as a token stream')
    ck.assumptions += ['partial writes on an I/O error in the middle of fs::write cannot be provoked here and are not modelled',
                       'the asn1! expansion itself is not run (a proc macro cannot be called outside rustc); its wrapper is re-read from source']
    ck.prove('Props/C20.v', ['RasnV.Props.C20'], extra=['Corr/C20.vo'], titems=['T20'])
    # scratch directories of runs that were killed (their write-protection flags would survive an rm -rf)
    tmp = os.path.dirname(WORK)
    os.makedirs(tmp, exist_ok=True)
    for d in os.listdir(tmp):
        if d.startswith('C20-'):
            pid = d[4:]
            if not (pid.isdigit() and os.path.exists('/proc/%s' % pid)) or d == os.path.basename(WORK):
                unprotect(os.path.join(tmp, d))
                shutil.rmtree(os.path.join(tmp, d), ignore_errors=True)
    os.makedirs(WORK)
    protected = []
    try:
        lib_part(ck, protected)
        cli_part(ck, protected)
        macro_part(ck)
    finally:
        for p in protected:
            subprocess.run(['chattr', '-i', p], stdout=subprocess.DEVNULL, stderr=subprocess.DEVNULL)
        unprotect(WORK)
        shutil.rmtree(WORK, ignore_errors=True)


def lib_part(ck, protected):
    rng = ck.rng
    n = 150 if ck.tier == 'quick' else 3000
    cases, meta = [], []
    combos = [(st, kind) for st in DEST_STATES for kind in ('good', 'bad', 'warn')]
    for k in range(n):
        st, kind = combos[k % len(combos)] if k < 2 * len(combos) else (rng.choice(DEST_STATES), rng.choice(['good', 'good', 'bad', 'warn']))
        backend = rng.choice(['rasn', 'ts'])
        ext = '.rs' if backend == 'rasn' else '.ts'
        mode = 'file' if rng.random() < 0.85 else 'none'
        texts = [rng.choice({'good': GOOD, 'bad': BAD, 'warn': WARN}[kind])]
        if kind != 'bad' and rng.random() < 0.3:
            texts.append('Mz%d DEFINITIONS ::= BEGIN\nZz ::= NULL\nEND\n' % k)
        if kind == 'good' and rng.random() < 0.2:
            texts.append(rng.choice(BAD))      # one malformed source among valid ones
        case_dir = os.path.join(WORK, 'l%d' % k)
        dest, rel, rel_gen, can, prot = prepare(case_dir, st, ext)
        protected += prot
        form = rng.choice(['literal', 'path', 'paths'])
        if form == 'literal':
            c = {'op': 'deliver', 'literals': texts, 'paths': []}
        else:
            paths = write_sources(case_dir, texts)
            c = {'op': 'deliver', 'literals': [], 'paths': paths}
        c.update({'dest': dest, 'mode': mode, 'backend': backend})
        before = snapshot(case_dir)
        cases.append(c)
        meta.append({'dir': case_dir, 'state': st, 'rel': rel, 'rel_gen': rel_gen, 'can': can, 'before': before, 'kind': kind,
                     'b_dest': entry_at(case_dir, rel), 'b_gen': entry_at(case_dir, rel_gen), 'form': form})
    results = run_harness(cases, jobs=8)
    terms, idx = [], []
    for i, (c, m, r) in enumerate(zip(cases, meta, results)):
        ck.note_case(json.dumps([c['literals'], m['state'], c['mode'], c['backend'], m['form']]))
        ck.count('lib:%s:%s' % (m['state'], m['kind']))
        desc = {'sources': c['literals'] or [open(p, encoding='utf-8').read() for p in c['paths']], 'dest_state': m['state'], 'mode': c['mode'],
                'backend': c['backend'], 'form': m['form']}
        if 'panic' in r or 'crash' in r or 'harness_error' in r:
            ck.violation('impl-violation', desc, impl=r, why='compile() panicked instead of returning Err')
            continue
        after = snapshot(m['dir'])
        ref, out = r['reference'], r['outcome']
        a_dest, a_gen = entry_at(m['dir'], m['rel']), entry_at(m['dir'], m['rel_gen'])
        changed = sorted(k for k in set(before_keys(m['before'], after)) if m['before'].get(k, '<none>') != after.get(k, '<none>'))
        allowed = {m['rel'], m['rel_gen']}
        stray = [k for k in changed if k not in allowed]
        problems = []
        if stray:
            problems.append('files or directories other than the destination changed: %s' % stray[:4])
        if ref['ok'] and out['ok'] and ref['warnings'] != out['warnings']:
            problems.append('compile() returns other warnings than compile_to_string()')
        if problems:
            ck.violation('impl-violation', desc, problems=problems, why=problems[0])
        mode_t = 'MSingleFile' if c['mode'] == 'file' else 'MNoOutput'
        res_t = copt(ref['text'].encode('utf-8') if ref['ok'] else None, cbytes)
        fs_b = '(mkfs %s %s %s (File %s))' % (cbool(m['can']), centry(m['b_dest']), centry(m['b_gen']), cbytes(b'B'))
        fs_a = '(mkfs true %s %s %s)' % (centry(a_dest), centry(a_gen), centry(entry_at(m['dir'], 'bystander.txt')))
        terms.append('(%s, %s, %s, %s, (@nil N), %s)' % (mode_t, fs_b, res_t, fs_a, 'Ok' if out['ok'] else 'Err'))
        idx.append((i, desc, out, ref['ok']))
    for j in coq_eval_bad('C20', REQ, 'mode * fs * option str * fs * str * outcome', 'corr', terms, label='lib'):
        i, desc, out, refok = idx[j]
        ck.violation('impl-violation', desc, outcome=out, reference_ok=refok,
                     why='compile() did not behave as specified: the destination after the call, or the Ok/Err outcome, differs from '
                         '"exactly the text of compile_to_string() at the selected place on success, nothing changed and Err otherwise"')
    ck.coverage['traces_validated_against_impl'] = len(terms)


def before_keys(a, b):
    return list(a.keys()) + list(b.keys())


def cli_part(ck, protected):
    cli = build_cli(ck)
    if not cli:
        return
    rng = ck.rng
    n = 60 if ck.tier == 'quick' else 800
    exit_terms, pick_terms, io_terms = [], [], []
    io_idx = []
    ref_cases, metas = [], []
    for k in range(n):
        case_dir = os.path.join(WORK, 'c%d' % k)
        backend = rng.choice(['rasn', 'typescript'])
        ext = '.rs' if backend == 'rasn' else '.ts'
        out_arg = rng.choice(['path', 'stdout', 'none', 'default', 'path'])
        kind = rng.choice(['good', 'good', 'bad', 'warn'])
        st = rng.choice(['absent', 'existing', 'dir', 'dir-existing-gen', 'missing-parent', 'readonly-file', 'dir-dotted', 'noext-absent',
                         'noext-existing']) if out_arg == 'path' else 'absent'
        dest, rel, rel_gen, can, prot = prepare(case_dir, st, ext)
        protected += prot
        cwd = os.path.join(case_dir, 'cwd')
        os.makedirs(cwd)
        texts = [rng.choice({'good': GOOD, 'bad': BAD, 'warn': WARN}[kind])]
        if kind != 'bad' and rng.random() < 0.4:
            texts.append('Mz%d DEFINITIONS ::= BEGIN\nZz ::= NULL\nEND\n' % k)
        src_form = rng.choice(['m', 'd', 'both', 'd-empty'])
        args, paths, listing = [], [], {}
        if src_form in ('m', 'both'):
            ps = write_sources(case_dir, texts[:1] if src_form == 'both' else texts)
            args += ['-m'] + ps
            paths += ps
        if src_form in ('d', 'both', 'd-empty'):
            d = os.path.join(case_dir, 'mods')
            os.makedirs(os.path.join(d, 'sub', 'deeper'))
            names = ['a.asn', 'sub/b.asn1', 'sub/deeper/c.asn'] if src_form != 'd-empty' else []
            use = texts[1:] if src_form == 'both' else texts
            for nm, t in zip(names, use):
                with open(os.path.join(d, nm), 'w', encoding='utf-8') as f:
                    f.write(t)
                paths.append(os.path.join(d, nm))
                listing[os.path.basename(nm)] = True
            for nm in ['readme.txt', 'sub/x.asn2', 'sub/y.asn.bak', 'sub/deeper/asn', 'sub/z.ASN']:
                with open(os.path.join(d, nm), 'w') as f:
                    f.write('junk that is not ASN.1 ::=')
                listing[os.path.basename(nm)] = False
            args += ['-d', d]
        if out_arg == 'path':
            args += ['-o', dest]
        elif out_arg == 'stdout':
            args += ['--stdout']
        elif out_arg == 'none':
            args += ['--no-output']
        args += ['-b', backend]
        before = snapshot(case_dir)
        p = subprocess.run([cli] + args, cwd=cwd, capture_output=True, timeout=120)
        after = snapshot(case_dir)
        ref_cases.append({'op': 'deliver', 'literals': [], 'paths': sorted(paths), 'dest': '', 'mode': 'none',
                          'backend': 'ts' if backend == 'typescript' else 'rasn'})
        metas.append({'dir': case_dir, 'args': args, 'p': p, 'before': before, 'after': after, 'rel': rel, 'rel_gen': rel_gen, 'can': can,
                      'out_arg': out_arg, 'ext': ext, 'paths': paths, 'listing': listing, 'state': st, 'kind': kind, 'src_form': src_form,
                      'b_dest': entry_before(before, rel), 'b_gen': entry_before(before, rel_gen)})
    refs = run_harness(ref_cases, jobs=8)
    for k, (m, r) in enumerate(zip(metas, refs)):
        p = m['p']
        desc = {'args': [a.replace(m['dir'], '<case>') for a in m['args']], 'dest_state': m['state'], 'sources': m['kind'], 'form': m['src_form']}
        ck.note_case('cli:' + json.dumps(desc) + str(k))
        ck.count('cli:%s:%s' % (m['out_arg'], m['src_form']))
        if p.returncode < 0 or b'panicked' in p.stderr:
            ck.violation('impl-violation', desc, stderr=p.stderr.decode('utf-8', 'replace')[-600:], why='the command-line tool panicked or was killed')
            continue
        have = bool(m['paths'])
        ref = r.get('reference', {'ok': False})
        text = ref['text'].encode('utf-8') if ref.get('ok') and have else None
        # the tool's default output is ./generated.<ext> in the working directory
        if m['out_arg'] == 'default':
            rel, rel_gen, can = 'cwd', 'cwd/generated' + m['ext'], True
            b_dest, b_gen = ('dir',), ('absent',)
        else:
            rel, rel_gen, can, b_dest, b_gen = m['rel'], m['rel_gen'], m['can'], m['b_dest'], m['b_gen']
        a_dest, a_gen = entry_before(m['after'], rel), entry_before(m['after'], rel_gen)
        changed = sorted(x for x in set(before_keys(m['before'], m['after'])) if m['before'].get(x, '<none>') != m['after'].get(x, '<none>'))
        stray = [x for x in changed if x not in (rel, rel_gen)]
        if stray:
            ck.violation('impl-violation', desc, why='files or directories other than the destination changed: %s' % stray[:4])
        mode_t = {'path': 'MSingleFile', 'default': 'MSingleFile', 'stdout': 'MStdout', 'none': 'MNoOutput'}[m['out_arg']]
        fs_b = '(mkfs %s %s %s (File %s))' % (cbool(can), centry(b_dest), centry(b_gen), cbytes(b'B'))
        fs_a = '(mkfs true %s %s %s)' % (centry(a_dest), centry(a_gen), centry(entry_before(m['after'], 'bystander.txt')))
        if have:
            outcome = 'Ok' if p.returncode == 0 else 'Err'
            io_terms.append('(%s, %s, %s, %s, %s, %s)' % (mode_t, fs_b, copt(text, cbytes), fs_a, cbytes(p.stdout), outcome))
            io_idx.append((desc, p.returncode, ref.get('ok')))
        elif p.returncode == 0 or p.stdout or changed:
            ck.violation('impl-violation', desc, why='without any module the tool must fail and write nothing', exit=p.returncode)
        if p.returncode not in (0, 1):
            ck.violation('impl-violation', desc, why='exit status %d is neither success nor failure' % p.returncode,
                         stderr=p.stderr.decode('utf-8', 'replace')[-400:])
        found = {ln.split('Found ASN1 module ')[1].strip() for ln in p.stderr.decode('utf-8', 'replace').splitlines() if 'Found ASN1 module ' in ln}
        for name, want in m['listing'].items():
            pick_terms.append('(%s, %s)' % (cstr(name), cbool(name in found)))
    for j in coq_eval_bad('C20', REQ, 'mode * fs * option str * fs * str * outcome', 'corr', io_terms, label='cli'):
        desc, rc, refok = io_idx[j]
        ck.violation('impl-violation', desc, exit=rc, reference_ok=refok,
                     why='the command-line tool did not deliver as specified: exit status, standard output or the destination differ from the '
                         'library result on the same modules')
    for j in coq_eval_bad('C20', REQ, 'str * bool', 'corr_pick', pick_terms, label='pick'):
        ck.violation('impl-violation', {'file': pick_terms[j]}, why='the directory search picked up a file that does not end in .asn/.asn1, or missed one')
    ck.coverage['cli_runs'] = len(metas)
    # a standard output that cannot be written (/dev/full): the tool must fail; /dev/null: it must succeed
    src_path = os.path.join(CACHE, 'tmp', 'c20_stdout_probe.asn1')
    os.makedirs(os.path.dirname(src_path), exist_ok=True)
    with open(src_path, 'w') as f:
        f.write('Sp DEFINITIONS AUTOMATIC TAGS ::= BEGIN\nAa ::= INTEGER (0..5)\nEND\n')
    for dev, want_ok in (('/dev/full', False), ('/dev/null', True)):
        if not os.path.exists(dev):
            continue
        for backend in ('rasn', 'typescript'):
            with open(dev, 'wb') as out:
                p = subprocess.run([cli, '-m', src_path, '--stdout', '-b', backend], stdout=out, stderr=subprocess.PIPE, timeout=120)
            ck.note_case('cli-stdout:%s:%s' % (dev, backend))
            ck.count('cli:stdout-device')
            if (p.returncode == 0) != want_ok:
                ck.violation('impl-violation', {'args': ['-m', '<module>', '--stdout', '-b', backend], 'stdout': dev}, exit=p.returncode,
                             stderr=p.stderr.decode('utf-8', 'replace')[-300:],
                             why='standard output %s: the tool %s' % (dev, 'reports success although nothing could be written' if p.returncode == 0
                                                                       else 'fails although the output was accepted'))


def entry_before(snap, rel):
    if rel + '/' in snap or rel == '.':
        return ('dir',)
    if rel in snap:
        return ('file', snap[rel])
    return ('absent',)


def macro_part(ck):
    st = translate.run({'T20'})['T20']
    if not st.get('ok'):
        return       # reported by prove() as a broken translator item
    header, footer = st['header'], st['footer']
    snippets = ['Aa ::= INTEGER (0..5)', 'Bb ::= SEQUENCE { a BOOLEAN }  Cc ::= ENUMERATED { x, y }', 'v INTEGER ::= 5', '',
                'Mq DEFINITIONS AUTOMATIC TAGS ::= BEGIN Dd ::= NULL END', 'Ee ::= INTEGER (0..', 'Ff ::= §',
                # snippets that end in an identifier, a number, a comment: the appended END must stay a token of its own
                'Bb ::= NULL  Aa ::= Bb', 'Aa ::= INTEGER -- a note', 'Aa ::= INTEGER -- a note --', 'v INTEGER ::= 5', 'Aa ::= INTEGER /* c */',
                'Aa ::= ENUMERATED { x, y }\n', 'Aa ::= BOOLEAN\n-- trailing remark']
    cases = []
    for v in snippets:
        src = v if 'BEGIN' in v else header + v + footer
        cases.append({'op': 'compile', 'sources': [src], '_snippet': v})
        # the same snippet in a module written out properly: the wrapper must not change the outcome
        cases.append({'op': 'compile', 'sources': [v if 'BEGIN' in v else header + v + '\nEND\n'], '_snippet': v, '_canonical': True})
    res = run_harness(cases)
    for c, r, rc in zip(cases[0::2], res[0::2], res[1::2]):
        if bool(r.get('ok')) != bool(rc.get('ok')) or (r.get('ok') and r.get('generated') != rc.get('generated')):
            ck.violation('impl-violation', {'snippet': c['_snippet'], 'footer': footer}, wrapped_ok=bool(r.get('ok')), module_ok=bool(rc.get('ok')),
                         why='asn1! wraps the snippet into a module that does not compile like the same snippet in a module written out '
                             '(header, snippet, line break, END)')
    for c, r in zip(cases[0::2], res[0::2]):
        ck.note_case('macro:' + c['_snippet'])
        ck.count('macro')
        if 'panic' in r or 'crash' in r:
            ck.violation('impl-violation', {'snippet': c['_snippet']}, impl=r, why='the library panicked on a wrapped snippet')
        elif r.get('ok') and 'items' not in r:
            ck.violation('impl-violation', {'snippet': c['_snippet']}, why='asn1! would fail although the library returns Ok: the bindings do not '
                         'parse as a token stream', detail=r.get('syn_error'))


def replay(ck, data):
    run(ck)
