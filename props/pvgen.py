"""Shared generator / printers for element-set expressions (C04, C15, C06)."""
from common import cz, cn, cbool, copt, clist, cstr

INTS = [-1, 0, 1, 5, 2 ** 32]


# ---- JSON (harness) builders
def jint(i):
    return {'i': str(i)}


def jstr(s):
    return {'s': s}


def single(v, x=False):
    return {'k': 'single', 'v': v, 'x': x}


def rng(lo, hi, x=False):
    return {'k': 'range', 'lo': lo, 'hi': hi, 'x': x}


def size(inner):
    return {'k': 'size', 'inner': inner}


def alpha(inner):
    return {'k': 'alpha', 'inner': inner}


NOTPV = {'k': 'notpv'}
CONTAINED = {'k': 'contained'}


def E(e):
    return {'e': e}


def S(base, op, operant):
    return {'base': base, 'op': op, 'operant': operant}


def chain(elems, ops):
    """right-nested set operation from a flat list (what the parser builds)"""
    if len(elems) == 1:
        return E(elems[0])
    return S(elems[0], ops[0], chain(elems[1:], ops[1:]))


# ---- Coq printers
def c_aval(v):
    if v is None:
        return 'None'
    if 'i' in v:
        return '(VInt %s)' % cz(int(v['i']))
    if 's' in v:
        return '(VStr %s)' % cstr(v['s'])
    return 'VOther'


def c_oaval(v):
    return 'None' if v is None else '(Some %s)' % c_aval(v)


def c_elem(e):
    k = e['k']
    if k == 'single':
        return '(Single %s %s)' % (c_aval(e['v']), cbool(e.get('x', False)))
    if k == 'range':
        return '(Range %s %s %s)' % (c_oaval(e.get('lo')), c_oaval(e.get('hi')), cbool(e.get('x', False)))
    if k == 'size':
        return '(Size %s)' % c_eos(e['inner'])
    if k == 'alpha':
        return '(Alpha %s)' % c_eos(e['inner'])
    if k == 'contained':
        return 'Contained'
    return 'NotPV'


OPS = {'union': 'Union', 'inter': 'Inter', 'except': 'Except'}


def c_eos(s):
    if 'e' in s:
        return '(El %s)' % c_elem(s['e'])
    return '(SetOp %s %s %s)' % (c_elem(s['base']), OPS[s['op']], c_eos(s['operant']))


def c_constraint(c):
    return '{| cset := %s; cext := %s |}' % (c_eos(c['set']), cbool(c.get('ext', False)))


# ---- ASN.1 text
def t_aval(v, side=0):
    if v is None:
        return 'MIN' if side == 0 else 'MAX'
    if 'i' in v:
        return v['i']
    return '"%s"' % v['s'].replace('"', '""')


def t_elem(e):
    k = e['k']
    if k == 'single':
        return t_aval(e['v']) + (', ...' if e.get('x') else '')
    if k == 'range':
        return '%s..%s%s' % (t_aval(e.get('lo'), 0), t_aval(e.get('hi'), 1), ', ...' if e.get('x') else '')
    if k == 'size':
        return 'SIZE (%s)' % t_eos(e['inner'])
    if k == 'alpha':
        return 'FROM (%s)' % t_eos(e['inner'])
    if k == 'notpv':
        return 'PATTERN "x"'
    if k == 'contained':
        return 'INCLUDES Other'
    if k == 'ref':
        return e['name']                 # a contained subtype written as a bare type reference (text only)
    raise ValueError(k)


T_OPS = {'union': '|', 'inter': '^', 'except': 'EXCEPT'}


def t_eos(s):
    if 'e' in s:
        return t_elem(s['e'])
    return '%s %s %s' % (t_elem(s['base']), T_OPS[s['op']], t_eos(s['operant']))


def t_constraint(c):
    return '(%s%s)' % (t_eos(c['set']), ', ...' if c.get('ext') else '')


# ---- random generation
def rand_int_elem(rng_, allow_x=True, pool=INTS):
    r = rng_.random()
    x = allow_x and rng_.random() < 0.1
    if r < 0.35:
        return single(jint(rng_.choice(pool)), x)
    lo = rng_.choice([None] + pool)
    hi = rng_.choice([None] + pool)
    return rng(None if lo is None else jint(lo), None if hi is None else jint(hi), x)


def rand_str_elem(rng_, chars='abc12 '):
    r = rng_.random()
    if r < 0.5:
        n = rng_.randint(0, 4)
        return single(jstr(''.join(rng_.choice(chars) for _ in range(n))), rng_.random() < 0.08)
    lo = rng_.choice([None] + list(chars))
    hi = rng_.choice([None] + list(chars))
    return rng(None if lo is None else jstr(lo), None if hi is None else jstr(hi), rng_.random() < 0.08)


def rand_ops(rng_, n):
    return [rng_.choice(['union', 'union', 'inter', 'inter', 'except']) for _ in range(n)]


def rand_int_eos(rng_, maxn=3, allow_x=True, pool=INTS, notpv=0.0):
    n = rng_.randint(1, maxn)
    elems = [NOTPV if rng_.random() < notpv else rand_int_elem(rng_, allow_x, pool) for _ in range(n)]
    return chain(elems, rand_ops(rng_, n - 1))


def rand_mixed_elem(rng_, depth=1):
    r = rng_.random()
    if r < 0.35:
        return rand_int_elem(rng_)
    if r < 0.55:
        return rand_str_elem(rng_)
    if r < 0.7 and depth > 0:
        return size(rand_mixed_eos(rng_, depth - 1, ints=True))
    if r < 0.82 and depth > 0:
        return alpha(rand_mixed_eos(rng_, depth - 1, strs=True))
    if r < 0.92:
        return NOTPV
    return CONTAINED


def rand_mixed_eos(rng_, depth=1, ints=False, strs=False, maxn=3):
    n = rng_.randint(1, maxn)
    if ints:
        elems = [rand_int_elem(rng_) if rng_.random() < 0.85 else rand_mixed_elem(rng_, 0) for _ in range(n)]
    elif strs:
        elems = [rand_str_elem(rng_) if rng_.random() < 0.85 else rand_mixed_elem(rng_, 0) for _ in range(n)]
    else:
        elems = [rand_mixed_elem(rng_, depth) for _ in range(n)]
    return chain(elems, rand_ops(rng_, n - 1))


def j_to_elem_opt(v):
    """harness result {'ok': elem|None} -> coq `option elem` term"""
    return 'None' if v is None else '(Some %s)' % c_elem(v)
