"""C11 -- the result is a deterministic function of the set of definitions."""
import copy
import itertools
import json
import os
from props import modgen as MG
from common import run_harness

CORPUS = '/repo/rasn-compiler-tests/tests/modules'
KNOWN_DUP = 'C10-duplicate-bare-names'


def permutations_of(ck, ms, k):
    """-> list of (description, sources) : the same set of definitions in other orders"""
    out = []
    # reversal at every level, as separate sources
    r = copy.deepcopy(ms)
    r.modules = [(n, o, list(reversed(d))) for n, o, d in reversed(r.modules)]
    out.append(('reversed', MG.render(r)))
    out.append(('reversed-split', MG.render(r, split_sources=True)))
    out.append(('split', MG.render(ms, split_sources=True)))
    units = sum(len(d) for _, _, d in ms.modules)
    if units <= 5 and len(ms.modules) == 1:
        n, o, d = ms.modules[0]
        for p in itertools.permutations(d):
            q = copy.deepcopy(ms)
            q.modules = [(n, o, list(p))]
            out.append(('all-permutations', MG.render(q)))
    for _ in range(k):
        q = copy.deepcopy(ms)
        mods = list(q.modules)
        ck.rng.shuffle(mods)
        mods = [(n, o, ck.rng.sample(d, len(d))) for n, o, d in mods]
        q.modules = mods
        out.append(('random', MG.render(q, split_sources=ck.rng.random() < 0.5)))
    return out


def run(ck):
    ck.coverage['rule'] = ('generated module sets (and, in the thorough tier, the real-world modules of the repository) compiled once as the reference; then the '
                           'same set of definitions with assignments permuted inside modules, modules permuted inside a source, modules split into '
                           'separate sources in other orders (reversal, k random permutations, every permutation for single-module inputs of <= 5 '
                           'assignments), for both back ends; then repeated, after unrelated compilations in the same process, and 2..16 at a time on '
                           'concurrent threads; generated text compared byte for byte and warnings as sorted lists')
    ck.assumptions += ['threads and process history are runtime facts: observed, not derived; the theorems cover the arrival order of definitions',
                       'module sets with the same name in two modules are the known finding C10-duplicate-bare-names and are kept out of this generator']
    ck.prove('Props/C11.v', ['RasnV.Props.C11'], extra=['Corr/Driver.vo'])
    quick = ck.tier == 'quick'
    inputs = []
    for k in range(40 if quick else 600):
        ms = MG.gen_module_set(ck.rng, k, max_defs=6 if k % 3 else 4, nmods=1 if k % 4 == 0 else None)
        if k % 4 == 0:
            ms.modules = [(n, o, d[:5]) for n, o, d in ms.modules]
        inputs.append(ms)
    # notations resolved by the linker in passes over the definitions (COMPONENTS OF chains, value references in constraints,
    # alias chains): three names in each of their six relative orders, every permutation of the assignments
    for oi, (nb, nm, no) in enumerate(itertools.permutations(['Aa', 'Mm', 'Zz'])):
        ms = MG.ModuleSet()
        mname = 'Link%d' % oi
        defs = [MG.Def(mname, nb + 'Base', 'seq', '%sBase ::= SEQUENCE { id INTEGER }' % nb),
                MG.Def(mname, nm + 'Middle', 'components-of', '%sMiddle ::= SEQUENCE { COMPONENTS OF %sBase, label BOOLEAN }' % (nm, nb), deps=[nb + 'Base']),
                MG.Def(mname, no + 'Outer', 'components-of', '%sOuter ::= SEQUENCE { COMPONENTS OF %sMiddle, flag NULL }' % (no, nm), deps=[nm + 'Middle']),
                MG.Def(mname, 'v%s' % nb.lower(), 'value', 'v%s INTEGER ::= v%s' % (nb.lower(), nm.lower()), is_value=True),
                MG.Def(mname, 'v%s' % nm.lower(), 'value', 'v%s INTEGER ::= 7' % nm.lower(), is_value=True)]
        ms.modules = [(mname, {'tagging': 'AUTOMATIC TAGS', 'ext': False}, defs)]
        inputs.append(ms)
        ms2 = MG.ModuleSet()
        mname = 'Lnk2%d' % oi
        defs = [MG.Def(mname, nb + 'Lim', 'int', '%sLim ::= INTEGER (0..v%s)' % (nb, no.lower())),
                MG.Def(mname, 'v%s' % no.lower(), 'value', 'v%s INTEGER ::= v%s' % (no.lower(), nm.lower()), is_value=True),
                MG.Def(mname, 'v%s' % nm.lower(), 'value', 'v%s INTEGER ::= 9' % nm.lower(), is_value=True),
                MG.Def(mname, nm + 'Al', 'alias', '%sAl ::= %sLim (1..5)' % (nm, nb)),
                MG.Def(mname, no + 'Al', 'alias', '%sAl ::= %sAl' % (no, nm))]
        ms2.modules = [(mname, {'tagging': '', 'ext': False}, defs)]
        inputs.append(ms2)
        # steps of the linker that still read the current state of another definition: COMPONENTS OF an instance of a
        # parameterized type, a selection of an alternative that itself uses COMPONENTS OF, a contained subtype through an alias
        ms3 = MG.ModuleSet()
        mname = 'Lnk3%d' % oi
        defs = [MG.Def(mname, nb + 'Tpl', 'template', '%sTpl {T} ::= SEQUENCE { a T, b BOOLEAN }' % nb, status=MG.NO_OUTPUT),
                MG.Def(mname, nm + 'Inst', 'instance', '%sInst ::= %sTpl { INTEGER }' % (nm, nb), deps=[nb + 'Tpl']),
                MG.Def(mname, no + 'Incl', 'components-of', '%sIncl ::= SEQUENCE { z NULL, COMPONENTS OF %sInst }' % (no, nm), deps=[nm + 'Inst']),
                MG.Def(mname, nb + 'Ch', 'choice', '%sCh ::= CHOICE { alt SEQUENCE { k NULL, COMPONENTS OF %sInst }, other NULL }' % (nb, nm), deps=[nm + 'Inst']),
                MG.Def(mname, no + 'Sel', 'selection', '%sSel ::= alt < %sCh' % (no, nb), deps=[nb + 'Ch']),
                MG.Def(mname, nm + 'Rng', 'int', '%sRng ::= INTEGER (0..%d)' % (nm, 10 + oi)),
                MG.Def(mname, nb + 'Rn2', 'alias', '%sRn2 ::= %sRng (2..8)' % (nb, nm), deps=[nm + 'Rng']),
                MG.Def(mname, no + 'Cnt', 'int', '%sCnt ::= INTEGER (%sRn2)' % (no, nb), deps=[nb + 'Rn2'])]
        ms3.modules = [(mname, {'tagging': 'AUTOMATIC TAGS', 'ext': False}, defs)]
        inputs.append(ms3)
    # inputs that raise warnings (the multiset of warnings is part of the result), and a module that imports several values whose
    # governing types it does not import (the linker adds those types to the import list itself)
    for wi in range(4 if quick else 24):
        ms = MG.gen_module_set(ck.rng, 70 + wi, max_defs=4, nmods=2)
        mname, opts, defs = ms.modules[0]
        defs.append(MG.Def(mname, 'WarnInv%d' % wi, 'int', 'WarnInv%d ::= INTEGER (1%d..1)' % (wi, wi), status='warned'))
        if wi % 2:
            mname2, opts2, defs2 = ms.modules[-1]
            defs2.append(MG.Def(mname2, 'WarnReal%d' % wi, 'real', 'WarnReal%d ::= REAL' % wi, status='warned'))
        inputs.append(ms)
    for vi, names in enumerate(itertools.permutations(['Count', 'Ratio', 'Switch', 'Tag'], 4) if not quick else [('Count', 'Ratio', 'Switch', 'Tag'), ('Tag', 'Switch', 'Count', 'Ratio')]):
        if vi >= 6:
            break
        ms = MG.ModuleSet()
        lim, usr = 'Limits%d' % vi, 'User%d' % vi
        tdefs = {'Count': 'INTEGER (0..100)', 'Ratio': 'INTEGER (0..7)', 'Switch': 'BOOLEAN', 'Tag': 'IA5String'}
        vals = {'Count': ('maxCount', '5'), 'Ratio': ('fullRatio', '7'), 'Switch': ('enabled', 'TRUE'), 'Tag': ('defaultTag', '"x"')}
        d1 = [MG.Def(lim, n, 'type', '%s ::= %s' % (n, tdefs[n])) for n in names]
        d1 += [MG.Def(lim, vals[n][0], 'value', '%s %s ::= %s' % (vals[n][0], n, vals[n][1]), is_value=True) for n in names]
        d2 = [MG.Def(usr, 'Uu%d' % vi, 'seq', 'Uu%d ::= SEQUENCE { a INTEGER (0..200) DEFAULT maxCount, b INTEGER DEFAULT fullRatio, c BOOLEAN DEFAULT enabled, d IA5String DEFAULT defaultTag }' % vi,
                     deps=[vals[n][0] for n in names])]
        ms.modules = [(lim, {'tagging': 'AUTOMATIC TAGS', 'ext': False}, d1), (usr, {'tagging': 'AUTOMATIC TAGS', 'ext': False}, d2)]
        inputs.append(ms)
    jobs, meta = [], []
    for i, ms in enumerate(inputs):
        backend = 'ts' if i % 3 == 2 else 'rasn'
        jobs.append({'sources': MG.render(ms), 'backend': backend})
        meta.append((i, 'reference'))
        for desc, src in permutations_of(ck, ms, 2 if quick else 6):
            jobs.append({'sources': src, 'backend': backend})
            meta.append((i, desc))
    for rep in range(3):
        for m in range(len(meta)):
            if meta[m][1] == 'reference' and m < len(jobs):
                jobs.append(jobs[m])
                meta.append((meta[m][0], 'repeat-%d' % (rep + 1)))
        if rep == 0:
            nrefs = sum(1 for x in meta if x[1] == 'reference')
    corpus_jobs = []
    if not quick and os.path.isdir(CORPUS):
        files = sorted(os.listdir(CORPUS))
        ck.rng.shuffle(files)
        for f in files[:150]:
            text = open(os.path.join(CORPUS, f), encoding='utf-8', errors='replace').read()
            if len(text) < 40000:
                corpus_jobs.append(text)
    ck.sample({'asn1': jobs[1]['sources'][0][:800]})
    # one process: a warm-up of unrelated compilations, then everything sequentially (threads=1)
    warm = [{'sources': ['Warm%d DEFINITIONS IMPLICIT TAGS EXTENSIBILITY IMPLIED ::= BEGIN\nWw%d ::= SEQUENCE { a [7] INTEGER, b Ww%d OPTIONAL }\nEND\n'
                         % (j, j, j)], 'backend': 'rasn' if j % 2 else 'ts'} for j in range(6)]
    seq = run_harness([{'op': 'compile_many', 'jobs': jobs, 'threads': 1, 'warmup': warm}], per_case_timeout=900)[0]
    if 'results' not in seq:
        ck.broken.append({'kind': 'harness', 'item': 'compile_many', 'detail': json.dumps(seq)[:500]})
        return
    results = seq['results']
    ref = {}
    for (i, desc), j, r in zip(meta, jobs, results):
        ck.note_case(desc + ':' + '\n'.join(j['sources']))
        ck.count(desc)
        if r is None or 'panic' in r:
            ck.count('panic')
            continue
        if desc == 'reference':
            ref[i] = r
            continue
        base = ref.get(i)
        if base is None:
            continue
        if base.get('ok') != r.get('ok') or base.get('generated') != r.get('generated') or base.get('warnings') != r.get('warnings'):
            ck.violation('impl-violation', {'sources': j['sources'], 'backend': j['backend'], 'reference_sources': jobs[[m for m in range(len(meta)) if meta[m] == (i, 'reference')][0]]['sources']},
                         order=desc, why='the same set of definitions in another order (%s) gives other bindings or warnings' % desc,
                         first_difference=first_diff(base.get('generated') or base.get('err') or '', r.get('generated') or r.get('err') or ''))
    # history with the same names: a twin of every input (all numerals shifted by one, names kept) is compiled first, then the
    # input itself -- anything remembered under a name from an earlier compilation shows
    import re as _re
    tw_jobs = []
    for i, j in [(i, jobs[m]) for m, (i, d) in enumerate(meta) if d == 'reference']:
        twin = [_re.sub(r'(?<![A-Za-z0-9-])(-?)(\d+)(?![A-Za-z0-9-])', lambda m: str(int(m.group(1) + m.group(2)) + 1), t) for t in j['sources']]
        tw_jobs.append({'sources': twin, 'backend': j['backend']})
        tw_jobs.append(j)
    tw = run_harness([{'op': 'compile_many', 'jobs': tw_jobs, 'threads': 1, 'warmup': []}], per_case_timeout=900)[0]
    if 'results' in tw:
        refs_i = [i for (i, d) in meta if d == 'reference']
        for n, i in enumerate(refs_i):
            r = tw['results'][2 * n + 1]
            base = ref.get(i)
            ck.count('after-twin')
            if base is None or r is None:
                continue
            if base.get('generated') != r.get('generated') or base.get('warnings') != r.get('warnings') or base.get('ok') != r.get('ok'):
                ck.violation('impl-violation', {'sources': tw_jobs[2 * n + 1]['sources'], 'backend': tw_jobs[2 * n + 1]['backend'],
                                                'preceded_by': tw_jobs[2 * n]['sources']},
                             why='a compilation preceded in the same process by one of a module with the same names but other numbers gives other bindings',
                             first_difference=first_diff(base.get('generated') or '', r.get('generated') or ''))
    # concurrency and history: the reference inputs again, 2..16 at a time, in a fresh process with another warm-up
    refs = [(i, jobs[m]) for m, (i, d) in enumerate(meta) if d == 'reference']
    for threads in ([2, 16] if quick else [2, 4, 8, 16]):
        batch = [j for _, j in refs] + [{'sources': [t], 'backend': 'rasn'} for t in corpus_jobs[:40]]
        order = list(range(len(batch)))
        ck.rng.shuffle(order)
        shuffled = [batch[o] for o in order]
        out = run_harness([{'op': 'compile_many', 'jobs': shuffled, 'threads': threads, 'warmup': list(reversed(warm))[:threads % 5]}],
                          per_case_timeout=900)[0]
        if 'results' not in out:
            ck.violation('impl-violation', {'threads': threads}, impl=out, why='concurrent compilations crashed the process')
            continue
        for pos, r in zip(order, out['results']):
            ck.count('concurrent-%d' % threads)
            if pos >= len(refs):
                continue
            i, j = refs[pos]
            base = ref.get(i)
            if base is None or r is None:
                continue
            if base.get('generated') != r.get('generated') or base.get('warnings') != r.get('warnings') or base.get('ok') != r.get('ok'):
                ck.violation('impl-violation', {'sources': j['sources'], 'backend': j['backend']}, threads=threads,
                             why='a compilation run concurrently with %d others / after other compilations gives other bindings or warnings' % threads,
                             first_difference=first_diff(base.get('generated') or '', r.get('generated') or ''))
    # real-world modules: twice in one process, and reversed assignment order is not attempted (comments attach to assignments)
    if corpus_jobs:
        cj = [{'sources': [t], 'backend': 'rasn'} for t in corpus_jobs]
        a = run_harness([{'op': 'compile_many', 'jobs': cj + cj, 'threads': 4, 'warmup': []}], per_case_timeout=1800)[0]
        if 'results' in a:
            n = len(cj)
            for t, x, y in zip(corpus_jobs, a['results'][:n], a['results'][n:]):
                ck.note_case('corpus:' + t[:200])
                ck.count('corpus-repeat')
                if x != y:
                    ck.violation('impl-violation', {'sources': [t[:3000]], 'backend': 'rasn'}, why='a real-world module compiled twice in one process gives two results')
    ck.coverage['traces_validated_against_impl'] = len(results)


def first_diff(a, b):
    for i, (x, y) in enumerate(zip(a, b)):
        if x != y:
            return {'at': i, 'reference': a[max(0, i - 60):i + 60], 'other': b[max(0, i - 60):i + 60]}
    return {'at': min(len(a), len(b)), 'reference_len': len(a), 'other_len': len(b)}


def replay(ck, data):
    ck.prove('Props/C11.v', ['RasnV.Props.C11'], extra=['Corr/Driver.vo'])
    for v in data.get('violations', []):
        c = v.get('case')
        if isinstance(c, dict) and c.get('sources') and c.get('reference_sources'):
            out = run_harness([{'op': 'compile_many', 'jobs': [{'sources': c['reference_sources'], 'backend': c.get('backend', 'rasn')},
                                                               {'sources': c['sources'], 'backend': c.get('backend', 'rasn')}], 'threads': 1, 'warmup': []}])[0]
            ck.note_case(json.dumps(c)[:300])
            rs = out.get('results') or [None, None]
            if rs[0] != rs[1]:
                ck.violation('impl-violation', c, why='still differs from the reference order')
