"""Symbolic evaluator for the initialiser expressions the rasn generator emits (whitespace-free token text
as produced by the harness projection).  Types are not tracked: wrappers (`T(x)`, `Some(x)`, `LazyLock::new(||x)`) are
transparent; what is compared is the abstract value denoted."""
import re

TOK = re.compile(r'''
    (?P<str>"(?:\\.|[^"\\])*") |
    (?P<num>\d[\d_]*(?:[iu](?:8|16|32|64|128|size))?) |
    (?P<life>'[A-Za-z_][A-Za-z0-9_]*) |
    (?P<id>(?:r\#)?[A-Za-z_][A-Za-z0-9_]*) |
    (?P<p>::|\|\||[()\[\]<>&*.,!\-|;{}])
''', re.X)


class EvalError(Exception):
    pass


def tokenize(s):
    out, pos = [], 0
    s = s.strip()
    while pos < len(s):
        if s[pos].isspace():
            pos += 1
            continue
        m = TOK.match(s, pos)
        if not m:
            raise EvalError('cannot tokenize at %r' % s[pos:pos + 20])
        out.append((m.lastgroup, m.group(0)))
        pos = m.end()
    return out


def unescape_rust(lit):
    body = lit[1:-1]
    out, i = [], 0
    while i < len(body):
        c = body[i]
        if c != '\\':
            out.append(c)
            i += 1
            continue
        n = body[i + 1]
        if n == 'u':
            j = body.index('}', i)
            out.append(chr(int(body[i + 3:j].replace('_', ''), 16)))
            i = j + 1
        elif n == 'x':
            out.append(chr(int(body[i + 2:i + 4], 16)))
            i += 4
        else:
            out.append({'n': '\n', 't': '\t', 'r': '\r', '0': '\0', '\\': '\\', '"': '"', "'": "'"}.get(n, n))
            i += 2
    return ''.join(out)


class Parser:
    def __init__(self, toks):
        self.t = toks
        self.i = 0

    def peek(self, k=0):
        return self.t[self.i + k] if self.i + k < len(self.t) else (None, None)

    def eat(self, v=None):
        k, x = self.peek()
        if x is None or (v is not None and x != v):
            raise EvalError('expected %r, found %r' % (v, x))
        self.i += 1
        return x

    def args(self, close):
        out = []
        while self.peek()[1] != close:
            out.append(self.expr())
            if self.peek()[1] == ',':
                self.eat(',')
        self.eat(close)
        return out

    def expr(self):
        v = self.unary()
        while self.peek()[1] == '.':
            self.eat('.')
            m = self.eat()
            self.eat('(')
            a = self.args(')')
            v = ('method', m, v, a)
        return v

    def unary(self):
        k, x = self.peek()
        if x in ('&', '*'):
            self.eat()
            return self.unary()
        if x == '-':
            self.eat()
            v = self.unary()
            if v[0] != 'int':
                raise EvalError('negation of a non-literal')
            return ('int', -v[1])
        if x == '||':
            self.eat()
            return self.expr()
        return self.primary()

    def skip_angle(self):
        depth = 0
        while True:
            x = self.eat()
            if x == '<':
                depth += 1
            elif x == '>':
                depth -= 1
                if depth == 0:
                    return

    def primary(self):
        k, x = self.peek()
        if k == 'num':
            self.eat()
            return ('int', int(re.sub(r'[iu](?:8|16|32|64|128|size)$', '', x).replace('_', '')))
        if k == 'str':
            self.eat()
            return ('strlit', unescape_rust(x))
        if x == '(':
            self.eat()
            if self.peek()[1] == ')':
                self.eat()
                return ('null',)
            v = self.expr()
            self.eat(')')
            return v
        if x == '[':
            self.eat()
            return ('arr', self.args(']'))
        if x == '<':
            self.skip_angle()
            path = ['<q>']
            while self.peek()[1] == '::':
                self.eat('::')
                path.append(self.eat())
            return self.after_path(path)
        if k == 'id':
            path = [self.eat()]
            while self.peek()[1] == '::':
                self.eat('::')
                if self.peek()[1] == '<':
                    self.skip_angle()
                    continue
                path.append(self.eat())
            return self.after_path(path)
        raise EvalError('unexpected token %r' % x)

    def after_path(self, path):
        k, x = self.peek()
        if x == '!':
            self.eat()
            op = self.eat()
            a = self.args(']' if op == '[' else ')')
            return ('macro', path, a)
        if x == '(':
            self.eat()
            return ('call', path, self.args(')'))
        return ('path', path)


def parse(text):
    p = Parser(tokenize(text))
    v = p.expr()
    if p.i != len(p.t):
        raise EvalError('trailing tokens %r' % (p.t[p.i:p.i + 4],))
    return v


STRING_TYPES = {'UniversalString', 'BmpString', 'Ia5String', 'PrintableString', 'VisibleString', 'NumericString', 'Utf8String',
                'GeneralString', 'TeletexString', 'GraphicString'}
TRANSPARENT_METHODS = {'into_iter', 'unwrap', 'to_owned', 'clone', 'into', 'to_vec', 'expect', 'iter', 'cloned', 'to_string'}


def ev(node, consts, depth=0):
    """-> abstract value: ('int',n) ('bool',b) ('null',) ('str',s) ('bits',[..]) ('octets',[..]) ('oid',[..]) ('enum',name)
    ('choice',name,v) ('seq',[..]) ('list',[..]) ('arr',[..]) ('unknown',text)"""
    if depth > 40:
        raise EvalError('reference cycle')
    k = node[0]
    if k in ('int', 'null'):
        return node
    if k == 'strlit':
        return ('str', node[1])
    if k == 'arr':
        return ('arr', [ev(x, consts, depth + 1) for x in node[1]])
    if k == 'macro':
        if node[1][-1] == 'vec':
            return ('list', [ev(x, consts, depth + 1) for x in node[2]])
        raise EvalError('macro %s' % '::'.join(node[1]))
    if k == 'method':
        _, m, recv, a = node
        v = ev(recv, consts, depth + 1)
        if m in TRANSPARENT_METHODS:
            return v
        if m == 'collect':
            if v[0] == 'arr' and all(x[0] == 'bool' for x in v[1]):
                return ('bits', [x[1] for x in v[1]])
            raise EvalError('collect of %r' % (v[0],))
        if m == 'concat':
            if v[0] != 'arr':
                raise EvalError('concat of %r' % (v[0],))
            out = []
            for x in v[1]:
                if x[0] == 'oid':
                    out += x[1]
                elif x[0] == 'arr' and all(y[0] == 'int' for y in x[1]):
                    out += [y[1] for y in x[1]]
                else:
                    raise EvalError('concat part %r' % (x[0],))
            return ('arr', [('int', n) for n in out])
        raise EvalError('method %s' % m)
    if k == 'path':
        p = node[1]
        if len(p) == 1:
            if p[0] == 'true':
                return ('bool', True)
            if p[0] == 'false':
                return ('bool', False)
            if p[0] == 'None':
                return ('absent',)
            if p[0] in consts:
                return ev(consts[p[0]], consts, depth + 1)
            raise EvalError('unresolved name %s' % p[0])
        return ('enum', p[-1], p[-2] if len(p) >= 2 else None)
    if k == 'call':
        p, a = node[1], node[2]
        last = p[-1]
        if p == ['BitString', 'new'] and not a:
            return ('bits', [])
        if p == ['LazyLock', 'new'] or p == ['Some'] or p == ['Box', 'new']:
            return ev(a[0], consts, depth + 1)
        if p[0] == '<q>' and last == 'from':          # <OctetString as From<&'static [u8]>>::from(&[..])
            v = ev(a[0], consts, depth + 1)
            if v[0] == 'arr' and all(x[0] == 'int' for x in v[1]):
                return ('octets', [x[1] for x in v[1]])
            raise EvalError('octet string from %r' % (v[0],))
        if p[0] == 'Oid' and last in ('const_new', 'new'):
            v = ev(a[0], consts, depth + 1)
            if v[0] == 'arr' and all(x[0] == 'int' for x in v[1]):
                return ('oid', [x[1] for x in v[1]])
            raise EvalError('oid from %r' % (v[0],))
        if len(p) == 2 and last in ('from', 'try_from'):
            v = ev(a[0], consts, depth + 1)
            return v
        if len(p) == 2 and last == 'new' and p[0] in STRING_TYPES and len(a) == 1:
            return ev(a[0], consts, depth + 1)
        if len(p) == 2 and last == 'new':
            return ('seq', [ev(x, consts, depth + 1) for x in a])
        if len(p) == 2:
            if len(a) != 1:
                raise EvalError('variant %s with %d arguments' % (last, len(a)))
            return ('choice', last, ev(a[0], consts, depth + 1))
        if len(p) == 1:
            if len(a) != 1:
                raise EvalError('wrapper %s with %d arguments' % (last, len(a)))
            return ev(a[0], consts, depth + 1)
        raise EvalError('call %s' % '::'.join(p))
    raise EvalError('node %r' % (k,))


def evaluate(text, const_texts):
    """text: initialiser; const_texts: name -> initialiser text of the module's consts/statics"""
    consts = {}
    for n, t in const_texts.items():
        try:
            consts[n] = parse(t)
        except EvalError:
            pass
    return ev(parse(text), consts)
