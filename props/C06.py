"""C06 -- the chosen Rust integer type can hold every permitted value."""
import re
from common import cz, cn, cbool, copt, clist, run_harness, coq_eval_bad, coq_eval_show
from props import pvgen as G
from props.C04 import flat_term, with_marker

REQ = ['RasnV.Corr.C06']
KS = [7, 8, 15, 16, 31, 32, 63, 64]
POINTS = [None, 0, 1, -1]  # None = MIN/MAX
for k in KS:
    for s in (1, -1):
        for d in (0, 1, -1):
            POINTS.append(s * 2 ** k + d)
FIN = [p for p in POINTS if p is not None]
assert len(FIN) == 51

TOK2TY = {'u8': 'Uint8', 'u16': 'Uint16', 'u32': 'Uint32', 'u64': 'Uint64', 'i8': 'Int8', 'i16': 'Int16',
          'i32': 'Int32', 'i64': 'Int64', 'Integer': 'Unbounded'}
TYS = ['Int8', 'Uint8', 'Int16', 'Uint16', 'Int32', 'Uint32', 'Int64', 'Uint64', 'Unbounded']


def oz(x):
    return copt(x, cz)


def direct_cases(ck):
    cases = []
    for lo in POINTS:
        for hi in POINTS:
            for ext in (False, True):
                cases.append({'op': 'int_type_token', 'min': None if lo is None else str(lo),
                              'max': None if hi is None else str(hi), 'ext': ext, '_m': (lo, hi, ext)})
                for sext in (False, True):
                    cases.append({'op': 'int_constraint', 'min': None if lo is None else str(lo),
                                  'max': None if hi is None else str(hi), 'ext': ext, 'ext_spec': sext,
                                  '_m': (lo, hi, ext, sext)})
    for a in TYS:
        for b in TYS:
            cases.append({'op': 'max_restrictive', 'a': a, 'b': b, '_m': (a, b)})
    return cases


def asn_bound(x, side):
    return ('MIN' if side == 0 else 'MAX') if x is None else str(x)


def e2e_module(lo, hi, ext):
    c = '(%s..%s%s)' % (asn_bound(lo, 0), asn_bound(hi, 1), ', ...' if ext else '')
    lit = lo if lo is not None else hi
    parts = ['Tt ::= INTEGER %s' % c,
             'Pp ::= INTEGER ((%s..%s)%s)' % (asn_bound(lo, 0), asn_bound(hi, 1), ', ...' if ext else ''),
             'Ss ::= SEQUENCE { a INTEGER %s }' % c,
             'Ll ::= SEQUENCE OF INTEGER %s' % c,
             'Cc ::= CHOICE { c INTEGER %s }' % c,
             'Base ::= INTEGER',
             'Rr ::= SEQUENCE { r Base %s }' % c]
    if lit is not None:
        parts.append('vv Tt ::= %d' % lit)
        parts.append('Dd ::= SEQUENCE { d INTEGER %s DEFAULT %d }' % (c, lit))
        parts.append('ww INTEGER %s ::= %d' % (c, lit))
        parts.append('Ch ::= CHOICE { alt SEQUENCE { d INTEGER %s DEFAULT %d }, other NULL }' % (c, lit))
    if lo is not None and hi is not None and lo <= hi:
        # the upper bound given by a value reference; a DEFAULT and a value through a reference to that type
        parts.append('bnd INTEGER ::= %d' % hi)
        parts.append('Rv ::= INTEGER (%d..bnd%s)' % (lo, ', ...' if ext else ''))
        parts.append('Dr ::= SEQUENCE { d Rv DEFAULT %d }' % lo)      # sorts before Rv: linked after it
        parts.append('Zr ::= SEQUENCE { d Rv DEFAULT %d }' % lo)      # sorts after Rv: linked before it
        parts.append('vr Rv ::= %d' % lo)
    return 'M DEFINITIONS AUTOMATIC TAGS ::= BEGIN\n' + '\n'.join(parts) + '\nEND\n'


def e2e_cases(ck, pairs):
    return [{'op': 'compile', 'sources': [e2e_module(lo, hi, ext)], '_m': (lo, hi, ext)} for lo, hi, ext in pairs]


def find(items, kind, name):
    for m in items:
        for it in m.get('items', []):
            if it.get('kind') == kind and it.get('name') == name:
                return it
    return None


def int_literals(expr):
    """integer literals of an initialiser expression (normalised token text)"""
    out = []
    for m in re.finditer(r'(-?)(\d+)(?:i128|u8|u16|u32|u64|i8|i16|i32|i64)?\b', expr):
        out.append(int(m.group(1) + m.group(2)))
    return out


def observations(res, lo, hi, ext):
    """-> list of (position, type token, literals declared with that type)"""
    obs = []
    items = res['items']
    lit = lo if lo is not None else hi
    t = find(items, 'struct', 'Tt')
    tt = t['fields'][0]['ty'] if t else None
    lits_t = []
    v = find(items, 'const', 'VV') or find(items, 'static', 'VV')
    if v is not None:
        lits_t = [x for x in int_literals(v['expr']) if True]
    if lit is not None and v is None:
        obs.append(('missing', 'VV', []))
    if t:
        obs.append((0, tt, lits_t))
    else:
        obs.append(('missing', 'Tt', []))
    p = find(items, 'struct', 'Pp')
    obs.append((3, p['fields'][0]['ty'], [])) if p else obs.append(('missing', 'Pp', []))
    s = find(items, 'struct', 'Ss')
    obs.append((1, s['fields'][0]['ty'], [])) if s else obs.append(('missing', 'Ss', []))
    l = find(items, 'struct', 'AnonymousLl')
    if l:
        obs.append((0, l['fields'][0]['ty'], []))
    else:
        l2 = find(items, 'struct', 'Ll')
        m = re.match(r'SequenceOf<(\w+)>$', l2['fields'][0]['ty']) if l2 else None
        obs.append((1, m.group(1), [])) if m else obs.append(('missing', 'Ll', []))
    c = find(items, 'enum', 'Cc')
    obs.append((1, c['variants'][0]['fields'][0]['ty'], [])) if c else obs.append(('missing', 'Cc', []))
    d = find(items, 'struct', 'Dd')
    if lit is not None:
        if d:
            f = find(items, 'fn', 'dd_d_default')
            lits = int_literals(' '.join(f['body'])) if f else []
            if f and f['ret'] != d['fields'][0]['ty']:
                obs.append(('mismatch', 'default fn type %s vs field %s' % (f['ret'], d['fields'][0]['ty']), []))
            obs.append((1, d['fields'][0]['ty'], lits))
        else:
            obs.append(('missing', 'Dd', []))
        ca = find(items, 'struct', 'ChAlt')
        if ca:
            f = find(items, 'fn', 'ch_alt_d_default')
            if f is None:
                obs.append(('missing', 'ch_alt_d_default', []))
            else:
                body = ' '.join(f['body'])
                if f['ret'] != ca['fields'][0]['ty']:
                    obs.append(('mismatch', 'default fn type %s vs field %s (CHOICE alternative)' % (f['ret'], ca['fields'][0]['ty']), []))
                if ('Integer::from' in body.replace(' ', '')) != (f['ret'] == 'Integer'):
                    obs.append(('mismatch', 'literal of a DEFAULT in a CHOICE alternative is not written for its type %s: %s' % (f['ret'], body[:80]), []))
                obs.append((1, ca['fields'][0]['ty'], int_literals(body)))
        else:
            obs.append(('missing', 'ChAlt', []))
        if d:
            f = find(items, 'fn', 'dd_d_default')
            if f is not None:
                body = ' '.join(f['body'])
                if ('Integer::from' in body.replace(' ', '')) != (f['ret'] == 'Integer'):
                    obs.append(('mismatch', 'literal of a DEFAULT is not written for its type %s: %s' % (f['ret'], body[:80]), []))
        rv = find(items, 'struct', 'Rv')
        if lo is not None and hi is not None and lo <= hi:
            if rv is None:
                obs.append(('missing', 'Rv', []))
            else:
                rty = rv['fields'][0]['ty']
                obs.append((0, rty, []))
                f = find(items, 'fn', 'dr_d_default')
                fz = find(items, 'fn', 'zr_d_default')
                v2 = find(items, 'const', 'VR') or find(items, 'static', 'VR')
                for what, expr in (('DEFAULT', ' '.join(f['body']) if f else None), ('DEFAULT in a type linked before the referenced one', ' '.join(fz['body']) if fz else None),
                                   ('value', v2['expr'] if v2 else None)):
                    if expr is None:
                        obs.append(('missing', 'Rv ' + what, []))
                    elif ('Integer::from' in expr.replace(' ', '')) != (rty == 'Integer'):
                        obs.append(('known-ref-bound', '%s through a reference to a type whose bound is a value reference: the type holds %s, '
                                    'the literal is written %s' % (what, rty, expr[:60]), []))
        w = find(items, 'const', 'WW') or find(items, 'static', 'WW')
        if w:
            ty = w['ty']
            m = re.match(r'LazyLock<(\w+)>$', ty)
            if m:
                ty = m.group(1)
            obs.append((2, ty, int_literals(w['expr'])))
        else:
            obs.append(('missing', 'WW', []))
    return obs


def judge(ck, cases, results):
    corr_terms = {'int_type_token': [], 'int_constraint': [], 'max_restrictive': [], 'e2e': []}
    corr_idx = {k: [] for k in corr_terms}
    spec_terms, spec_idx = [], []
    for i, (c, r) in enumerate(zip(cases, results)):
        op = c['op']
        m = c['_m']
        ck.note_case(op + repr(m), nontrivial=True)
        ck.count(op)
        if 'panic' in r or 'crash' in r or 'harness_error' in r:
            ck.violation('impl-crash', {k: v for k, v in c.items() if k != '_m'}, impl=r)
            continue
        if op in ('int_type_token', 'int_constraint'):
            ty = TOK2TY.get(r['ty'], r['ty'])
            if ty not in TYS:
                ck.violation('impl-violation', c, impl=r, why='unknown integer type token')
                continue
            if op == 'int_constraint':
                corr_terms[op].append('(%s, %s, %s, %s, %s)' % (oz(m[0]), oz(m[1]), cbool(m[2]), cbool(m[3]), ty))
            else:
                corr_terms[op].append('(%s, %s, %s, %s)' % (oz(m[0]), oz(m[1]), cbool(m[2]), ty))
            corr_idx[op].append(i)
            # spec oracle directly on the hook output as well
            spec_terms.append('(%s, %s, %s, %s, @nil Z)' % (oz(m[0]), oz(m[1]), cbool(m[2] or (len(m) > 3 and m[3])), ty))
            spec_idx.append(i)
            if m[0] is not None and m[1] is not None and m[0] > m[1]:
                spec_terms.pop(); spec_idx.pop()     # inverted range: nothing permitted, nothing to hold
        elif op == 'max_restrictive':
            corr_terms[op].append('(%s, %s, %s)' % (m[0], m[1], r['ty']))
            corr_idx[op].append(i)
        elif op == 'compile':
            lo, hi, ext = m
            if not r.get('ok'):
                ck.violation('impl-violation', c['sources'][0], impl=r, why='valid INTEGER module rejected')
                continue
            if r.get('warnings'):
                ck.count('e2e-warning')
            if 'items' not in r:
                ck.violation('impl-violation', c['sources'][0], impl=r, why='generated code does not parse')
                continue
            for pos, tok, lits in observations(r, lo, hi, ext):
                if pos == 'known-ref-bound':
                    if ck.is_known(KNOWN_REF_BOUND):
                        ck.known_hit(KNOWN_REF_BOUND, {'asn1': [l for l in c['sources'][0].split('\n') if l.startswith(('bnd', 'Rv', 'Dr', 'vr'))], 'what': tok})
                    else:
                        ck.violation('impl-violation', c['sources'][0], why=tok, warnings=r.get('warnings'))
                    continue
                if pos in ('missing', 'mismatch'):
                    ck.violation('impl-violation', c['sources'][0], why='%s %s' % (pos, tok), warnings=r.get('warnings'))
                    continue
                ty = TOK2TY.get(tok)
                if ty is None:
                    ck.violation('impl-violation', c['sources'][0], why='unexpected integer type token %r' % tok)
                    continue
                if pos in (0, 1, 3):
                    corr_terms['e2e'].append('(%s, %s, %s, %s, %s)' % (cn(pos), oz(lo), oz(hi), cbool(ext), ty))
                    corr_idx['e2e'].append(i)
                spec_terms.append('(%s, %s, %s, %s, %s)' % (oz(lo), oz(hi), cbool(ext), ty, clist(lits, cz) if lits else '@nil Z'))
                spec_idx.append(i)
    fn = {'int_type_token': ('corr_token', '(option Z * option Z * bool * int_ty)'),
          'int_constraint': ('corr_constraint', '(option Z * option Z * bool * bool * int_ty)'),
          'max_restrictive': ('corr_max_restrictive', '(int_ty * int_ty * int_ty)'),
          'e2e': ('corr_e2e', '(N * option Z * option Z * bool * int_ty)')}
    # spec oracle first: a failure here is a violation of the property by the implementation
    spec_bad = set()
    for j in coq_eval_bad('C06', REQ, 'option Z * option Z * bool * int_ty * list Z', 'spec_e2e', spec_terms, label='spec'):
        i = spec_idx[j]
        spec_bad.add(i)
        c = cases[i]
        ck.violation('impl-violation', {k: v for k, v in c.items() if k != '_m'}, spec_term=spec_terms[j],
                     why='the observed integer type does not satisfy the C06 oracle (holds both ends and every literal; '
                         'fixed width only if non-extensible and finite)')
    for op, terms in corr_terms.items():
        for j in coq_eval_bad('C06', REQ, fn[op][1], fn[op][0], terms, label=op):
            i = corr_idx[op][j]
            if i in spec_bad:
                continue
            ck.broken.append({'kind': 'correspondence', 'item': 'H6 ' + op,
                              'detail': 'model and implementation disagree on %s (term %s)' % (
                                  {k: v for k, v in cases[i].items() if k != '_m'}, terms[j])})
    ck.coverage['traces_validated_against_impl'] = sum(len(v) for v in corr_terms.values())


def setop_cases(ck, n):
    cases = []
    pool = [p for p in FIN if abs(p) < 2 ** 65]
    for _ in range(n):
        k = ck.rng.choice([1, 2, 2, 3])
        elems = [G.rand_int_elem(ck.rng, allow_x=False, pool=pool) for _ in range(k)]
        ops = [ck.rng.choice(['union', 'inter', 'except']) for _ in range(k - 1)]
        if ops == ['except', 'except']:
            continue
        if any(e['k'] == 'range' and e['lo'] and e['hi'] and int(e['lo']['i']) > int(e['hi']['i']) for e in elems):
            continue
        marker = ck.rng.random() < 0.4
        paren = k == 1 and ck.rng.random() < 0.5          # ((lo..hi), ...): marker outside the parenthesised element
        if paren:
            text = '((%s)%s)' % (G.t_elem(elems[0]), ', ...' if marker else '')
            cons = {'set': G.E(elems[0]), 'ext': marker}
        else:
            text = G.t_constraint({'set': G.chain(elems, ops), 'ext': marker})
            cons = {'set': G.chain(with_marker(elems, marker), ops), 'ext': False}
        src = ('M DEFINITIONS AUTOMATIC TAGS ::= BEGIN\nTt ::= INTEGER %s\nSs ::= SEQUENCE { a INTEGER %s }\n'
               'Ll ::= SEQUENCE OF INTEGER %s\nCc ::= CHOICE { c INTEGER %s }\nEND\n' % (text, text, text, text))
        cases.append({'op': 'compile', 'sources': [src], '_s': (elems, ops, marker, paren, cons)})
        if not paren and ck.rng.random() < 0.5:
            # the same expression with one operand written as the inclusion of a type constrained to exactly that operand:
            # the permitted values are the same, so the same oracle applies (no correspondence: the model has no linked inclusion)
            j = ck.rng.randrange(k)
            shown = [dict(e) for e in elems]
            shown[j] = {'k': 'ref', 'name': 'Inc'}
            text2 = G.t_constraint({'set': G.chain(shown, ops), 'ext': marker})
            src2 = ('M DEFINITIONS AUTOMATIC TAGS ::= BEGIN\nInc ::= INTEGER (%s)\nTt ::= INTEGER %s\nSs ::= SEQUENCE { a INTEGER %s }\n'
                    'Ll ::= SEQUENCE OF INTEGER %s\nCc ::= CHOICE { c INTEGER %s }\nEND\n' % (G.t_elem(elems[j]), text2, text2, text2, text2))
            cases.append({'op': 'compile', 'sources': [src2], '_s': (elems, ops, marker, paren, None)})
    return cases


def judge_setop(ck, cases, results):
    spec_terms, spec_idx, corr_terms, corr_idx = [], [], [], []
    for i, (c, r) in enumerate(zip(cases, results)):
        elems, ops, marker, paren, cons = c['_s']
        ck.note_case('setop:' + c['sources'][0])
        ck.count('setop' if cons is not None else 'setop-inclusion')
        if 'panic' in r or 'crash' in r:
            ck.violation('impl-crash', c['sources'][0], impl=r)
            continue
        if not r.get('ok') or 'items' not in r:
            ck.count('setop-rejected')
            continue
        obs = []
        t = find(r['items'], 'struct', 'Tt')
        if t:
            obs.append(('assign', t['fields'][0]['ty']))
        s_ = find(r['items'], 'struct', 'Ss')
        if s_:
            obs.append(('component', s_['fields'][0]['ty']))
        l = find(r['items'], 'struct', 'AnonymousLl')
        if l:
            obs.append(('element', l['fields'][0]['ty']))
        else:
            l2 = find(r['items'], 'struct', 'Ll')
            m = re.match(r'SequenceOf<(\w+)>$', l2['fields'][0]['ty']) if l2 else None
            if m:
                obs.append(('element-inline', m.group(1)))
        ch = find(r['items'], 'enum', 'Cc')
        if ch:
            obs.append(('alternative', ch['variants'][0]['fields'][0]['ty']))
        if len(obs) < 4 and not r.get('warnings'):
            ck.violation('impl-violation', c['sources'][0], why='a constrained INTEGER was not generated', got=obs)
        for pos, tok in obs:
            ty = TOK2TY.get(tok)
            if ty is None:
                ck.violation('impl-violation', c['sources'][0], why='%s: unexpected integer type token %r' % (pos, tok))
                continue
            fl = flat_term(with_marker(elems, marker and not paren), ops)
            spec_terms.append('(%s, %s, %s)' % (fl, cbool(marker), ty))
            spec_idx.append((i, pos))
            if cons is not None and pos in ('component', 'alternative', 'element-inline'):
                corr_terms.append('(%s, %s)' % (clist([G.c_constraint(cons)]), ty))
                corr_idx.append((i, pos))
    from common import coq_eval_bad_multi
    bad, mono = coq_eval_bad_multi('C06', REQ, 'flat * bool * int_ty', ['spec_setop', 'fun c => ops_monotone (fst (fst c))'], spec_terms, label='setop_spec')
    nonmono = set(mono)
    failed = set()
    for j in bad:
        i, pos = spec_idx[j]
        failed.add(i)
        if j in nonmono and ck.is_known('C06-precedence'):
            # the operator sequence is not nested as X.680 prescribes (C04-precedence): the folded bound is not the effective one
            ck.known_hit('C06-precedence', {'asn1': cases[i]['sources'][0].split('\n')[1], 'position': pos})
            continue
        ck.violation('impl-violation', cases[i]['sources'][0], position=pos, term=spec_terms[j],
                     why='the integer type chosen for a set-operation / parenthesised constraint cannot hold a permitted value or is '
                         'fixed-width although the constraint is extensible or unbounded')
    for j in coq_eval_bad('C06', REQ, 'list constraint * int_ty', 'corr_component', corr_terms, label='setop_corr'):
        i, pos = corr_idx[j]
        if i in failed:
            continue
        ck.broken.append({'kind': 'correspondence', 'item': 'H6/H5 component width through the fold',
                          'detail': 'model and implementation disagree at %s on %s (%s)' % (pos, cases[i]['sources'][0], corr_terms[j])})


KNOWN_DEFAULT_SETOP = 'C06-default-fn-under-set-operation'
KNOWN_REF_BOUND = 'C06-literal-through-reference-with-value-bound'


def serial_cases(ck, n):
    """serially applied value constraints, each within the one before: (lo..hi), (lo..hi, ...), ((lo..hi), ...), (v), (v, ...)"""
    rng = ck.rng
    out = []
    for k in range(n):
        lo, hi = sorted([rng.choice(FIN), rng.choice(FIN)])
        depth = rng.randint(2, 3)
        cons, terms = [], []
        for j in range(depth):
            if j > 0:
                a, b = sorted([rng.randint(lo, hi), rng.randint(lo, hi)]) if hi - lo < 2 ** 62 else sorted(rng.sample([lo, hi, lo + 1, hi - 1, (lo + hi) // 2], 2))
                lo, hi = a, b
            form = rng.choice(['r', 'r', 're', 'rs', 'v', 've'] if lo == hi else ['r', 'r', 'r', 're', 'rs'])
            if j > 0 and hi - lo >= 2 and rng.random() < 0.3:
                form = rng.choice(['u', 'ue'])
            if form in ('u', 'ue'):
                # a union of two adjacent pieces of lo..hi (same effective range), with or without a marker behind the last operand
                mid = rng.randint(lo, hi - 1)
                e = form == 'ue'
                cons.append('(%d..%d | %d..%d%s)' % (lo, mid, mid + 1, hi, ', ...' if e else ''))
                terms.append('(COther %s)' % cbool(e))
            elif form == 'r':
                cons.append('(%d..%d)' % (lo, hi)); terms.append('(CRange (Some %s) (Some %s) false false)' % (cz(lo), cz(hi))); e = False
            elif form == 're':
                cons.append('(%d..%d, ...)' % (lo, hi)); terms.append('(CRange (Some %s) (Some %s) true false)' % (cz(lo), cz(hi))); e = True
            elif form == 'rs':
                cons.append('((%d..%d), ...)' % (lo, hi)); terms.append('(CRange (Some %s) (Some %s) false true)' % (cz(lo), cz(hi))); e = True
            elif form == 'v':
                cons.append('(%d)' % lo); terms.append('(CSingle %s false false)' % cz(lo)); e = False
            else:
                cons.append('(%d, ...)' % lo); terms.append('(CSingle %s true false)' % cz(lo)); e = True
        c = ''.join(cons)
        src = ('Ms%d DEFINITIONS AUTOMATIC TAGS ::= BEGIN\nTt ::= INTEGER %s\nSs ::= SEQUENCE { a INTEGER %s }\nLl ::= SEQUENCE OF INTEGER %s\n'
               'vv Tt ::= %d\nDd ::= SEQUENCE { d INTEGER %s DEFAULT %d }\nEND\n' % (k, c, c, c, lo, c, lo))
        out.append({'op': 'compile', 'sources': [src], '_lo': lo, '_hi': hi, '_ext': e, '_terms': terms, '_c': c,
                    '_setop': any(t.startswith('(COther') for t in terms)})
    return out


def judge_serial(ck, cases, results):
    """assignment path against the model (int_type over the serial list); every position against the meaning: the type holds the
    effective range, and is fixed-width only if the last constraint -- which decides about extensibility, X.680 50.8 -- has no marker"""
    corr, cidx, spec, sidx = [], [], [], []
    for i, (c, r) in enumerate(zip(cases, results)):
        ck.note_case(c['sources'][0])
        ck.count('serial')
        if 'panic' in r or 'crash' in r:
            ck.violation('impl-violation', c['sources'][0], impl=r, why='compiler crashed')
            continue
        if not r.get('ok') or 'items' not in r or r.get('warnings'):
            ck.violation('impl-violation', c['sources'][0], impl={k: v for k, v in r.items() if k not in ('generated', 'items')},
                         why='serial value constraints, each within the one before, are rejected or warned about')
            continue
        items = r['items']
        seen = []
        t = find(items, 'struct', 'Tt')
        v = find(items, 'const', 'VV') or find(items, 'static', 'VV')
        if t:
            seen.append(('assignment', t['fields'][0]['ty'], int_literals(v['expr']) if v else [], True))
        s_ = find(items, 'struct', 'Ss')
        if s_:
            seen.append(('component', s_['fields'][0]['ty'], [], False))
        l = find(items, 'struct', 'AnonymousLl')
        if l:
            seen.append(('element', l['fields'][0]['ty'], [], True))
        d = find(items, 'struct', 'Dd')
        f = find(items, 'fn', 'dd_d_default')
        if d and f:
            seen.append(('default', d['fields'][0]['ty'], int_literals(' '.join(f['body'])), False))
            if f['ret'] != d['fields'][0]['ty']:
                if c['_setop'] and ck.is_known(KNOWN_DEFAULT_SETOP):
                    # the field takes the width of the folded range, the default function that of the constraints integer_type_of can read
                    ck.known_hit(KNOWN_DEFAULT_SETOP, {'constraint': c['_c'], 'field': d['fields'][0]['ty'], 'default_fn': f['ret']})
                else:
                    ck.violation('impl-violation', c['sources'][0], why='default fn type %s vs field %s' % (f['ret'], d['fields'][0]['ty']))
        if len(seen) < 4:
            ck.violation('impl-violation', c['sources'][0], why='a position is missing from the bindings', seen=[x[0] for x in seen])
        for pos, tok, lits, assign_path in seen:
            ty = TOK2TY.get(tok)
            if ty is None:
                ck.violation('impl-violation', c['sources'][0], position=pos, why='unexpected integer type token %s' % tok)
                continue
            if assign_path:
                corr.append('(%s, %s)' % (clist(c['_terms']), ty)); cidx.append((i, pos))
            spec.append('(%s, %s, %s, %s, %s)' % (oz(c['_lo']), oz(c['_hi']), cbool(c['_ext']), ty, clist(lits, cz) if lits else '@nil Z'))
            sidx.append((i, pos))
    bad = set()
    for j in coq_eval_bad('C06', REQ, 'option Z * option Z * bool * int_ty * list Z', 'spec_e2e', spec, label='serial_spec'):
        i, pos = sidx[j]
        bad.add(i)
        ck.violation('impl-violation', cases[i]['sources'][0], position=pos, constraint=cases[i]['_c'], term=spec[j],
                     why='serial constraints: the integer type does not hold the effective range or a literal, or is fixed-width although the '
                         'last constraint carries an extension marker')
    for j in coq_eval_bad('C06', REQ, 'list int_constraint * int_ty', 'corr_assign_serial', corr, label='serial_corr'):
        i, pos = cidx[j]
        if i not in bad:
            ck.broken.append({'kind': 'correspondence', 'item': 'Constraint::integer_type_of (serial constraints, assignment path)',
                              'detail': 'model and implementation disagree at %s on %s (%s)' % (pos, cases[i]['_c'], corr[j])})
    ck.coverage['traces_validated_against_impl'] = ck.coverage.get('traces_validated_against_impl', 0) + len(corr)


def run(ck):
    ck.coverage['rule'] = ('direct: all 53x53 (lower, upper) pairs of the boundary set x ext through int_type_token (hook) and '
                           'Constraint::integer_constraints (public), all 81 max_restrictive pairs; end-to-end: modules with the '
                           'range on a type assignment, SEQUENCE component, SEQUENCE OF element, CHOICE alternative, constrained '
                           'reference, value assignment and DEFAULT; a case is distinct by (op, lo, hi, ext); serial value constraints (2..3, each within the one '
                           'before, ranges and single values, markers in all three written forms) on assignment, component, element, value and DEFAULT')
    ck.assumptions += ['ladders are re-translated from source (T06, T07); the head of integer_constraints and the option prologue of '
                       'int_type_token are hand-modelled and tied by the correspondence H6',
                       'rustc integer type ranges are as in Spec/IntFits.v']
    ck.prove('Props/C06.v', ['RasnV.Props.C06'], extra=['Corr/C06.vo'], titems=['T06', 'T07'])
    cases = direct_cases(ck)
    pairs = [(lo, hi, ext) for lo in POINTS for hi in POINTS for ext in (False, True)
             if lo is None or hi is None or lo <= hi]
    if ck.tier == 'quick':
        near = [p for p in pairs if p[0] is None or p[1] is None or p[0] == p[1] or p[0] in (0, -1, 1)]
        rest = [p for p in pairs if p not in set(near)]
        ck.rng.shuffle(rest)
        pairs_run = near + rest[:250]
    else:
        pairs_run = pairs
        ck.coverage['exhaustive'] = True
    cases += e2e_cases(ck, pairs_run)
    results = run_harness(cases)
    for c in cases[-3:]:
        ck.sample({'asn1': c['sources'][0]})
    ck.sample({k: v for k, v in cases[0].items() if k != '_m'})
    judge(ck, cases, results)
    sc = setop_cases(ck, 400 if ck.tier == 'quick' else 8000)
    if sc:
        ck.sample({'asn1': sc[0]['sources'][0]})
    judge_setop(ck, sc, run_harness(sc))
    ser = serial_cases(ck, 150 if ck.tier == 'quick' else 3000)
    ck.sample({'asn1': ser[0]['sources'][0]})
    judge_serial(ck, ser, run_harness(ser))


def replay(ck, data):
    cases = []
    for v in data.get('violations', []):
        c = v.get('case')
        if isinstance(c, str):
            m = re.search(r'INTEGER \((\S+?)\.\.(\S+?)(, \.\.\.)?\)', c)
            lo = None if m.group(1) == 'MIN' else int(m.group(1))
            hi = None if m.group(2) == 'MAX' else int(m.group(2))
            cases.append({'op': 'compile', 'sources': [c], '_m': (lo, hi, bool(m.group(3)))})
        elif isinstance(c, dict) and c.get('op') in ('int_type_token', 'int_constraint'):
            c = dict(c)
            c['_m'] = (None if c.get('min') is None else int(c['min']), None if c.get('max') is None else int(c['max']), c.get('ext', False))
            cases.append(c)
    ck.prove('Props/C06.v', ['RasnV.Props.C06'], extra=['Corr/C06.vo'], titems=['T06', 'T07'])
    judge(ck, cases, run_harness(cases))
