"""C16 -- generated identifiers are legal and keep the ASN.1 name recoverable."""
import itertools
import json
import re
import translate
from common import cn, copt, cstr, run_harness, coq_eval_bad_multi

REQ = ['RasnV.Corr.C16']
STRICT = ("as break const continue crate else enum extern false fn for if impl in let loop match mod move mut pub ref "
          "return self Self static struct super trait true type unsafe use where while async await dyn").split()
RESERVED = "abstract become box do final macro override priv typeof unsized virtual yield try".split()
WEAK = "union macro_rules raw safe gen static".split()
LETTERS = 'abcdefghijklmnopqrstuvwxyzABCDEFGHIJKLMNOPQRSTUVWXYZ'
DIGITS = '0123456789'


def valid(s):
    return bool(re.fullmatch(r'[A-Za-z](?:-?[A-Za-z0-9])*', s))


def gen_names(ck):
    names = []
    small = 'abZ1-'
    for n in range(1, 6 if ck.tier == 'quick' else 7):
        for t in itertools.product(small, repeat=n):
            s = ''.join(t)
            if valid(s):
                names.append(s)
    kws = STRICT + RESERVED + WEAK
    for k in kws:
        k2 = k.replace('_', '-')
        for v in {k2, k2.capitalize(), k2.upper(), k2[0] + '-' + k2[1:] if len(k2) > 1 else k2, 'r-' + k2, 'R-' + k2,
                  k2 + '1', k2[:-1] + k2[-1].upper(), 'r' + k2, k2 + '-x', k2.swapcase()}:
            if valid(v):
                names.append(v)
    nrand = 1500 if ck.tier == 'quick' else 40000
    for _ in range(nrand):
        n = ck.rng.randint(1, 24)
        s = ck.rng.choice(LETTERS)
        while len(s) < n:
            r = ck.rng.random()
            if r < 0.12 and s[-1] != '-' and len(s) < n - 1:
                s += '-'
            elif r < 0.3:
                s += ck.rng.choice(DIGITS)
            else:
                s += ck.rng.choice(LETTERS)
        if valid(s):
            names.append(s)
    seen = set()
    out = []
    for s in names:
        if s not in seen:
            seen.add(s)
            out.append(s)
    return out


def e2e_module(name):
    t = name[0].upper() + name[1:]
    n = name[0].lower() + name[1:]
    return (t, n,
            '%s DEFINITIONS AUTOMATIC TAGS ::= BEGIN\n%s ::= SEQUENCE { %s INTEGER, zz-other BOOLEAN }\n'
            'Cho ::= CHOICE { %s INTEGER, zzz NULL }\nEnu ::= ENUMERATED { %s, yyy }\n%s INTEGER ::= 5\nEND\n'
            % (t, t, n, n, n, n))


KIND_TEMPLATES = {
    'seqof': '%s ::= SEQUENCE OF INTEGER',
    'setof': '%s ::= SET OF BOOLEAN',
    'integer': '%s ::= INTEGER (0..5)',
    'boolean': '%s ::= BOOLEAN',
    'null': '%s ::= NULL',
    'enumerated': '%s ::= ENUMERATED { aa, bb }',
    'choice': '%s ::= CHOICE { aa NULL, bb BOOLEAN }',
    'set': '%s ::= SET { aa NULL }',
    'bitstring': '%s ::= BIT STRING',
    'octetstring': '%s ::= OCTET STRING',
    'ia5': '%s ::= IA5String',
    'oid': '%s ::= OBJECT IDENTIFIER',
    'alias': 'Base-t ::= INTEGER\n%s ::= Base-t (0..3)',
    # the same kinds with tags, extension markers and a tag on the type itself: the name handling must not depend on them
    'choice-tagged': '%s ::= CHOICE { aa [0] NULL, bb [1] BOOLEAN }',
    'choice-ext': '%s ::= CHOICE { aa NULL, ..., bb BOOLEAN }',
    'sequence-tagged': '%s ::= SEQUENCE { aa [0] NULL, bb [1] BOOLEAN OPTIONAL }',
    'sequence-ext': '%s ::= SEQUENCE { aa NULL, ..., bb BOOLEAN }',
    'set-tagged': '%s ::= SET { aa [1] NULL, bb [0] BOOLEAN }',
    'enumerated-ext': '%s ::= ENUMERATED { aa, ..., bb }',
    'typetag-sequence': '%s ::= [APPLICATION 3] SEQUENCE { aa NULL }',
    'typetag-choice': '%s ::= [APPLICATION 4] CHOICE { aa NULL, bb BOOLEAN }',
    'typetag-integer': '%s ::= [PRIVATE 5] INTEGER',
    'typetag-enumerated': '%s ::= [2] EXPLICIT ENUMERATED { aa, bb }',
}
TAG_ENVS = ['AUTOMATIC TAGS', 'IMPLICIT TAGS', 'EXPLICIT TAGS', 'AUTOMATIC TAGS EXTENSIBILITY IMPLIED']


def kind_module(kind, t, env='AUTOMATIC TAGS'):
    return 'Mk DEFINITIONS %s ::= BEGIN\n%s\nEND\n' % (env, KIND_TEMPLATES[kind] % t)


def value_module(n):
    return ('Mv DEFINITIONS AUTOMATIC TAGS ::= BEGIN\nEnu ::= ENUMERATED { %s, yyy }\nCho ::= CHOICE { %s INTEGER, zzz NULL }\n'
            'Dd ::= SEQUENCE { dd Enu DEFAULT %s, ee Cho DEFAULT %s:7 }\nvv Enu ::= %s\nww Cho ::= %s:5\nEND\n' % (n, n, n, n, n, n))


def ident_ann(attrs):
    for a in attrs:
        m = re.search(r'identifier="([^"]*)"', a)
        if m:
            return m.group(1)
    return None


def judge(ck, cases, results, asn_kw):
    dterms, didx, eterms, eidx = [], [], [], []
    for i, (c, r) in enumerate(zip(cases, results)):
        if c['op'] == 'names':
            s = c['s']
            ck.note_case('d:' + s, nontrivial=('-' in s or any(ch.isupper() for ch in s) or s in STRICT + RESERVED))
            ck.count('direct')
            if 'panic' in r or 'crash' in r or any(isinstance(r.get(k), dict) for k in ('snake', 'const', 'enum', 'title')):
                ck.violation('impl-violation', {'op': 'names', 's': s}, impl=r, why='name conversion panicked on a legal ASN.1 identifier')
                continue
            dterms.append('(%s, %s, %s, %s, %s)' % (cstr(s), cstr(r['snake']), cstr(r['const']), cstr(r['enum']), cstr(r['title'])))
            didx.append(i)
        elif c.get('_kind'):
            kind, t = c['_kind'], c['_t']
            ck.note_case('k:%s:%s' % (kind, t))
            ck.count('kind')
            if 'panic' in r or 'crash' in r:
                ck.violation('impl-violation', c['sources'][0], impl=r, why='compiler crashed on legal names')
                continue
            if not r.get('ok') or 'items' not in r:
                if t in asn_kw or t.upper() == t:
                    ck.count('kind-skipped-reserved')
                    continue
                ck.violation('impl-violation', c['sources'][0], impl={k: v for k, v in r.items() if k != 'generated'},
                             why='module with a legal type name rejected or generated code unparsable')
                continue
            m = [x for x in r['items'] if x.get('kind') == 'mod'][0]
            decls = [it for it in m['items'] if it['kind'] in ('struct', 'enum') and it['name'] not in ('BaseT',)
                     and not it['name'].startswith('Anonymous')]
            if len(decls) != 1:
                ck.violation('impl-violation', c['sources'][0], why='expected exactly one declaration for the type',
                             names=[it.get('name') for it in m['items']], warnings=r.get('warnings'))
                continue
            eterms.append('(%s, %s, %s, %s)' % (cn(1), cstr(t), cstr(decls[0]['name']), copt(ident_ann(decls[0]['attrs']), cstr)))
            eidx.append(i)
        elif c.get('_value'):
            n = c['_value']
            ck.note_case('v:' + n)
            ck.count('value')
            if 'panic' in r or 'crash' in r:
                ck.violation('impl-violation', c['sources'][0], impl=r, why='compiler crashed on legal names')
                continue
            if not r.get('ok') or 'items' not in r:
                ck.violation('impl-violation', c['sources'][0], impl={k: v for k, v in r.items() if k != 'generated'},
                             why='module with values of legal names rejected or generated code unparsable')
                continue
            m = [x for x in r['items'] if x.get('kind') == 'mod'][0]
            enums = {it['name']: [v['name'] for v in it['variants']] for it in m['items'] if it['kind'] == 'enum'}
            texts = []
            for it in m['items']:
                if it['kind'] in ('const', 'static'):
                    texts.append(it['expr'])
                elif it['kind'] == 'fn':
                    texts += it['body']
            refs = re.findall(r'\b(Enu|Cho)::([A-Za-z_][A-Za-z0-9_]*)', ' '.join(texts))
            if len(refs) < 4 and not r.get('warnings'):
                ck.violation('impl-violation', c['sources'][0], why='value / DEFAULT of an enumerated or choice type not generated', refs=refs)
            for ty, var in refs:
                if var not in enums.get(ty, []):
                    ck.violation('impl-violation', c['sources'][0], why='a value refers to %s::%s, which is not a declared variant (%s)'
                                 % (ty, var, enums.get(ty)))
        else:
            t, n = c['_m']
            ck.note_case('e:' + n)
            ck.count('e2e')
            if 'panic' in r or 'crash' in r:
                ck.violation('impl-violation', c['sources'][0], impl=r, why='compiler crashed on legal names')
                continue
            if not r.get('ok'):
                if t in asn_kw or t.upper() == t:
                    ck.count('e2e-skipped-reserved')   # reserved word / all-caps reference: not a name the grammar offers
                    continue
                ck.violation('impl-violation', c['sources'][0], impl=r, why='module with legal names rejected')
                continue
            if 'items' not in r:
                ck.violation('impl-violation', c['sources'][0], impl={'syn_error': r.get('syn_error')},
                             why='generated code does not parse (illegal identifier)')
                continue
            mods = [m for m in r['items'] if m.get('kind') == 'mod']
            if len(mods) != 1:
                ck.violation('impl-violation', c['sources'][0], why='expected one module')
                continue
            m = mods[0]
            obs = [(0, t, m['name'], None)]
            structs = [it for it in m['items'] if it['kind'] == 'struct']
            enums = {it['name']: it for it in m['items'] if it['kind'] == 'enum'}
            consts = [it for it in m['items'] if it['kind'] in ('const', 'static')]
            if len(structs) != 1 or 'Cho' not in enums or 'Enu' not in enums or len(consts) != 1:
                ck.violation('impl-violation', c['sources'][0], why='expected items missing', warnings=r.get('warnings'),
                             names=[it.get('name') for it in m['items']])
                continue
            st = structs[0]
            obs.append((1, t, st['name'], ident_ann(st['attrs'])))
            f = st['fields'][0]
            obs.append((2, n, f['name'], ident_ann(f['attrs'])))
            v = enums['Cho']['variants'][0]
            obs.append((3, n, v['name'], ident_ann(v['attrs'])))
            v = enums['Enu']['variants'][0]
            obs.append((4, n, v['name'], ident_ann(v['attrs'])))
            obs.append((5, n, consts[0]['name'], None))
            for role, a, rname, ann in obs:
                eterms.append('(%s, %s, %s, %s)' % (cn(role), cstr(a), cstr(rname), copt(ann, cstr)))
                eidx.append(i)
    bs, bc = coq_eval_bad_multi('C16', REQ, 'str * str * str * str * str', ['spec_direct', 'corr_direct'], dterms, label='direct')
    for j in bs:
        c = cases[didx[j]]
        ck.violation('impl-violation', {'op': 'names', 's': c['s']}, impl=results[didx[j]],
                     why='a conversion yields an illegal / keyword identifier or loses the ASN.1 name')
    for j in set(bc) - set(bs):
        ck.broken.append({'kind': 'correspondence', 'item': 'H7 name conversions',
                          'detail': 'model and implementation disagree on %r: %s' % (cases[didx[j]]['s'], json.dumps(results[didx[j]]))})
    bs, bc = coq_eval_bad_multi('C16', REQ, 'N * str * str * option str', ['spec_e2e', 'corr_e2e'], eterms, label='e2e')
    for j in bs:
        ck.violation('impl-violation', cases[eidx[j]]['sources'][0], term=eterms[j],
                     why='generated identifier illegal, not derived from the ASN.1 name, or original spelling not annotated')
    for j in set(bc) - set(bs):
        ck.broken.append({'kind': 'correspondence', 'item': 'H11 names end-to-end',
                          'detail': 'model and implementation disagree: %s on %s' % (eterms[j], cases[eidx[j]]['sources'][0])})
    ck.coverage['traces_validated_against_impl'] = len(dterms) + len(eterms)


def run(ck):
    ck.coverage['rule'] = ('direct: every legal identifier over {a,b,Z,1,-} up to 5 (quick) / 6 (thorough) characters, every Rust '
                           'strict/reserved/weak keyword in 11 spellings, seeded random identifiers up to 24 characters, through the '
                           'four conversion hooks; end-to-end: a module using the name as module, type, component, alternative, '
                           'enumeral and value; non-trivial = contains a hyphen, an upper-case letter or is a keyword')
    ck.assumptions += ['identifiers are ASCII (the lexers accept nothing else)',
                       'keyword list of Spec/Idents.v = Rust reference, edition 2021 strict + reserved']
    ck.prove('Props/C16.v', ['RasnV.Props.C16'], extra=['Corr/C16.vo'], titems=['T01', 'T02'])
    st = translate.run({'T01'})
    asn_kw = set(st.get('T01', {}).get('keywords', []))
    names = gen_names(ck)
    cases = [{'op': 'names', 's': s} for s in names]
    e2e = [s for s in names if len(s) <= 4][:400] + [s for s in names if len(s) > 4]
    ck.rng.shuffle(e2e)
    kwnames = [s for s in names if s.lower().replace('-', '_') in STRICT + RESERVED + WEAK or s in STRICT + RESERVED]
    e2e = kwnames + e2e[:(700 if ck.tier == 'quick' else 8000)]
    for s in e2e:
        t, n, src = e2e_module(s)
        cases.append({'op': 'compile', 'sources': [src], '_m': (t, n)})
    interesting = kwnames + [s for s in names if '-' in s][:40]
    ck.rng.shuffle(interesting)
    kinds = sorted(KIND_TEMPLATES)
    for idx, s in enumerate(interesting[:(260 if ck.tier == 'quick' else 3000)]):
        t = s[0].upper() + s[1:]
        for kind in (kinds if idx < 30 else [kinds[idx % len(kinds)], kinds[(idx * 7 + 3) % len(kinds)]]):
            cases.append({'op': 'compile', 'sources': [kind_module(kind, t, TAG_ENVS[(idx + len(kind)) % len(TAG_ENVS)] if idx % 3 else 'AUTOMATIC TAGS')],
                          '_kind': kind, '_t': t})
    for s in interesting[:(150 if ck.tier == 'quick' else 2000)]:
        n = s[0].lower() + s[1:]
        cases.append({'op': 'compile', 'sources': [value_module(n)], '_value': n})
    ck.sample({'op': 'names', 's': names[len(names) // 2]})
    ck.sample({'asn1': cases[-1]['sources'][0]})
    judge(ck, cases, run_harness(cases), asn_kw)


def replay(ck, data):
    ck.prove('Props/C16.v', ['RasnV.Props.C16'], extra=['Corr/C16.vo'], titems=['T01', 'T02'])
    st = translate.run({'T01'})
    asn_kw = set(st.get('T01', {}).get('keywords', []))
    cases = []
    for v in data.get('violations', []):
        c = v.get('case')
        if isinstance(c, dict) and c.get('op') == 'names':
            cases.append(c)
        elif isinstance(c, str) and c.startswith('Mk '):
            m = re.search(r'\n(?:Base-t ::= INTEGER\n)?(\S+) ::= ', c)
            kind = next((k for k, tpl in KIND_TEMPLATES.items() if (tpl % m.group(1)) in c), 'integer')
            cases.append({'op': 'compile', 'sources': [c], '_kind': kind, '_t': m.group(1)})
        elif isinstance(c, str) and c.startswith('Mv '):
            m = re.search(r'ENUMERATED \{ (\S+), yyy', c)
            cases.append({'op': 'compile', 'sources': [c], '_value': m.group(1)})
        elif isinstance(c, str):
            t = c.split(' ', 1)[0]
            m = re.search(r'SEQUENCE \{ (\S+) INTEGER', c)
            cases.append({'op': 'compile', 'sources': [c], '_m': (t, m.group(1))})
    judge(ck, cases, run_harness(cases), asn_kw)
