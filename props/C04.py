"""C04 -- emitted value and size bounds equal the PER-visible effective constraint."""
import itertools
import json
import re
from common import cz, cn, cbool, copt, clist, cstr, run_harness, coq_eval_bad_multi, coq_eval_bad
from props import pvgen as G

REQ = ['RasnV.Corr.C04']
ALPHABET = [-1, 0, 1, 5, 2 ** 32]
KNOWN_PREC = 'C04-precedence'
KNOWN_EXCEPT_MARKER = 'C04-except-marker'
KNOWN_UNBOUNDED_PART = 'C04-unbounded-extensible-part'
KNOWN_INCLUSION = 'C04-contained-subtype-not-folded'
KNOWN_SERIAL_MARKER = 'C04-serial-marker-inherited'


def unbounded_extensible_part(ms):
    """one of the serial constraints is `((MIN..MAX), ...)` / `(MIN..MAX, ...)`: a marker on a part that bounds nothing"""
    for elems, ops, marker in ms:
        if marker and len(elems) == 1 and elems[0].get('k') == 'range' and elems[0].get('lo') is None and elems[0].get('hi') is None:
            return True
    return False


def all_elems():
    out = [G.single(G.jint(v)) for v in ALPHABET]
    for lo in [None] + ALPHABET:
        for hi in ALPHABET + [None]:
            out.append(G.rng(None if lo is None else G.jint(lo), None if hi is None else G.jint(hi)))
    return out


def flat_term(elems, ops):
    return '(%s, %s)' % (clist([G.c_elem(e) for e in elems]), clist([G.OPS[o] for o in ops]) if ops else '(@nil sop)')


def with_marker(elems, marker):
    """where the parser puts a trailing `, ...`: on the last element (lexer/constraint.rs value_range / single_value)"""
    if not marker:
        return elems
    last = dict(elems[-1])
    last['x'] = True
    return elems[:-1] + [last]


def gen_flat(ck):
    """flat expressions (elems, ops, marker, wrap) with <= 3 operands over the 7-point alphabet"""
    els = all_elems()
    ops = ['union', 'inter', 'except']
    out = []
    for e in els:
        for marker in (False, True):
            out.append(([e], [], marker))
    pairs = list(itertools.product(els, ops, els))
    triples_n = 2500 if ck.tier == 'quick' else 120000
    if ck.tier == 'quick':
        ck.rng.shuffle(pairs)
        pairs = pairs[:2500]
    for a, o, b in pairs:
        out.append(([a, b], [o], ck.rng.random() < 0.3))
    for _ in range(triples_n):
        a, b, c = (ck.rng.choice(els) for _ in range(3))
        o1, o2 = ck.rng.choice(ops), ck.rng.choice(ops)
        if o1 == 'except' and o2 == 'except':
            continue
        out.append(([a, b, c], [o1, o2], ck.rng.random() < 0.3))
    return out


def gen_serial(ck, n):
    """lists of 1..3 serial constraints; each (elems, ops, marker) with marker in {None, 'last', 'outer'}"""
    els = all_elems()
    out = []
    for _ in range(n):
        cs = []
        for _ in range(ck.rng.choice([1, 2, 2, 3])):
            k = ck.rng.choice([1, 1, 2, 3])
            elems = [ck.rng.choice(els) for _ in range(k)]
            ops = [ck.rng.choice(['union', 'inter', 'except']) for _ in range(k - 1)]
            if ops == ['except', 'except']:
                ops = ['union', 'except']
            r = ck.rng.random()
            marker = None if r < 0.6 else ('outer' if (k == 1 and r < 0.8) else 'last')
            cs.append((elems, ops, marker))
        out.append(cs)
    return out


def serial_ir(cs):
    return [{'set': G.chain(with_marker(e, m == 'last'), o), 'ext': m == 'outer'} for e, o, m in cs]


def serial_text(cs):
    parts = []
    for e, o, m in cs:
        if m == 'outer':
            parts.append('((%s), ...)' % G.t_elem(e[0]))
        else:
            parts.append(G.t_constraint({'set': G.chain(e, o), 'ext': m == 'last'}))
    return ''.join(parts)


def serial_term(cs):
    return clist(['(%s, %s)' % (flat_term(with_marker(e, m == 'last'), o), cbool(m == 'outer')) for e, o, m in cs])


def obs_term(r):
    return '%s, %s, %s' % (copt(None if r['min'] is None else int(r['min']), cz),
                           copt(None if r['max'] is None else int(r['max']), cz), cbool(r['ext']))


def parse_attr(attrs, signed=True):
    """#[rasn(value("lo..=hi", extensible))] / size(...) -> (kind, min, max, ext)"""
    for a in attrs:
        m = re.search(r'\b(value|size)\("([^"]*)"(,extensible)?\)', a)
        if m:
            kind, rng_, ext = m.group(1), m.group(2), bool(m.group(3))
            if '..' in rng_:
                lo, hi = rng_.split('..', 1)
                if hi.startswith('='):
                    hi_v = int(hi[1:])
                elif hi:
                    hi_v = int(hi) - 1            # Rust range syntax: `a..b` excludes b
                else:
                    hi_v = None
                return kind, (int(lo) if lo else None), hi_v, ext
            return kind, int(rng_), int(rng_), ext
    return None, None, None, False


def judge_direct(ck, cases, results):
    """cases: pv_fold / pv_range / parse_constraints requests with '_m' metadata"""
    fold_terms, fold_idx = [], []
    range_terms, range_idx = [], []
    orc_terms, orc_idx = [], []
    ser_terms, ser_idx = [], []
    for i, (c, r) in enumerate(zip(cases, results)):
        op = c['op']
        if 'crash' in r or 'harness_error' in r:
            ck.violation('impl-crash', {k: v for k, v in c.items() if not k.startswith('_')}, impl=r)
            continue
        kind = 2 if 'panic' in r else (1 if 'err' in r else 0)
        if op == 'pv_fold':
            s = c['set']
            ck.note_case('fold:' + json.dumps(s, sort_keys=True))
            ck.count('fold')
            v = '(Some %s)' % G.j_to_elem_opt(r['ok']) if kind == 0 else 'None'
            fold_terms.append('(%s, %s, %s, None, true, %d%%N, %s)' % (G.c_elem(s['base']), G.OPS[s['op']], G.c_eos(s['operant']), kind, v))
            fold_idx.append(i)
        elif op == 'pv_range':
            ck.note_case('range:' + json.dumps(c['constraints'], sort_keys=True) + str(c['signed']))
            ck.count('range')
            if kind == 0:
                o = r['ok']
                v = '(Some {| rmin := %s; rmax := %s; rext := %s; rsize := %s |})' % (
                    copt(None if o['min'] is None else int(o['min']), cz), copt(None if o['max'] is None else int(o['max']), cz),
                    cbool(o['ext']), cbool(o['size']))
            else:
                v = 'None'
            range_terms.append('(%s, %s, %d%%N, %s)' % (cbool(c['signed']), clist([G.c_constraint(x) for x in c['constraints']]), kind, v))
            range_idx.append(i)
            ms = c.get('_ms')
            if ms and kind == 0:
                ser_terms.append('(%s, %s, %s)' % (serial_term(ms), cbool(c['signed']), obs_term(r['ok'])))
                ser_idx.append(i)
            m = c.get('_m')
            if m and kind == 0:
                elems, ops, marker = m
                orc_terms.append('(%s, false, %s, %s)' % (flat_term(with_marker(elems, marker), ops), cbool(c['signed']), obs_term(r['ok'])))
                orc_idx.append(i)
            elif m and kind == 2:
                ck.violation('impl-violation', {k: v for k, v in c.items() if not k.startswith('_')}, impl=r, why='panic while folding a constraint')
    bad_fold = coq_eval_bad('C04', REQ, 'elem * sop * eos * option charset * bool * N * option (option elem)', 'corr_fold', fold_terms, label='fold')
    bad_range = coq_eval_bad('C04', REQ, 'bool * list constraint * N * option range', 'corr_range', range_terms, label='range')
    bad_orc, mono = coq_eval_bad_multi('C04', REQ, 'flat * bool * bool * option Z * option Z * bool',
                                       ['oracle', 'fun c => ops_monotone (fst (fst (fst (fst (fst c)))))'], orc_terms, label='oracle')
    nonmono = set(mono)
    orc_failed = set()
    for j in bad_orc:
        i = orc_idx[j]
        orc_failed.add(i)
        c = cases[i]
        elems, ops, marker = c['_m']
        text = G.t_constraint({'set': G.chain(elems, ops), 'ext': marker})
        if j in nonmono and ck.is_known(KNOWN_PREC):
            ck.known_hit(KNOWN_PREC, {'constraint': text, 'impl': results[i].get('ok')})
        elif 'except' in ops and marker and ck.is_known(KNOWN_EXCEPT_MARKER):
            ck.known_hit(KNOWN_EXCEPT_MARKER, {'constraint': text, 'impl': results[i].get('ok')})
        else:
            ck.violation('impl-violation', {k: v for k, v in c.items() if not k.startswith('_')}, constraint=text, impl=results[i],
                         term=orc_terms[j], why='per_visible_range_constraints excludes a permitted value, is not the X.691 '
                                               'effective constraint, or flags extensibility wrongly')
    bad_ser, ser_mono = coq_eval_bad_multi('C04', REQ, 'list (flat * bool) * bool * option Z * option Z * bool',
                                           ['oracle_serial', 'fun c => serial_monotone (fst (fst (fst (fst c))))'], ser_terms, label='serial')
    ser_nonmono = set(ser_mono)
    for j in bad_ser:
        i = ser_idx[j]
        orc_failed.add(i)
        c = cases[i]
        text = serial_text(c['_ms'])
        if j in ser_nonmono and ck.is_known(KNOWN_PREC):
            ck.known_hit(KNOWN_PREC, {'constraint': text, 'impl': results[i].get('ok')})
        elif unbounded_extensible_part(c['_ms']) and not (results[i].get('ok') or {}).get('ext') and ck.is_known(KNOWN_UNBOUNDED_PART):
            ck.known_hit(KNOWN_UNBOUNDED_PART, {'constraint': text, 'impl': results[i].get('ok')})
        elif (len(c['_ms']) > 1 and not c['_ms'][-1][2] and any(m[2] for m in c['_ms'][:-1]) and (results[i].get('ok') or {}).get('ext')
              and ck.is_known(KNOWN_SERIAL_MARKER)):
            # X.680 50.8: the last constraint has no marker, an earlier one has, the result is flagged extensible
            ck.known_hit(KNOWN_SERIAL_MARKER, {'constraint': text, 'impl': results[i].get('ok')})
        else:
            ck.violation('impl-violation', {k: v for k, v in c.items() if not k.startswith('_')}, constraint=text, impl=results[i],
                         meta_serial=c['_ms'], term=ser_terms[j],
                         why='serial constraints: the emitted bound excludes a permitted value, is not the intersection of the effective '
                             'constraints, or flags extensibility wrongly')
    for j in bad_fold:
        ck.broken.append({'kind': 'correspondence', 'item': 'H5 fold_constraint_set',
                          'detail': 'model and implementation disagree on %s: impl %s' % (G.t_eos(cases[fold_idx[j]]['set']), json.dumps(results[fold_idx[j]]))})
    for j in bad_range:
        i = range_idx[j]
        if i in orc_failed:
            continue
        ck.broken.append({'kind': 'correspondence', 'item': 'H5 per_visible_range_constraints',
                          'detail': 'model and implementation disagree on %s: impl %s' % (json.dumps(cases[i]['constraints']), json.dumps(results[i]))})
    ck.coverage['traces_validated_against_impl'] = ck.coverage.get('traces_validated_against_impl', 0) + len(fold_terms) + len(range_terms)


# ---------------------------------------------------------------- end to end

POSITIONS = ['assign', 'component', 'typeref', 'valueref', 'size-octet', 'size-ia5', 'size-seqof', 'size-bits']


def size_operands_text(elems, ops, marker):
    """the expression with every operand written as its own SIZE element: (SIZE (a) | SIZE (b), ...) -- same sizes as SIZE (a | b, ...)"""
    parts = ['SIZE (%s)' % G.t_elem(dict(e, x=False)) for e in elems]
    out = parts[0]
    for o, pt in zip(ops, parts[1:]):
        out += ' %s %s' % (G.T_OPS[o], pt)
    return '(%s%s)' % (out, ', ...' if marker else '')


def e2e_module(text, elems_have_ints=True):
    """one module exercising the constraint text in the four INTEGER positions and four SIZE positions"""
    return ('M DEFINITIONS AUTOMATIC TAGS ::= BEGIN\n'
            'Aa ::= INTEGER %s\n'
            'Bb ::= SEQUENCE { b INTEGER %s }\n'
            'Parent ::= INTEGER\nCc ::= SEQUENCE { c Parent %s }\n'
            'Oo ::= OCTET STRING (SIZE %s)\n'
            'Ii ::= SEQUENCE { i IA5String (SIZE %s) }\n'
            'Ss ::= SEQUENCE %s OF BOOLEAN\n'
            'Tt ::= SEQUENCE { t BIT STRING (SIZE %s) }\n'
            'Ff ::= IA5String (FROM ("ab") ^ SIZE %s)\n'
            'Gg ::= SEQUENCE { g NumericString (SIZE %s ^ FROM ("0".."7")), h VisibleString (FROM ("a".."f") ^ SIZE %s) }\n'
            'END\n') % (text, text, text, text, text, '(SIZE %s)' % text, text, text, text, text)


def find(items, kind, name):
    for m in items:
        for it in m.get('items', []):
            if it.get('kind') == kind and it.get('name') == name:
                return it
    return None


def judge_e2e(ck, cases, results):
    orc_terms, orc_idx, corr_terms, corr_idx = [], [], [], []
    for i, (c, r) in enumerate(zip(cases, results)):
        elems, ops, marker = c['_m']
        ck.note_case('e2e:' + c['_text'])
        ck.count('e2e')
        if 'panic' in r or 'crash' in r:
            ck.violation('impl-violation', c['sources'][0], impl=r, why='compiler crashed')
            continue
        if not r.get('ok') or 'items' not in r:
            ck.count('e2e-rejected')
            continue
        obs = []
        a = find(r['items'], 'struct', 'Aa')
        if a:
            obs.append(('assign', True, False, parse_attr(a['attrs'])))
        b = find(r['items'], 'struct', 'Bb')
        if b:
            obs.append(('component', True, False, parse_attr(b['fields'][0]['attrs'])))
        cc = find(r['items'], 'struct', 'Cc')
        if cc:
            obs.append(('typeref', True, False, parse_attr(cc['fields'][0]['attrs'])))
        o = find(r['items'], 'struct', 'Oo')
        if o:
            at = parse_attr(o['attrs'])
            m = re.match(r'FixedOctetString<(\d+)(?:usize)?>', o['fields'][0]['ty'])
            if m:
                at = ('size', int(m.group(1)), int(m.group(1)), False)
                ck.count('fixed-octet')
            obs.append(('size-octet', False, True, at))
        ii = find(r['items'], 'struct', 'Ii')
        if ii:
            obs.append(('size-ia5', False, True, parse_attr(ii['fields'][0]['attrs'])))
        ss = find(r['items'], 'struct', 'Ss')
        if ss:
            obs.append(('size-seqof', False, True, parse_attr(ss['attrs'])))
        tt = find(r['items'], 'struct', 'Tt')
        if tt:
            obs.append(('size-bits', False, True, parse_attr(tt['fields'][0]['attrs'])))
        ff = find(r['items'], 'struct', 'Ff')
        if ff:
            obs.append(('size-after-from', False, True, parse_attr(ff['attrs'])))
        gg = find(r['items'], 'struct', 'Gg')
        if gg:
            obs.append(('size-before-from', False, True, parse_attr(gg['fields'][0]['attrs'])))
            obs.append(('size-after-from-component', False, True, parse_attr(gg['fields'][1]['attrs'])))
        vv = find(r['items'], 'struct', 'Vv')
        if vv:
            at = parse_attr(vv['attrs'])
            m = re.match(r'FixedOctetString<(\d+)(?:usize)?>', vv['fields'][0]['ty'])
            if m:
                at = ('size', int(m.group(1)), int(m.group(1)), False)
            obs.append(('size-operands', False, True, at))
        ww = find(r['items'], 'struct', 'Ww')
        if ww:
            obs.append(('size-operands-component', False, True, parse_attr(ww['fields'][0]['attrs'])))
        if len(obs) < 10 and r.get('warnings'):
            ck.count('e2e-warned')                     # e.g. an empty intersection: reported, not silent
        elif len(obs) < 10:
            ck.violation('impl-violation', c['sources'][0], why='a type with a valid constraint was not generated',
                         warnings=r.get('warnings'), got=[x[0] for x in obs])
        for pos, signed, is_size, (kind, mn, mx, ext) in obs:
            if kind is None and not signed:
                mn, mx, ext = 0, None, False          # default size constraint: nothing emitted
            if is_size and mn is None:
                mn = 0                                # a size has no lower bound below 0 either way
            if kind is not None and (kind == 'size') != is_size:
                ck.violation('impl-violation', c['sources'][0], why='%s: wrong annotation kind %s' % (pos, kind))
                continue
            fl = flat_term(with_marker(elems, marker), ops)
            orc_terms.append('(%s, false, %s, %s, %s, %s)' % (fl, cbool(signed), copt(mn, cz), copt(mx, cz), cbool(ext)))
            orc_idx.append((i, pos))
    bad_orc, mono = coq_eval_bad_multi('C04', REQ, 'flat * bool * bool * option Z * option Z * bool',
                                       ['oracle', 'fun c => ops_monotone (fst (fst (fst (fst (fst c)))))'], orc_terms, label='e2e')
    nonmono = set(mono)
    for j in bad_orc:
        i, pos = orc_idx[j]
        c = cases[i]
        elems, ops, marker = c['_m']
        if j in nonmono and ck.is_known(KNOWN_PREC):
            ck.known_hit(KNOWN_PREC, {'constraint': c['_text'], 'position': pos})
        elif 'except' in ops and marker and ck.is_known(KNOWN_EXCEPT_MARKER):
            ck.known_hit(KNOWN_EXCEPT_MARKER, {'constraint': c['_text'], 'position': pos})
        else:
            ck.violation('impl-violation', c['sources'][0], position=pos, term=orc_terms[j],
                         why='emitted bound excludes a permitted value, is not the effective constraint, or extensibility is wrong')


def inclusion_module(elems, ops, marker, j, chain=False):
    """the expression with operand j written as the inclusion of a type constrained to exactly that operand (same permitted values),
    and the whole expression reached through the inclusion of a string type that carries it as its SIZE.
    chain: the included type is a constrained reference -- `IncBase ::= INTEGER (wider)`, `Inc ::= IncBase (operand)` -- with the
    same permitted values"""
    shown = [dict(e) for e in elems]
    shown[j] = {'k': 'ref', 'name': 'Inc'}
    text = G.t_constraint({'set': G.chain(elems, ops), 'ext': marker})
    text2 = G.t_constraint({'set': G.chain(shown, ops), 'ext': marker})
    inc = 'Inc ::= INTEGER (%s)\n' % G.t_elem(elems[j])
    if chain:
        e = elems[j]
        lo = e['v'] if e['k'] == 'single' else e.get('lo')
        hi = e['v'] if e['k'] == 'single' else e.get('hi')
        wide = '%s..%s' % ('MIN' if lo is None else str(int(lo['i']) - 7), 'MAX' if hi is None else str(int(hi['i']) + 3))
        plain = dict(e)
        plain['x'] = False
        # a marker on the operand is written on the reference's own constraint -- the last of the chain, which decides (X.680 50.8)
        mark = ', ...' if e.get('x') else ''
        if chain == 'base-exact':
            # the bound comes from the type the reference leads to, the reference's own constraint is the wider one
            inc = 'IncBase ::= INTEGER (%s)\nInc ::= IncBase (%s%s)\n' % (G.t_elem(plain), wide, mark)
        elif chain == 'three-levels':
            # two constrained references on the way: the marker of the middle one must not count, that of the last one must
            wider = '%s..%s' % ('MIN' if lo is None else str(int(lo['i']) - 9), 'MAX' if hi is None else str(int(hi['i']) + 5))
            inc = ('IncBase ::= INTEGER (%s)\nIncMid ::= IncBase (%s%s)\nInc ::= IncMid (%s%s)\n'
                   % (wider, wide, '' if e.get('x') else ', ...', G.t_elem(plain), mark))
        else:
            inc = 'IncBase ::= INTEGER (%s)\nInc ::= IncBase (%s%s)\n' % (wide, G.t_elem(plain), mark)
    return ('M DEFINITIONS AUTOMATIC TAGS ::= BEGIN\n'
            + inc +
            'Aa ::= INTEGER %s\n'
            'Bb ::= SEQUENCE { b INTEGER %s }\n'
            'Parent ::= INTEGER\nCc ::= SEQUENCE { c Parent %s }\n'
            'IncS ::= IA5String (SIZE %s)\n'
            'Jj ::= SEQUENCE { j IA5String (IncS) }\n'
            'Kk ::= IA5String (IncS)\n'
            'END\n') % (text2, text2, text2, text), text2


def judge_inclusion(ck, cases, results):
    terms, idx = [], []
    for i, (c, r) in enumerate(zip(cases, results)):
        elems, ops, marker, j = c['_m']
        ck.note_case('incl:' + c['sources'][0])
        ck.count('inclusion')
        if 'panic' in r or 'crash' in r:
            ck.violation('impl-violation', c['sources'][0], impl=r, why='compiler crashed')
            continue
        if not r.get('ok') or 'items' not in r:
            ck.count('inclusion-rejected')
            continue
        obs = []
        for name, pos, signed, is_size, field in (('Aa', 'assign', True, False, False), ('Bb', 'component', True, False, True),
                                                  ('Cc', 'typeref', True, False, True), ('Jj', 'size-included', False, True, True),
                                                  ('Kk', 'size-included-assign', False, True, False)):
            it = find(r['items'], 'struct', name)
            if it:
                obs.append((pos, signed, is_size, parse_attr(it['fields'][0]['attrs'] if field else it['attrs'], is_size)))
        if len(obs) < 5 and not r.get('warnings'):
            ck.violation('impl-violation', c['sources'][0], why='a type with a valid constraint was not generated', got=[x[0] for x in obs])
        for pos, signed, is_size, (kind, mn, mx, ext) in obs:
            if kind is None and not signed:
                mn, mx, ext = 0, None, False
            if is_size and mn is None:
                mn = 0
            if is_size and kind == 'value' and (mn, mx) == (0, None):
                kind, ext = None, False             # `value("0..")` on a string: says nothing about the size
            if kind is not None and (kind == 'size') != is_size:
                ck.violation('impl-violation', c['sources'][0], why='%s: wrong annotation kind %s' % (pos, kind))
                continue
            fl = flat_term(with_marker(elems, marker), ops)
            terms.append('(%s, false, %s, %s, %s, %s)' % (fl, cbool(signed), copt(mn, cz), copt(mx, cz), cbool(ext)))
            idx.append((i, pos))
    bad, unsound, mono = coq_eval_bad_multi('C04', REQ, 'flat * bool * bool * option Z * option Z * bool',
                                            ['oracle', 'oracle_sound', 'fun c => ops_monotone (fst (fst (fst (fst (fst c)))))'], terms, label='incl')
    unsound, nonmono = set(unsound), set(mono)
    for jx in bad:
        i, pos = idx[jx]
        c = cases[i]
        elems, ops, marker, j = c['_m']
        if jx in nonmono and ck.is_known(KNOWN_PREC):
            ck.known_hit(KNOWN_PREC, {'constraint': c['_text'], 'position': pos})
        elif 'except' in ops and marker and ck.is_known(KNOWN_EXCEPT_MARKER):
            ck.known_hit(KNOWN_EXCEPT_MARKER, {'constraint': c['_text'], 'position': pos})
        elif jx not in unsound and ops and not pos.startswith('size') and ck.is_known(KNOWN_INCLUSION):
            ck.known_hit(KNOWN_INCLUSION, {'constraint': c['_text'], 'Inc': G.t_elem(elems[j]), 'position': pos})
        else:
            ck.violation('impl-violation', c['sources'][0], position=pos, term=terms[jx],
                         why='with a contained subtype: emitted bound excludes a permitted value, extensibility is wrong, or (single inclusion) '
                             'the bound is not the included type\'s')


def refs_module(rng_):
    a1 = rng_.randint(-5, 5); a2 = a1 + rng_.randint(1, 40)
    z1 = rng_.randint(-300, 300); z2 = z1 + rng_.randint(1, 70000)
    v = rng_.randint(2, 100000)
    w = rng_.randint(0, min(50, v))
    # names are drawn so that the governing type sorts before or after the other type declaring the same identifiers
    g, o = ('Zeta', 'Alpha') if rng_.random() < 0.5 else ('Alpha', 'Zeta')
    src = ('M DEFINITIONS AUTOMATIC TAGS ::= BEGIN\n'
           '%s ::= INTEGER { low(%d), top(%d) }\n%s ::= INTEGER { low(%d), top(%d) }\n'
           'Wide ::= %s (low..top)\nOther ::= %s (low..top)\n'
           'vmax INTEGER ::= %d\nvlo INTEGER ::= vone\nvone INTEGER ::= %d\n'
           'Vr ::= INTEGER (0..vmax)\nCh ::= INTEGER (vlo..vmax)\n'
           'Ss ::= SEQUENCE { a INTEGER (0..vmax), z %s (low..top), o INTEGER { hi(%d) } (0..hi) }\n'
           'Own ::= INTEGER { hi(%d) } (0..hi)\n'
           'Sz ::= OCTET STRING (SIZE(1..vmax))\nEND\n') % (g, z1, z2, o, a1, a2, g, o, v, w, g, v, v)
    expect = {('struct', 'Wide', None): ('value', z1, z2), ('struct', 'Other', None): ('value', a1, a2),
              ('struct', 'Vr', None): ('value', 0, v), ('struct', 'Ch', None): ('value', w, v),
              ('struct', 'Ss', 0): ('value', 0, v), ('struct', 'Ss', 1): ('value', z1, z2), ('struct', 'Ss', 2): ('value', 0, v),
              ('struct', 'Own', None): ('value', 0, v), ('struct', 'Sz', None): ('size', 1, v)}
    return src, expect


def judge_refs(ck, cases, results):
    for c, r in zip(cases, results):
        ck.note_case('refs:' + c['sources'][0])
        ck.count('refs')
        if 'panic' in r or 'crash' in r or not r.get('ok') or 'items' not in r:
            ck.violation('impl-violation', c['sources'][0], impl={k: v for k, v in r.items() if k != 'generated'},
                         why='module with references in bounds crashed / was rejected')
            continue
        for (kind, name, fidx), (akind, lo, hi) in c['_expect'].items():
            it = find(r['items'], kind, name)
            if it is None:
                ck.violation('impl-violation', c['sources'][0], why='%s not generated' % name, warnings=r.get('warnings'))
                continue
            attrs = it['attrs'] if fidx is None else it['fields'][fidx]['attrs']
            if name == 'Sz':
                m = re.match(r'FixedOctetString<(\d+)(?:usize)?>', it['fields'][0]['ty'])
                got = ('size', int(m.group(1)), int(m.group(1)), False) if m else parse_attr(attrs)
            else:
                got = parse_attr(attrs)
            if (got[0], got[1], got[2]) != (akind, lo, hi) or got[3]:
                slug = None
                if name == 'Own':
                    slug = 'C04-own-named-number'
                elif name == 'Ch':
                    slug = 'C04-value-reference-chain'
                if slug and ck.is_known(slug):
                    ck.known_hit(slug, {'type': name, 'got': got, 'want': (akind, lo, hi)})
                else:
                    ck.violation('impl-violation', c['sources'][0], position='%s%s' % (name, '' if fidx is None else '.%d' % fidx),
                                 got=got, want=(akind, lo, hi),
                                 why='a value reference / named number in a bound is not resolved to the value it names '
                                     '(bound missing, or taken from another type that declares the same identifier)')


def run(ck):
    ck.coverage['rule'] = ('direct: fold_constraint_set (hook) on seeded random element sets mixing integers, strings, SIZE, FROM, PATTERN, '
                           'contained subtypes (range mode); per_visible_range_constraints (public) on every 1- and 2-operand expression '
                           'over the 7-point endpoint alphabet {MIN,-1,0,1,5,2^32,MAX} (sampled in quick) and sampled 3-operand ones, as a '
                           'value constraint, inside SIZE(..), and as two serial constraints; end-to-end: the printed constraint on a type '
                           'assignment, a component, a constrained reference, and as SIZE on OCTET STRING / IA5String / SEQUENCE OF / BIT STRING; '
                           'distinct by canonical JSON of the case')
    ck.assumptions += ['theorems cover integer element sets (single values, ranges incl. MIN/MAX, non-PER-visible elements), alone, in SIZE(..) '
                       'and as serial constraints; sets mixing SIZE/FROM/strings are covered by the correspondence and the oracle only',
                       'the oracle reads a flat expression with X.680 precedence for up to 3 operands']
    ck.prove('Props/C04.v', ['RasnV.Props.C04'], extra=['Corr/C04.vo'])
    cases = []
    nfold = 3000 if ck.tier == 'quick' else 40000
    for _ in range(nfold):
        s = G.rand_mixed_eos(ck.rng, depth=2)
        if 'e' not in s:
            cases.append({'op': 'pv_fold', 'set': s, 'rc': True})
    flats = gen_flat(ck)
    for elems, ops, marker in flats:
        cset = G.chain(with_marker(elems, marker), ops)
        cases.append({'op': 'pv_range', 'signed': True, 'constraints': [{'set': cset, 'ext': False}], '_m': (elems, ops, marker)})
        if ck.rng.random() < 0.3:
            cases.append({'op': 'pv_range', 'signed': False, 'constraints': [{'set': G.E(G.size(cset)), 'ext': False}],
                          '_m': (elems, ops, marker)})
    for _ in range(400 if ck.tier == 'quick' else 5000):
        cs = [{'set': G.rand_int_eos(ck.rng, 3, allow_x=True, pool=ALPHABET, notpv=0.1), 'ext': ck.rng.random() < 0.2}
              for _ in range(ck.rng.randint(1, 3))]
        if ck.rng.random() < 0.3:
            cs = [{'set': G.E(G.size(x['set'])), 'ext': x['ext']} for x in cs]
        cases.append({'op': 'pv_range', 'signed': ck.rng.random() < 0.6, 'constraints': cs})
    for _ in range(600 if ck.tier == 'quick' else 8000):
        # mixed element sets (SIZE / FROM / PATTERN / contained among the operands) through the range conversion: correspondence only
        s = G.rand_mixed_eos(ck.rng, depth=2)
        cases.append({'op': 'pv_range', 'signed': ck.rng.random() < 0.5, 'constraints': [{'set': s, 'ext': ck.rng.random() < 0.2}]})
    serials = gen_serial(ck, 1500 if ck.tier == 'quick' else 30000)
    for ms in serials:
        ir = serial_ir(ms)
        if ck.rng.random() < 0.3:
            cases.append({'op': 'pv_range', 'signed': False, 'constraints': [{'set': G.E(G.size(x['set'])), 'ext': x['ext']} for x in ir], '_ms': ms})
        else:
            cases.append({'op': 'pv_range', 'signed': True, 'constraints': ir, '_ms': ms})
    ck.sample({'pv_fold': G.t_eos(cases[0]['set'])})
    judge_direct(ck, cases, run_harness(cases))
    # end to end
    e2e = []
    ck.rng.shuffle(flats)
    for elems, ops, marker in flats[:(400 if ck.tier == 'quick' else 6000)]:
        if any(e['k'] == 'range' and e['lo'] and e['hi'] and int(e['lo']['i']) > int(e['hi']['i']) for e in elems):
            continue
        if any((e['k'] == 'single' and int(e['v']['i']) < 0) or (e['k'] == 'range' and ((e['lo'] and int(e['lo']['i']) < 0) or (e['hi'] and int(e['hi']['i']) < 0)))
               for e in elems):
            continue      # sizes are non-negative; the same text is used for SIZE positions
        text = G.t_constraint({'set': G.chain(elems, ops), 'ext': marker})
        src = e2e_module(text)
        if len(elems) >= 2:
            src = src.replace('END\n', 'Vv ::= OCTET STRING %s\nWw ::= SEQUENCE { w IA5String %s }\nEND\n'
                              % (size_operands_text(elems, ops, marker), size_operands_text(elems, ops, marker)))
        e2e.append({'op': 'compile', 'sources': [src], '_m': (elems, ops, marker), '_text': text})
    if e2e:
        ck.sample({'asn1': e2e[0]['sources'][0]})
    judge_e2e(ck, e2e, run_harness(e2e))
    incl = []
    for elems, ops, marker in flats[-(300 if ck.tier == 'quick' else 4000):]:
        if any(e['k'] == 'range' and e['lo'] and e['hi'] and int(e['lo']['i']) > int(e['hi']['i']) for e in elems):
            continue
        if any((e['k'] == 'single' and int(e['v']['i']) < 0) or (e['k'] == 'range' and ((e['lo'] and int(e['lo']['i']) < 0) or (e['hi'] and int(e['hi']['i']) < 0)))
               for e in elems):
            continue
        j = ck.rng.randrange(len(elems))
        chain = ck.rng.choice([False, False, 'ref-exact', 'base-exact', 'three-levels']) if elems[j]['k'] in ('single', 'range') else False
        src, text2 = inclusion_module(elems, ops, marker, j, chain)
        incl.append({'op': 'compile', 'sources': [src], '_m': (elems, ops, marker, j), '_text': text2})
        ck.count('inclusion:through-constrained-reference:%s' % chain if chain else 'inclusion:direct')
    # a single inclusion (no other operand: the bound and the flag must be exactly the included type's) through every chain shape,
    # with and without a marker on the deciding constraint
    for lo_, hi_ in ([(0, 5), (1, 300), (None, 7), (2, None)] if ck.tier == 'quick' else
                     [(0, 5), (1, 300), (None, 7), (2, None), (0, 0), (5, 70000), (3, 2 ** 32), (None, None)]):
        for x_ in (False, True):
            for chain in ('ref-exact', 'base-exact', 'three-levels'):
                e_ = {'k': 'range', 'lo': None if lo_ is None else G.jint(lo_), 'hi': None if hi_ is None else G.jint(hi_), 'x': x_}
                if lo_ is None and hi_ is None and chain == 'base-exact':
                    continue
                src, text2 = inclusion_module([e_], [], False, 0, chain)
                incl.append({'op': 'compile', 'sources': [src], '_m': ([e_], [], False, 0), '_text': text2})
                ck.count('inclusion:single:%s' % chain)
    if incl:
        ck.sample({'asn1': incl[0]['sources'][0]})
    judge_inclusion(ck, incl, run_harness(incl))
    refs = []
    for _ in range(60 if ck.tier == 'quick' else 1500):
        src, expect = refs_module(ck.rng)
        refs.append({'op': 'compile', 'sources': [src], '_expect': expect})
    judge_refs(ck, refs, run_harness(refs))


def replay(ck, data):
    ck.prove('Props/C04.v', ['RasnV.Props.C04'], extra=['Corr/C04.vo'])
    direct, e2e = [], []
    for v in data.get('violations', []):
        c = v.get('case')
        if isinstance(c, dict) and c.get('op') in ('pv_range', 'pv_fold'):
            direct.append(c)
        elif isinstance(c, str):
            e2e.append(c)
    judge_direct(ck, direct, run_harness(direct))
    # e2e replays recompile and report rejected / crashed modules only (the oracle needs the case metadata)
    res = run_harness([{'op': 'compile', 'sources': [s]} for s in e2e])
    for s, r in zip(e2e, res):
        if 'panic' in r or 'crash' in r:
            ck.violation('impl-violation', s, impl=r, why='compiler crashed')
