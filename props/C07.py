"""C07 -- value assignments and DEFAULTs denote the source abstract value."""
import json
import re
from props import rsval
from common import cz, cn, cbool, copt, clist, cstr, cbytes, run_harness, coq_eval_bad, coq_eval_bad_multi

REQ = ['RasnV.Corr.C07']
KNOWN_SEQ_AS_OID = 'C07-sequence-value-as-oid'
KNOWN_LETTERS = 'C07-oid-letter-arcs'

ROOT_NAMES = {'itu-t': 0, 'ccitt': 0, 'iso': 1, 'joint-iso-itu-t': 2, 'joint-iso-ccitt': 2}
SECOND = {0: {'recommendation': 0, 'question': 1, 'administration': 2, 'network-operator': 3, 'identified-organization': 4,
              'r-recommendation': 5},
          1: {'standard': 0, 'registration-authority': 1, 'member-body': 2, 'identified-organization': 3}}
STRING_TYPES = ['UTF8String', 'IA5String', 'PrintableString', 'VisibleString', 'NumericString', 'BMPString', 'UniversalString']
ALPHA = {
    'UTF8String': list('abcXYZ 019"\'-+.:=/?(),') + ['é', '€', '中', '😀', 'ß'],
    'IA5String': list('abcXYZ 019"\'-+.:=/?(),!#$%&*;<>@[]^_`{|}~'),
    'PrintableString': list('abcXYZ 019\'-+.:=/?(),'),
    'VisibleString': list('abcXYZ 019"\'-+.:=/?(),!#$%&*;<>@[]^_`{|}~'),
    'NumericString': list('0123456789 '),
    'BMPString': list('abcXYZ 019"-') + ['é', '€', '中'],
    'UniversalString': list('abcXYZ 019"-') + ['é', '€', '中', '😀'],
}


# ------------------------------------------------------------------ generator of (type, value) items
class Gen:
    def __init__(self, ck, k):
        self.ck = ck
        self.rng = ck.rng
        self.k = k
        self.defs = []        # ASN.1 assignments of auxiliary types / values
        self.n = 0
        self.tags = set()

    def fresh(self, prefix):
        self.n += 1
        return '%s%d-%d' % (prefix, self.k, self.n)

    def rint(self):
        r = self.rng.random()
        if r < 0.3:
            return self.rng.randint(-20, 300)
        if r < 0.7:
            e = self.rng.choice([7, 8, 15, 16, 31, 32, 63, 64, 100, 126, 127])
            v = self.rng.choice([2 ** e, 2 ** e - 1, -(2 ** e), -(2 ** e) - 1, 2 ** e + 1, -(2 ** e) + 1])
        else:
            v = self.rng.randint(-2 ** 127, 2 ** 127 - 1)
        return max(-2 ** 127, min(2 ** 127 - 1, v))

    def type_and_value(self, depth):
        """-> (type text usable as a member type, value text, expected abstract value, cmp flags)"""
        kinds = ['int', 'cint', 'nint', 'bool', 'null', 'str', 'bits', 'nbits', 'octets', 'oid', 'enum', 'intref']
        if depth < 2:
            kinds += ['choice', 'seq', 'seqof', 'seq', 'seqof']
        kind = self.rng.choice(kinds)
        self.tags.add(kind)
        return getattr(self, 'g_' + kind)(depth)

    def g_int(self, depth):
        v = self.rint()
        return 'INTEGER', str(v), ('int', v)

    def g_cint(self, depth):
        v = self.rint()
        lo = v - self.rng.choice([0, 1, 5, 1000])
        hi = v + self.rng.choice([0, 1, 5, 1000])
        lo, hi = max(lo, -2 ** 127), min(hi, 2 ** 127 - 1)
        t = self.fresh('Ci')
        self.defs.append('%s ::= INTEGER (%d..%d)' % (t, lo, hi))
        if self.rng.random() < 0.5:          # a chain of type references
            t2, t3 = self.fresh('Cj'), self.fresh('Ck')
            self.defs.append('%s ::= %s' % (t2, t))
            self.defs.append('%s ::= %s (%d..%d)' % (t3, t2, lo, hi))
            t = self.rng.choice([t2, t3])
            self.tags.add('type-chain')
        return t, str(v), ('int', v)

    def g_nint(self, depth):
        t = self.fresh('Ni')
        names = {}
        for i in range(self.rng.randint(1, 4)):
            names['nn%d%s' % (i, self.rng.choice(['', '-x']))] = self.rng.choice([0, 1, -1, 10, 255, -3, 65536, self.rint()])
        self.defs.append('%s ::= INTEGER { %s }' % (t, ', '.join('%s(%d)' % kv for kv in names.items())))
        if self.rng.random() < 0.7:
            n = self.rng.choice(sorted(names))
            return t, n, ('int', names[n])
        v = self.rint()
        return t, str(v), ('int', v)

    def g_intref(self, depth):
        v = self.rint()
        r = self.fresh('ir')
        self.defs.append('%s INTEGER ::= %d' % (r, v))
        if self.rng.random() < 0.4:
            r2 = self.fresh('is')
            self.defs.append('%s INTEGER ::= %s' % (r2, r))
            r = r2
        self.tags.add('value-ref')
        return 'INTEGER', r, ('int', v)

    def g_bool(self, depth):
        b = self.rng.random() < 0.5
        return 'BOOLEAN', 'TRUE' if b else 'FALSE', ('bool', b)

    def g_null(self, depth):
        return 'NULL', 'NULL', ('null',)

    def rstring(self, st):
        if self.rng.random() < 0.08 and st != 'NumericString':
            self.tags.add('tstring-like')
            return self.rng.choice(['12:30', '0Z', '1-2', '1.5', '2024-01-01T10:00:00Z', 'P1Y', '0Z"1'])
        n = self.rng.choice([0, 1, 2, 3, 5, 12])
        return ''.join(self.rng.choice(ALPHA[st]) for _ in range(n))

    def g_str(self, depth):
        st = self.rng.choice(STRING_TYPES)
        s = self.rstring(st)
        if '"' in s:
            self.tags.add('doubled-quote')
        if any(ord(c) > 127 for c in s):
            self.tags.add('multi-byte')
        text = s.replace('"', '""')
        if len(s) >= 2 and self.rng.random() < 0.15:
            # break the cstring over several lines at places where neither neighbour is a spacing character
            cuts = sorted(set(self.rng.randint(1, len(s) - 1) for _ in range(self.rng.choice([1, 1, 2, 3]))))
            cuts = [c for c in cuts if s[c - 1] not in ' \t' and s[c] not in ' \t']
            if cuts:
                pieces = [s[i:j].replace('"', '""') for i, j in zip([0] + cuts, cuts + [len(s)])]
                text = pieces[0]
                for pc in pieces[1:]:
                    text += self.rng.choice(['', ' ', '  ', '\t']) + self.rng.choice(['\n', '\r\n', '\n \n']) + self.rng.choice(['', '    ', '\t']) + pc
                self.tags.add('multi-line')
                if len(cuts) > 1:
                    self.tags.add('multi-break')
        if s and s[0] not in ' \t' and s[-1] not in ' \t' and text == s.replace('"', '""') and self.rng.random() < 0.06:
            # the literal begins (or ends) with a line break: an empty first (last) line, whose neighbour loses its indentation
            if self.rng.random() < 0.6:
                text = self.rng.choice(['', ' ', '\t']) + self.rng.choice(['\n', '\r\n']) + self.rng.choice(['', '    ', '\t']) + text
            else:
                text = text + self.rng.choice(['', '  ']) + self.rng.choice(['\n', '\r\n']) + self.rng.choice(['', '   '])
            self.tags.add('edge-line-break')
        return st, '"%s"' % text, ('str', s)

    def g_bits(self, depth):
        if self.rng.random() < 0.5:
            bits = [self.rng.random() < 0.5 for _ in range(self.rng.choice([0, 1, 3, 7, 8, 9, 16, 33, 64]))]
            return 'BIT STRING', "'%s'B" % ''.join('1' if b else '0' for b in bits), ('bits', bits)
        ds = ''.join(self.rng.choice('0123456789ABCDEF') for _ in range(self.rng.choice([0, 1, 2, 3, 8, 16])))
        bits = []
        for d in ds:
            bits += [bool(int(d, 16) >> s & 1) for s in (3, 2, 1, 0)]
        return 'BIT STRING', "'%s'H" % ds, ('bits', bits)

    def g_nbits(self, depth):
        t = self.fresh('Nb')
        pos = self.rng.sample(range(0, 16), self.rng.randint(1, 6))
        if self.rng.random() < 0.4:
            pos = sorted(pos)                     # otherwise the named bits are declared in any order: the highest need not be the last
        names = {'bb%d' % p: p for p in pos}
        self.defs.append('%s ::= BIT STRING { %s }' % (t, ', '.join('%s(%d)' % kv for kv in names.items())))
        chosen = [n for n in names if self.rng.random() < 0.5]
        bits = [False] * (max(pos) + 1)
        for n in chosen:
            bits[names[n]] = True
        return t, '{ %s }' % ', '.join(chosen) if chosen else '{ }', ('nbits', bits)

    def g_octets(self, depth):
        bs = [self.rng.randint(0, 255) for _ in range(self.rng.choice([0, 1, 2, 4, 9]))]
        if self.rng.random() < 0.6:
            return 'OCTET STRING', "'%s'H" % ''.join('%02X' % b for b in bs), ('octets', bs)
        return 'OCTET STRING', "'%s'B" % ''.join(format(b, '08b') for b in bs), ('octets', bs)

    def oid_arcs(self):
        """-> (text of arcs, numbers, arcs as written [(name|None, number|None)])"""
        n = self.rng.randint(2, 10)
        first = self.rng.choice([0, 1, 2])
        written, nums = [], []
        form = self.rng.random()
        rn = [k for k, v in ROOT_NAMES.items() if v == first]
        if form < 0.4:
            written.append((self.rng.choice(rn), None))
        elif form < 0.7:
            written.append((self.rng.choice(rn + ['org-x']), first))
        else:
            written.append((None, first))
        nums.append(first)
        if first in SECOND and self.rng.random() < 0.6:
            name = self.rng.choice(sorted(SECOND[first]))
            written.append((name, None if self.rng.random() < 0.6 else SECOND[first][name]))
            nums.append(SECOND[first][name])
        else:
            v = self.rng.randint(0, 39)
            written.append((None, v) if self.rng.random() < 0.6 else
                           (self.rng.choice(['sub-a'] + sorted(SECOND.get(first, SECOND[0]))), v))
            nums.append(v)
        while len(nums) < n:
            v = self.rng.choice([0, 1, 127, 128, 840, 8571, 16383, 16384, 113549, 2 ** 31, 2 ** 32 - 1, self.rng.randint(0, 2 ** 32 - 1)])
            if self.rng.random() < 0.6:
                written.append((None, v))
            elif self.rng.random() < 0.4:
                # name(number) with a name that is well-known elsewhere: the number written is the arc
                written.append((self.rng.choice(sorted(set(SECOND[0]) | set(SECOND[1]) | set(ROOT_NAMES))), v))
                self.tags.add('oid-well-known-name-with-number')
            else:
                written.append(('arc-%d' % len(nums), v))
            nums.append(v)
        text = ' '.join(('%s(%d)' % (a, b)) if a and b is not None else (a if a else str(b)) for a, b in written)
        return text, nums, written

    def g_oid(self, depth):
        text, nums, written = self.oid_arcs()
        self.last_oid = (written, nums)
        if self.rng.random() < 0.25:
            r = self.fresh('ob')
            self.defs.append('%s OBJECT IDENTIFIER ::= { %s }' % (r, text))
            extra = [self.rng.randint(0, 99999) for _ in range(self.rng.randint(1, 3))]
            self.tags.add('oid-value-ref')
            self.last_oid = None
            return 'OBJECT IDENTIFIER', '{ %s %s }' % (r, ' '.join(str(x) for x in extra)), ('oid', nums + extra)
        return 'OBJECT IDENTIFIER', '{ %s }' % text, ('oid', nums)

    def g_enum(self, depth):
        t = self.fresh('En')
        names = ['ee%d%s' % (i, self.rng.choice(['', '-y'])) for i in range(self.rng.randint(1, 5))]
        items = [n if self.rng.random() < 0.6 else '%s(%d)' % (n, 10 + 3 * i) for i, n in enumerate(names)]
        if self.rng.random() < 0.3:
            items.insert(self.rng.randint(1, len(items)), '...')
        self.defs.append('%s ::= ENUMERATED { %s }' % (t, ', '.join(items)))
        if self.rng.random() < 0.4:
            # a decoy: another ENUMERATED type listing the same names with other numbers, its name sorting before or after
            decoy = self.rng.choice(['Aa', 'Zz']) + t
            rev = list(reversed(names)) + ['extra%s' % t.lower()]
            self.defs.append('%s ::= ENUMERATED { %s }' % (decoy, ', '.join(rev)))
            self.tags.add('shared-enumerals')
        n = self.rng.choice(names)
        return t, n, ('enum', n.replace('-', '_'), t)

    def g_choice(self, depth):
        t = self.fresh('Ch')
        alts = []
        for i in range(self.rng.randint(1, 4)):
            at, av, ae = self.type_and_value(depth + 1)
            alts.append(('cc%d' % i, at, av, ae))
        self.defs.append('%s ::= CHOICE { %s }' % (t, ', '.join('%s %s' % (a[0], a[1]) for a in alts)))
        a = self.rng.choice(alts)
        return t, '%s : %s' % (a[0], a[2]), ('choice', a[0], a[3])

    def g_seq(self, depth):
        t = self.fresh('Sq')
        members, listed, exp = [], [], []
        n = self.rng.randint(2, 5)
        for i in range(n):
            mt, mv, me = self.type_and_value(depth + 1)
            name = 'mm%d' % i
            if i >= 2 and self.rng.random() < 0.4:
                dt, dv, de = mt, mv, me
                members.append('%s %s DEFAULT %s' % (name, mt, mv))
                if self.rng.random() < 0.5:
                    listed.append('%s %s' % (name, mv))
                else:
                    self.tags.add('default-member-omitted')
                exp.append(me)
            else:
                members.append('%s %s' % (name, mt))
                listed.append('%s %s' % (name, mv))
                exp.append(me)
        self.defs.append('%s ::= SEQUENCE { %s }' % (t, ', '.join(members)))
        return t, '{ %s }' % ', '.join(listed), ('seq', exp)

    def g_seqof(self, depth):
        t = self.fresh('So')
        et, _, _ = None, None, None
        # all elements share one type: generate the type once, then further values of it
        sub = Gen(self.ck, self.k)
        sub.n = self.n + 100
        kind = self.rng.choice(['int', 'bool', 'str1', 'bits', 'octets', 'enum1'])
        elems = []
        if kind == 'int':
            et = 'INTEGER'
            for _ in range(self.rng.randint(0, 4)):
                v = self.rint()
                elems.append((str(v), ('int', v)))
        elif kind == 'bool':
            et = 'BOOLEAN'
            for _ in range(self.rng.randint(0, 4)):
                b = self.rng.random() < 0.5
                elems.append(('TRUE' if b else 'FALSE', ('bool', b)))
        elif kind == 'str1':
            et = self.rng.choice(STRING_TYPES)
            for _ in range(self.rng.randint(0, 3)):
                s = self.rstring(et)
                elems.append(('"%s"' % s.replace('"', '""'), ('str', s)))
        elif kind == 'bits':
            et = 'BIT STRING'
            for _ in range(self.rng.randint(0, 3)):
                _, v, e = self.g_bits(depth)
                elems.append((v, e))
        elif kind == 'octets':
            et = 'OCTET STRING'
            for _ in range(self.rng.randint(0, 3)):
                _, v, e = self.g_octets(depth)
                elems.append((v, e))
        else:
            et, v, e = self.g_enum(depth)
            elems.append((v, e))
        if len(elems) == 1 and re.fullmatch(r'[a-z][A-Za-z0-9-]*|\d+', elems[0][0]):
            # `{ 5 }` / `{ name }` reads as an OBJECT IDENTIFIER / named-bit value: the same class as the one-member SEQUENCE value
            self.tags.add('single-simple-element')
        self.defs.append('%s ::= SEQUENCE OF %s' % (t, et))
        return t, '{ %s }' % ', '.join(e[0] for e in elems), ('list', [e[1] for e in elems])


def build_item(ck, k, only=None):
    g = Gen(ck, k)
    g.last_oid = None
    if only:
        g.tags.add(only)
        ty, val, exp = getattr(g, 'g_' + only)(0)
    else:
        ty, val, exp = g.type_and_value(0)
    v, w, d = 'vv%d' % k, 'ww%d' % k, 'Dd%d' % k
    lines = list(g.defs)
    lines.append('%s %s ::= %s' % (v, ty, val))
    lines.append('%s %s ::= %s' % (w, ty, v))
    lines.append('%s ::= SEQUENCE { da %s DEFAULT %s, db BOOLEAN }' % (d, ty, val))
    lines.append('%sr ::= SEQUENCE { dr %s DEFAULT %s, db BOOLEAN }' % (d, ty, v))
    src = 'Mv%d DEFINITIONS AUTOMATIC TAGS ::= BEGIN\n%s\nEND\n' % (k, '\n'.join(lines))
    points = {'assignment': ('const', v.upper()), 'reference': ('const', w.upper()),
              'default': ('fn', '%s_da_default' % d.lower()), 'default-ref': ('fn', '%sr_dr_default' % d.lower())}
    return {'op': 'compile', 'sources': [src], '_exp': exp, '_points': points, '_tags': sorted(g.tags), '_kind': sorted(g.tags)[0] if g.tags else '',
            '_oid': g.last_oid if ty == 'OBJECT IDENTIFIER' else None}


# ------------------------------------------------------------------ comparison
def strip_trailing_false(bits):
    bits = list(bits)
    while bits and not bits[-1]:
        bits.pop()
    return bits


def same(exp, obs):
    k = exp[0]
    if k == 'nbits':
        return obs[0] == 'bits' and strip_trailing_false(exp[1]) == strip_trailing_false(obs[1])
    if k == 'bits':
        # `[].into_iter().collect()` evaluates to an empty array for an empty bit string
        if obs[0] == 'arr' and obs[1] == [] and exp[1] == []:
            return True
        return obs[0] == 'bits' and list(exp[1]) == list(obs[1])
    if k == 'enum':
        norm = lambda x: (x or '').replace('-', '').replace('_', '').lower()
        return obs[0] == k and exp[1] == obs[1] and (len(exp) < 3 or len(obs) < 3 or obs[2] is None or norm(exp[2]) == norm(obs[2]))
    if k in ('int', 'bool', 'str'):
        return obs[0] == k and exp[1] == obs[1]
    if k == 'null':
        return obs[0] == 'null'
    if k == 'octets':
        return obs[0] == 'octets' and list(exp[1]) == list(obs[1])
    if k == 'oid':
        return obs[0] == 'oid' and list(exp[1]) == list(obs[1])
    if k == 'choice':
        return obs[0] == 'choice' and obs[1] == exp[1] and same(exp[2], obs[2])
    if k == 'seq':
        return obs[0] == 'seq' and len(obs[1]) == len(exp[1]) and all(same(a, b) for a, b in zip(exp[1], obs[1]))
    if k == 'list':
        if obs[0] == 'arr' and obs[1] == [] and exp[1] == []:
            return True
        return obs[0] == 'list' and len(obs[1]) == len(exp[1]) and all(same(a, b) for a, b in zip(exp[1], obs[1]))
    return False


def has_single_member_struct(src):
    """the known class: a SEQUENCE / SEQUENCE OF value with exactly one component whose value is a number or a name,
    e.g. `{ a 1 }`, `{ 5 }`, `{ red }` -- indistinguishable from an OBJECT IDENTIFIER / named-bit value for the lexer"""
    return bool(re.search(r'\{ mm\d+ [^,{}]* \}', src))


def module_items(r):
    mods = [m for m in r.get('items', []) if m.get('kind') == 'mod']
    consts, fns = {}, {}
    for m in mods:
        for it in m['items']:
            if it['kind'] in ('const', 'static'):
                consts[it['name']] = it['expr']
            elif it['kind'] == 'fn':
                fns[it['name']] = it['body'][-1] if it['body'] else ''
    return consts, fns


def judge_e2e(ck, cases, results):
    oid_terms, oid_idx = [], []
    for i, (c, r) in enumerate(zip(cases, results)):
        src = c['sources'][0]
        ck.note_case(src)
        for t in c['_tags']:
            ck.count('kind:' + t)
        if 'panic' in r or 'crash' in r:
            ck.count('panic-or-crash')       # C08's subject
            continue
        if not r.get('ok') or 'items' not in r:
            ck.violation('impl-violation', src, impl={k: v for k, v in r.items() if k not in ('generated', 'items')},
                         why='a module of value assignments of the supported notation is rejected, or its bindings do not parse')
            continue
        consts, fns = module_items(r)
        warned = bool(r.get('warnings'))
        for point, (kind, name) in c['_points'].items():
            text = (consts if kind == 'const' else fns).get(name)
            if text is None:
                ck.count('absent-with-warning' if warned else 'absent-silently')
                continue
            ck.count('evaluated:' + point)
            try:
                obs = rsval.evaluate(text, consts)
                ok = same(c['_exp'], obs)
                detail = None if ok else 'denotes %s' % (json.dumps(obs, ensure_ascii=False)[:300])
            except rsval.EvalError as ex:
                if 'unresolved name' in str(ex) and warned:
                    ck.count('reference-to-binding-absent-with-warning')
                    continue
                ok, detail = False, 'initialiser not of a known shape: %s' % ex
            if ok:
                continue
            slug = None
            if has_single_member_struct(src) or 'single-simple-element' in c['_tags']:
                slug = KNOWN_SEQ_AS_OID
            if slug and ck.is_known(slug):
                ck.known_hit(slug, {'asn1': src[-300:], 'at': point, 'initialiser': text[:200]})
            else:
                ck.violation('impl-violation', src, at=point, binding=name, initialiser=text[:400], expected=json.dumps(c['_exp'], ensure_ascii=False)[:400],
                             why='the generated %s does not denote the source value: %s' % (point, detail), warnings=r.get('warnings'))
        # OID arcs: model and specification on the arcs as written
        if c.get('_oid'):
            written, nums = c['_oid']
            text = consts.get(c['_points']['assignment'][1])
            obs = None
            if text is not None:
                try:
                    v = rsval.evaluate(text, consts)
                    if v[0] == 'oid' and 'const_new' in text:
                        obs = v[1]
                except rsval.EvalError:
                    pass
                arcs_t = clist(['(%s, %s)' % (copt(a, cstr), copt(b, cn)) for a, b in written])
                oid_terms.append('(%s, %s)' % (arcs_t, copt(obs, lambda l: clist(l, cn) if l else '(@nil N)')))
                oid_idx.append(i)
    bad = coq_eval_bad_multi('C07', REQ, 'list src_arc * option (list N)', ['corr_oid', 'spec_oid'], oid_terms, label='oid')
    for j in bad[0]:
        ck.broken.append({'kind': 'correspondence', 'item': 'OID arc resolution (format_oid / well_known)',
                          'detail': 'model and implementation disagree on %s' % cases[oid_idx[j]]['sources'][0][-200:]})
    for j in bad[1]:
        ck.violation('impl-violation', cases[oid_idx[j]]['sources'][0], why='the OBJECT IDENTIFIER arcs do not resolve to the numbers X.660 assigns')
    ck.coverage['oid_values_against_model_and_spec'] = len(oid_terms)


# ------------------------------------------------------------------ direct correspondence through the hooks
def direct_cases(ck):
    rng = ck.rng
    n = 1 if ck.tier == 'quick' else 12
    cases = []
    cases.append({'op': 'hex', 'chars': list(range(0, 256)) + [0x20AC, 0x1F600, 0xFF21, 0x0660]})
    hexd = '0123456789ABCDEF'
    for _ in range(150 * n):
        ds = ''.join(rng.choice(hexd if rng.random() < 0.9 else hexd + 'abcfGg ') for _ in range(rng.choice([0, 1, 2, 3, 7, 8, 16, 40])))
        lead = rng.choice(['', ' ', '\n  ', '-- c\n', '/* x */ '])
        suffix = rng.choice(['H', 'B', 'H', 'B', 'h', 'X', ''])
        q2 = rng.choice(["'", "'", "'", '', '"'])
        tail = rng.choice(['', ' ', ' rest', ',', '}', 'H'])
        if suffix == 'B' and rng.random() < 0.7:
            ds = ''.join(rng.choice('01') for _ in ds)
        cases.append({'op': 'bit_string_value', 'src': lead + "'" + ds + q2 + suffix + tail})
    alphabet = ['a', 'b', ' ', '"', '""', '"', 'é', '€', '\n', '-', '""""', 'x"y', '  \n  ', '\t', '\r\n', ' \n\t', '\x0b', '\x0c']
    for _ in range(200 * n):
        body = ''.join(rng.choice(alphabet) for _ in range(rng.randint(0, 8)))
        tail = rng.choice(['', ' ', ' "z"', ' b ::= "y""z"', '"', '""', ' ""', ' a'])
        cases.append({'op': 'cstring', 'src': rng.choice(['"', '"', '"', '', ' "']) + body + tail})
    for _ in range(100 * n):
        cases.append({'op': 'octets_to_bits', 'bytes': [rng.choice([0, 1, 127, 128, 255, rng.randint(0, 255)]) for _ in range(rng.randint(0, 6))]})
    cases.append({'op': 'octets_to_bits', 'bytes': list(range(256))})
    for _ in range(100 * n):
        cases.append({'op': 'bits_to_octets', 'bits': [rng.random() < 0.5 for _ in range(rng.choice([0, 1, 7, 8, 9, 16, 24, 31, 32, 64]))]})
    for _ in range(100 * n):
        pos = rng.sample(range(0, 20), rng.randint(1, 6))
        dist = [['n%d' % p, p] for p in pos]
        if rng.random() < 0.1:
            dist.append(['dup', pos[0]])
        chosen = [d[0] for d in dist if rng.random() < 0.5] + (['zz'] if rng.random() < 0.1 else [])
        highest = rng.choice([max(pos), max(pos), max(pos) + 2, 0, -1])
        cases.append({'op': 'named_bits', 'highest': highest, 'chosen': chosen, 'dist': dist})
    names = sorted(set(ROOT_NAMES) | set(SECOND[0]) | set(SECOND[1]) | {'a', 'z', 'foo', 'ISO', 'iso ', '', 'standards', 'itu-r'})
    for nm in names:
        for root in (None, 0, 1, 2, 3):
            cases.append({'op': 'oid_well_known', 'name': nm, 'root': root})
    for root in (None, 0, 1):
        cases.append({'op': 'oid_well_known', 'root': root})
    return cases


def judge_direct(ck, cases, results):
    groups = {}
    for i, (c, r) in enumerate(zip(cases, results)):
        op = c['op']
        ck.note_case('d:' + json.dumps({k: v for k, v in c.items()}, ensure_ascii=False)[:300])
        ck.count('direct:' + op)
        if 'panic' in r or 'crash' in r or 'harness_error' in r:
            ck.violation('impl-violation', c, impl=r, why='a value conversion panicked')
            continue
        if op == 'hex':
            for ch, bits in zip(c['chars'], r['ok']):
                groups.setdefault(('corr_hex', 'N * list bool'), []).append((i, '(%s, %s)' % (cn(ch), clist(bits, cbool))))
        elif op == 'bit_string_value':
            if 'names' in r:
                continue
            obs = None if r.get('none') else (r['bits'], r['rest'])
            t = '(%s, %s)' % (cbytes(c['src'].encode('utf-8')),
                              copt(obs, lambda o: '(%s, %s)' % (clist(o[0], cbool) if o[0] else '(@nil bool)', cn(o[1]))))
            groups.setdefault(('corr_lexbits', 'list N * option (list bool * N)'), []).append((i, t))
        elif op == 'cstring':
            obs = None if r.get('none') else (''.join(chr(x) for x in r['chars']).encode('utf-8'), r['rest'])
            t = '(%s, %s)' % (cbytes(c['src'].encode('utf-8')), copt(obs, lambda o: '(%s, %s)' % (cbytes(o[0]), cn(o[1]))))
            groups.setdefault(('corr_cstring', 'list N * option (list N * N)'), []).append((i, t))
        elif op == 'octets_to_bits':
            t = '(%s, %s)' % (cbytes(bytes(c['bytes'])), clist(r['bits'], cbool) if r['bits'] else '(@nil bool)')
            groups.setdefault(('corr_o2b', 'list N * list bool'), []).append((i, t))
            groups.setdefault(('spec_octets', 'list N * list bool'), []).append((i, t))
        elif op == 'bits_to_octets':
            t = '(%s, %s)' % (clist(c['bits'], cbool) if c['bits'] else '(@nil bool)', copt(r['bytes'], lambda b: cbytes(bytes(b))))
            groups.setdefault(('corr_b2o', 'list bool * option (list N)'), []).append((i, t))
        elif op == 'named_bits':
            t = '(%s, %s, %s, %s)' % (cz(c['highest']), clist(c['chosen'], cstr) if c['chosen'] else '(@nil str)',
                                      clist(['(%s, %s)' % (cstr(a), cz(b)) for a, b in c['dist']]),
                                      clist(r['bits'], cbool) if r['bits'] else '(@nil bool)')
            groups.setdefault(('corr_named', 'Z * list str * list (str * Z) * list bool'), []).append((i, t))
        elif op == 'oid_well_known':
            t = '(%s, %s, %s)' % (copt(c.get('name'), cstr), copt(c.get('root'), cn), copt(r['arc'], cn))
            groups.setdefault(('corr_wk', 'option str * option N * option N'), []).append((i, t))
    total = 0
    for (fn, ty), items in sorted(groups.items()):
        total += len(items)
        for j in coq_eval_bad('C07', REQ, ty, fn, [t for _, t in items], label=fn):
            i = items[j][0]
            if fn.startswith('spec_'):
                ck.violation('impl-violation', cases[i], impl=results[i], why='conversion result differs from the specification (%s)' % fn)
            else:
                ck.broken.append({'kind': 'correspondence', 'item': fn,
                                  'detail': 'model and implementation disagree on %s: impl %s' % (json.dumps(cases[i], ensure_ascii=False)[:300],
                                                                                                  json.dumps(results[i])[:300])})
    ck.coverage['traces_validated_against_impl'] = total


def known_probes(ck):
    """fixed probes of the known classes (so that each run states them) and of earlier fixes"""
    probes = [
        (KNOWN_SEQ_AS_OID, 'Mp DEFINITIONS AUTOMATIC TAGS ::= BEGIN\nSq ::= SEQUENCE { mm0 INTEGER, mm1 BOOLEAN DEFAULT TRUE }\n'
         'Dd ::= SEQUENCE { da Sq DEFAULT { mm0 1 }, db BOOLEAN }\nEND\n', 'dd_da_default', ('seq', [('int', 1), ('bool', True)])),
        (KNOWN_LETTERS, 'Mp DEFINITIONS AUTOMATIC TAGS ::= BEGIN\nvv OBJECT IDENTIFIER ::= { itu-t recommendation x 680 }\nEND\n', 'VV',
         ('oid', [0, 0, 24, 680])),
    ]
    res = run_harness([{'op': 'compile', 'sources': [p[1]]} for p in probes])
    for (slug, src, name, exp), r in zip(probes, res):
        ck.note_case(src)
        ck.count('known-probe')
        consts, fns = module_items(r) if r.get('ok') and 'items' in r else ({}, {})
        text = consts.get(name) or fns.get(name)
        ok = False
        if text is not None:
            try:
                ok = same(exp, rsval.evaluate(text, consts))
            except rsval.EvalError:
                ok = False
        elif r.get('warnings'):
            ok = True        # reported, not silent
        if not ok:
            if ck.is_known(slug):
                ck.known_hit(slug, {'asn1': src, 'initialiser': text})
            else:
                ck.violation('impl-violation', src, binding=name, initialiser=text, why='known-class probe fails but the class is not listed')


def run(ck):
    ck.coverage['rule'] = ('direct: hex digit table on all 256 byte values and some non-ASCII characters; quoted bit-string lexer, cstring '
                           'lexer, octet<->bit conversions, named bits and the well-known arc table on random and malformed arguments through '
                           'the hooks; search: random (type, value) items -- integers up to 2^127 in magnitude, constrained / named-number / '
                           'referenced integers through chains of type references, booleans, NULL, seven string types with doubled quotes and '
                           'multi-byte characters, bit strings 0..64 bits in B and H form, named-bit lists, octet strings in H and B form, '
                           'OIDs of 2..10 arcs in number / name / name(number) form and via value reference, enumerals, nested CHOICE / '
                           'SEQUENCE / SEQUENCE OF values -- each as value assignment, via a value reference, as DEFAULT and as DEFAULT by '
                           'reference; every generated initialiser is evaluated symbolically and compared with the source value')
    ck.assumptions += ['the symbolic evaluator (props/rsval.py) gives the initialiser shapes their rasn meaning; types are not tracked '
                       '(whether the initialiser type-checks is C01\'s subject)',
                       'bindings that are absent with a warning are counted, not judged (reported, not silent)']
    ck.prove('Props/C07.v', ['RasnV.Props.C07'], extra=['Corr/C07.vo'], titems=['T04', 'T05'])
    dc = direct_cases(ck)
    judge_direct(ck, dc, run_harness(dc))
    known_probes(ck)
    n = 500 if ck.tier == 'quick' else 12000
    cases = [build_item(ck, k) for k in range(n)]
    cases += [build_item(ck, n + k, only='oid') for k in range(n // 4)]
    cases += [build_item(ck, n + n // 4 + k, only='str') for k in range(n // 4)]
    ck.sample({'asn1': cases[0]['sources'][0]})
    ck.sample({'asn1': cases[1]['sources'][0]})
    judge_e2e(ck, cases, run_harness(cases))


def replay(ck, data):
    ck.prove('Props/C07.v', ['RasnV.Props.C07'], extra=['Corr/C07.vo'], titems=['T04', 'T05'])
    dc = [v['case'] for v in data.get('violations', []) if isinstance(v.get('case'), dict) and 'op' in v['case']]
    judge_direct(ck, dc, run_harness(dc))
    for v in data.get('violations', []):
        if isinstance(v.get('case'), str) and v.get('expected'):
            src = v['case']
            r = run_harness([{'op': 'compile', 'sources': [src]}])[0]
            ck.note_case(src)
            consts, fns = module_items(r) if r.get('ok') and 'items' in r else ({}, {})
            text = consts.get(v.get('binding')) or fns.get(v.get('binding'))
            exp = json.loads(v['expected'])

            def tup(x):
                return tuple(tup(y) for y in x) if isinstance(x, list) and x and isinstance(x[0], str) else ([tup(y) for y in x] if isinstance(x, list) else x)
            try:
                ok = text is not None and same(tup(exp), rsval.evaluate(text, consts))
            except rsval.EvalError:
                ok = False
            if not ok:
                ck.violation('impl-violation', src, binding=v.get('binding'), initialiser=text, expected=v['expected'],
                             why='still does not denote the source value')
