"""C13 -- whitespace, line endings and comments between tokens do not matter."""
import json
import os
import re
from common import cz, cn, cbool, copt, clist, cstr, cbytes, run_harness, coq_eval_bad

REQ = ['RasnV.Corr.C13']
CORPUS = '/repo/rasn-compiler-tests/tests/modules'
KNOWN_ELLIPSIS = 'C13-ellipsis-comma'
KNOWN_MULTIWORD = 'C13-multiword-keywords'
KNOWN_CHOICE_COLON = 'C13-choice-value-colon'
KNOWN_FIELD_DOT = 'C13-field-name-after-dot'

MODULE = '''Lay-Mod DEFINITIONS AUTOMATIC TAGS ::= BEGIN
Rec ::= SEQUENCE { a INTEGER (0..5), b BOOLEAN OPTIONAL, c Color DEFAULT red, ..., d OCTET STRING (SIZE (2)) }
Color ::= ENUMERATED { red (0), green (1), ..., blue (5) }
Pick ::= CHOICE { x [0] INTEGER, y [1] EXPLICIT IA5String (FROM ("a".."c")), ... }
Items ::= SEQUENCE (SIZE (1..4)) OF Rec
Flags ::= BIT STRING { first (0), last (7) }
Oid ::= OBJECT IDENTIFIER
max-val INTEGER ::= 10
Lim ::= INTEGER (1..max-val | 20, ...)
Nest ::= SET { n SEQUENCE { m [2] NULL }, k SET OF INTEGER }
pick-v Pick ::= x:5
name-v IA5String ::= "ab c"
END
'''
MODULE2 = '''Lay-Two { iso(1) standard(0) 42 } DEFINITIONS EXPLICIT TAGS EXTENSIBILITY IMPLIED ::= BEGIN
EXPORTS Holder, limit;
IMPORTS Rec, Color FROM Lay-Mod;
Holder ::= SEQUENCE { r Rec, c Color DEFAULT green, ..., [[ 2: e INTEGER (0..7), f BOOLEAN OPTIONAL ]], [[ g NULL ]] }
limit INTEGER ::= 7
Oct ::= OCTET STRING (SIZE (1..5, ...))
Str ::= IA5String (SIZE (1..limit) ^ FROM ("a".."f" | "xyz"))
Open ::= INTEGER (0..<10)
Par { T, INTEGER:n } ::= SEQUENCE { v T, k INTEGER (0..n) }
Inst ::= Par { BOOLEAN, 5 }
arc-v OBJECT IDENTIFIER ::= { iso(1) member-body(2) 840 }
Sub ::= Holder (WITH COMPONENTS { ..., c (red) })
Tagged ::= [APPLICATION 3] IMPLICIT Rec
bits-v BIT STRING ::= '1010'B
hex-v OCTET STRING ::= '0AF1'H
list-v SEQUENCE OF INTEGER ::= { 1, 2, 3 }
Alias ::= Rec
END
'''
TOKEN_RE = re.compile(r'"(?:[^"]|"")*"|\'[0-9A-Fa-f]*\'[BH]|::=|\.\.\.|\.\.|\[\[|\]\]|&?[A-Za-z](?:-?[A-Za-z0-9])*|-?\d+|[{}()\[\],:;|^<>@!&.]')
MULTIWORD = [('OCTET', 'STRING'), ('BIT', 'STRING'), ('OBJECT', 'IDENTIFIER'), ('AUTOMATIC', 'TAGS'), ('EXTENSIBILITY', 'IMPLIED'),
             ('EXPLICIT', 'TAGS'), ('IMPLICIT', 'TAGS'), ('COMPONENTS', 'OF'), ('EMBEDDED', 'PDV'), ('WITH', 'COMPONENTS'), ('WITH', 'SYNTAX'), ('WITH', 'COMPONENT'), ('CHARACTER', 'STRING'),
             ('ENCODED', 'BY'), ('CONSTRAINED', 'BY'), ('INSTANCE', 'OF'), ('ALL', 'EXCEPT'), ('WITH', 'SUCCESSORS'), ('WITH', 'DESCENDANTS')]
SEPARATORS = [' ', '  ', '\t', '\n', '\r\n', ' \n ', '-- c\n', ' -- in line -- ', '/* b */', ' /* a /* n */ c */ ',
              '-- "q" { } END ::= \n', '/* "q" { } END ::= é中 */', '--é--', '\n--\n', '/* 5" wide */', '-- it"s --', "/* '0 */"]
PUNCT = set('{}()[],:;|^')


def tokenize(text):
    """-> [(token, separator before it)], tail.  Comments already in the text belong to the separators."""
    toks = []
    pos, sep_start, n = 0, 0, len(text)
    while pos < n:
        if text.startswith('--', pos):
            j = pos + 2
            while j < n and text[j] not in '\n\r' and not text.startswith('--', j):
                j += 1
            pos = j + 2 if text.startswith('--', j) else j
            continue
        if text.startswith('/*', pos):
            depth, j = 1, pos + 2
            while j < n and depth:
                if text.startswith('/*', j):
                    depth, j = depth + 1, j + 2
                elif text.startswith('*/', j):
                    depth, j = depth - 1, j + 2
                else:
                    j += 1
            pos = j
            continue
        m = TOKEN_RE.match(text, pos)
        if m:
            toks.append((m.group(0), text[sep_start:pos]))
            pos = sep_start = m.end()
        else:
            pos += 1
    return toks, text[sep_start:]


def rebuild(toks, tail, changes):
    out = []
    for i, (t, sep) in enumerate(toks):
        out.append(changes.get(i, sep))
        out.append(t)
    return ''.join(out) + tail


def can_be_empty(prev, nxt):
    """'' is allowed only where the two tokens stay separable"""
    if prev is None:
        return True
    a, b = prev[-1], nxt[0]
    if prev == '..' or nxt == '..' or prev == '...' or nxt == '...':
        return b not in '.' and a not in '.' and (a in PUNCT or b in PUNCT)
    return (a in PUNCT or b in PUNCT) and not (a == ':' and b == ':') and not (a == '-' or b == '-')


def canon_items(r):
    """generated items without doc attributes"""
    def strip(x):
        if isinstance(x, dict):
            return {k: strip(v) for k, v in x.items() if k != 'docs'}
        if isinstance(x, list):
            return [strip(v) for v in x]
        return x
    return strip(r.get('items'))


def trivia_cases(ck, n):
    """byte strings made of trivia pieces followed by a token start (or junk), for the scanner correspondence"""
    pieces = [' ', '\t', '\n', '\r\n', '-- c --', '-- c\n', '--\n', '----', '/* b */', '/**/', '/* a /* n */ c */', '/* é中 */', '-- é --',
              '/* unterminated', '--', '/*', '*/', '-', '/', '/* a */ */', '-- x -- y', '/*/ */', '--- x\n', '/* 5" */', '-- 6" --', "/* ' */", '"']
    tails = ['Foo', '', 'x', '{', '-x', '/x', '€']
    out = []
    for _ in range(n):
        k = ck.rng.randint(0, 5)
        s = ''.join(ck.rng.choice(pieces) for _ in range(k)) + ck.rng.choice(tails)
        out.append({'op': 'skip_trivia', 'src': s})
    return out


def judge_trivia(ck, cases, results):
    terms, idx = [], []
    for i, (c, r) in enumerate(zip(cases, results)):
        ck.note_case('trivia:' + c['src'])
        ck.count('trivia')
        if 'panic' in r or 'crash' in r:
            ck.violation('impl-violation', {'op': 'skip_trivia', 'src': c['src']}, impl=r,
                         why='the trivia scanner panicked (C08) -- the layout of this input cannot be compared')
            continue
        com = r['comment'][1] if r['comment'] else None
        terms.append('(%s, %s, %s)' % (cbytes(c['src'].encode('utf-8')), copt(r['rest'], cn), copt(com, cn)))
        idx.append(i)
    for j in coq_eval_bad('C13', REQ, 'list N * option N * option N', 'corr', terms, label='trivia'):
        ck.broken.append({'kind': 'correspondence', 'item': 'H2 trivia scanners',
                          'detail': 'model and implementation disagree on %r: impl %s' % (cases[idx[j]]['src'], json.dumps(results[idx[j]]))})
    ck.coverage['traces_validated_against_impl'] = len(terms)


def classify(toks, i):
    """known classes by the boundary that was changed"""
    prev = toks[i - 1][0] if i > 0 else None
    cur = toks[i][0]
    if prev == '...' and cur == ',':
        return KNOWN_ELLIPSIS
    if (prev, cur) in MULTIWORD:
        return KNOWN_MULTIWORD
    if cur == ':' or prev == ':':
        return KNOWN_CHOICE_COLON
    if (prev == '.' and cur.startswith('&')) or (cur == '.' and i + 1 < len(toks) and toks[i + 1][0].startswith('&')):
        return KNOWN_FIELD_DOT
    return None


def run(ck):
    ck.coverage['rule'] = ('direct: random concatenations of trivia pieces (all white-space forms, the three comment forms incl. nested, empty, '
                           'unterminated and overlapping ones, non-ASCII text) through the skip_ws_and_comments / comment hooks; search: every '
                           'token boundary of a module using every construct of the layout grammar, each with every separator form (quick: 4 '
                           'forms per boundary), plus random multi-boundary re-layouts; outcome and bindings (doc attributes removed) compared '
                           'with the canonical layout')
    ck.assumptions += ['that each combinator site of the grammar skips trivia is measured per boundary, not proved',
                       'three known findings: `... ,`, multi-word reserved words, `id : value`']
    ck.prove('Props/C13.v', ['RasnV.Props.C13'], extra=['Corr/C13.vo'])
    tc = trivia_cases(ck, 600 if ck.tier == 'quick' else 20000)
    judge_trivia(ck, tc, run_harness(tc))
    layouts = [('module-1', MODULE, []), ('module-2', MODULE2, [MODULE])]
    # generator outputs: module sets of the common generator (one module varied, the others kept)
    from props import modgen as MG
    for k in range(3 if ck.tier == 'quick' else 40):
        ms = MG.gen_module_set(ck.rng, 300 + k, max_defs=5)
        srcs = MG.render(ms, split_sources=True)
        layouts.append(('generated-%d' % k, srcs[0], srcs[1:]))
    # real-world modules (thorough): sampled boundaries
    if ck.tier != 'quick' and os.path.isdir(CORPUS):
        files = sorted(os.listdir(CORPUS))
        ck.rng.shuffle(files)
        for f in files[:25]:
            text = open(os.path.join(CORPUS, f), encoding='utf-8', errors='replace').read()
            if len(text) < 6000 and 'IMPORTS' not in text.split('BEGIN', 1)[-1][:400].replace('IMPORTS ;', ''):
                layouts.append(('corpus:' + f, text, []))
    ck.sample({'asn1': MODULE})
    for li, (label, text, others) in enumerate(layouts):
        sweep(ck, label, text, others, exhaustive=(li < 2))


def sweep(ck, label, text, others, exhaustive):
    toks, tail = tokenize(text)
    if rebuild(toks, tail, {}) != text:
        ck.broken.append({'kind': 'generator', 'item': 'C13 tokenizer', 'detail': 'round trip failed on ' + label})
        return
    cases = [{'op': 'compile', 'sources': [text] + others, '_changes': {}}]
    per = 4 if ck.tier == 'quick' else len(SEPARATORS) + 1
    if not exhaustive:
        per = 1 if ck.tier == 'quick' else 3
    bounds = list(range(1, len(toks)))
    if not exhaustive and len(bounds) > 150:
        bounds = sorted(ck.rng.sample(bounds, 150))
    for i in bounds:
        seps = list(SEPARATORS)
        ck.rng.shuffle(seps)
        chosen = seps[:per]
        if can_be_empty(toks[i - 1][0], toks[i][0]) and (ck.tier != 'quick' or ck.rng.random() < 0.5):
            chosen.append('')
        for sp in chosen:
            cases.append({'op': 'compile', 'sources': [rebuild(toks, tail, {i: sp})] + others, '_changes': {i: sp}})
    # random subsets of boundaries that are not in a known class
    free = [i for i in range(1, len(toks)) if classify(toks, i) is None or not ck.is_known(classify(toks, i))]
    for _ in range((150 if ck.tier == 'quick' else 5000) if exhaustive else (10 if ck.tier == 'quick' else 60)):
        k = ck.rng.randint(2, min(25, len(free)))
        ch = {i: ck.rng.choice(SEPARATORS) for i in ck.rng.sample(free, k)}
        cases.append({'op': 'compile', 'sources': [rebuild(toks, tail, ch)] + others, '_changes': ch})
    res = run_harness(cases)
    base = res[0]
    if not base.get('ok'):
        if exhaustive:
            ck.broken.append({'kind': 'generator', 'item': 'C13 canonical module', 'detail': label + ': ' + json.dumps(base)[:600]})
        else:
            ck.count('layout-base-rejected')
        return
    want = canon_items(base)
    ck.sample({'relayout': cases[len(cases) // 2]['sources'][0][:400]})
    for c, r in zip(cases[1:], res[1:]):
        ck.note_case(c['sources'][0])
        ck.count(('boundary' if len(c['_changes']) == 1 else 'multi') + ':' + label.split('-')[0].split(':')[0])
        bad = None
        if 'panic' in r or 'crash' in r:
            bad = 'compiler crashed'
        elif not r.get('ok'):
            bad = 'the re-laid-out module is rejected'
        elif canon_items(r) != want or r.get('warnings') != base.get('warnings'):
            bad = 'bindings differ from the canonical layout'
        if bad:
            slugs = {classify(toks, i) for i in c['_changes']}
            slug = next(iter(slugs)) if len(slugs) == 1 else None
            if slug and ck.is_known(slug):
                ck.known_hit(slug, {'boundary': [toks[i - 1][0] + ' | ' + toks[i][0] for i in c['_changes']],
                                    'separator': list(c['_changes'].values())})
            else:
                ck.violation('impl-violation', c['sources'][0], changes={str(k): v for k, v in c['_changes'].items()},
                             boundaries=[toks[i - 1][0] + ' | ' + toks[i][0] for i in c['_changes']], layout=label,
                             impl={k: v for k, v in r.items() if k not in ('items', 'generated')}, why=bad)


def replay(ck, data):
    ck.prove('Props/C13.v', ['RasnV.Props.C13'], extra=['Corr/C13.vo'])
    tc = [v['case'] for v in data.get('violations', []) if isinstance(v.get('case'), dict) and v['case'].get('op') == 'skip_trivia']
    judge_trivia(ck, tc, run_harness(tc))
    toks, tail = tokenize(MODULE)
    srcs = [v for v in data.get('violations', []) if isinstance(v.get('case'), str)]
    res = run_harness([{'op': 'compile', 'sources': [MODULE]}] + [{'op': 'compile', 'sources': [v['case']]} for v in srcs])
    want = canon_items(res[0])
    for v, r in zip(srcs, res[1:]):
        ck.note_case(v['case'])
        if 'panic' in r or 'crash' in r or not r.get('ok') or canon_items(r) != want:
            ck.violation('impl-violation', v['case'], why='still differs from the canonical layout', changes=v.get('changes'))
