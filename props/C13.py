"""C13 -- whitespace, line endings and comments between tokens do not matter."""
import json
import re
from common import cz, cn, cbool, copt, clist, cstr, cbytes, run_harness, coq_eval_bad

REQ = ['RasnV.Corr.C13']
KNOWN_ELLIPSIS = 'C13-ellipsis-comma'
KNOWN_MULTIWORD = 'C13-multiword-keywords'
KNOWN_CHOICE_COLON = 'C13-choice-value-colon'

MODULE = '''Lay-Mod DEFINITIONS AUTOMATIC TAGS ::= BEGIN
Rec ::= SEQUENCE { a INTEGER (0..5), b BOOLEAN OPTIONAL, c Color DEFAULT red, ..., d OCTET STRING (SIZE (2)) }
Color ::= ENUMERATED { red (0), green (1), ..., blue (5) }
Pick ::= CHOICE { x [0] INTEGER, y [1] EXPLICIT IA5String (FROM ("a".."c")), ... }
Items ::= SEQUENCE (SIZE (1..4)) OF Rec
Flags ::= BIT STRING { first (0), last (7) }
Oid ::= OBJECT IDENTIFIER
max-val INTEGER ::= 10
Lim ::= INTEGER (1..max-val | 20, ...)
Nest ::= SET { n SEQUENCE { m [2] NULL }, k SET OF INTEGER }
pick-v Pick ::= x:5
name-v IA5String ::= "ab c"
END
'''
TOKEN_RE = re.compile(r'"(?:[^"]|"")*"|::=|\.\.\.|\.\.|[A-Za-z][A-Za-z0-9-]*|\d+|[{}()\[\],:;|^<>@!]')
MULTIWORD = [('OCTET', 'STRING'), ('BIT', 'STRING'), ('OBJECT', 'IDENTIFIER'), ('AUTOMATIC', 'TAGS'), ('EXTENSIBILITY', 'IMPLIED'),
             ('EXPLICIT', 'TAGS'), ('IMPLICIT', 'TAGS'), ('COMPONENTS', 'OF'), ('EMBEDDED', 'PDV'), ('WITH', 'COMPONENTS')]
SEPARATORS = [' ', '  ', '\t', '\n', '\r\n', ' \n ', '-- c\n', ' -- in line -- ', '/* b */', ' /* a /* n */ c */ ',
              '-- "q" { } END ::= \n', '/* "q" { } END ::= é中 */', '--é--', '\n--\n', '/* 5" wide */', '-- it"s --', "/* '0 */"]
PUNCT = set('{}()[],:;|^')


def tokenize(text):
    toks = []
    pos = 0
    for m in TOKEN_RE.finditer(text):
        toks.append((m.group(0), text[pos:m.start()]))   # (token, separator before it)
        pos = m.end()
    return toks, text[pos:]


def rebuild(toks, tail, changes):
    out = []
    for i, (t, sep) in enumerate(toks):
        out.append(changes.get(i, sep))
        out.append(t)
    return ''.join(out) + tail


def can_be_empty(prev, nxt):
    """'' is allowed only where the two tokens stay separable"""
    if prev is None:
        return True
    a, b = prev[-1], nxt[0]
    if prev == '..' or nxt == '..' or prev == '...' or nxt == '...':
        return b not in '.' and a not in '.' and (a in PUNCT or b in PUNCT)
    return (a in PUNCT or b in PUNCT) and not (a == ':' and b == ':') and not (a == '-' or b == '-')


def canon_items(r):
    """generated items without doc attributes"""
    def strip(x):
        if isinstance(x, dict):
            return {k: strip(v) for k, v in x.items() if k != 'docs'}
        if isinstance(x, list):
            return [strip(v) for v in x]
        return x
    return strip(r.get('items'))


def trivia_cases(ck, n):
    """byte strings made of trivia pieces followed by a token start (or junk), for the scanner correspondence"""
    pieces = [' ', '\t', '\n', '\r\n', '-- c --', '-- c\n', '--\n', '----', '/* b */', '/**/', '/* a /* n */ c */', '/* é中 */', '-- é --',
              '/* unterminated', '--', '/*', '*/', '-', '/', '/* a */ */', '-- x -- y', '/*/ */', '--- x\n', '/* 5" */', '-- 6" --', "/* ' */", '"']
    tails = ['Foo', '', 'x', '{', '-x', '/x', '€']
    out = []
    for _ in range(n):
        k = ck.rng.randint(0, 5)
        s = ''.join(ck.rng.choice(pieces) for _ in range(k)) + ck.rng.choice(tails)
        out.append({'op': 'skip_trivia', 'src': s})
    return out


def judge_trivia(ck, cases, results):
    terms, idx = [], []
    for i, (c, r) in enumerate(zip(cases, results)):
        ck.note_case('trivia:' + c['src'])
        ck.count('trivia')
        if 'panic' in r or 'crash' in r:
            ck.violation('impl-violation', {'op': 'skip_trivia', 'src': c['src']}, impl=r,
                         why='the trivia scanner panicked (C08) -- the layout of this input cannot be compared')
            continue
        com = r['comment'][1] if r['comment'] else None
        terms.append('(%s, %s, %s)' % (cbytes(c['src'].encode('utf-8')), copt(r['rest'], cn), copt(com, cn)))
        idx.append(i)
    for j in coq_eval_bad('C13', REQ, 'list N * option N * option N', 'corr', terms, label='trivia'):
        ck.broken.append({'kind': 'correspondence', 'item': 'H2 trivia scanners',
                          'detail': 'model and implementation disagree on %r: impl %s' % (cases[idx[j]]['src'], json.dumps(results[idx[j]]))})
    ck.coverage['traces_validated_against_impl'] = len(terms)


def classify(toks, i):
    """known classes by the boundary that was changed"""
    prev = toks[i - 1][0] if i > 0 else None
    cur = toks[i][0]
    if prev == '...' and cur == ',':
        return KNOWN_ELLIPSIS
    if (prev, cur) in MULTIWORD:
        return KNOWN_MULTIWORD
    if cur == ':' or prev == ':':
        return KNOWN_CHOICE_COLON
    return None


def run(ck):
    ck.coverage['rule'] = ('direct: random concatenations of trivia pieces (all white-space forms, the three comment forms incl. nested, empty, '
                           'unterminated and overlapping ones, non-ASCII text) through the skip_ws_and_comments / comment hooks; search: every '
                           'token boundary of a module using every construct of the layout grammar, each with every separator form (quick: 4 '
                           'forms per boundary), plus random multi-boundary re-layouts; outcome and bindings (doc attributes removed) compared '
                           'with the canonical layout')
    ck.assumptions += ['that each combinator site of the grammar skips trivia is measured per boundary, not proved',
                       'three known findings: `... ,`, multi-word reserved words, `id : value`']
    ck.prove('Props/C13.v', ['RasnV.Props.C13'], extra=['Corr/C13.vo'])
    tc = trivia_cases(ck, 600 if ck.tier == 'quick' else 20000)
    judge_trivia(ck, tc, run_harness(tc))
    toks, tail = tokenize(MODULE)
    assert rebuild(toks, tail, {}) == MODULE
    cases = [{'op': 'compile', 'sources': [MODULE], '_changes': {}}]
    per = 4 if ck.tier == 'quick' else len(SEPARATORS) + 1
    for i in range(1, len(toks)):
        seps = list(SEPARATORS)
        ck.rng.shuffle(seps)
        chosen = seps[:per]
        if can_be_empty(toks[i - 1][0], toks[i][0]) and (ck.tier != 'quick' or ck.rng.random() < 0.5):
            chosen.append('')
        for sp in chosen:
            cases.append({'op': 'compile', 'sources': [rebuild(toks, tail, {i: sp})], '_changes': {i: sp}})
    # random subsets of boundaries that are not in a known class
    free = [i for i in range(1, len(toks)) if classify(toks, i) is None]
    for _ in range(150 if ck.tier == 'quick' else 5000):
        k = ck.rng.randint(2, 25)
        ch = {i: ck.rng.choice(SEPARATORS) for i in ck.rng.sample(free, k)}
        cases.append({'op': 'compile', 'sources': [rebuild(toks, tail, ch)], '_changes': ch})
    res = run_harness(cases)
    base = res[0]
    if not base.get('ok'):
        ck.broken.append({'kind': 'generator', 'item': 'C13 canonical module', 'detail': json.dumps(base)[:600]})
        return
    want = canon_items(base)
    ck.sample({'asn1': MODULE})
    ck.sample({'relayout': cases[len(cases) // 2]['sources'][0][:400]})
    for c, r in zip(cases[1:], res[1:]):
        ck.note_case(c['sources'][0])
        ck.count('boundary' if len(c['_changes']) == 1 else 'multi')
        bad = None
        if 'panic' in r or 'crash' in r:
            bad = 'compiler crashed'
        elif not r.get('ok'):
            bad = 'the re-laid-out module is rejected'
        elif canon_items(r) != want or r.get('warnings') != base.get('warnings'):
            bad = 'bindings differ from the canonical layout'
        if bad:
            slugs = {classify(toks, i) for i in c['_changes']}
            slug = next(iter(slugs)) if len(slugs) == 1 else None
            if slug and ck.is_known(slug):
                ck.known_hit(slug, {'boundary': [toks[i - 1][0] + ' | ' + toks[i][0] for i in c['_changes']],
                                    'separator': list(c['_changes'].values())})
            else:
                ck.violation('impl-violation', c['sources'][0], changes={str(k): v for k, v in c['_changes'].items()},
                             boundaries=[toks[i - 1][0] + ' | ' + toks[i][0] for i in c['_changes']],
                             impl={k: v for k, v in r.items() if k not in ('items', 'generated')}, why=bad)


def replay(ck, data):
    ck.prove('Props/C13.v', ['RasnV.Props.C13'], extra=['Corr/C13.vo'])
    tc = [v['case'] for v in data.get('violations', []) if isinstance(v.get('case'), dict) and v['case'].get('op') == 'skip_trivia']
    judge_trivia(ck, tc, run_harness(tc))
    toks, tail = tokenize(MODULE)
    srcs = [v for v in data.get('violations', []) if isinstance(v.get('case'), str)]
    res = run_harness([{'op': 'compile', 'sources': [MODULE]}] + [{'op': 'compile', 'sources': [v['case']]} for v in srcs])
    want = canon_items(res[0])
    for v, r in zip(srcs, res[1:]):
        ck.note_case(v['case'])
        if 'panic' in r or 'crash' in r or not r.get('ok') or canon_items(r) != want:
            ck.violation('impl-violation', v['case'], why='still differs from the canonical layout', changes=v.get('changes'))
