"""Directed probes for the defects of the unchanged tree found by the third-round sub-agents (reported/<group>/vN/): each is a
recorded known finding; the probe is a hit while the implementation shows the defect and silent once it is repaired
(common.run_text_probes).  Patterns are matched on the generated text with all white-space removed."""
import os

R = os.path.join(os.path.dirname(os.path.dirname(os.path.abspath(__file__))), 'reported')


def demo(group, n, name='demo.asn1'):
    return open(os.path.join(R, group, n, name), encoding='utf-8').read()


def files(group, n):
    d = os.path.join(R, group, n)
    return [open(os.path.join(d, f), encoding='utf-8').read() for f in sorted(os.listdir(d)) if f.endswith(('.asn1', '.asn'))]


def one(group, n, name):
    return open(os.path.join(R, group, n, name), encoding='utf-8').read()


PROBES = {
    'C18': [
        {'slug': 'C18-qualified-reference-bare', 'backend': 'ts', 'src': one('GD', 'v1', 'in.asn'), 'forbid': [r'exporttypeExt=Unimported;', r'f:Unimported,']},
        {'slug': 'C18-member-keys-mangled', 'backend': 'ts', 'src': one('GD', 'v3', 'in.asn'), 'forbid': [r'my_field\?:', r'\{my_alt:null\}']},
        {'slug': 'C18-extensibility-implied-ignored', 'backend': 'ts', 'src': one('GD', 'v4', 'in.asn'), 'want': [r'exporttypeImpl=\{a:number,\[key:string\]:any\}']},
        {'slug': 'C18-block-comment-after-enumeral', 'backend': 'ts', 'src': one('GD', 'v5', 'in.asn'), 'forbid': [r'//first\{secondlineofthecommentb="b"']},
    ],
    'C19': [
        {'slug': 'C19-from-impl-for-same-type-twice', 'src': one('GD', 'v7', 'in.asn'), 'config': {'generate_from_impls': True},
         'forbid': [r'implFrom<OtherT>forTop.*implFrom<super::mod_b::OtherT>forTop']},
        {'slug': 'C19-unparsed-derive-line-duplicates', 'src': one('GD', 'v8', 'in.asn'),
         'config': {'type_annotations': ['#[derive(AsnType, Debug, Clone, Decode, Encode, PartialEq, core::hash::Hash)]']},
         'forbid': [r'core::hash::Hash\)\]#\[derive\(AsnType,Debug']},
        {'slug': 'C19-wildcard-imports-hoisted-types', 'src': one('GD', 'v16', 'in.asn'), 'config': {'default_wildcard_imports': True},
         'forbid': [r'usesuper::mod_b::\{\*\};usesuper::mod_c::\{\*\};']},
    ],
    'C01': [
        {'slug': 'C01-open-type-enum-encode-lifetime', 'src': one('GD', 'v9', 'in.asn'), 'config': {'opaque_open_types': False}, 'forbid': [r'pubfnencode<E:Encoder>']},
        {'slug': 'C01-unmapped-builtin-type', 'src': one('GD', 'v6', 'in.asn'), 'forbid': [r'pubstructDescr\(pubObjectDescriptor\)', r'pubstructName\(pubISO646String\)']},
        {'slug': 'C01-hoisted-name-collision', 'src': one('GD', 'v17', 'in.asn'), 'forbid': [r'pubstructFooBar\{.*pubstructFooBar\(', r'pubenumFooBaz.*pubstructFooBaz\(']},
        {'slug': 'C01-prelude-names-shadowed', 'src': one('GD', 'v18', 'in.asn'), 'forbid': [r'pubstructOption\{.*pubextra:Option<Option>']},
        {'slug': 'C01-fixed-size-string-value', 'src': one('GD', 'v19', 'in.asn'),
         'forbid': [r'fnmsg_k_default\(\)->Key\{Key\(<OctetStringasFrom', r'fnhdr_f_default\(\)->Flags\{Flags\(\[true,true,true,true\]\.into_iter\(\)\.collect\(\)\)']},
        {'slug': 'C01-component-named-like-enumeral', 'src': one('GD', 'v20', 'in.asn'), 'forbid': [r'pubfnnew\(x:Integer,color:Color\)']},
        {'slug': 'C01-reexported-import', 'src': one('GD', 'v23', 'in.asn'), 'forbid': [r'pubmodmod_a\{externcratealloc;[a-zA-Z:;*_]*usesuper::mod_b::\{Base\};']},
        {'slug': 'C01-type-and-value-same-identifier', 'src': one('GD', 'v24', 'in.asn'), 'forbid': [r'pubstructID\(pubu8\);.*pub(static|const)ID:']},
    ],
    'C12': [
        {'slug': 'C12-template-defaults-of-instantiating-module', 'src': [one('GC', 'v1', 'a.asn'), one('GC', 'v1', 'b.asn')],
         'want': [r'#\[rasn\(automatic_tags\)\]#\[non_exhaustive\]pubstructInst\{'], 'forbid': [r'usesuper::b::\{Param']},
        {'slug': 'C12-named-number-from-unrelated-module', 'src': [one('GC', 'v2', 'a.asn'), one('GC', 'v2', 'n.asn')], 'forbid': [r'value\("0\.\.=99"\)', r'value\("0\.\.=55"\)']},
        {'slug': 'C12-same-module-name-merged', 'src': [one('GC', 'v6', 'm-v1.asn'), one('GC', 'v6', 'm-v2.asn'), one('GC', 'v6', 'zmod.asn')],
         'want': [r'#\[rasn\(automatic_tags\)\]#\[non_exhaustive\]pubstructBeta']},
        {'slug': 'C12-object-imports-in-use-line', 'src': [one('GC', 'v10', 'a.asn'), one('GC', 'v10', 'zmod.asn')], 'forbid': [r'usesuper::zmod::\{OBJ1', r'usesuper::zmod::\{[^}]*MySet']},
    ],
    'C13': [
        {'slug': 'C13-identifier-from-comment', 'src': one('GC', 'v7', 'with-comments.asn'), 'forbid': [r'identifier="INTEGER"[^\]]*\)\]pubstructMyInt'], 'want': [r'identifier="My-Int"']},
        {'slug': 'C13-brace-in-comment-of-constrained-by', 'src': one('GC', 'v8', 'm.asn'), 'want': [r'pubstructBad\(', r'pubstructZ\(']},
    ],
    'C04': [
        {'slug': 'C04-open-end-ignored', 'src': demo('GB', 'v6'), 'want': [r'value\("0\.\.=255"\)\)\]pubstructE\(pubu8\)'], 'forbid': [r'0\.\.=256']},
        {'slug': 'C04-element-constraint-on-reference-dropped', 'src': demo('GB', 'v7'), 'want': [r'2\.\.=5']},
        {'slug': 'C04-serial-marker-inherited', 'src': demo('GB', 'v8'), 'forbid': [r'value\("2\.\.=5",extensible\)', r'size\("4",extensible\)']},
        {'slug': 'C04-union-after-marker-joins-root', 'src': demo('GB', 'v10'), 'want': [r'value\("1\.\.=8",extensible\)'], 'forbid': [r'1\.\.=20']},
        {'slug': 'C04-named-number-through-alias', 'src': demo('GB', 'v5'), 'want': [r'value\("1\.\.=300"\)\)\]pubstructC'], 'forbid': [r'value\("1\.\.=5"\)\)\]pubstructC']},
        {'slug': 'C04-value-of-named-number', 'src': demo('GB', 'v9'), 'want': [r'value\("0\.\.=300"\)'], 'forbid': [r'value\("0\.\."\)\)\]pubstructG']},
    ],
    'C06': [
        {'slug': 'C06-serial-extensible-fixed-width', 'src': demo('GB', 'v12'), 'forbid': [r'value\("2\.\.=5",extensible\)\)\]pubstructA\(pubu8\)', r'extensible\)\)\]pubstructAnonymousB\(pubu8\)']},
    ],
    'C15': [
        {'slug': 'C15-from-intersection-hull', 'src': demo('GB', 'v13'), 'forbid': [r'from\("\\u\{61\}\.\.=\\u\{78\}"\)\)\]pubstructE', r'from\("\\u\{61\}\.\.=\\u\{65\}"\)\)\]pubstructF']},
        {'slug': 'C15-max-below-alphabet-end', 'src': demo('GB', 'v14'), 'forbid': [r'\\u\{fffe\}']},
        {'slug': 'C15-single-value-as-alphabet', 'src': demo('GB', 'v16'), 'forbid': [r'from\([^)]*\)\)\]pubstructA\(', r'from\([^)]*\)\)\]pubstructB\(']},
        {'slug': 'C15-extensible-from-emitted', 'src': demo('GB', 'v17'), 'forbid': [r'from\([^)]*\)\)\]pubstructB\(', r'from\([^)]*\)\)\]pubstructD\(']},
    ],
    'C07': [
        {'slug': 'C07-relative-oid-value-dropped', 'src': demo('GB', 'v18'), 'want': [r'pub(static|const)R1\b']},
        {'slug': 'C07-oid-arc-by-value-reference', 'src': demo('GB', 'v19'), 'want': [r'8571[^;]*\b7u32|8571u32,7u32'], 'forbid': [r'\*\*\*N\b']},
        {'slug': 'C07-sequence-value-as-oid', 'src': demo('GB', 'v20'), 'forbid': [r'Sof\(Oid::const_new', r'Oid::const_new\(&\[\]\)']},
        {'slug': 'C07-optional-member-in-value-bare', 'src': demo('GB', 'v21'), 'forbid': [r'Seq::new\(7,true\)']},
        {'slug': 'C07-nested-choice-value-type-name', 'src': demo('GB', 'v22'), 'forbid': [r'CHOICE::k']},
        {'slug': 'C07-value-through-alias-overwrapped', 'src': demo('GB', 'v23'), 'forbid': [r'Seq2\(Seq\(Seq2::new', r'Seq2\(Seq\(Seq::new']},
    ],
    'C02': [
        {'slug': 'C02-hoisted-name-collision', 'src': demo('GA', 'v9'), 'forbid': [r'pubstructCarDoorLock\{.*pubstructCarDoorLock\{', r'pubenumSpeedUnit.*pubstructSpeedUnit']},
        {'slug': 'C02-unmapped-builtin-component', 'src': demo('GA', 'v12'), 'forbid': [r'pubm:MYCLASS', r'pubn:ISO646String', r'pubo:ObjectDescriptor']},
        {'slug': 'C02-relative-oid-as-oid', 'src': demo('GA', 'v13'), 'forbid': [r'pubr:ObjectIdentifier', r'pubstructR\(pubObjectIdentifier\)']},
    ],
    'C03': [
        {'slug': 'C03-tagged-open-type-implicit', 'src': demo('GA', 'v1'), 'forbid': [r'#\[rasn\(tag\(context,0\)\)\]puba:Any', r'tag\(context,6\)\)\]pubstructV\(pubAny\)']},
        {'slug': 'C03-automatic-tags-ignores-groups', 'src': demo('GA', 'v2'), 'forbid': [r'#\[rasn\(automatic_tags\)\]#\[non_exhaustive\]pubstructB\{', r'#\[rasn\(automatic_tags\)\]pubstructAExtGroupB']},
        {'slug': 'C03-template-defaults-of-instantiating-module', 'src': demo('GA', 'v7'), 'want': [r'#\[rasn\(automatic_tags\)\]pubstructInst\{']},
        {'slug': 'C03-no-default-inside-actual-parameter', 'src': demo('GA', 'v10'), 'forbid': [r'pubstructInstA\{#\[rasn\(tag\(context,0\)\)\]', r'pubstructUseF\{#\[rasn\(tag\(context,3\)\)\]']},
        {'slug': 'C03-automatic-tags-after-components-of', 'src': demo('GA', 'v11'), 'want': [r'#\[rasn\(automatic_tags\)\]pubstructT\{']},
    ],
    'C05': [
        {'slug': 'C05-implied-extension-group-struct', 'src': demo('GA', 'v3'), 'forbid': [r'#\[non_exhaustive\]pubstructTExtGroupB']},
        {'slug': 'C05-template-defaults-of-instantiating-module', 'src': demo('GA', 'v8'), 'forbid': [r'#\[non_exhaustive\]pubstructInst\{']},
    ],
    'C16': [
        {'slug': 'C16-identifier-from-comment', 'src': demo('GA', 'v5'), 'forbid': [r'identifier="SEQUENCE"\)\]pubstructUserRecord', r'identifier="INTEGER"[^\]]*\)\]pubstructUserId', r'identifier="ENUMERATED"\)\]pubenumInnerThing']},
        {'slug': 'C16-escape-prefix-collides', 'src': demo('GA', 'v14'), 'forbid': [r'pubr_type:bool,.*pubr_type:\(\)', r'pubgen:Integer']},
        {'slug': 'C16-prelude-names-shadowed', 'src': demo('GA', 'v16'), 'forbid': [r'pubstructOctetString\(pubOctetString\)', r'pubstructInteger\(pubu8\).*pubcode:Integer,']},
    ],
}
