"""C17 -- syntax errors are reported at the malformed definition, consistently."""
import json
import re
from common import cz, cn, cbool, copt, clist, cstr, cbytes, run_harness, coq_eval_bad, coq_eval_bad_multi

REQ = ['RasnV.Corr.C17']
KNOWN_COMMENT_EOF = 'C17-open-comment-position'

ASSIGNMENTS = [
    'Aa{i} ::= INTEGER (0..{n})',
    'Bb{i} ::= SEQUENCE {{ a INTEGER , b BOOLEAN OPTIONAL , ..., c NULL }}',
    'Cc{i} ::= CHOICE {{ x [0] INTEGER , y [1] IA5String (SIZE (1..{n})) }}',
    'Dd{i} ::= ENUMERATED {{ one (1) , two (2) , ... }}',
    'Ee{i} ::= SEQUENCE OF Aa0',
    'Ff{i} ::= OCTET STRING (SIZE ({n}))',
    'Gg{i} ::= SET {{ g BIT STRING {{ first (0) , last ({n}) }} }}',
    'vv{i} INTEGER ::= {n}',
    'Hh{i} ::= SEQUENCE {{ h INTEGER DEFAULT {n} , k Aa0 }}',
    'Ii{i} ::= [APPLICATION {n}] EXPLICIT BOOLEAN',
]
JUNK = ['§', '$', '`', '~', '€']
TOKEN_RE = re.compile(r'::=|\.\.\.|\.\.|[A-Za-z][A-Za-z0-9-]*|\d+|\S')


def build_module(ck, nass, crlf, comments, name='M'):
    """-> (text, header span, list of assignment spans (start, end) in BYTES, token lists)"""
    nl = '\r\n' if crlf else '\n'
    parts = []
    spans = []
    pos = 0

    def emit(t):
        nonlocal pos
        parts.append(t)
        pos += len(t.encode('utf-8'))

    hstart = pos
    emit('%s DEFINITIONS AUTOMATIC TAGS ::= BEGIN' % name)
    hend = pos
    emit(nl)
    for i in range(nass):
        if comments and ck.rng.random() < 0.4:
            emit(ck.rng.choice(['-- a comment %d' % i, '/* block %d */' % i, '-- café --']) + nl)
        tpl = ASSIGNMENTS[0] if i == 0 else ck.rng.choice(ASSIGNMENTS)
        text = tpl.format(i=i, n=ck.rng.randint(1, 60))
        if ck.rng.random() < 0.3:
            text = text.replace(' , ', ' ,' + nl + '    ')
        start = pos
        emit(text)
        spans.append((start, pos, text))
        emit(nl)
    emit('END' + nl)
    return ''.join(parts), (hstart, hend), spans


def corrupt(ck, text, span, kind):
    """corrupt one token of the assignment occupying bytes span[0]..span[1]; returns (new text, byte position of the corruption,
    junk?) -- positions are byte offsets in the NEW text"""
    b = text.encode('utf-8')
    seg = b[span[0]:span[1]].decode('utf-8')
    toks = [(m.start(), m.end()) for m in TOKEN_RE.finditer(seg)]
    ts, te = toks[ck.rng.randrange(len(toks))]
    bs = span[0] + len(seg[:ts].encode('utf-8'))
    be = span[0] + len(seg[:te].encode('utf-8'))
    if kind == 'delete':
        nb = b[:bs] + b[be:]
        return nb.decode('utf-8'), bs, False
    junk = ck.rng.choice(JUNK).encode('utf-8')
    if kind == 'replace':
        nb = b[:bs] + junk + b[be:]
        return nb.decode('utf-8'), bs, True
    nb = b[:bs] + junk + b' ' + b[bs:]
    return nb.decode('utf-8'), bs, True


def judge_ops(ck, cases, results):
    terms = []
    for c, r in zip(cases, results):
        ck.note_case('ops:' + json.dumps([c['src'], c['ops']]))
        ck.count('ops')
        if 'crash' in r or 'harness_error' in r:
            ck.violation('impl-crash', {k: v for k, v in c.items() if not k.startswith('_')}, impl=r)
            continue
        panicked = 'panic' in r
        obs = [] if panicked else r['ok']
        # on a panic the implementation reports nothing: the model must reject exactly the first bad slice
        ops_t = clist([('None' if o is None else '(Some (%s, %s))' % (cn(o[0]), cn(o[1]))) for o in c['ops']])
        if panicked:
            # states before the panic are not observable: compare only that the model rejects some operation
            terms.append(None)
            ck.count('ops-panic')
            continue
        obs_t = clist(['(%s)' % ', '.join(cn(x) for x in st) for st in obs]) if obs else '(@nil (N * N * N * N * N * N))'
        terms.append('(%s, %s, %s, false)' % (cbytes(c['src'].encode('utf-8')), ops_t, obs_t))
    live = [(i, t) for i, t in enumerate(terms) if t is not None]
    for j in coq_eval_bad('C17', REQ, 'list N * list opn * list (N * N * N * N * N * N) * bool', 'corr', [t for _, t in live], label='ops'):
        i = live[j][0]
        ck.broken.append({'kind': 'correspondence', 'item': 'H1 Input::slice / reset_context',
                          'detail': 'model and implementation disagree on %s: impl %s' % (json.dumps([cases[i]['src'], cases[i]['ops']]), json.dumps(results[i]))})
    ck.coverage['traces_validated_against_impl'] = len(live)


def judge_errors(ck, cases, results):
    terms, idx = [], []
    for i, (c, r) in enumerate(zip(cases, results)):
        ck.note_case('err:' + c['sources'][0])
        ck.count(c['_kind'])
        if 'panic' in r or 'crash' in r:
            # totality is C08's subject; here it hides the report
            ck.count('panic-or-crash')
            continue
        if r.get('ok'):
            ck.count('still-valid')
            continue
        lx = r.get('lexer')
        if not lx or lx.get('kind') != 'matching':
            ck.count('non-matching-error')
            continue
        src = c['sources'][0]
        b = src.encode('utf-8')
        off, ln = lx['offset'], lx['line']
        terms.append('(%s, %s, %s, %s, %s)' % (cbytes(b), cn(off), cn(ln), cn(lx['context_start_offset']), cn(lx['context_start_line'])))
        idx.append(i)
        problems = []
        lo, hi = c['_bounds']
        if off < lo:
            problems.append('reported offset %d lies before the first token of the malformed definition (%d)' % (off, lo))
        if hi is not None and off > hi:
            problems.append('reported offset %d lies after the first character that cannot continue any notation (%d)' % (off, hi))
        # Display / contextualize / report agree on the line
        m = re.search(r'(?:line |:)(\d+)(?:, column |:)(\d+)\.$', r.get('err', ''))
        if not m:
            problems.append('Display text has no position: %r' % r.get('err'))
        elif int(m.group(1)) != ln:
            problems.append('Display says line %s, the structured report says line %d' % (m.group(1), ln))
        ctx = r.get('ctx', '')
        mm = re.search(r'^\s*(\d+) │  .*FAILED AT THIS LINE', ctx, re.M)
        if mm and int(mm.group(1)) != ln:
            problems.append('contextualize marks line %s, the structured report says line %d' % (mm.group(1), ln))
        if ctx and not mm:
            problems.append('contextualize marks no line of its excerpt, the structured report says line %d' % ln)
        hdr = re.search(r'\[(?:Source file: (.*):(\d+):(\d+)|line (\d+), column (\d+))\]', ctx)
        if hdr:
            hl = int(hdr.group(2) or hdr.group(4))
            if hl != ln:
                problems.append('contextualize header says line %d, the report says %d' % (hl, ln))
        if c.get('as_file'):
            if not lx.get('src_file') or 'src0.asn1' not in lx['src_file'] or 'src0.asn1' not in r.get('err', '') or 'src0.asn1' not in ctx:
                problems.append('the source path is not reported for a file input')
        elif lx.get('src_file'):
            problems.append('a source path is reported for a literal input')
        if problems:
            slug = KNOWN_COMMENT_EOF if c.get('_open_comment') else None
            if slug and ck.is_known(slug):
                ck.known_hit(slug, {'problems': problems, 'asn1': src[-120:]})
            else:
                ck.violation('impl-violation', src, problems=problems, report=lx, display=r.get('err'), corruption=c['_kind'],
                             as_file=bool(c.get('as_file')), bounds=c['_bounds'],
                             why='the reported error position is not meaningful / not inside the malformed definition / not consistent')
    for j in coq_eval_bad('C17', REQ, 'list N * N * N * N * N', 'spec_report', terms, label='report'):
        c = cases[idx[j]]
        slug = KNOWN_COMMENT_EOF if c.get('_open_comment') else None
        if slug and ck.is_known(slug):
            ck.known_hit(slug, {'asn1': c['sources'][0][-120:], 'report': results[idx[j]].get('lexer')})
        else:
            ck.violation('impl-violation', c['sources'][0], report=results[idx[j]].get('lexer'), corruption=c['_kind'], bounds=c['_bounds'],
                         as_file=bool(c.get('as_file')),
                         why='offset outside the input, or line != 1 + number of line breaks before the offset, or context start inconsistent')


def run(ck):
    ck.coverage['rule'] = ('direct: random sequences of slice / reset_context on random sources (LF, CRLF, multi-byte characters) through the '
                           'Input hook, every intermediate state compared with the model; search: generated modules (1..3 modules, 1..30 '
                           'assignments, LF/CRLF, comments) with one token of one assignment or of the header deleted, replaced or preceded by '
                           'a character that starts no ASN.1 token, as literal and as file; distinct by source text')
    ck.assumptions += ['the location clause (position inside the first malformed definition) is decided by the search only',
                       'panics are C08\'s subject and are only counted here']
    ck.prove('Props/C17.v', ['RasnV.Props.C17'], extra=['Corr/C17.vo'])
    # ---- H1
    ops_cases = []
    alphabet = ['a', 'b', ' ', '\n', '\r\n', 'é', '€', '-', '\n\n']
    for _ in range(400 if ck.tier == 'quick' else 6000):
        src = ''.join(ck.rng.choice(alphabet) for _ in range(ck.rng.randint(0, 30)))
        b = src.encode('utf-8')
        cur = len(b)
        ops = []
        for _ in range(ck.rng.randint(1, 6)):
            if ck.rng.random() < 0.2:
                ops.append(None)
                continue
            # choose char-boundary positions (the lexers never slice elsewhere); occasionally out of range
            cands = [k for k in range(cur + 1)]
            a = ck.rng.choice(cands)
            e = ck.rng.choice([k for k in cands if k >= a] or [a])
            if ck.rng.random() < 0.03:
                e = cur + 1
            ops.append([a, e])
            cur = max(0, min(e, cur) - a)
        ops_cases.append({'op': 'input_ops', 'src': src, 'ops': ops})
    # keep only sequences whose slices fall on character boundaries (byte-exact replay of the slicing)
    good = []
    for c in ops_cases:
        b = c['src'].encode('utf-8')
        cur_b = b
        ok = True
        for o in c['ops']:
            if o is None:
                continue
            a, e = o
            if e > len(cur_b):
                break
            try:
                cur_b[:a].decode('utf-8'); cur_b[a:e].decode('utf-8')
            except UnicodeDecodeError:
                ok = False
                break
            cur_b = cur_b[a:e]
        if ok:
            good.append(c)
    judge_ops(ck, good, run_harness(good))
    # ---- search
    cases = []
    n = 500 if ck.tier == 'quick' else 10000
    for _ in range(n):
        nmods = ck.rng.choice([1, 1, 1, 2, 3])
        crlf = ck.rng.random() < 0.4
        comments = ck.rng.random() < 0.5
        nass = ck.rng.randint(1, 30 if ck.rng.random() < 0.2 else 8)
        texts = []
        base = 0
        target_mod = ck.rng.randrange(nmods)
        target = None
        for mi in range(nmods):
            t, hspan, spans = build_module(ck, nass if mi == target_mod else ck.rng.randint(1, 4), crlf, comments, 'M%d' % mi)
            if mi == target_mod:
                target = (base, hspan, spans)
            texts.append(t)
            base += len(t.encode('utf-8'))
        full = ''.join(texts)
        base, hspan, spans = target
        kind = ck.rng.choice(['delete', 'replace', 'insert'])
        if ck.rng.random() < 0.1:
            span = (base + hspan[0], base + hspan[1])
        else:
            s = ck.rng.choice(spans)
            span = (base + s[0], base + s[1])
        new, pos, junk = corrupt(ck, full, span, kind)
        as_file = ck.rng.random() < 0.3
        cases.append({'op': 'compile', 'sources': [new], 'as_file': as_file, 'proj': False,
                      '_kind': kind, '_bounds': (span[0], pos if junk else None), '_base': full})
    # the malformed definition is the last thing in the input and nothing unindented follows it (END indented or missing): the
    # excerpt then takes its fall-back form; blank lines before the definition must not shift its numbering
    BAD = ['Gamma BOOLEAN', 'Gamma ::= SEQUENCE { a INTEGER,, }', 'Gamma ::= INTEGER (0..', 'gamma INTEGER ::= ?', 'Gamma ::= ENUMERATED { a(, }',
           '% Gamma ::= NULL', 'Gamma ::= CHOICE { a [ INTEGER }', 'Gamma ::= SEQUENCE {\n   a INTEGER,\n   b ? }']
    for _ in range(60 if ck.tier == 'quick' else 1500):
        nl = '\r\n' if ck.rng.random() < 0.3 else '\n'
        pre = 'Mt DEFINITIONS AUTOMATIC TAGS ::= BEGIN' + nl + ''.join('Ok%d ::= INTEGER (0..%d)%s' % (j, j + 7, nl) for j in range(ck.rng.randint(0, 4)))
        pre += nl * ck.rng.randint(0, 4)
        if ck.rng.random() < 0.3:
            pre += '-- é a remark with multi-byte text €' + nl + nl
        bad = ck.rng.choice(BAD).replace('\n', nl)
        tail = ck.rng.choice(['', nl + '  END', nl + '  END' + nl, nl + ' -- c', ' ', nl + nl + '   '])
        src = pre + bad + tail
        lo = len(pre.encode('utf-8'))
        cases.append({'op': 'compile', 'sources': [src], 'as_file': ck.rng.random() < 0.3, 'proj': False, '_kind': 'last-definition',
                      '_bounds': (lo, None)})
    # comments / strings left open at the end of an assignment
    for _ in range(40 if ck.tier == 'quick' else 600):
        t, hspan, spans = build_module(ck, ck.rng.randint(2, 6), ck.rng.random() < 0.4, False)
        s = ck.rng.choice(spans[1:])
        b = t.encode('utf-8')
        new = (b[:s[1]] + b' /* never closed ' + b[s[1]:]).decode('utf-8')
        cases.append({'op': 'compile', 'sources': [new], 'as_file': False, 'proj': False, '_kind': 'open-comment',
                      '_bounds': (s[0], None), '_open_comment': True})
    ck.sample({'asn1': cases[0]['sources'][0][:500], 'corruption': cases[0]['_kind']})
    # the uncorrupted modules must compile: otherwise the corruption is not the first malformed definition
    bases = sorted({c['_base'] for c in cases if c.get('_base')})
    bres = run_harness([{'op': 'compile', 'sources': [b], 'proj': False} for b in bases])
    invalid = {b for b, r in zip(bases, bres) if not r.get('ok')}
    for b in list(invalid)[:3]:
        ck.broken.append({'kind': 'generator', 'item': 'C17 base module', 'detail': 'the uncorrupted module does not compile: ' + b[:400]})
    cases = [c for c in cases if c.get('_base') not in invalid]
    judge_errors(ck, cases, run_harness(cases))


def replay(ck, data):
    ck.prove('Props/C17.v', ['RasnV.Props.C17'], extra=['Corr/C17.vo'])
    cases = []
    for v in data.get('violations', []):
        if isinstance(v.get('case'), str):
            cases.append({'op': 'compile', 'sources': [v['case']], 'as_file': bool(v.get('as_file')), 'proj': False,
                          '_kind': v.get('corruption', 'replay'), '_bounds': tuple(v.get('bounds') or (0, None))})
    judge_errors(ck, cases, run_harness(cases))
