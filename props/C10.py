"""C10 -- no definition is lost silently; warnings are local; Err carries nothing."""
import json
from props import modgen as MG
from common import cn, clist, cstr, run_harness, coq_eval_bad

REQ = ['RasnV.Corr.Driver']
KNOWN_DUP = 'C10-duplicate-bare-names'
KNOWN_REAL_OBJ = 'C10-real-value-read-as-object'


def src_term(ms):
    """the module set as a Coq term: one source, its modules, their definitions (module, name, id, status code)"""
    mods = []
    for mname, _, defs in ms.modules:
        mods.append(clist(['(%s, %s, %s, %s)' % (cstr(mname), cstr(d.name), cn(d.uid), cn(d.status)) for d in defs])
                    if defs else '(@nil (str * str * N * N))')
    return '[%s]' % clist(mods)


def rust_mod(name):
    return name.lower().replace('-', '_')


def observe(ms, r):
    """-> (blocks [(asn1 module name, [asn1 names with bindings, in order])], number of warnings)"""
    blocks = MG.blocks_of(r)
    out = []
    for mname, _, defs in sorted(ms.modules, key=lambda m: m[0]):
        items = blocks.get(rust_mod(mname))
        if items is None:
            continue
        order = []
        for it in items:
            if it.get('kind') in ('struct', 'enum', 'const', 'static', 'type'):
                n = MG.norm_name(it['name'])
                for d in defs:
                    if MG.norm_name(d.name) == n and d.name not in order:
                        order.append(d.name)
        out.append((mname, order))
    return out, len(r.get('warnings') or [])


def closure_dependents(ms, names):
    """definitions depending (transitively) on any of `names`"""
    dep = set(names)
    changed = True
    while changed:
        changed = False
        for d in ms.all_defs():
            if d.name not in dep and any(x in dep for x in d.deps):
                dep.add(d.name)
                changed = True
    return dep


def variant(ck, ms, whole_module=False):
    """copy of ms with 1..3 definitions replaced by parseable-but-unsupported ones (same names)"""
    import copy
    v = copy.deepcopy(ms)
    defs = v.all_defs()
    k = min(len(defs), ck.rng.randint(1, 3))
    chosen = ck.rng.sample(defs, k)
    if whole_module:
        chosen = list(v.modules[-1][2])
    for d in chosen:
        if d.is_value:
            kind, mk, st = ck.rng.choice(MG.UNSUPPORTED_VALUES)
        else:
            kind, mk, st = ck.rng.choice(MG.UNSUPPORTED)
        d.text = mk(d.name)
        d.kind, d.status, d.deps = kind, st, []
        if kind.startswith('macro'):
            # the definition is now known under the macro's name (it decides its place in the name-keyed map)
            d.old_name = d.name
            d.name = d.text.split(' ')[0]
    return v, [getattr(d, 'old_name', d.name) for d in chosen]


def run(ck):
    ck.coverage['rule'] = ('generated module sets (1..4 modules with differing tagging / extensibility defaults, references across modules through '
                           'IMPORTS, values) and, for each, variants with 1..3 assignments replaced by parseable but unsupported definitions '
                           '(REAL, VideotexString, TIME, inverted range, REAL value, class, parameterized template), plus module sets with the same '
                           'name in two modules and malformed variants; per compilation: the module blocks and the names with bindings in order and '
                           'the number of warnings compared with the driver model (inside Coq), and the bindings of every assignment that does not '
                           'depend on a replaced one compared item by item with the unreplaced compilation')
    ck.assumptions += ['the outcome of one definition in linker and generator is abstract in the theorems (any function); the search instantiates it '
                       'with the category each generated definition is built to have',
                       'warnings carry no position and often no name: they are counted, not attributed']
    ck.prove('Props/C10.v', ['RasnV.Props.C10'], extra=['Corr/Driver.vo'])
    n = 60 if ck.tier == 'quick' else 1500
    cases, meta = [], []
    for k in range(n):
        ms = MG.gen_module_set(ck.rng, k, max_defs=8 if ck.tier == 'quick' else 14)
        base_src = MG.render(ms)
        cases.append({'op': 'compile', 'sources': base_src})
        meta.append(('base', ms, None, k))
        for vi in range(3):
            if vi == 2 and k % 4 == 0:
                # a module all of whose definitions are unsupported
                small = MG.gen_module_set(ck.rng, 50 + k % 40, nmods=2, max_defs=2, cross=False)
                v, replaced = variant(ck, small, whole_module=True)
                cases.append({'op': 'compile', 'sources': MG.render(v)})
                meta.append(('variant-whole-module', v, replaced, None))
                continue
            v, replaced = variant(ck, ms)
            cases.append({'op': 'compile', 'sources': MG.render(v)})
            meta.append(('variant', v, replaced, k))
        if k % 5 == 0:
            bad = base_src[0].replace('::=', ':=', 1) if ck.rng.random() < 0.5 else base_src[0][:len(base_src[0]) // 2]
            cases.append({'op': 'compile', 'sources': [bad], 'text': True})
            meta.append(('malformed', ms, None, k))
    # the same bare name in two modules
    for k in range(10 if ck.tier == 'quick' else 100):
        a = 'Dup%02d' % k
        src = ('Mx%02d-a DEFINITIONS AUTOMATIC TAGS ::= BEGIN\n%s ::= INTEGER (0..5)\nOnlyA%02d ::= BOOLEAN\nEND\n'
               'Mx%02d-b DEFINITIONS AUTOMATIC TAGS ::= BEGIN\n%s ::= SEQUENCE { x BOOLEAN }\nEND\n' % (k, a, k, k, a))
        cases.append({'op': 'compile', 'sources': [src]})
        meta.append(('duplicate', None, a, k))
    cases.append({'op': 'compile', 'sources': ['Mr DEFINITIONS ::= BEGIN\nvr REAL ::= { mantissa 1, base 2, exponent 3 }\nKeep ::= NULL\nEND\n']})
    meta.append(('real-object', None, 'vr', 0))
    ck.sample({'asn1': cases[1]['sources'][0][:1200]})
    res = run_harness(cases)
    base_items = {}
    terms, idx, exact_flags = [], [], []
    for i, (c, (kind, ms, info, k), r) in enumerate(zip(cases, meta, res)):
        src = c['sources'][0]
        ck.note_case(src)
        ck.count(kind)
        if 'panic' in r or 'crash' in r:
            ck.count('panic-or-crash')
            continue
        if kind == 'malformed':
            if r.get('ok') or r.get('generated') or r.get('items'):
                if r.get('ok'):
                    ck.count('malformed-still-valid')
                else:
                    ck.violation('impl-violation', src, why='a failed compilation carries bindings')
            continue
        if kind == 'duplicate':
            blocks = MG.blocks_of(r) if r.get('ok') else {}
            names_a = [it.get('name') for it in blocks.get('mx%02d_a' % k, [])]
            names_b = [it.get('name') for it in blocks.get('mx%02d_b' % k, [])]
            lost = info not in names_a or info not in names_b
            if lost and not r.get('warnings'):
                if ck.is_known(KNOWN_DUP):
                    ck.known_hit(KNOWN_DUP, {'asn1': src, 'module_a': names_a, 'module_b': names_b})
                else:
                    ck.violation('impl-violation', src, why='an assignment whose name also occurs in another module vanished without a warning',
                                 module_a=names_a, module_b=names_b)
            continue
        if kind == 'real-object':
            blocks = MG.blocks_of(r) if r.get('ok') else {}
            names = [it.get('name') for it in blocks.get('mr', [])]
            if 'VR' not in names and not r.get('warnings'):
                if ck.is_known(KNOWN_REAL_OBJ):
                    ck.known_hit(KNOWN_REAL_OBJ, {'asn1': src, 'items': names})
                else:
                    ck.violation('impl-violation', src, why='a REAL value in sequence notation vanished without a warning', items=names)
            continue
        if not r.get('ok') or 'items' not in r:
            ck.violation('impl-violation', src, impl={x: y for x, y in r.items() if x not in ('generated', 'items')},
                         why='a module set of supported and parseable-but-unsupported definitions is rejected as a whole, or its bindings do not parse')
            continue
        obs_blocks, nwarn = observe(ms, r)
        exact = True
        if kind == 'variant':
            # definitions depending on a replaced one: what the linker makes of them is not fixed by construction; they must
            # still be accounted for -- present, or (at least) one warning each
            present_now = {n for _, ns in obs_blocks for n in ns}
            for d in ms.all_defs():
                if d.name in closure_dependents(ms, info) and d.name not in info:
                    exact = False
                    d.status = MG.PRESENT if d.name in present_now else MG.WARNED_GEN
        exact_flags.append(exact)
        terms.append('(%s, %s, %s)' % (src_term(ms), clist(['(%s, %s)' % (cstr(m), clist(ns, cstr) if ns else '(@nil str)') for m, ns in obs_blocks])
                                       if obs_blocks else '(@nil (str * list str))', cn(nwarn)))
        idx.append(i)
        per_def = {}
        blocks = MG.blocks_of(r)
        for mname, _, defs in ms.modules:
            by, _ = MG.items_by_def(blocks.get(rust_mod(mname), []), defs)
            per_def.update({d.name: json.dumps(v, sort_keys=True) for d, v in ((d, by[d.name]) for d in defs)})
        if kind == 'base':
            base_items[k] = per_def
        elif kind == 'variant':
            base = base_items.get(k)
            if base is None:
                continue
            affected = closure_dependents(ms, info)
            renamed = {d.name for d in ms.all_defs() if hasattr(d, 'old_name')}
            for name, js in per_def.items():
                if name in affected or name in renamed:
                    continue
                if base.get(name) != js:
                    ck.violation('impl-violation', src, definition=name, replaced=info,
                                 why='the bindings of %s, which does not depend on the replaced definitions %s, differ from the compilation '
                                     'without the replacement' % (name, info), before=(base.get(name) or '')[:300], after=js[:300])
                    break
    ty = 'list (list (list (str * str * N * N))) * list (str * list str) * N'
    ex = [j for j, e in enumerate(exact_flags) if e]
    ge = [j for j, e in enumerate(exact_flags) if not e]
    bad = [ex[j] for j in coq_eval_bad('C10', REQ, ty, 'corr', [terms[j] for j in ex], label='driver')]
    bad += [ge[j] for j in coq_eval_bad('C10', REQ, ty, 'corr_ge', [terms[j] for j in ge], label='driverge')]
    ck.coverage['exact_warning_counts'] = len(ex)
    for j in bad:
        i = idx[j]
        kind, ms, info, k = meta[i]
        obs_blocks, nwarn = observe(ms, res[i])
        # accounting violated on the implementation?  every definition must be present, warned or of a no-output kind
        present = {n for _, ns in obs_blocks for n in ns}
        expected_present = {d.name for d in ms.all_defs() if d.status in (MG.PRESENT, MG.PRESENT_WARNED)}
        expected_warn = sum(1 for d in ms.all_defs() if d.status in (MG.PRESENT_WARNED, MG.WARNED_VALIDATE, MG.WARNED_GEN))
        missing = sorted(expected_present - present)
        if not missing and nwarn < expected_warn:
            ck.violation('impl-violation', cases[i]['sources'][0], warnings=res[i].get('warnings'), expected_warnings=expected_warn,
                         why='%d definitions are built to have no bindings and a warning, but only %d warnings are returned: a definition is '
                             'neither represented nor the subject of a warning' % (expected_warn, nwarn))
        elif missing and nwarn <= expected_warn:
            ck.violation('impl-violation', cases[i]['sources'][0], missing=missing, warnings=res[i].get('warnings'),
                         why='definitions %s have no bindings and no warning accounts for them' % missing)
        else:
            ck.broken.append({'kind': 'correspondence', 'item': 'driver data flow (blocks / order / warnings)',
                              'detail': 'model predicts other blocks or another number of warnings (%d observed) for %s; observed %s'
                                        % (nwarn, cases[i]['sources'][0][:900], json.dumps(obs_blocks)[:400])})
    ck.coverage['traces_validated_against_impl'] = len(terms)


def replay(ck, data):
    ck.prove('Props/C10.v', ['RasnV.Props.C10'], extra=['Corr/Driver.vo'])
    for v in data.get('violations', []):
        if isinstance(v.get('case'), str):
            r = run_harness([{'op': 'compile', 'sources': [v['case']]}])[0]
            ck.note_case(v['case'])
            blocks = MG.blocks_of(r) if r.get('ok') else {}
            names = {MG.norm_name(it.get('name') or '') for its in blocks.values() for it in its}
            missing = [m for m in (v.get('missing') or []) if MG.norm_name(m) not in names]
            if not r.get('ok') or (missing and not r.get('warnings')) or v.get('definition'):
                ck.violation('impl-violation', v['case'], why='replayed: ' + (v.get('why') or ''), missing=missing)
