"""C18 -- TypeScript declarations have the JER shape of each type."""
import json
import re
from common import cn, cbool, copt, clist, cstr, run_harness, coq_eval_bad_multi

REQ = ['RasnV.Corr.C18']
KNOWN_GROUP = 'C18-extension-group-nested'
KNOWN_UPPER = 'C18-uppercase-import'
STRS = ['IA5String', 'UTF8String', 'PrintableString', 'VisibleString', 'NumericString', 'BMPString', 'UniversalString', 'GeneralString',
        'TeletexString', 'GraphicString', 'VideotexString', 'OBJECT IDENTIFIER', 'UTCTime', 'GeneralizedTime']
LOW = 'abcdefghijklmnopqrstuvwxyz'
UP = 'ABCDEFGHIJKLMNOPQRSTUVWXYZ'
TS_WORDS = {'null', 'boolean', 'number', 'string', 'any', 'object', 'export', 'type', 'enum', 'const', 'import', 'namespace', 'value',
            'length', 'key'}


def mangle(n):
    return n.replace('-', '_')


# ------------------------------------------------------------------ generator
class G:
    def __init__(self, ck, known_types):
        self.rng = ck.rng
        self.known = known_types      # names usable in references: [(name, module)]
        self.used_refs = set()

    def ident(self, first):
        s = self.rng.choice(first)
        for _ in range(self.rng.randint(1, 7)):
            r = self.rng.random()
            if r < 0.15 and s[-1] != '-':
                s += '-'
            elif r < 0.3:
                s += self.rng.choice('0123456789')
            else:
                s += self.rng.choice(LOW + UP)
        if s[-1] == '-':
            s += 'z'
        return s

    def members_names(self, n):
        out = []
        while len(out) < n:
            c = self.ident(LOW)
            if mangle(c) not in {mangle(x) for x in out} and c not in ('value', 'length', 'key') and not c.startswith('ext-group'):
                out.append(c)
        return out

    def ty(self, depth):
        kinds = ['null', 'bool', 'int', 'real', 'bitsf', 'bitsv', 'octets', 'str', 'enum', 'ref', 'int', 'bool']
        if depth < 3:
            kinds += ['choice', 'struct', 'of', 'struct', 'of']
        k = self.rng.choice(kinds)
        if k == 'ref' and not self.known:
            k = 'int'
        if k == 'int':
            return ('int', self.rng.choice(['', ' (0..255)', ' (-5..5, ...)', ' { one(1), two(2) }']))
        if k == 'bitsf':
            return ('bitsf', self.rng.choice([' (SIZE (8))', ' (SIZE (1))', ' (SIZE (64))']))
        if k == 'bitsv':
            return ('bitsv', self.rng.choice(['', ' (SIZE (1..8))', ' (SIZE (8, ...))', ' { aa(0), bb(1) }', ' (SIZE (4..MAX))']))
        if k == 'octets':
            return ('octets', self.rng.choice(['', ' (SIZE (4))', ' (SIZE (0..9))']))
        if k == 'str':
            st = self.rng.choice(STRS)
            return ('str', st + (self.rng.choice(['', ' (SIZE (1..5))']) if 'String' in st else ''))
        if k == 'enum':
            names = self.members_names(self.rng.randint(1, 5))
            return ('enum', names, self.rng.random() < 0.3)
        if k == 'choice':
            names = self.members_names(self.rng.randint(1, 4))
            return ('choice', [(n, self.ty(depth + 1)) for n in names], self.rng.random() < 0.3)
        if k == 'struct':
            names = self.members_names(self.rng.randint(0, 5))
            ms = []
            for n in names:
                t = self.ty(depth + 1)
                opt = None
                r = self.rng.random()
                if r < 0.25:
                    opt = 'OPTIONAL'
                elif r < 0.4:
                    d = default_for(t)
                    if d:
                        opt = 'DEFAULT ' + d
                ms.append((n, opt, t))
            ext = self.rng.choice([None, None, 'end', 'mid'])
            return ('struct', self.rng.choice(['SEQUENCE', 'SET']), ms, ext)
        if k == 'of':
            return ('of', self.rng.choice(['SEQUENCE', 'SET']), self.rng.choice(['', '', ' (SIZE (1..4))', ' SIZE (2)']), self.ty(depth + 1))
        if k == 'ref':
            r = self.rng.choice(self.known)
            self.used_refs.add(r)
            return ('ref', r[0])
        return (k,)


def default_for(t):
    k = t[0]
    if k == 'int':
        return '1' if 'one' not in t[1] else 'one'
    if k == 'bool':
        return 'TRUE'
    if k == 'null':
        return 'NULL'
    if k == 'enum':
        return t[1][0]
    if k == 'str' and 'String' in t[1]:
        return '"x"'
    if k == 'octets':
        return "'00000000'H" if '(SIZE (4))' in t[1] else "'AB'H"
    return None


def to_asn(t):
    k = t[0]
    if k == 'null':
        return 'NULL'
    if k == 'bool':
        return 'BOOLEAN'
    if k == 'int':
        return 'INTEGER' + t[1]
    if k == 'real':
        return 'REAL'
    if k in ('bitsf', 'bitsv'):
        return 'BIT STRING' + t[1]
    if k == 'octets':
        return 'OCTET STRING' + t[1]
    if k == 'str':
        return t[1]
    if k == 'enum':
        items = list(t[1])
        if t[2]:
            items.append('...')
        if len(items) >= 2 and len(items[0]) % 2 == 0:
            # a block comment of two lines after the first enumeral: every line of it has to stay a comment in the declarations
            return 'ENUMERATED { %s, /* first line\n } second line { */ %s }' % (items[0], ', '.join(items[1:]))
        return 'ENUMERATED { %s }' % ', '.join(items)
    if k == 'choice':
        items = ['%s %s' % (n, to_asn(a)) for n, a in t[1]]
        if t[2]:
            items.append('...')
        return 'CHOICE { %s }' % ', '.join(items)
    if k == 'struct':
        items = ['%s %s%s' % (n, to_asn(a), (' ' + o) if o else '') for n, o, a in t[2]]
        if t[3] == 'end' or (t[3] == 'mid' and len(items) < 2):
            items.append('...')
        elif t[3] == 'mid':
            items.insert(len(items) - 1, '...')
        return '%s { %s }' % (t[1], ', '.join(items))
    if k == 'of':
        if t[2].startswith(' SIZE'):
            return '%s%s OF %s' % (t[1], t[2], to_asn(t[3]))
        return '%s%s OF %s' % (t[1], t[2], to_asn(t[3]))
    if k == 'ref':
        return t[1]
    raise ValueError(k)


def to_coq(t):
    k = t[0]
    if k in ('null', 'bool'):
        return {'null': 'TNull', 'bool': 'TBool'}[k]
    if k in ('int', 'real'):
        return 'TNum'
    if k == 'bitsf':
        return 'TBitsFixed'
    if k == 'bitsv':
        return 'TBitsVar'
    if k == 'octets':
        return 'TOctets'
    if k == 'str':
        return 'TStrLike'
    if k == 'enum':
        return '(TEnum %s)' % clist(t[1], cstr)
    if k == 'choice':
        return '(TChoice %s)' % clist(['(%s, %s)' % (cstr(n), to_coq(a)) for n, a in t[1]])
    if k == 'struct':
        ms = clist(['(%s, %s, %s)' % (cstr(n), cbool(bool(o)), to_coq(a)) for n, o, a in t[2]]) if t[2] else '(@nil (str * bool * ty))'
        return '(TStruct %s %s)' % (ms, cbool(t[3] is not None))
    if k == 'of':
        return '(TOf %s)' % to_coq(t[3])
    if k == 'ref':
        return '(TRef %s)' % cstr(t[1])
    raise ValueError(k)


def to_shape(t, top=False):
    """the JER shape, written independently of the Coq specification"""
    k = t[0]
    if k == 'null':
        return ('null',)
    if k == 'bool':
        return ('boolean',)
    if k in ('int', 'real'):
        return ('number',)
    if k == 'bitsf':
        return ('string',)
    if k == 'bitsv':
        return ('obj', [('value', False, ('string',)), ('length', False, ('number',))], False)
    if k == 'octets':
        return ('union', [('string',), ('object',)]) if top else ('string',)
    if k == 'str':
        return ('string',)
    if k == 'enum':
        return ('union', [('lit', n) for n in t[1]])
    if k == 'choice':
        return ('union', [('obj', [(mangle(n), False, to_shape(a))], False) for n, a in t[1]])
    if k == 'struct':
        return ('obj', [(mangle(n), bool(o), to_shape(a)) for n, o, a in t[2]], t[3] is not None)
    if k == 'of':
        return ('array', to_shape(t[3]))
    if k == 'ref':
        return ('name', mangle(t[1]))
    raise ValueError(k)


def norm_union(s):
    """a union of one alternative is that alternative (at every level)"""
    k = s[0]
    if k == 'union':
        parts = [norm_union(x) for x in s[1]]
        return parts[0] if len(parts) == 1 else ('union', parts)
    if k == 'array':
        return ('array', norm_union(s[1]))
    if k == 'obj':
        return ('obj', [(n, o, norm_union(a)) for n, o, a in s[1]], s[2])
    return tuple(s)


# ------------------------------------------------------------------ TypeScript reader
TS_TOK = re.compile(r'//[^\n]*|"(?:\\.|[^"\\])*"|[A-Za-z_$][A-Za-z0-9_$]*|\d+(?:\.\d+)?|[{}()\[\]:;,?|=.<>\-+*/&!]|\S')


def ts_tokens(text):
    return [t for t in TS_TOK.findall(text) if not t.startswith('//')]


def balanced(toks):
    st = []
    pairs = {'}': '{', ']': '[', ')': '('}
    for t in toks:
        if t in '{[(' and len(t) == 1:
            st.append(t)
        elif t in pairs:
            if not st or st.pop() != pairs[t]:
                return False
    return not st


def split_namespaces(toks):
    """-> {namespace: [statement token lists]} ; raises ValueError on malformed structure"""
    out = {}
    i = 0
    while i < len(toks):
        if toks[i:i + 2] != ['export', 'namespace'] or toks[i + 3] != '{':
            raise ValueError('expected `export namespace N {` at token %d: %r' % (i, toks[i:i + 4]))
        name = toks[i + 2]
        j = i + 4
        depth = 1
        stmts, cur = [], []
        while j < len(toks) and depth > 0:
            t = toks[j]
            if t in ('{', '[', '('):
                depth += 1
            elif t in ('}', ']', ')'):
                depth -= 1
                if depth == 0:
                    break
            if t == ';' and depth == 1:
                if cur:
                    stmts.append(cur)
                cur = []
            else:
                cur.append(t)
            j += 1
        if depth != 0:
            raise ValueError('namespace %s not closed' % name)
        if cur:
            raise ValueError('statement without `;` at the end of namespace %s: %r' % (name, cur[:8]))
        out.setdefault(name, []).extend(stmts)
        i = j + 1
    return out


class TsParser:
    def __init__(self, toks):
        self.t = toks
        self.i = 0

    def peek(self):
        return self.t[self.i] if self.i < len(self.t) else None

    def eat(self, v=None):
        x = self.peek()
        if x is None or (v is not None and x != v):
            raise ValueError('expected %r, found %r' % (v, x))
        self.i += 1
        return x

    def type(self):
        parts = [self.postfix()]
        while self.peek() == '|':
            self.eat('|')
            parts.append(self.postfix())
        return parts[0] if len(parts) == 1 else ('union', parts)

    def postfix(self):
        p = self.primary()
        while self.peek() == '[':
            self.eat('[')
            self.eat(']')
            p = ('array', p)
        return p

    def primary(self):
        x = self.eat()
        if x in ('null', 'boolean', 'number', 'string', 'any', 'object'):
            return (x,)
        if x.startswith('"'):
            return ('lit', json.loads(x))
        if x == '(':
            t = self.type()
            self.eat(')')
            return t
        if x == '{':
            members, index = [], False
            while self.peek() != '}':
                if self.peek() == '[':
                    self.eat('[')
                    self.eat('key')
                    self.eat(':')
                    self.eat('string')
                    self.eat(']')
                    self.eat(':')
                    self.eat('any')
                    index = True
                else:
                    k = self.eat()
                    if not re.fullmatch(r'[A-Za-z_$][A-Za-z0-9_$]*', k):
                        raise ValueError('bad member key %r' % k)
                    opt = False
                    if self.peek() == '?':
                        self.eat('?')
                        opt = True
                    self.eat(':')
                    members.append((k, opt, self.type()))
                if self.peek() == ',':
                    self.eat(',')
                elif self.peek() != '}':
                    raise ValueError('expected `,` or `}` after a member, found %r' % self.peek())
            self.eat('}')
            return ('obj', members, index)
        if re.fullmatch(r'[A-Za-z_$][A-Za-z0-9_$]*', x):
            return ('name', x)
        raise ValueError('unexpected token %r' % x)


def parse_statement(st):
    """-> ('import', alias, ns, name) | ('type', name, shape) | ('enum', name, [(id, value)]) | ('const', name)"""
    if st[0] == 'import':
        if len(st) == 6 and st[2] == '=' and st[4] == '.':
            return ('import', st[1], st[3], st[5])
        raise ValueError('bad import %r' % st)
    if st[:2] == ['export', 'type'] and st[3] == '=':
        p = TsParser(st[4:])
        s = p.type()
        if p.i != len(p.t):
            raise ValueError('trailing tokens in type %s: %r' % (st[2], p.t[p.i:p.i + 5]))
        return ('type', st[2], s)
    if st[:2] == ['export', 'enum'] and st[3] == '{' and st[-1] == '}':
        body = st[4:-1]
        ms = []
        i = 0
        while i < len(body):
            if body[i + 1] != '=' or not body[i + 2].startswith('"'):
                raise ValueError('bad enum member at %r' % body[i:i + 4])
            ms.append((body[i], json.loads(body[i + 2])))
            i += 3
            if i < len(body):
                if body[i] != ',':
                    raise ValueError('enum members not separated by `,`')
                i += 1
        return ('enum', st[2], ms)
    if st[:2] == ['export', 'const'] and st[3] == '=':
        return ('const', st[2])
    raise ValueError('unknown statement %r' % st[:6])


def names_in(shape, acc):
    k = shape[0]
    if k == 'name':
        acc.add(shape[1])
    elif k == 'array':
        names_in(shape[1], acc)
    elif k == 'union':
        for s in shape[1]:
            names_in(s, acc)
    elif k == 'obj':
        for _, _, s in shape[1]:
            names_in(s, acc)
    return acc


# ------------------------------------------------------------------ cases
def build_case(ck, k):
    nmods = ck.rng.choice([1, 1, 2, 3])
    mods = []
    known = []
    expected = {}
    for mi in range(nmods):
        mname = 'Mod-%d-%s%d' % (k, ck.rng.choice(['a', 'b-c', 'X']), mi)
        g = G(ck, list(known))
        ntypes = ck.rng.randint(1, 6)
        names, defs = [], []
        local_known = list(known)
        g.known = local_known
        for ti in range(ntypes):
            while True:
                tn = g.ident(UP)
                if ck.rng.random() < 0.15:
                    # capitals, digits and hyphens only (S1AP-PDU-ID): a type reference, not an information object class name
                    tn = ck.rng.choice(UP) + ''.join(ck.rng.choice(UP + '0123456789') for _ in range(ck.rng.randint(1, 5))) + \
                        ck.rng.choice(['1', '-2X', '3-ID'])
                if not all(ch in UP + '-' for ch in tn) and mangle(tn) not in {mangle(x) for x in names} and mangle(tn) not in {mangle(x[0]) for x in known}:
                    break
            t = g.ty(0)
            names.append(tn)
            defs.append((tn, t))
            local_known.append((tn, mname))
        imports = {}
        for rn, rm in g.used_refs:
            if rm != mname:
                imports.setdefault(rm, []).append(rn)
        lines = []
        if imports:
            lines.append('IMPORTS ' + ' '.join('%s FROM %s' % (', '.join(sorted(set(v))), m) for m, v in sorted(imports.items())) + ';')
        for tn, t in defs:
            lines.append('%s ::= %s' % (tn, to_asn(t)))
        # a parameterized type and an instance, and a few values: no type declaration / value declarations only
        extra_types = {}
        if ck.rng.random() < 0.3:
            lines.append('Par%d {T} ::= SEQUENCE { pp T, qq BOOLEAN OPTIONAL }' % mi)
            lines.append('Ins%d ::= Par%d {INTEGER}' % (mi, mi))
            extra_types['Ins%d' % mi] = ('struct', 'SEQUENCE', [('pp', None, ('int', '')), ('qq', 'OPTIONAL', ('bool',))], None)
        if ck.rng.random() < 0.4:
            lines.append('val%d INTEGER ::= %d' % (mi, ck.rng.randint(-9, 99)))
            lines.append('lst%d SEQUENCE OF INTEGER ::= { %s }' % (mi, ', '.join(str(x) for x in range(ck.rng.randint(0, 3)))))
            lines.append('str%d IA5String ::= "a""b\\c"' % mi)
        mods.append('%s DEFINITIONS AUTOMATIC TAGS ::= BEGIN\n%s\nEND\n' % (mname, '\n'.join(lines)))
        expected[mangle(mname)] = {'types': dict(defs), 'extra': extra_types, 'imports': imports, 'absent': ['Par%d' % mi]}
        known += [(tn, mname) for tn in names]
    return {'op': 'compile', 'sources': [''.join(mods)], 'backend': 'ts', 'proj': False, 'text': True, '_expected': expected}


def judge(ck, cases, results):
    terms, idx = [], []
    for ci, (c, r) in enumerate(zip(cases, results)):
        src = c['sources'][0]
        ck.note_case(src)
        ck.count('modules:%d' % len(c['_expected']))
        if 'panic' in r or 'crash' in r:
            ck.count('panic-or-crash')
            continue
        if not r.get('ok'):
            ck.violation('impl-violation', src, impl={k: v for k, v in r.items() if k != 'generated'},
                         why='a module set of the supported notation is rejected by the TypeScript back end')
            continue
        text = r.get('generated') or ''
        toks = ts_tokens(text)
        problems = []
        if not balanced(toks):
            problems.append('braces, brackets or parentheses of the output are not balanced')
        try:
            nss = split_namespaces(toks)
        except (ValueError, IndexError) as ex:
            ck.violation('impl-violation', src, why='the output is not a sequence of namespaces of `;`-terminated statements: %s' % ex,
                         warnings=r.get('warnings'))
            continue
        for ns, exp in c['_expected'].items():
            stmts = nss.get(ns)
            if stmts is None:
                problems.append('no namespace %s' % ns)
                continue
            parsed = []
            for st in stmts:
                try:
                    parsed.append((parse_statement(st), st))
                except (ValueError, IndexError) as ex:
                    problems.append('statement of %s does not parse as a declaration: %s' % (ns, ex))
            decls = {}
            for p, st in parsed:
                if p[0] in ('type', 'enum'):
                    decls.setdefault(p[1], []).append((p, st))
            imported = {p[1] for p, _ in parsed if p[0] == 'import'}
            for p, _ in parsed:
                if p[0] == 'import' and p[1] != p[3]:
                    problems.append('import alias %s differs from the imported name %s' % (p[1], p[3]))
            all_types = dict(exp['types'])
            all_types.update(exp['extra'])
            for tn, t in all_types.items():
                ck.count('type:' + t[0])
                d = decls.get(mangle(tn), [])
                if len(d) != 1:
                    problems.append('%d declarations for type %s in namespace %s (warnings: %s)' % (len(d), tn, ns, r.get('warnings')))
                    continue
                (p, st) = d[0]
                want = norm_union(to_shape(t, top=True))
                if p[0] == 'enum':
                    if t[0] != 'enum':
                        problems.append('%s is declared as an enum' % tn)
                    elif [m[1] for m in p[2]] != list(t[1]) or [m[0] for m in p[2]] != [mangle(n) for n in t[1]]:
                        problems.append('enum %s members %r do not carry the enumeral names %r' % (tn, p[2], t[1]))
                else:
                    if t[0] == 'enum':
                        problems.append('%s (ENUMERATED) is not declared as an enum' % tn)
                    elif norm_union(p[2]) != want:
                        problems.append('shape of %s is %s, the JER shape is %s' % (tn, json.dumps(p[2])[:300], json.dumps(want)[:300]))
                    for nm in names_in(p[2], set()):
                        if nm not in decls and nm not in imported:
                            problems.append('%s mentions %s, which is neither declared in %s nor imported' % (tn, nm, ns))
                if tn in exp['types']:
                    terms.append('(%s, %s, %s)' % (cstr(tn), to_coq(t), clist(st + [';'], cstr)))
                    idx.append((ci, tn))
            for tn in exp['absent']:
                if mangle(tn) in decls:
                    problems.append('the parameterized type %s has a declaration' % tn)
            extra = set(decls) - {mangle(x) for x in all_types}
            if extra:
                problems.append('declarations without a type assignment: %s' % sorted(extra))
        if problems:
            ck.violation('impl-violation', src, problems=problems[:8], why='TypeScript output: ' + problems[0], output=text[:1500],
                         expected=json.dumps(c['_expected']))
    bad = coq_eval_bad_multi('C18', REQ, 'str * ty * list tok', ['corr', 'spec_decl'], terms, label='decl')
    for j in bad[0]:
        ci, tn = idx[j]
        ck.broken.append({'kind': 'correspondence', 'item': 'TypeScript rendering (type_to_tokens / templates)',
                          'detail': 'model and implementation tokens differ for type %s of %s' % (tn, cases[ci]['sources'][0][:1500])})
    for j in bad[1]:
        ci, tn = idx[j]
        ck.violation('impl-violation', cases[ci]['sources'][0], type=tn,
                     why='the declaration of %s is not the canonical notation of its JER shape, or is unbalanced' % tn)
    ck.coverage['traces_validated_against_impl'] = len(terms)


def known_probes(ck):
    probes = [
        (KNOWN_GROUP, 'M DEFINITIONS AUTOMATIC TAGS ::= BEGIN\nSs ::= SEQUENCE { aa INTEGER, ..., [[ bb INTEGER, cc BOOLEAN OPTIONAL ]] }\nEND\n',
         lambda d: 'bb' in [m[0] for m in d['Ss'][2][1]]),
        (KNOWN_UPPER, 'Ma DEFINITIONS AUTOMATIC TAGS ::= BEGIN\nIMPORTS URL FROM Mb;\nUu ::= SEQUENCE { uu URL }\nEND\n'
         'Mb DEFINITIONS AUTOMATIC TAGS ::= BEGIN\nURL ::= IA5String\nEND\n', lambda d: 'URL' in d['__imports__']),
    ]
    res = run_harness([{'op': 'compile', 'sources': [p[1]], 'backend': 'ts', 'proj': False, 'text': True} for p in probes])
    for (slug, src, okf), r in zip(probes, res):
        ck.note_case(src)
        ck.count('known-probe')
        ok = False
        try:
            nss = split_namespaces(ts_tokens(r.get('generated') or ''))
            first = list(nss)[0]
            d = {'__imports__': set()}
            for st in nss[first]:
                p = parse_statement(st)
                if p[0] == 'import':
                    d['__imports__'].add(p[1])
                else:
                    d[p[1]] = p
            ok = bool(okf(d))
        except Exception:
            ok = False
        if not ok:
            if ck.is_known(slug):
                ck.known_hit(slug, {'asn1': src, 'output': (r.get('generated') or '')[:400]})
            else:
                ck.violation('impl-violation', src, why='known-class probe fails but the class is not listed', output=(r.get('generated') or '')[:600])


def run(ck):
    ck.coverage['rule'] = ('module sets (1..3 modules, references across modules through IMPORTS, hyphenated names) of random types nested to '
                           'depth 3 -- all simple types, ENUMERATED, CHOICE, SEQUENCE / SET with OPTIONAL, DEFAULT and extension markers, '
                           'SEQUENCE OF / SET OF of anything, references, a parameterized type with an instance, value assignments -- compiled '
                           'with the TypeScript back end; the output is tokenised, split into namespaces and statements and each declaration is '
                           '(a) compared token by token with the model and with the canonical notation of the JER shape (inside Coq) and (b) '
                           'parsed by a structural TypeScript type parser and compared with a JER shape computed independently')
    ck.assumptions += ['the TypeScript reader in props/C18.py (tokeniser, `|` / `[]` precedence, object members) stands for the TypeScript grammar',
                       'selection types, COMPONENTS OF and extension groups are outside this generator (C02 / known finding)']
    ck.prove('Props/C18.v', ['RasnV.Props.C18'], extra=['Corr/C18.vo'])
    known_probes(ck)
    n = 300 if ck.tier == 'quick' else 8000
    cases = [build_case(ck, k) for k in range(n)]
    ck.sample({'asn1': cases[0]['sources'][0][:1200]})
    judge(ck, cases, run_harness(cases))


def replay(ck, data):
    ck.prove('Props/C18.v', ['RasnV.Props.C18'], extra=['Corr/C18.vo'])
    cases = []
    for v in data.get('violations', []):
        if isinstance(v.get('case'), str):
            exp = json.loads(v['expected']) if v.get('expected') else {}
            cases.append({'op': 'compile', 'sources': [v['case']], 'backend': 'ts', 'proj': False, 'text': True, '_expected': exp})
    judge(ck, cases, run_harness(cases))
