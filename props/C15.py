"""C15 -- permitted-alphabet annotations denote exactly the FROM constraint."""
import json
import re
from common import cz, cn, cbool, copt, clist, cstr, run_harness, coq_eval_bad_multi, coq_eval_bad
from props import pvgen as G

REQ = ['RasnV.Corr.C15']
KM = ['NumericString', 'PrintableString', 'VisibleString', 'IA5String', 'BMPString', 'UniversalString']
OTHER = ['UTF8String', 'TeletexString', 'GeneralString', 'GraphicString']
POOL = {'NumericString': '0123456789 ', 'PrintableString': "ABCXYZabcxyz0189 '()+,-./:=?",
        'VisibleString': 'ABCXYZabcxyz019 !#~{', 'IA5String': 'ABCXYZabcxyz019 !#~{\t',
        'BMPString': 'ABCxyz019 \u00e9\u0100', 'UniversalString': 'ABCxyz019 \u00e9\u0100'}
KNOWN_OPS = 'C15-operators-in-from'
KNOWN_SERIAL = 'C15-serial-from'
KNOWN_OUTER = 'C15-from-in-set-operation'   # fixed by 5aac876: the family stays, a failure is a violation again
KNOWN_ORDER = 'C15-collation-order'
KNOWN_INCL_SETOP = 'C15-inclusion-in-set-operation'
KNOWN_HULL = 'C15-range-union-hull'
KNOWN_FROM_ON_REF = 'C15-from-on-reference'


def parse_from(text):
    """from("\\u{41}","\\u{78}..=\\u{7a}") -> list of ('s', c) / ('r', f, t); '' -> None"""
    if not text:
        return None
    m = re.fullmatch(r'from\((.*)\)', text)
    if not m:
        raise ValueError(text)
    out = []
    for lit in re.findall(r'"([^"]*)"', m.group(1)):
        cps = [int(x, 16) for x in re.findall(r'\\u\{([0-9a-fA-F]+)\}', lit)]
        if '..=' in lit:
            a, b = lit.split('..=')
            fa = re.findall(r'\\u\{([0-9a-fA-F]+)\}', a)
            fb = re.findall(r'\\u\{([0-9a-fA-F]+)\}', b)
            out.append(('r', int(fa[0], 16) if fa else None, int(fb[0], 16) if fb else None))
        else:
            out.append(('s', cps[0]))
    return out


def c_subsets(l):
    if l is None:
        return 'None'
    items = []
    for x in l:
        if x[0] == 's':
            items.append('(SSingle %s)' % cn(x[1]))
        else:
            items.append('(SRange %s %s)' % (copt(x[1], cn), copt(x[2], cn)))
    return '(Some %s)' % (clist(items) if items else '(@nil subset)')


TSTRING = set('0123456789+-:.,/CDHMRPSTWYZ')


def is_tstring(s):
    """the lexer reads such a cstring as a TIME value (finding C07-tstring): kept out of the C15 sweep"""
    return s and set(s) <= TSTRING and any(c.isdigit() for c in s) and any(not c.isdigit() for c in s)


X680 = {'NumericString': set(' 0123456789'),
        'PrintableString': set('ABCDEFGHIJKLMNOPQRSTUVWXYZabcdefghijklmnopqrstuvwxyz0123456789 \'()+,-./:=?'),
        'VisibleString': set(chr(c) for c in range(0x20, 0x7f)),
        'IA5String': set(chr(c) for c in range(0, 0x80)),
        'BMPString': None, 'UniversalString': None}


def chars_of(inner):
    """every character written in the expression"""
    out = []
    s_ = inner
    while True:
        e = s_['base'] if 'e' not in s_ else s_['e']
        if e.get('k') == 'single':
            out += list(e['v'].get('s', ''))
        elif e.get('k') == 'range':
            for b in (e.get('lo'), e.get('hi')):
                if b:
                    out += list(b.get('s', ''))
        if 'e' in s_:
            return out
        s_ = s_['operant']


def reversed_range(inner):
    """some range of the expression has its endpoints in descending order (not valid ASN.1)"""
    def elems(s_):
        while 'e' not in s_:
            yield s_['base']
            s_ = s_['operant']
        yield s_['e']
    for e in elems(inner):
        if e.get('k') == 'range' and e.get('lo') and e.get('hi') and e['lo']['s'] and e['hi']['s'] and ord(e['lo']['s'][0]) > ord(e['hi']['s'][0]):
            return True
    return False


def rand_alpha_elem(rng_, chars):
    if rng_.random() < 0.5:
        while True:
            n = rng_.randint(1, 6) if rng_.random() > 0.03 else 0
            st = ''.join(rng_.choice(chars) for _ in range(n))
            if not is_tstring(st):
                return G.single(G.jstr(st))
    a, b = rng_.choice(chars), rng_.choice(chars)
    if rng_.random() < 0.03:
        a = ''                               # an empty endpoint: must be an error, not a panic (correspondence: Err)
    elif rng_.random() < 0.03:
        b = ''
    r = rng_.random()
    lo = None if r < 0.08 else G.jstr(a)
    hi = None if 0.08 <= r < 0.16 else G.jstr(b)
    return G.rng(lo, hi)


def rand_inner(rng_, chars, union_only):
    n = rng_.randint(1, 3)
    elems = [rand_alpha_elem(rng_, chars) for _ in range(n)]
    ops = ['union' if union_only else rng_.choice(['union', 'union', 'inter', 'except']) for _ in range(n - 1)]
    if ops == ['except', 'except']:
        ops = ['union', 'except']
    return G.chain(elems, ops), ops


def mark_last(inner):
    """the set with `, ...` behind its last operand (None if that operand cannot carry one)"""
    import copy
    s_ = copy.deepcopy(inner)
    node = s_
    while 'e' not in node:
        node = node['operant']
    e = node['e']
    if e.get('k') in ('single', 'range'):
        e['x'] = True
        return s_
    return None


def judge(ck, cases, results):
    aterms, aidx, oterms, oidx = [], [], [], []
    csterms = []
    for i, (c, r) in enumerate(zip(cases, results)):
        op = c['op']
        if 'crash' in r or 'harness_error' in r:
            ck.violation('impl-crash', {k: v for k, v in c.items() if not k.startswith('_')}, impl=r)
            continue
        if op == 'charset':
            a = r['all']
            csterms.append('(%s, %s, %s, %s, %s)' % (c['cs'], cn(len(a)), cn(sum(a)), clist([cn(x) for x in a[:200]]),
                                                     clist([cn(x) for x in a[-50:]])))
            continue
        ck.note_case(json.dumps({k: v for k, v in c.items() if not k.startswith('_')}, sort_keys=True))
        ck.count(c.get('_fam', op))
        kind = 2 if 'panic' in r else (1 if 'err' in r else 0)
        if op == 'alphabet':
            obs = None
            if kind == 0:
                try:
                    obs = parse_from(r['ok'])
                except ValueError:
                    ck.violation('impl-violation', c, impl=r, why='unparsable alphabet annotation')
                    continue
            v = '(Some %s)' % c_subsets(obs) if kind == 0 else 'None'
            aterms.append('(%s, %s, %d%%N, %s)' % (c['cs'], clist([G.c_constraint(x) for x in c['constraints']]), kind, v))
            aidx.append(i)
            if (c.get('_fam') == 'from' and kind == 1 and all(o == 'union' for o in c['_ops']) and not reversed_range(c['_inner'])
                    and X680.get(c['cs']) is not None and set(chars_of(c['_inner'])) <= X680[c['cs']]
                    and '"s": ""' not in json.dumps(c['_inner'])):       # an empty string as range endpoint is not valid notation
                if c['cs'] in ('NumericString', 'PrintableString') and 'range' in json.dumps(c['_inner']) and ck.is_known(KNOWN_ORDER):
                    ck.known_hit(KNOWN_ORDER, {'type': c['cs'], 'constraint': 'FROM (%s)' % G.t_eos(c['_inner']), 'impl': 'rejected'})
                else:
                    ck.violation('impl-violation', {k: v for k, v in c.items() if not k.startswith('_')}, impl=r, type=c['cs'],
                                 constraint='FROM (%s)' % G.t_eos(c['_inner']),
                                 why='a FROM constraint whose characters all belong to the X.680 alphabet of the type is rejected')
            if c.get('_inner') is not None and kind == 0 and '"s": ""' in json.dumps(c['_inner']):
                ck.count('degenerate:empty-string')              # outside the quantifier (strings of 1..6 characters): correspondence only
            elif c.get('_inner') is not None and kind == 0 and reversed_range(c['_inner']):
                ck.count('invalid-input:reversed-range')        # X.680 51.4.2: lower endpoint <= upper endpoint; correspondence only
            elif c.get('_inner') is not None and kind == 0:
                oterms.append('(%s, %s, %s)' % (c['cs'], G.c_eos(c['_inner']), c_subsets(obs)))
                oidx.append(i)
            elif c.get('_inner') is not None and kind == 2:
                ck.violation('impl-violation', {k: v for k, v in c.items() if not k.startswith('_')}, impl=r, why='panic')
            if c.get('_fam') == 'from-extensible' and not (kind == 0 and obs is None) and kind != 1:
                ck.violation('impl-violation', {k: v for k, v in c.items() if not k.startswith('_')}, impl=r, constraint=c['_text'], type=c['cs'],
                             why='an extensible permitted-alphabet constraint is emitted as a closed alphabet (X.691 10.3.10: not PER-visible)')
            if c.get('_fam') == 'other' and kind == 0 and obs is not None:
                ck.violation('impl-violation', {k: v for k, v in c.items() if not k.startswith('_')}, impl=r,
                             why='a string type that is not known-multiplier got an alphabet annotation')
    if csterms:
        for j in coq_eval_bad('C15', REQ, 'string_type * N * N * list N * list N', 'corr_charset', csterms, label='charset'):
            ck.broken.append({'kind': 'correspondence', 'item': 'T03 character_set', 'detail': 'translated table differs: %s' % csterms[j][:200]})
    bad_o, unsound_o = coq_eval_bad_multi('C15', REQ, 'string_type * eos * option (list subset)', ['oracle_from', 'oracle_from_sound'], oterms, label='oracle')
    unsound_o = set(unsound_o)
    failed = set()
    for j in bad_o:
        i = oidx[j]
        failed.add(i)
        c = cases[i]
        text = 'FROM (%s)' % G.t_eos(c['_inner'])
        ops = c['_ops']
        if c.get('_fam') == 'from-except' and ck.is_known(KNOWN_OUTER):
            ck.known_hit(KNOWN_OUTER, {'type': c['cs'], 'constraint': G.t_constraint(c['constraints'][0]), 'impl': results[i].get('ok')})
        elif (c.get('_fam') in ('from+size', 'from-except') and j not in unsound_o and json.dumps(c['_inner']).count('"range"') >= 1 and len(ops) >= 1
              and ck.is_known(KNOWN_HULL)):
            # folded together with SIZE, the union of ranges / strings that are not adjacent becomes their hull: a superset
            ck.known_hit(KNOWN_HULL, {'type': c['cs'], 'constraint': G.t_constraint(c['constraints'][0]), 'impl': results[i].get('ok')})
        elif any(o != 'union' for o in ops) and ck.is_known(KNOWN_OPS):
            ck.known_hit(KNOWN_OPS, {'type': c['cs'], 'constraint': text, 'impl': results[i].get('ok')})
        elif c['cs'] in ('NumericString', 'PrintableString') and ck.is_known(KNOWN_ORDER) and 'range' in json.dumps(c['_inner']):
            ck.known_hit(KNOWN_ORDER, {'type': c['cs'], 'constraint': text, 'impl': results[i].get('ok')})
        else:
            ck.violation('impl-violation', {k: v for k, v in c.items() if not k.startswith('_')}, constraint=text, type=c['cs'],
                         impl=results[i], term=oterms[j],
                         why='the alphabet annotation does not denote exactly the characters the FROM constraint permits, '
                             'or contains characters outside the base alphabet')
    for j in coq_eval_bad('C15', REQ, 'string_type * list constraint * N * option (option (list subset))', 'corr_alpha', aterms, label='corr'):
        i = aidx[j]
        if i in failed:
            continue
        ck.broken.append({'kind': 'correspondence', 'item': 'H5 alphabet annotation',
                          'detail': 'model and implementation disagree on %s %s: impl %s' % (
                              cases[i]['cs'], json.dumps(cases[i]['constraints'])[:600], json.dumps(results[i]))})
    ck.coverage['traces_validated_against_impl'] = len(aterms)


def judge_e2e(ck, cases, results):
    for c, r in zip(cases, results):
        ck.note_case(c['sources'][0])
        ck.count('e2e')
        if 'panic' in r or 'crash' in r:
            ck.violation('impl-violation', c['sources'][0], impl=r, why='compiler crashed')
            continue
        if not r.get('ok') or 'items' not in r:
            ck.count('e2e-rejected')
            continue
        want = c['_want']
        mod = [m for m in r['items'] if m.get('kind') == 'mod'][0]
        got = []
        for it in mod['items']:
            if it.get('kind') == 'struct' and it['name'] == 'Aa':
                got.append(('assign', it['attrs']))
            if it.get('kind') == 'struct' and it['name'] == 'Bb':
                got.append(('component', it['fields'][0]['attrs']))
        if len(got) < 2 and not r.get('warnings'):
            ck.violation('impl-violation', c['sources'][0], why='constrained string type not generated')
        for pos, attrs in got:
            m = None
            for a in attrs:
                mm = re.search(r'from\((?:"[^"]*",?)*\)', a)
                if mm:
                    m = mm.group(0)
            obs = parse_from(m) if m else None
            if obs != want:
                slug = c.get('_known')
                if slug and ck.is_known(slug):
                    ck.known_hit(slug, {'asn1': c['sources'][0].split('\n')[1], 'position': pos, 'got': obs})
                else:
                    ck.violation('impl-violation', c['sources'][0], position=pos, got=obs, want=want,
                                 why='alphabet annotation in generated code differs from the hook result / expectation')


def strings_only_inner(rng_, chars, n=None):
    """union of 1..3 character strings (no ranges): exact on every known-multiplier type, also the two with a collation table"""
    n = n or rng_.randint(1, 3)
    elems = []
    for _ in range(n):
        while True:
            st = ''.join(rng_.choice(chars) for _ in range(rng_.randint(1, 4)))
            if not is_tstring(st):
                break
        elems.append(G.single(G.jstr(st)))
    return elems


INCL_FORMS = ['plain', 'includes', 'from', 'size-after', 'size-before', 'from-union', 'union-l', 'union-r', 'inter-l', 'inter-r', 'on-reference',
              'union-plain-l', 'union-plain-r']


def inclusion_cases(ck, n):
    cases = []
    for _ in range(n):
        t = ck.rng.choice(KM)
        # the included type: same string type, or NumericString (its characters belong to every other known-multiplier alphabet but PrintableString's table order)
        t_inc = 'NumericString' if (t not in ('NumericString', 'PrintableString') and ck.rng.random() < 0.25) else t
        chars_inc = POOL[t_inc]
        use_ranges = t_inc not in ('NumericString', 'PrintableString') and ck.rng.random() < 0.5
        form = ck.rng.choice(INCL_FORMS)
        if use_ranges:
            inner_a, _ops = rand_inner(ck.rng, chars_inc, True)
            elems_a = None
        else:
            elems_a = strings_only_inner(ck.rng, chars_inc, 1 if form in ('inter-l', 'inter-r') else None)
            inner_a = G.chain(elems_a, ['union'] * (len(elems_a) - 1))
        if form in ('inter-l', 'inter-r') and (elems_a is None or len(elems_a) != 1):
            form = 'plain'
        elems_x = strings_only_inner(ck.rng, POOL[t])
        inner_x = G.chain(elems_x, ['union'] * (len(elems_x) - 1))
        ta, tx = G.t_eos(inner_a), G.t_eos(inner_x)
        if '\t' in ta or '\t' in tx or '"s": ""' in json.dumps(inner_a) or '"s": ""' in json.dumps(inner_x):
            continue                                    # tabs are not portable in the text form; empty strings are degenerate (no character at all)
        nsz = ck.rng.randint(1, 9)
        expr = {'plain': '(Inc)', 'includes': '(INCLUDES Inc)', 'from': '(FROM (Inc))',
                'size-after': '(Inc)(SIZE (1..%d))' % nsz, 'size-before': '(SIZE (1..%d))(Inc)' % nsz,
                'from-union': '(FROM (Inc | %s))' % tx, 'union-l': '(Inc | FROM (%s))' % tx, 'union-r': '(FROM (%s) | Inc)' % tx,
                'inter-l': '(Inc ^ FROM (%s))' % tx, 'inter-r': '(FROM (%s) ^ Inc)' % tx, 'on-reference': '(FROM (%s))' % tx,
                'union-plain-l': '(Plain | FROM (%s))' % tx, 'union-plain-r': '(FROM (%s) | Plain)' % tx}[form]
        base_t = 'Inc' if form == 'on-reference' else t
        # the characters permitted, as one expression the oracle can read
        if form in ('plain', 'includes', 'from', 'size-after', 'size-before'):
            sem = inner_a
        elif form in ('from-union', 'union-l', 'union-r'):
            sem = G.chain((elems_a if elems_a is not None else None) or [], []) if False else None
            sem = {'base': None}
            # union of two union-chains: concatenate their operand lists
            def ops_of(s_):
                out = []
                while 'e' not in s_:
                    out.append(s_['base'])
                    s_ = s_['operant']
                out.append(s_['e'])
                return out
            both = ops_of(inner_a) + ops_of(inner_x)
            sem = G.chain(both, ['union'] * (len(both) - 1))
        elif form in ('inter-l', 'inter-r', 'on-reference'):
            if elems_a is None or len(elems_a) != 1:
                continue
            sem = {'base': elems_a[0], 'op': 'inter', 'operant': inner_x}
        elif form in ('union-plain-l', 'union-plain-r'):
            sem = G.E(G.rng(None, None))          # the union with an unconstrained type of the same kind permits every character
        src = ('M DEFINITIONS AUTOMATIC TAGS ::= BEGIN\nInc ::= %s (FROM (%s))\nPlain ::= %s\nAa ::= %s %s\nBb ::= SEQUENCE { b %s %s }\nEND\n'
               % (t_inc, ta, t, base_t, expr, base_t, expr))
        cases.append({'op': 'compile', 'sources': [src], '_t': t, '_tinc': t_inc, '_form': form, '_sem': sem, '_inner_a': inner_a})
    return cases


def judge_inclusion(ck, cases, results):
    terms, idx, cterms, cidx = [], [], [], []
    for i, (c, r) in enumerate(zip(cases, results)):
        ck.note_case('incl:' + c['sources'][0])
        ck.count('inclusion:' + c['_form'])
        if 'panic' in r or 'crash' in r:
            ck.violation('impl-violation', c['sources'][0], impl=r, why='compiler crashed')
            continue
        if not r.get('ok') or 'items' not in r:
            if c['_sem'] is not None and c['_form'] in ('inter-l', 'inter-r', 'on-reference'):
                ck.count('inclusion-rejected')          # an empty intersection is reported, not silent
                continue
            ck.violation('impl-violation', c['sources'][0], impl={k: v for k, v in r.items() if k != 'items'}, why='valid inclusion rejected')
            continue
        mod = [m for m in r['items'] if m.get('kind') == 'mod'][0]
        got = []
        for it in mod['items']:
            if it.get('kind') == 'struct' and it['name'] == 'Aa':
                got.append(('assign', it['attrs'], it['fields'][0]['ty']))
            if it.get('kind') == 'struct' and it['name'] == 'Bb':
                got.append(('component', it['fields'][0]['attrs'], it['fields'][0]['ty']))
        if len(got) < 2 and not r.get('warnings'):
            ck.violation('impl-violation', c['sources'][0], why='constrained string type not generated')
        for pos, attrs, ty in got:
            m = None
            for a in attrs:
                mm = re.search(r'from\((?:"[^"]*",?)*\)', a)
                if mm:
                    m = mm.group(0)
            try:
                obs = parse_from(m) if m else None
            except ValueError:
                ck.violation('impl-violation', c['sources'][0], why='unparsable alphabet annotation', got=m)
                continue
            if c['_form'].startswith('union-plain') and obs is None:
                continue                          # no annotation: every character, which is what the union permits
            terms.append('(%s, %s, %s)' % (c['_t'], G.c_eos(c['_sem']), c_subsets(obs)))
            idx.append((i, pos, obs))
            if c['_form'] in ('plain', 'includes', 'from'):
                cterms.append('(%s, %s, %s, %s)' % (c['_t'], c['_tinc'], clist([G.c_constraint({'set': G.E(G.alpha(c['_inner_a'])), 'ext': False})]), c_subsets(obs)))
                cidx.append((i, pos))
    bad, unsound = coq_eval_bad_multi('C15', REQ, 'string_type * eos * option (list subset)', ['oracle_from', 'oracle_from_sound'], terms, label='incl')
    unsound = set(unsound)
    failed = set()
    for j in bad:
        i, pos, obs = idx[j]
        failed.add(i)
        c = cases[i]
        form = c['_form']
        info = {'asn1': c['sources'][0], 'position': pos, 'got': obs}
        if j not in unsound and form in ('union-l', 'union-r', 'inter-l', 'inter-r') and ck.is_known(KNOWN_INCL_SETOP):
            ck.known_hit(KNOWN_INCL_SETOP, info)
        elif j not in unsound and form == 'on-reference' and ck.is_known(KNOWN_FROM_ON_REF):
            ck.known_hit(KNOWN_FROM_ON_REF, info)
        else:
            ck.violation('impl-violation', c['sources'][0], position=pos, got=obs, form=form, term=terms[j],
                         why='inclusion of a constrained string type: the annotation does not denote the permitted characters'
                             + (' (it excludes some)' if j in unsound else ''))
    for j in coq_eval_bad('C15', REQ, 'string_type * string_type * list constraint * option (list subset)', 'corr_incl', cterms, label='incl_corr'):
        i, pos = cidx[j]
        if i in failed:
            continue
        ck.broken.append({'kind': 'correspondence', 'item': 'inclusion (AIncl) vs generated annotation',
                          'detail': 'model and implementation disagree at %s on %s (%s)' % (pos, cases[i]['sources'][0], cterms[j][:400])})


def run(ck):
    ck.coverage['rule'] = ('direct: format_alphabet_annotations (hook) on FROM expressions with 1..3 operands (strings of 1..6 characters, '
                           'ranges incl. MIN/MAX, | ^ EXCEPT) over each known-multiplier type, alone, with SIZE in either order, in set operations '
                           'with other elements, as serial constraints, and on the other string types; oracle: the denoted set compared '
                           'character by character over the base alphabet; end-to-end: assignment and component positions; the translated '
                           'character tables are compared with the implementation')
    ck.assumptions += ['theorems cover FROM with `|` only (single strings, ranges); other operators, serial FROMs and FROM inside outer set '
                       'operations are known findings; inclusion of a constrained string type is modelled as a whole constraint (AIncl) and decided end to end inside set operations',
                       'the oracle samples the first 300 characters of the base alphabet and code points 0..299 outside it']
    ck.prove('Props/C15.v', ['RasnV.Props.C15'], extra=['Corr/C15.vo'], titems=['T03'])
    cases = [{'op': 'charset', 'cs': t} for t in KM + OTHER]
    n0 = 250 if ck.tier == 'quick' else 5000
    for t in KM:
        chars = POOL[t]
        n = n0
        for _ in range(n):
            union_only = ck.rng.random() < 0.6
            inner, ops = rand_inner(ck.rng, chars, union_only)
            cases.append({'op': 'alphabet', 'cs': t, 'constraints': [{'set': G.E(G.alpha(inner)), 'ext': False}],
                          '_inner': inner, '_ops': ops, '_fam': 'from'})
        for _ in range(n // 3):
            inner, ops = rand_inner(ck.rng, chars, True)
            sz = G.size(G.E(G.rng(G.jint(1), G.jint(ck.rng.randint(1, 9)))))
            order = ck.rng.random() < 0.5
            els = [sz, G.alpha(inner)] if order else [G.alpha(inner), sz]
            cases.append({'op': 'alphabet', 'cs': t, 'constraints': [{'set': G.chain(els, ['inter']), 'ext': False}],
                          '_inner': inner, '_ops': ops, '_fam': 'from+size'})
            # serial: SIZE and FROM as two constraints
            cs = [{'set': G.E(sz), 'ext': False}, {'set': G.E(G.alpha(inner)), 'ext': False}]
            if order:
                cs.reverse()
            cases.append({'op': 'alphabet', 'cs': t, 'constraints': cs, '_inner': inner, '_ops': ops, '_fam': 'from,size'})
        for _ in range(n // 5):
            # an extensible permitted alphabet -- `(FROM (..), ...)` -- is not PER-visible (X.691 10.3.10): alone no annotation,
            # next to a second, closed FROM only that one
            inner, ops = rand_inner(ck.rng, chars, True)
            cases.append({'op': 'alphabet', 'cs': t, 'constraints': [{'set': G.E(G.alpha(inner)), 'ext': True}], '_fam': 'from-extensible',
                          '_text': '(FROM (%s), ...)' % G.t_eos(inner)})
            inner2, ops2 = rand_inner(ck.rng, chars, True)
            cs = [{'set': G.E(G.alpha(inner)), 'ext': True}, {'set': G.E(G.alpha(inner2)), 'ext': False}]
            if ck.rng.random() < 0.5:
                cs.reverse()
            cases.append({'op': 'alphabet', 'cs': t, 'constraints': cs, '_inner': inner2, '_ops': ops2, '_fam': 'from-extensible+closed'})
            # the marker inside the parentheses of FROM: `FROM ("a".."c" | "x", ...)` -- it sits on the last operand
            inner3, ops3 = rand_inner(ck.rng, chars, True)
            marked = mark_last(inner3)
            if marked is not None:
                cases.append({'op': 'alphabet', 'cs': t, 'constraints': [{'set': G.E(G.alpha(marked)), 'ext': False}], '_fam': 'from-extensible',
                              '_text': '(FROM (%s))' % G.t_eos(marked)})
        for _ in range(n // 10):
            # FROM (..) EXCEPT "string": removing one string value does not change the permitted alphabet (known finding when it does)
            inner, ops = rand_inner(ck.rng, chars, True)
            st = ''.join(ck.rng.choice(chars) for _ in range(ck.rng.randint(1, 3)))
            if is_tstring(st):
                continue
            cases.append({'op': 'alphabet', 'cs': t, 'constraints': [{'set': G.chain([G.alpha(inner), G.single(G.jstr(st))], ['except']), 'ext': False}],
                          '_inner': inner, '_ops': ops, '_fam': 'from-except'})
        for _ in range(n // 3):
            # correspondence only: mixed element sets in alphabet mode
            s = G.rand_mixed_eos(ck.rng, depth=2, strs=True)
            cases.append({'op': 'alphabet', 'cs': t, 'constraints': [{'set': s, 'ext': False}], '_fam': 'mixed'})
    for t in OTHER:
        for _ in range(40):
            inner, ops = rand_inner(ck.rng, 'abcXYZ019 ', True)
            cases.append({'op': 'alphabet', 'cs': t, 'constraints': [{'set': G.E(G.alpha(inner)), 'ext': False}], '_fam': 'other'})
    ck.sample({'alphabet': cases[20]['cs'], 'constraint': 'FROM (%s)' % G.t_eos(cases[20]['_inner'])})
    res = run_harness(cases)
    judge(ck, cases, res)
    # end to end: the generated attribute equals what the hook produced for the same constraint
    e2e = []
    for c, r in list(zip(cases, res)):
        if c.get('_fam') == 'from' and 'ok' in r and len(e2e) < (150 if ck.tier == 'quick' else 3000) and ck.rng.random() < 0.3:
            text = '(FROM (%s))' % G.t_eos(c['_inner'])
            if '\t' in text:
                continue
            src = 'M DEFINITIONS AUTOMATIC TAGS ::= BEGIN\nAa ::= %s %s\nBb ::= SEQUENCE { b %s %s }\nEND\n' % (c['cs'], text, c['cs'], text)
            e2e.append({'op': 'compile', 'sources': [src], '_want': parse_from(r['ok'])})
    for c, r in list(zip(cases, res)):
        if c.get('_fam') == 'from-extensible' and 'ok' in r and '\t' not in c['_text'] and ck.rng.random() < 0.25:
            src = 'M DEFINITIONS AUTOMATIC TAGS ::= BEGIN\nAa ::= %s %s\nBb ::= SEQUENCE { b %s %s }\nEND\n' % (c['cs'], c['_text'], c['cs'], c['_text'])
            e2e.append({'op': 'compile', 'sources': [src], '_want': None})
    judge_e2e(ck, e2e, run_harness(e2e))
    inc = inclusion_cases(ck, 220 if ck.tier == 'quick' else 4000)
    if inc:
        ck.sample({'asn1': inc[0]['sources'][0]})
    judge_inclusion(ck, inc, run_harness(inc))


def replay(ck, data):
    ck.prove('Props/C15.v', ['RasnV.Props.C15'], extra=['Corr/C15.vo'], titems=['T03'])
    cases = []
    for v in data.get('violations', []):
        c = v.get('case')
        if isinstance(c, dict) and c.get('op') == 'alphabet':
            c = dict(c)
            cs = c['constraints']
            if len(cs) == 1 and 'e' in cs[0]['set'] and cs[0]['set']['e'].get('k') == 'alpha':
                c['_inner'] = cs[0]['set']['e']['inner']
                c['_ops'] = re.findall(r'"op": "(\w+)"', json.dumps(c['_inner']))
                c['_fam'] = 'from'
            cases.append(c)
    judge(ck, cases, run_harness(cases))
