"""C15 -- permitted-alphabet annotations denote exactly the FROM constraint."""
import json
import re
from common import cz, cn, cbool, copt, clist, cstr, run_harness, coq_eval_bad_multi, coq_eval_bad
from props import pvgen as G

REQ = ['RasnV.Corr.C15']
KM = ['NumericString', 'PrintableString', 'VisibleString', 'IA5String', 'BMPString', 'UniversalString']
OTHER = ['UTF8String', 'TeletexString', 'GeneralString', 'GraphicString']
POOL = {'NumericString': '0123456789 ', 'PrintableString': "ABCXYZabcxyz0189 '()+,-./:=?",
        'VisibleString': 'ABCXYZabcxyz019 !#~{', 'IA5String': 'ABCXYZabcxyz019 !#~{\t',
        'BMPString': 'ABCxyz019 \u00e9\u0100', 'UniversalString': 'ABCxyz019 \u00e9\u0100'}
KNOWN_OPS = 'C15-operators-in-from'
KNOWN_SERIAL = 'C15-serial-from'
KNOWN_OUTER = 'C15-from-in-set-operation'
KNOWN_ORDER = 'C15-collation-order'


def parse_from(text):
    """from("\\u{41}","\\u{78}..=\\u{7a}") -> list of ('s', c) / ('r', f, t); '' -> None"""
    if not text:
        return None
    m = re.fullmatch(r'from\((.*)\)', text)
    if not m:
        raise ValueError(text)
    out = []
    for lit in re.findall(r'"([^"]*)"', m.group(1)):
        cps = [int(x, 16) for x in re.findall(r'\\u\{([0-9a-fA-F]+)\}', lit)]
        if '..=' in lit:
            a, b = lit.split('..=')
            fa = re.findall(r'\\u\{([0-9a-fA-F]+)\}', a)
            fb = re.findall(r'\\u\{([0-9a-fA-F]+)\}', b)
            out.append(('r', int(fa[0], 16) if fa else None, int(fb[0], 16) if fb else None))
        else:
            out.append(('s', cps[0]))
    return out


def c_subsets(l):
    if l is None:
        return 'None'
    items = []
    for x in l:
        if x[0] == 's':
            items.append('(SSingle %s)' % cn(x[1]))
        else:
            items.append('(SRange %s %s)' % (copt(x[1], cn), copt(x[2], cn)))
    return '(Some %s)' % (clist(items) if items else '(@nil subset)')


TSTRING = set('0123456789+-:.,/CDHMRPSTWYZ')


def is_tstring(s):
    """the lexer reads such a cstring as a TIME value (finding C07-tstring): kept out of the C15 sweep"""
    return s and set(s) <= TSTRING and any(c.isdigit() for c in s) and any(not c.isdigit() for c in s)


def rand_alpha_elem(rng_, chars):
    if rng_.random() < 0.5:
        while True:
            n = rng_.randint(1, 6)
            st = ''.join(rng_.choice(chars) for _ in range(n))
            if not is_tstring(st):
                return G.single(G.jstr(st))
    a, b = rng_.choice(chars), rng_.choice(chars)
    r = rng_.random()
    lo = None if r < 0.08 else G.jstr(a)
    hi = None if 0.08 <= r < 0.16 else G.jstr(b)
    return G.rng(lo, hi)


def rand_inner(rng_, chars, union_only):
    n = rng_.randint(1, 3)
    elems = [rand_alpha_elem(rng_, chars) for _ in range(n)]
    ops = ['union' if union_only else rng_.choice(['union', 'union', 'inter', 'except']) for _ in range(n - 1)]
    if ops == ['except', 'except']:
        ops = ['union', 'except']
    return G.chain(elems, ops), ops


def judge(ck, cases, results):
    aterms, aidx, oterms, oidx = [], [], [], []
    csterms = []
    for i, (c, r) in enumerate(zip(cases, results)):
        op = c['op']
        if 'crash' in r or 'harness_error' in r:
            ck.violation('impl-crash', {k: v for k, v in c.items() if not k.startswith('_')}, impl=r)
            continue
        if op == 'charset':
            a = r['all']
            csterms.append('(%s, %s, %s, %s, %s)' % (c['cs'], cn(len(a)), cn(sum(a)), clist([cn(x) for x in a[:200]]),
                                                     clist([cn(x) for x in a[-50:]])))
            continue
        ck.note_case(json.dumps({k: v for k, v in c.items() if not k.startswith('_')}, sort_keys=True))
        ck.count(c.get('_fam', op))
        kind = 2 if 'panic' in r else (1 if 'err' in r else 0)
        if op == 'alphabet':
            obs = None
            if kind == 0:
                try:
                    obs = parse_from(r['ok'])
                except ValueError:
                    ck.violation('impl-violation', c, impl=r, why='unparsable alphabet annotation')
                    continue
            v = '(Some %s)' % c_subsets(obs) if kind == 0 else 'None'
            aterms.append('(%s, %s, %d%%N, %s)' % (c['cs'], clist([G.c_constraint(x) for x in c['constraints']]), kind, v))
            aidx.append(i)
            if c.get('_inner') is not None and kind == 0:
                oterms.append('(%s, %s, %s)' % (c['cs'], G.c_eos(c['_inner']), c_subsets(obs)))
                oidx.append(i)
            elif c.get('_inner') is not None and kind == 2:
                ck.violation('impl-violation', {k: v for k, v in c.items() if not k.startswith('_')}, impl=r, why='panic')
            if c.get('_fam') == 'other' and kind == 0 and obs is not None:
                ck.violation('impl-violation', {k: v for k, v in c.items() if not k.startswith('_')}, impl=r,
                             why='a string type that is not known-multiplier got an alphabet annotation')
    if csterms:
        for j in coq_eval_bad('C15', REQ, 'string_type * N * N * list N * list N', 'corr_charset', csterms, label='charset'):
            ck.broken.append({'kind': 'correspondence', 'item': 'T03 character_set', 'detail': 'translated table differs: %s' % csterms[j][:200]})
    bad_o = coq_eval_bad('C15', REQ, 'string_type * eos * option (list subset)', 'oracle_from', oterms, label='oracle')
    failed = set()
    for j in bad_o:
        i = oidx[j]
        failed.add(i)
        c = cases[i]
        text = 'FROM (%s)' % G.t_eos(c['_inner'])
        ops = c['_ops']
        if c.get('_fam') == 'from+size' and ck.is_known(KNOWN_OUTER):
            ck.known_hit(KNOWN_OUTER, {'type': c['cs'], 'constraint': G.t_constraint(c['constraints'][0]), 'impl': results[i].get('ok')})
        elif any(o != 'union' for o in ops) and ck.is_known(KNOWN_OPS):
            ck.known_hit(KNOWN_OPS, {'type': c['cs'], 'constraint': text, 'impl': results[i].get('ok')})
        elif c['cs'] in ('NumericString', 'PrintableString') and ck.is_known(KNOWN_ORDER) and 'range' in json.dumps(c['_inner']):
            ck.known_hit(KNOWN_ORDER, {'type': c['cs'], 'constraint': text, 'impl': results[i].get('ok')})
        else:
            ck.violation('impl-violation', {k: v for k, v in c.items() if not k.startswith('_')}, constraint=text, type=c['cs'],
                         impl=results[i], term=oterms[j],
                         why='the alphabet annotation does not denote exactly the characters the FROM constraint permits, '
                             'or contains characters outside the base alphabet')
    for j in coq_eval_bad('C15', REQ, 'string_type * list constraint * N * option (option (list subset))', 'corr_alpha', aterms, label='corr'):
        i = aidx[j]
        if i in failed:
            continue
        ck.broken.append({'kind': 'correspondence', 'item': 'H5 alphabet annotation',
                          'detail': 'model and implementation disagree on %s %s: impl %s' % (
                              cases[i]['cs'], json.dumps(cases[i]['constraints'])[:600], json.dumps(results[i]))})
    ck.coverage['traces_validated_against_impl'] = len(aterms)


def judge_e2e(ck, cases, results):
    for c, r in zip(cases, results):
        ck.note_case(c['sources'][0])
        ck.count('e2e')
        if 'panic' in r or 'crash' in r:
            ck.violation('impl-violation', c['sources'][0], impl=r, why='compiler crashed')
            continue
        if not r.get('ok') or 'items' not in r:
            ck.count('e2e-rejected')
            continue
        want = c['_want']
        mod = [m for m in r['items'] if m.get('kind') == 'mod'][0]
        got = []
        for it in mod['items']:
            if it.get('kind') == 'struct' and it['name'] == 'Aa':
                got.append(('assign', it['attrs']))
            if it.get('kind') == 'struct' and it['name'] == 'Bb':
                got.append(('component', it['fields'][0]['attrs']))
        if len(got) < 2 and not r.get('warnings'):
            ck.violation('impl-violation', c['sources'][0], why='constrained string type not generated')
        for pos, attrs in got:
            m = None
            for a in attrs:
                mm = re.search(r'from\((?:"[^"]*",?)*\)', a)
                if mm:
                    m = mm.group(0)
            obs = parse_from(m) if m else None
            if obs != want:
                slug = c.get('_known')
                if slug and ck.is_known(slug):
                    ck.known_hit(slug, {'asn1': c['sources'][0].split('\n')[1], 'position': pos, 'got': obs})
                else:
                    ck.violation('impl-violation', c['sources'][0], position=pos, got=obs, want=want,
                                 why='alphabet annotation in generated code differs from the hook result / expectation')


def run(ck):
    ck.coverage['rule'] = ('direct: format_alphabet_annotations (hook) on FROM expressions with 1..3 operands (strings of 1..6 characters, '
                           'ranges incl. MIN/MAX, | ^ EXCEPT) over each known-multiplier type, alone, with SIZE in either order, in set operations '
                           'with other elements, as serial constraints, and on the other string types; oracle: the denoted set compared '
                           'character by character over the base alphabet; end-to-end: assignment and component positions; the translated '
                           'character tables are compared with the implementation')
    ck.assumptions += ['theorems cover FROM with `|` only (single strings, ranges); other operators, serial FROMs and FROM inside outer set '
                       'operations are known findings; contained subtypes (INCLUDES) are not modelled',
                       'the oracle samples the first 300 characters of the base alphabet and code points 0..299 outside it']
    ck.prove('Props/C15.v', ['RasnV.Props.C15'], extra=['Corr/C15.vo'], titems=['T03'])
    cases = [{'op': 'charset', 'cs': t} for t in KM + OTHER]
    n0 = 250 if ck.tier == 'quick' else 5000
    for t in KM:
        chars = POOL[t]
        n = n0
        for _ in range(n):
            union_only = ck.rng.random() < 0.6
            inner, ops = rand_inner(ck.rng, chars, union_only)
            cases.append({'op': 'alphabet', 'cs': t, 'constraints': [{'set': G.E(G.alpha(inner)), 'ext': False}],
                          '_inner': inner, '_ops': ops, '_fam': 'from'})
        for _ in range(n // 3):
            inner, ops = rand_inner(ck.rng, chars, True)
            sz = G.size(G.E(G.rng(G.jint(1), G.jint(ck.rng.randint(1, 9)))))
            order = ck.rng.random() < 0.5
            els = [sz, G.alpha(inner)] if order else [G.alpha(inner), sz]
            cases.append({'op': 'alphabet', 'cs': t, 'constraints': [{'set': G.chain(els, ['inter']), 'ext': False}],
                          '_inner': inner, '_ops': ops, '_fam': 'from+size'})
            # serial: SIZE and FROM as two constraints
            cs = [{'set': G.E(sz), 'ext': False}, {'set': G.E(G.alpha(inner)), 'ext': False}]
            if order:
                cs.reverse()
            cases.append({'op': 'alphabet', 'cs': t, 'constraints': cs, '_inner': inner, '_ops': ops, '_fam': 'from,size'})
        for _ in range(n // 3):
            # correspondence only: mixed element sets in alphabet mode
            s = G.rand_mixed_eos(ck.rng, depth=2, strs=True)
            cases.append({'op': 'alphabet', 'cs': t, 'constraints': [{'set': s, 'ext': False}], '_fam': 'mixed'})
    for t in OTHER:
        for _ in range(40):
            inner, ops = rand_inner(ck.rng, 'abcXYZ019 ', True)
            cases.append({'op': 'alphabet', 'cs': t, 'constraints': [{'set': G.E(G.alpha(inner)), 'ext': False}], '_fam': 'other'})
    ck.sample({'alphabet': cases[20]['cs'], 'constraint': 'FROM (%s)' % G.t_eos(cases[20]['_inner'])})
    res = run_harness(cases)
    judge(ck, cases, res)
    # end to end: the generated attribute equals what the hook produced for the same constraint
    e2e = []
    for c, r in list(zip(cases, res)):
        if c.get('_fam') == 'from' and 'ok' in r and len(e2e) < (150 if ck.tier == 'quick' else 3000) and ck.rng.random() < 0.3:
            text = '(FROM (%s))' % G.t_eos(c['_inner'])
            if '\t' in text:
                continue
            src = 'M DEFINITIONS AUTOMATIC TAGS ::= BEGIN\nAa ::= %s %s\nBb ::= SEQUENCE { b %s %s }\nEND\n' % (c['cs'], text, c['cs'], text)
            e2e.append({'op': 'compile', 'sources': [src], '_want': parse_from(r['ok'])})
    judge_e2e(ck, e2e, run_harness(e2e))


def replay(ck, data):
    ck.prove('Props/C15.v', ['RasnV.Props.C15'], extra=['Corr/C15.vo'], titems=['T03'])
    cases = []
    for v in data.get('violations', []):
        c = v.get('case')
        if isinstance(c, dict) and c.get('op') == 'alphabet':
            c = dict(c)
            cs = c['constraints']
            if len(cs) == 1 and 'e' in cs[0]['set'] and cs[0]['set']['e'].get('k') == 'alpha':
                c['_inner'] = cs[0]['set']['e']['inner']
                c['_ops'] = re.findall(r'"op": "(\w+)"', json.dumps(c['_inner']))
                c['_fam'] = 'from'
            cases.append(c)
    judge(ck, cases, run_harness(cases))
