"""C19 -- backend options change only what they document."""
import itertools
import json
import re
from props import modgen as MG
from common import cbool, clist, cstr, run_harness, coq_eval_bad

REQ = ['RasnV.Corr.C19']
ANNOTATION_SETS = {
    'default': None,
    'extra-derives': ['#[derive(AsnType, Debug, Clone, Decode, Encode, PartialEq, Eq, Hash)]', '#[derive(PartialOrd, Ord)]'],
    'non-derive': ['#[derive(AsnType, Debug, Clone, Decode, Encode, PartialEq)]', '#[serde(rename_all = "camelCase")]', '#[allow(dead_code)]'],
    'derives-twice': ['#[derive(Hash, Debug)]', '#[derive(Hash)]', '# [ derive ( Eq , Hash ) ]'],
    'none': [],
    # a line holding a derive and a further attribute: the derive is merged, the rest of the line stays an annotation
    'derive-then-attribute': ['#[derive(AsnType, Debug, Clone, Decode, Encode, PartialEq, Eq, Hash)] #[allow(dead_code)]', '#[derive(PartialOrd)]#[allow(unused)]'],
}
CUSTOM_IMPORTS = {'no': [], 'one': ['my::module::*'], 'several': ['my::module::*', 'path::to::my::Struct', 'other_crate::prelude::*']}


def user_derives(annos):
    out, rest = [], []
    for a in annos:
        m = re.match(r'\s*#\s*\[\s*derive\s*\(\s*(.*?)\s*\)\s*\](.*)$', a, re.S)
        if m:
            out.append([x.strip() for x in re.split(r'[\s,]+', m.group(1)) if x.strip()])
            if m.group(2).strip():
                rest.append(m.group(2).strip())
        else:
            rest.append(a)
    return out, rest


def choice_module(ck, k):
    n = ck.rng.randint(2, 6)
    tys = ['INTEGER', 'BOOLEAN', 'NULL', 'IA5String', 'OCTET STRING', 'Pay%d' % k, 'INTEGER (0..5)', 'Pay%d' % k, 'INTEGER (0..65535)',
           'INTEGER (-5..5)', 'INTEGER (0..255)', 'UTF8String', 'SEQUENCE OF INTEGER', 'SEQUENCE OF BOOLEAN']
    alts = ['a%d %s' % (i, ck.rng.choice(tys)) for i in range(n)]
    return ('Mc%d DEFINITIONS AUTOMATIC TAGS ::= BEGIN\nPay%d ::= SEQUENCE { p BOOLEAN }\nCh%d ::= CHOICE { %s%s }\n'
            'Outer%d ::= SEQUENCE { inner CHOICE { x INTEGER, y INTEGER, z BOOLEAN } }\n'
            'Lbl%d ::= CHOICE { text UTF8String, num INTEGER, small INTEGER (0..9), flag BOOLEAN, nest Pay%d }\n'
            'greeting%d Lbl%d ::= text : "hello"\nanswer%d Lbl%d ::= num : 42\ntiny%d Lbl%d ::= small : 4\ntruth%d Lbl%d ::= flag : TRUE\n'
            'END\n' % (k, k, k, ', '.join(alts), ck.rng.choice(['', ', ...']), k, k, k, k, k, k, k, k, k, k, k))


def split_items(block):
    """-> (uses, from_impls {self_ty: [payload type]}, statics {name: (ty, init)}, rest items with derive lists split off)"""
    uses, froms, statics, rest = [], {}, {}, []
    for it in block:
        k = it.get('kind')
        if k == 'use':
            uses.append(it['tree'])
        elif k == 'impl' and (it.get('trait') or '').startswith('From<'):
            froms.setdefault(it['self_ty'], []).append(it)
        elif k == 'static':
            m = re.fullmatch(r'LazyLock::new\(\|\|(.*)\)', it['expr'], re.S)
            t = re.fullmatch(r'LazyLock<(.*)>', it['ty'], re.S)
            statics[it['name']] = (t.group(1) if t else it['ty'], m.group(1) if m else it['expr'])
        elif k == 'macro' and it.get('path') == 'lazy_static':
            m = re.fullmatch(r'pub static ref ([A-Za-z0-9_]+):(.*?)=(.*);', it['tokens'], re.S)
            if m:
                statics[m.group(1)] = (m.group(2), m.group(3))
            else:
                rest.append(it)
        elif k in ('struct', 'enum'):
            c = dict(it)
            derives, others = None, []
            for a in it.get('attrs', []):
                m = re.fullmatch(r'derive\((.*)\)', a)
                if m and derives is None:
                    derives = [x for x in m.group(1).split(',') if x]
                else:
                    others.append(a)
            c['attrs'] = others
            c['_derives'] = derives
            rest.append(c)
        else:
            rest.append(it)
    return uses, froms, statics, rest


def variant_payloads(enum_item):
    out = []
    for v in enum_item.get('variants', []):
        fs = v.get('fields') or []
        out.append((v['name'], fs[0]['ty'] if fs else ''))
    return out


def run(ck):
    ck.coverage['rule'] = ('generated module sets (references across modules, CHOICE types with repeated payload types, anonymous inner CHOICEs, values) '
                           'compiled under the default configuration and under all 2^4 combinations of the boolean options x {no, one, several} '
                           'custom imports x {default, extra derives, non-derive attributes, derives listed twice, no annotations}; per module '
                           'block the syn projection is split into use lines, From impls, statics and the rest: the rest must be identical to the '
                           'default configuration, the use lines / statics differ only as documented, derive lists and From impls are compared '
                           'with the model inside Coq')
    ck.assumptions += ['the generator has no open types, so opaque_open_types has nothing to act on beyond leaving everything unchanged']
    ck.prove('Props/C19.v', ['RasnV.Props.C19'], extra=['Corr/C19.vo'], titems=['T19'])
    quick = ck.tier == 'quick'
    inputs = []
    for k in range(8 if quick else 120):
        inputs.append(MG.render(MG.gen_module_set(ck.rng, k, nmods=ck.rng.randint(1, 3), max_defs=6)) + [choice_module(ck, k)])
    for k in range(100, 112 if quick else 300):
        inputs.append([choice_module(ck, k)])
    combos = list(itertools.product([False, True], repeat=4))
    cases, meta = [], []
    for ii, src in enumerate(inputs):
        cases.append({'op': 'compile', 'sources': src})
        meta.append((ii, None))
        cfgs = []
        for (opaque, wild, frm, nostd) in combos:
            cfgs.append({'opaque_open_types': opaque, 'default_wildcard_imports': wild, 'generate_from_impls': frm, 'no_std_compliant_bindings': nostd,
                         '_ci': ck.rng.choice(sorted(CUSTOM_IMPORTS)), '_an': ck.rng.choice(sorted(ANNOTATION_SETS))})
        for ci in CUSTOM_IMPORTS:
            for an in ANNOTATION_SETS:
                cfgs.append({'opaque_open_types': True, 'default_wildcard_imports': False, 'generate_from_impls': ck.rng.random() < 0.5,
                             'no_std_compliant_bindings': False, '_ci': ci, '_an': an})
        sib = re.findall(r'FROM (Mod[0-9]+-[a-e])', ''.join(src))
        for cfg in cfgs:
            real = {k: v for k, v in cfg.items() if not k.startswith('_')}
            real['custom_imports'] = list(CUSTOM_IMPORTS[cfg['_ci']])
            if sib and cfg['_ci'] != 'no':
                # an alias for something of a module the input also IMPORTS from
                real['custom_imports'].append('super::%s::Thing as Alias%d' % (sib[0].lower().replace('-', '_'), len(sib)))
            if ANNOTATION_SETS[cfg['_an']] is not None:
                real['type_annotations'] = ANNOTATION_SETS[cfg['_an']]
            cases.append({'op': 'compile', 'sources': src, 'config': real})
            meta.append((ii, cfg))
    ck.sample({'asn1': inputs[0][-1], 'config': cases[5].get('config')})
    res = run_harness(cases)
    base = {}
    dterms, didx, fterms, fidx = [], [], [], []
    for i, (c, (ii, cfg), r) in enumerate(zip(cases, meta, res)):
        ck.note_case(json.dumps([ii, c.get('config')], sort_keys=True))
        if 'panic' in r or 'crash' in r:
            ck.count('panic-or-crash')
            continue
        if not r.get('ok') or 'items' not in r:
            ck.violation('impl-violation', {'sources': c['sources'], 'config': c.get('config')},
                         impl={x: y for x, y in r.items() if x not in ('generated', 'items')}, why='rejected under this configuration')
            continue
        blocks = MG.blocks_of(r)
        if cfg is None:
            base[ii] = (blocks, r.get('warnings'))
            ck.count('default')
            continue
        ck.count('configured')
        if ii not in base:
            continue
        bblocks, bwarn = base[ii]
        conf = c['config']
        desc = {'sources': c['sources'], 'config': conf}
        problems = []
        if r.get('warnings') != bwarn:
            problems.append('warnings differ from the default configuration')
        if set(blocks) != set(bblocks):
            problems.append('other modules than under the default configuration')
        annos = conf.get('type_annotations', ['#[derive(AsnType, Debug, Clone, Decode, Encode, PartialEq, Eq, Hash)]'])
        uder, unon = user_derives(annos)
        unon_norm = [re.sub(r'\s+', '', a.strip()[2:-1]) if a.strip().startswith('#[') else a for a in unon]
        for mod in sorted(set(blocks) & set(bblocks)):
            u0, f0, s0, r0 = split_items(bblocks[mod])
            u1, f1, s1, r1 = split_items(blocks[mod])
            # ---- use lines
            want = []
            for t in u0:
                if t == 'std::sync::LazyLock' and conf['no_std_compliant_bindings']:
                    t = 'lazy_static::lazy_static'
                if t.startswith('super::') and conf['default_wildcard_imports']:
                    t = re.sub(r'\{.*\}', '{*}', t)
                want.append(t)
            # custom imports come after the prelude imports and before the module imports
            k = len([t for t in want if not t.startswith('super::')])
            want = want[:k] + [re.sub(r'\s+', '', x) for x in conf.get('custom_imports', [])] + want[k:]
            if [re.sub(r'\s+', '', x) for x in u1] != [re.sub(r'\s+', '', x) for x in want]:
                problems.append('use lines of %s are %s, documented effect gives %s' % (mod, u1, want))
            # ---- statics
            if s0 != s1:
                problems.append('values of %s differ: %s vs %s' % (mod, json.dumps(s0)[:200], json.dumps(s1)[:200]))
            # ---- everything else, derive lists aside
            strip = lambda items: [{k: v for k, v in it.items() if k not in ('_derives',)} for it in items]
            a0, a1 = strip(r0), strip(r1)
            # the user's non-derive annotations are added in front of every type
            for it in a1:
                if it.get('kind') in ('struct', 'enum'):
                    at = it.get('attrs', [])
                    if at[:len(unon_norm)] == unon_norm:
                        it['attrs'] = at[len(unon_norm):]
                    elif unon_norm:
                        problems.append('%s::%s lacks the non-derive annotations %s (has %s)' % (mod, it.get('name'), unon_norm, at[:3]))
            if json.dumps(a0, sort_keys=True) != json.dumps(a1, sort_keys=True):
                d0 = {json.dumps(x, sort_keys=True) for x in a0}
                d1 = {json.dumps(x, sort_keys=True) for x in a1}
                problems.append('items of %s other than use lines, From impls, statics and derive lists differ: only default %s / only configured %s'
                                % (mod, [x[:160] for x in sorted(d0 - d1)][:2], [x[:160] for x in sorted(d1 - d0)][:2]))
            # ---- derive lists and From impls against the model
            for it0, it1 in zip(r0, r1):
                if it1.get('kind') in ('struct', 'enum') and it0.get('name') == it1.get('name'):
                    needs_copy = 'Copy' in (it0.get('_derives') or [])
                    dterms.append('(%s, %s, %s)' % (clist([clist(x, cstr) for x in uder]) if uder else '(@nil (list str))', cbool(needs_copy),
                                                    clist(it1.get('_derives') or [], cstr) if it1.get('_derives') else '(@nil str)'))
                    didx.append((i, mod, it1.get('name')))
                    if it1.get('kind') == 'enum' and any('choice' in a for a in it1.get('attrs', []) + it0.get('attrs', [])):
                        got = [re.fullmatch(r'From<(.*)>', x['trait']).group(1) for x in f1.get(it1['name'], [])]
                        alts = variant_payloads(it1)
                        if conf['generate_from_impls']:
                            # observed: variants that got an impl, identified by the variant constructed in the body
                            obs = [re.search(r'Self::([A-Za-z0-9_#]+)\(', x['items'][0]['body']).group(1) for x in f1.get(it1['name'], [])]
                            fterms.append('(%s, %s)' % (clist(['(%s, %s)' % (cstr(a), cstr(t)) for a, t in alts]), clist(obs, cstr) if obs else '(@nil str)'))
                            fidx.append((i, mod, it1['name']))
                        elif got:
                            problems.append('From impls for %s although generate_from_impls is off' % it1['name'])
            if not conf['generate_from_impls'] and f1:
                problems.append('From impls generated although the option is off')
            if f0:
                problems.append('From impls under the default configuration')
        if problems:
            ck.violation('impl-violation', desc, problems=problems[:6], why='a configuration option changes more than it documents: ' + problems[0])
    for j in coq_eval_bad('C19', REQ, 'list (list str) * bool * list str', 'corr_derives', dterms, label='derives'):
        i, mod, name = didx[j]
        ck.violation('impl-violation', {'sources': cases[i]['sources'], 'config': cases[i].get('config')}, item='%s::%s' % (mod, name), term=dterms[j][:300],
                     why='the derive list is not: the derives rasn needs, then each derive the user asked for once')
    for j in coq_eval_bad('C19', REQ, 'list (str * str) * list str', 'corr_from', fterms, label='from'):
        i, mod, name = fidx[j]
        ck.violation('impl-violation', {'sources': cases[i]['sources'], 'config': cases[i].get('config')}, item='%s::%s' % (mod, name), term=fterms[j][:300],
                     why='From impls are not exactly those of the alternatives whose payload type is unique in the CHOICE')
    ck.coverage['traces_validated_against_impl'] = len(dterms) + len(fterms)


def replay(ck, data):
    ck.prove('Props/C19.v', ['RasnV.Props.C19'], extra=['Corr/C19.vo'], titems=['T19'])
    for v in data.get('violations', []):
        c = v.get('case')
        if isinstance(c, dict) and c.get('sources'):
            rs = run_harness([{'op': 'compile', 'sources': c['sources']}, {'op': 'compile', 'sources': c['sources'], 'config': c.get('config') or {}}])
            ck.note_case(json.dumps(c)[:300])
            if not rs[1].get('ok') or v.get('problems') or v.get('item'):
                ck.violation('impl-violation', c, why='replayed: ' + (v.get('why') or ''))
