"""C01 -- warning-free compilations yield Rust bindings that type-check against rasn."""
import itertools
import json
import os
import re
import shutil
import subprocess
from props import modgen as MG
from props import C02 as P02
from props import C07 as P07
from common import cbool, clist, cstr, run_harness, coq_eval_bad, CACHE

REQ = ['RasnV.Corr.C01']
CRATE = os.path.join(CACHE, 'c01crate-%d' % os.getpid())
TARGET = os.path.join(CACHE, 'c01-target')
PRELUDE = ('bool u8 u16 u32 u64 i8 i16 i32 i64 i128 u128 f64 f32 usize isize Integer BitString OctetString Utf8String Ia5String PrintableString '
           'VisibleString NumericString BmpString UniversalString GeneralString TeletexString GraphicString ObjectIdentifier Oid GeneralizedTime '
           'UtcTime Any SequenceOf SetOf Option Box Vec String LazyLock str Self').split()
KNOWN = {
    'C01-optional-member-in-value': 'a SEQUENCE value listing an OPTIONAL component',
    'C01-value-reference-shape': 'a value or DEFAULT given by a value reference',
    'C01-value-name-clash': 'a value whose constant name equals a type name',
}


def config_of(rng):
    cfg = {'opaque_open_types': rng.random() < 0.5, 'default_wildcard_imports': rng.random() < 0.3, 'generate_from_impls': rng.random() < 0.5,
           'no_std_compliant_bindings': rng.random() < 0.3}
    r = rng.random()
    if r < 0.2:
        cfg['custom_imports'] = ['core::fmt::Write as _']
    elif r < 0.3:
        cfg['custom_imports'] = ['core::fmt::Write as _', 'core::any::Any as _CoreAny']
    r = rng.random()
    if r < 0.15:
        cfg['type_annotations'] = ['#[derive(AsnType, Debug, Clone, Decode, Encode, PartialEq, Eq, Hash)]', '#[allow(dead_code)]']
    elif r < 0.3:
        cfg['type_annotations'] = ['#[derive(Hash, Debug)]', '#[derive(Eq)]', '# [ derive ( Hash ) ]']
    return cfg


RECURSIVE = [
    'Node ::= SEQUENCE { val INTEGER, next Node OPTIONAL }',
    'Tree ::= CHOICE { leaf NULL, fork SEQUENCE { l Tree, r Tree } }',
    'Aa ::= SEQUENCE { b Bb OPTIONAL }  Bb ::= SEQUENCE { a Aa OPTIONAL, c Cc }  Cc ::= CHOICE { x Aa, y NULL }',
    'List ::= SEQUENCE OF List',
    'Fwd ::= SEQUENCE { later Later, again Later OPTIONAL }  Later ::= ENUMERATED { one, two }',
    'Deep ::= SEQUENCE { a SEQUENCE { b SEQUENCE { c SEQUENCE { d Deep OPTIONAL } } } }',
    'Ee ::= SET { s SET OF Ee, t [5] Ee OPTIONAL }',
    'Pp ::= CHOICE { q Qq, r NULL }  Qq ::= CHOICE { p Pp, s BOOLEAN }',
    'Folder ::= SEQUENCE { content SET { index Catalogue OPTIONAL } }  Catalogue ::= SEQUENCE { root Folder OPTIONAL }',
    'Fa ::= SEQUENCE { inner SEQUENCE { deep CHOICE { leaf NULL, up [1] Fb } } }  Fb ::= SET { back Fa OPTIONAL, n INTEGER }',
    'Ra ::= SEQUENCE { b Rb OPTIONAL }  Rb ::= SET { c Rc OPTIONAL }  Rc ::= SEQUENCE { a Ra OPTIONAL, l SEQUENCE OF Rb }',
    'Ga ::= SET { s SET { t SET { u Ga OPTIONAL } } }',
]
KEYWORDS = ('as break const continue crate else enum extern false fn for if impl in let loop match mod move mut pub ref return self Self static '
            'struct super trait true type unsafe use where while async await dyn abstract become box do final macro override priv typeof unsized '
            'virtual yield try union').split()


KNOWN_PROBES = [
    ('C01-default-on-extension-addition', 'AUTOMATIC TAGS', 'T ::= SEQUENCE { a BOOLEAN, ..., v INTEGER (0..255) DEFAULT 7 }'),
    ('C01-recursive-extension-group', 'AUTOMATIC TAGS', 'T ::= SEQUENCE { a BOOLEAN, ..., [[ b T OPTIONAL ]] }'),
    ('C01-empty-set', 'AUTOMATIC TAGS', 'T ::= SET { ... }'),
    ('C01-constrained-extension-addition', '', 'T ::= SEQUENCE { a INTEGER, ..., b PrintableString (SIZE (1..8)) }'),
    ('C01-sequence-of-value', 'AUTOMATIC TAGS', 'So ::= SEQUENCE OF INTEGER\nvv So ::= { 1, 2 }'),
    ('C01-nested-sequence-value', 'AUTOMATIC TAGS', 'Sq ::= SEQUENCE { a INTEGER, b In }\nIn ::= SEQUENCE { c BOOLEAN, d NULL }\nvv Sq ::= { a 1, b { c TRUE, d NULL } }'),
    ('C01-value-by-reference', 'AUTOMATIC TAGS', 'vv INTEGER ::= 5\nww INTEGER ::= vv\nDd ::= SEQUENCE { d INTEGER DEFAULT vv }'),
    ('C01-default-in-anonymous-element', 'AUTOMATIC TAGS', 'T ::= SEQUENCE { m SEQUENCE OF SEQUENCE { a INTEGER DEFAULT 5 } }'),
    ('C01-set-constrained-component', 'AUTOMATIC TAGS', 'T ::= SET { v INTEGER (0..255), w BOOLEAN }'),
    ('C01-explicit-tagged-extension-addition', 'EXPLICIT TAGS', 'T ::= SEQUENCE { a INTEGER, ..., v [6] OCTET STRING OPTIONAL }'),
    ('C01-list-default', 'AUTOMATIC TAGS', 'T ::= SEQUENCE { t SET OF INTEGER DEFAULT {} }\nU ::= SEQUENCE { u SEQUENCE OF INTEGER (0..5) DEFAULT {} }'),
    ('C01-undefined-value-reference', 'AUTOMATIC TAGS', 'Good ::= INTEGER (0..5)\nun2 Good ::= missing-val'),
    ('C01-real-component', 'AUTOMATIC TAGS', 'T ::= SEQUENCE { r REAL }'),
    ('C01-recursive-choice-value', 'AUTOMATIC TAGS', 'Tree ::= CHOICE { leaf BOOLEAN, more Tree }\nv Tree ::= more : leaf : TRUE'),
    ('C01-default-under-union-constraint', 'AUTOMATIC TAGS', 'T ::= SEQUENCE { a INTEGER (1 | 2) DEFAULT 1 }'),
    ('C01-default-of-qualified-type', 'AUTOMATIC TAGS', 'Rec ::= SEQUENCE { d Mk-b.Level DEFAULT 3 }\nEND\nMk-b DEFINITIONS AUTOMATIC TAGS ::= BEGIN\nLevel ::= INTEGER (0..9)'),
]


def sanitize(c, automatic, in_group=False, explicit=False):
    """keep the generated constructed type out of the known classes (they are probed separately)"""
    if c['kind'] == 'SET':
        for m in c['root'] + c['adds']:
            for x in (m['group'] if 'group' in m else [m]):
                t = x['ty']
                if t['k'] == 'plain' and '(' in t['asn']:
                    t['asn'] = t['asn'].split(' (')[0]
                    t['tok'] = {'INTEGER': 'Integer'}.get(t['asn'], t['tok'])
                    if t['asn'] == 'INTEGER':
                        t['default'] = '5'
    if explicit:
        for m in c['adds']:
            for x in (m['group'] if 'group' in m else [m]):
                x.pop('tag', None)
    if c['kind'] == 'CHOICE':
        # an untagged alternative of the type itself has the type's own tags: not a legal CHOICE unless tagged
        for m in c['root'] + c['adds']:
            if 'group' not in m and m['ty'].get('rec') and 'tag' not in m:
                m['tag'] = '[%d] ' % (40 + len(m['name']))
    if c['kind'] == 'SET' and not c['root'] and not c['adds']:
        c['root'].append({'name': 'only1', 'ty': {'k': 'plain', 'asn': 'BOOLEAN', 'tok': 'bool', 'default': 'TRUE'}, 'opt': None})
    if c['kind'] == 'CHOICE':
        first = c['root'][0]
        if first['ty'].get('rec'):
            first['ty'] = {'k': 'plain', 'asn': 'NULL', 'tok': '()', 'default': None}

    automatic = automatic and not any('tag' in x for m in c['root'] + c['adds'] for x in (m['group'] if 'group' in m else [m]))

    def fix_member(m, addition, group):
        if 'group' in m:
            for x in m['group']:
                fix_member(x, True, True)
            return
        t = m['ty']
        if group and t['k'] == 'ref' and t.get('rec'):
            m['ty'] = {'k': 'plain', 'asn': 'BOOLEAN', 'tok': 'bool', 'default': None}
            t = m['ty']
        if addition and m['opt'] == 'DEFAULT':
            m['opt'] = 'OPTIONAL'
        if addition and not group and m['opt'] is None and not automatic and c['kind'] != 'CHOICE':
            m['opt'] = 'OPTIONAL'
        if t['k'] == 'nested':
            sanitize(t['c'], automatic, group, explicit)
        if t['k'] == 'of':
            e = t['elem']
            while e['k'] == 'of':
                e = e['elem']
            if e['k'] == 'nested':
                sanitize(e['c'], automatic, group, explicit)
                no_defaults(e['c'])
    # (being nested inside a group does not make the additions of this type group members)
    for m in c['root']:
        fix_member(m, False, False)
    for m in c['adds']:
        fix_member(m, True, False)


def no_defaults(c):
    for m in c['root'] + c['adds']:
        for x in (m['group'] if 'group' in m else [m]):
            if x['opt'] == 'DEFAULT':
                x['opt'] = 'OPTIONAL'
            t = x['ty']
            while t['k'] == 'of':
                t = t['elem']
            if t['k'] == 'nested':
                no_defaults(t['c'])


def strip_group_recursion(c):
    def walk(cc, inside):
        for m in cc['root'] + cc['adds']:
            if 'group' in m:
                for x in m['group']:
                    scrub(x, True)
            else:
                scrub(m, inside)

    def scrub(m, inside):
        t = m['ty']
        if inside and t['k'] == 'ref' and t.get('rec'):
            m['ty'] = {'k': 'plain', 'asn': 'BOOLEAN', 'tok': 'bool', 'default': None}
        elif t['k'] == 'nested':
            walk(t['c'], inside)
        elif t['k'] == 'of':
            e = t['elem']
            while e['k'] == 'of':
                e = e['elem']
            if e['k'] == 'nested':
                walk(e['c'], inside)
            elif inside and e['k'] == 'ref' and e.get('rec'):
                pass
    walk(c, False)


def build_cases(ck):
    rng = ck.rng
    quick = ck.tier == 'quick'
    cases = []

    def add(sources, fam, tags=(), known=None):
        cases.append({'op': 'compile', 'sources': sources, 'config': config_of(rng) if not known else {}, 'text': True, '_fam': fam,
                      '_tags': list(tags), '_known': known})

    for k in range(80 if quick else 2500):
        top = 'Top%d' % k
        g = P02.Gen(ck, k, top)
        c = g.constructed(0)
        tagging = rng.choice(['AUTOMATIC TAGS', 'EXPLICIT TAGS', 'IMPLICIT TAGS', ''])
        sanitize(c, tagging == 'AUTOMATIC TAGS', explicit=(tagging == 'EXPLICIT TAGS'))
        strip_group_recursion(c)
        header = tagging + (' EXTENSIBILITY IMPLIED' if rng.random() < 0.2 else '')
        add(['Mc%d DEFINITIONS %s ::= BEGIN\nLeaf%d ::= INTEGER\n%s ::= %s\nEND\n' % (k, header, k, top, P02.cons_asn(c))], 'constructed', sorted(g.tags))
    for k in range(60 if quick else 1500):
        kind = rng.choice(['int', 'cint', 'nint', 'bool', 'null', 'str', 'bits', 'nbits', 'octets', 'oid', 'enum'])
        it = P07.build_item(ck, 5000 + k, only=kind)
        # direct forms only: the assignment and the DEFAULT (references are a known class)
        src = '\n'.join(ln for ln in it['sources'][0].split('\n') if not ln.startswith('ww') and not (ln.startswith('Dd') and 'r ::=' in ln))
        if 'oid-value-ref' in it['_tags'] or 'value-ref' in it['_tags']:
            continue
        add([src], 'values', it['_tags'])
    for k in range(25 if quick else 500):
        ms = MG.gen_module_set(rng, k, nmods=rng.randint(1, 4), max_defs=7)
        add(MG.render(ms, split_sources=rng.random() < 0.3), 'module-set')
    for i, body in enumerate(RECURSIVE):
        for tagging in (['AUTOMATIC TAGS'] if quick or 'Pp ::=' in body else ['AUTOMATIC TAGS', 'EXPLICIT TAGS', '']):
            # (mutually recursive untagged CHOICEs have no well-defined tag sets outside AUTOMATIC TAGS)
            add(['Mr%d DEFINITIONS %s ::= BEGIN\n%s\nEND\n' % (i, tagging, body.replace('  ', '\n'))], 'recursive')
    # names that are Rust keywords, as component, alternative and enumeral
    kws = [k for k in KEYWORDS if k[0].islower()]
    for i in range(0, len(kws), 6):
        chunk = kws[i:i + 6]
        body = ('Kw%d ::= SEQUENCE { %s }\nKc%d ::= CHOICE { %s }\nKe%d ::= ENUMERATED { %s }'
                % (i, ', '.join('%s INTEGER OPTIONAL' % k for k in chunk), i, ', '.join('%s [%d] NULL' % (k, j) for j, k in enumerate(chunk)),
                   i, ', '.join(chunk)))
        add(['Mw%d DEFINITIONS AUTOMATIC TAGS ::= BEGIN\n%s\nEND\n' % (i, body)], 'keyword-names')
    # CHOICE values, constant and not, under every configuration (incl. no_std)
    for k in range(8 if quick else 60):
        body = ('Lbl%d ::= CHOICE { text UTF8String, num INTEGER, small INTEGER (0..9), flag BOOLEAN, oct OCTET STRING }\n'
                'g%d Lbl%d ::= text : "hello"\nn%d Lbl%d ::= num : %d\nt%d Lbl%d ::= small : 4\nf%d Lbl%d ::= flag : TRUE\no%d Lbl%d ::= oct : \'AB\'H\n'
                'Hold%d ::= SEQUENCE { d1 Lbl%d DEFAULT num : 7, d2 Lbl%d DEFAULT flag : FALSE }'
                % (k, k, k, k, k, rng.randint(-9, 10 ** 12), k, k, k, k, k, k, k, k, k))
        cases.append({'op': 'compile', 'sources': ['Mq%d DEFINITIONS AUTOMATIC TAGS ::= BEGIN\n%s\nEND\n' % (k, body)],
                      'config': dict(config_of(rng), no_std_compliant_bindings=(k % 2 == 0)), 'text': True, '_fam': 'choice-values', '_tags': [], '_known': None})
    # every component has a DEFAULT (the type then gets `impl Default`), under type names whose snake case depends on where it is taken from
    for k, tn in enumerate(['PDU-Info', 'A-1', 'HTTPReq-v2', 'Plain', 'X509Cert', 'ab-C-d' if False else 'Ab-C-D']):
        body = ('%s ::= SEQUENCE { a BOOLEAN DEFAULT TRUE, b INTEGER (0..9) DEFAULT 5, c-d IA5String DEFAULT "x" }\n'
                'Set%d ::= SET { only-one BOOLEAN DEFAULT FALSE }' % (tn, k))
        add(['Md%d DEFINITIONS AUTOMATIC TAGS ::= BEGIN\n%s\nEND\n' % (k, body)], 'all-default')
    # module-qualified references (Mod.Type) that are not also imported by name, in every position a type can take; module names
    # with capital humps and digits, so that the path is built from the same mangling as the `pub mod` line
    for k, geo in enumerate(['Geo-Defs', 'GeoV2Defs', 'X509v3-Ext', 'ABCDefs9']):
        for tagging in (['AUTOMATIC TAGS'] if quick else ['AUTOMATIC TAGS', 'EXPLICIT TAGS', 'IMPLICIT TAGS']):
            a = ('%s DEFINITIONS %s ::= BEGIN\nPoint ::= SEQUENCE { x INTEGER, y INTEGER }\nLevel ::= INTEGER (0..9)\nKind ::= ENUMERATED { a, b }\nEND\n'
                 % (geo, tagging))
            b = ('Mq%dUser DEFINITIONS %s ::= BEGIN\nPath ::= SEQUENCE OF %s.Point\nBag ::= SET OF %s.Level\nAlias ::= %s.Kind\n'
                 'Lim ::= %s.Level (0..5)\nTagged ::= [APPLICATION 7] %s.Point\n'
                 'Rec ::= SEQUENCE { p %s.Point, l SEQUENCE OF %s.Level, m SEQUENCE (SIZE (1..3)) OF %s.Point OPTIONAL, t [5] %s.Kind }\n'
                 'Pick ::= CHOICE { p %s.Point, ks SET OF %s.Kind }\nEND\n' % ((k, tagging) + (geo,) * 11))
            add([a, b] if rng.random() < 0.5 else [b, a], 'qualified-references')
    for slug, tagging, body in KNOWN_PROBES:
        add(['Mk DEFINITIONS %s ::= BEGIN\n%s\nEND\n' % (tagging, body)], 'known-probe', known=slug)
    return cases


def abstract_items(mod):
    """-> (items, others, imported) for one `pub mod` block of the projection"""
    items, others, imported = [], [], []
    for it in mod['items']:
        k = it.get('kind')
        if k == 'use':
            m = re.fullmatch(r'super::[A-Za-z0-9_]+::\{(.*)\}', it['tree'].replace(' ', ''))
            if m:
                imported += [x for x in m.group(1).split(',') if x and x != '*']
                if m.group(1) == '*':
                    imported.append('*')
            else:
                imported.append(it['tree'].split('::')[-1].split(' as ')[-1].strip())
        elif k in ('struct', 'enum'):
            if k == 'struct':
                members = [f['name'] for f in it.get('fields', []) if f.get('name')]
                tys = [f['ty'] for f in it.get('fields', [])]
            else:
                members = [v['name'] for v in it.get('variants', [])]
                tys = [f['ty'] for v in it.get('variants', []) for f in v.get('fields', [])]
            mentions, by_value = [], []
            for t in tys:
                t = re.sub(r"&'static|'static", '', t)
                for path in re.findall(r'[A-Za-z_][A-Za-z0-9_]*(?:::[A-Za-z_][A-Za-z0-9_]*)*', t):
                    segs = path.split('::')
                    if segs[0] == 'super':
                        continue            # module-qualified: resolution is C12's subject
                    mentions.append(segs[-1])
                by_value += names_by_value(t)
            items.append({'name': it['name'], 'members': members, 'mentions': mentions, 'by_value': by_value})
        elif k in ('const', 'static', 'type'):
            others.append('value:' + it['name'])
        elif k == 'fn':
            others.append('value:' + it['name'])
    return items, others, imported


def names_by_value(t):
    """type names contained by value in the type expression t (not under Box / SequenceOf / SetOf / Vec)"""
    out = []
    depth_block = []
    toks = re.findall(r'[A-Za-z_][A-Za-z0-9_:]*|[<>,()]', t)
    stack = []       # for each open '<', whether it blocks by-value containment
    last = None
    for tok in toks:
        if tok == '<':
            stack.append(last in ('Box', 'SequenceOf', 'SetOf', 'Vec'))
        elif tok == '>':
            if stack:
                stack.pop()
        elif tok in (',', '(', ')'):
            pass
        else:
            name = tok.split('::')[-1]
            if not any(stack) and name not in ('Option', 'Box', 'SequenceOf', 'SetOf', 'Vec') and not tok.startswith('super::'):
                out.append(name)
            last = name
            continue
        last = None
    return out


def topo_order(items):
    names = [it['name'] for it in items]
    edges = {it['name']: [n for n in it['by_value'] if n in names] for it in items}
    order, state = [], {}

    def visit(n):
        if state.get(n) == 2:
            return
        if state.get(n) == 1:
            return
        state[n] = 1
        for m in edges.get(n, []):
            visit(m)
        state[n] = 2
        order.append(n)
    for n in names:
        visit(n)
    return order


def item_term(it):
    s = lambda l: clist(l, cstr) if l else '(@nil str)'
    return '(mkitem %s %s %s %s)' % (cstr(it['name']), s(it['members']), s(it['mentions']), s(it['by_value']))


def cargo_check(ck, texts):
    """texts: list of generated module texts; -> {case index: [(code, message)]} or None when cargo itself failed"""
    if os.path.exists(CRATE):
        shutil.rmtree(CRATE)
    os.makedirs(os.path.join(CRATE, 'src'))
    with open(os.path.join(CRATE, 'Cargo.toml'), 'w') as f:
        f.write('[package]\nname = "c01crate"\nversion = "0.0.0"\nedition = "2021"\n\n[dependencies]\nrasn = "=0.27.0"\nlazy_static = "1"\n\n[workspace]\n')
    shutil.copy('/repo/Cargo.lock', os.path.join(CRATE, 'Cargo.lock'))
    lines = ['#![allow(warnings)]']
    ranges = []
    for i, t in enumerate(texts):
        start = len(lines) + 1
        lines.append('pub mod case%d {' % i)
        lines += t.split('\n')
        lines.append('}')
        ranges.append((start, len(lines)))
    with open(os.path.join(CRATE, 'src', 'lib.rs'), 'w') as f:
        f.write('\n'.join(lines) + '\n')
    env = dict(os.environ, CARGO_NET_OFFLINE='true', CARGO_TARGET_DIR=TARGET)
    p = subprocess.run(['cargo', 'check', '--offline', '--message-format=json', '-q'], cwd=CRATE, env=env, capture_output=True, text=True, timeout=3000)
    errors = {}
    seen_compiler = False
    for ln in p.stdout.splitlines():
        try:
            m = json.loads(ln)
        except ValueError:
            continue
        if m.get('reason') != 'compiler-message':
            continue
        msg = m['message']
        if msg.get('level') != 'error':
            continue
        seen_compiler = True
        spans = [s for s in msg.get('spans', []) if s.get('file_name', '').endswith('lib.rs')]
        if not spans:
            continue
        line = spans[0]['line_start']
        for i, (a, b) in enumerate(ranges):
            if a <= line <= b:
                errors.setdefault(i, []).append(((msg.get('code') or {}).get('code') or '', msg.get('message', '')[:300]))
                break
    if p.returncode != 0 and not seen_compiler:
        ck.broken.append({'kind': 'build', 'item': 'cargo check of the bindings crate', 'detail': (p.stderr or p.stdout)[-1500:]})
        return None
    shutil.rmtree(CRATE, ignore_errors=True)
    return errors


def classify(c, errs):
    return c.get('_known')


def run(ck):
    ck.coverage['rule'] = ('generator outputs of the supported notation -- constructed types to depth 4 with every component kind, optionality, extension '
                           'markers and groups, recursion; value assignments and DEFAULTs of every form (direct, by reference, through type chains); '
                           'multi-module sets with IMPORTS; direct, mutual and nested recursion, forward references -- each under a random combination '
                           'of the backend options; the bindings of every compilation that returns Ok without warnings are written as one module of a '
                           'crate depending on rasn 0.27.0 (+ lazy_static) and `cargo check`ed; every rustc error is mapped back to its input. '
                           'Correspondence: the name / resolution / finite-size checker runs inside Coq on the syn projection of each module and its '
                           'verdicts are compared with rustc\'s E0428/E0124/E0412/E0072 for that module')
    ck.assumptions += ['type checking is rustc\'s: the Coq checker covers unique names, resolution of type names and finite size only',
                       'the rasn version is the one pinned in /repo/Cargo.lock; edition 2021']
    ck.prove('Props/C01.v', ['RasnV.Props.C01'], extra=['Corr/C01.vo'])
    cases = build_cases(ck)
    res = run_harness(cases)
    kept = []
    for c, r in zip(cases, res):
        ck.note_case('\n'.join(c['sources']) + json.dumps(c['config'], sort_keys=True))
        ck.count(c['_fam'])
        if 'panic' in r or 'crash' in r:
            ck.count('panic-or-crash')
        elif not r.get('ok'):
            ck.count('err')
        elif r.get('warnings'):
            ck.count('with-warnings')
        elif 'items' not in r:
            ck.violation('impl-violation', {'sources': c['sources'], 'config': c['config']}, why='warning-free bindings do not parse as Rust items',
                         detail=r.get('syn_error'))
        else:
            kept.append((c, r))
    ck.coverage['warning_free_compilations'] = len(kept)
    ck.sample({'asn1': kept[0][0]['sources'][0][:800], 'config': kept[0][0]['config']})
    errors = cargo_check(ck, [r['generated'] for _, r in kept])
    if errors is None:
        return
    terms, idx = [], []
    for i, (c, r) in enumerate(kept):
        errs = errors.get(i, [])
        codes = {e[0] for e in errs}
        if errs:
            slug = classify(c, errs)
            desc = {'sources': c['sources'], 'config': c['config']}
            if slug and ck.is_known(slug):
                ck.known_hit(slug, {'asn1': c['sources'][0][-400:], 'errors': errs[:3]})
            else:
                ck.violation('impl-violation', desc, family=c['_fam'], errors=errs[:5], tags=c['_tags'],
                             why='warning-free bindings do not type-check against rasn: %s %s' % (errs[0][0], errs[0][1][:160]))
        for mod in [m for m in r['items'] if m.get('kind') == 'mod']:
            items, others, imported = abstract_items(mod)
            if '*' in imported:
                continue
            type_names = [it['name'] for it in items]
            # the value namespace: constructors of tuple structs live there too; unit/tuple struct vs const clashes are rustc's E0428
            universe = PRELUDE + imported
            order = topo_order(items)
            terms.append('(%s, %s, %s, %s, %s, %s, %s)' % (clist([item_term(x) for x in items]) if items else '(@nil item)',
                                                           '(@nil str)', clist(universe, cstr), clist(order, cstr) if order else '(@nil str)',
                                                           cbool(bool(codes & {'E0124'}) or dup_types(errs)), cbool('E0412' in codes), cbool('E0072' in codes)))
            idx.append((i, mod['name']))
    single = [j for j, (i, _) in enumerate(idx) if sum(1 for (i2, _) in idx if i2 == i) == 1]
    for jj in coq_eval_bad('C01', REQ, 'list item * list str * list str * list str * bool * bool * bool', 'corr', [terms[j] for j in single], label='wf'):
        i, mname = idx[single[jj]]
        c, r = kept[i]
        ck.broken.append({'kind': 'correspondence', 'item': 'well-formedness checker vs rustc',
                          'detail': 'the checker and rustc disagree on module %s of %s: rustc errors %s' % (mname, c['sources'][0][:700], errors.get(i, [])[:4])})
    ck.coverage['traces_validated_against_impl'] = len(single)
    ck.coverage['rustc_errors'] = sum(len(v) for v in errors.values())


def dup_types(errs):
    return any(e[0] == 'E0428' and 'type namespace' in e[1] for e in errs)


def replay(ck, data):
    ck.prove('Props/C01.v', ['RasnV.Props.C01'], extra=['Corr/C01.vo'])
    cases = []
    for v in data.get('violations', []):
        c = v.get('case')
        if isinstance(c, dict) and c.get('sources'):
            cases.append({'op': 'compile', 'sources': c['sources'], 'config': c.get('config') or {}, 'text': True, '_fam': v.get('family', ''), '_tags': v.get('tags') or []})
    res = run_harness(cases)
    kept = [(c, r) for c, r in zip(cases, res) if r.get('ok') and not r.get('warnings') and 'items' in r]
    if not kept:
        return
    errors = cargo_check(ck, [r['generated'] for _, r in kept])
    for i, (c, r) in enumerate(kept):
        ck.note_case('\n'.join(c['sources']))
        if errors and errors.get(i):
            ck.violation('impl-violation', {'sources': c['sources'], 'config': c['config']}, errors=errors[i][:5], why='still does not type-check')
