"""C08 -- compilation and error rendering are total: no panic, abort or hang."""
import json
import os
import re
from common import run_harness, coq_eval_bad

LEVEL = 'proof'
CORPUS = '/repo/rasn-compiler-tests/tests/modules'
TOKEN_RE = re.compile(r'"(?:[^"]|"")*"|\'[0-9A-Fa-f]*\'[HB]|::=|\.\.\.|\.\.|\[\[|\]\]|[A-Za-z][A-Za-z0-9-]*|\d+|[{}()\[\],:;|^<>@!&.*/-]|\S')

BASE = '''Tot-Mod DEFINITIONS AUTOMATIC TAGS ::= BEGIN
IMPORTS Other FROM Other-Mod;
Rec ::= SEQUENCE { a INTEGER (0..5), b BOOLEAN OPTIONAL, c Color DEFAULT red, ..., [[ 2: d OCTET STRING (SIZE (2)), e NULL ]] }
Color ::= ENUMERATED { red (0), green (1), ..., blue (5) }
Pick ::= CHOICE { x [0] INTEGER, y [1] EXPLICIT IA5String (FROM ("a".."c") ^ SIZE (1..4)), ... }
Items ::= SEQUENCE (SIZE (1..4)) OF Rec
Flags ::= BIT STRING { first (0), last (7) }
Oid ::= OBJECT IDENTIFIER
max-val INTEGER ::= 10
Lim ::= INTEGER (1..max-val | 20, ...)
Nest ::= SET { n SEQUENCE { m [2] NULL }, k SET OF INTEGER, COMPONENTS OF Rec }
Par {INTEGER: low, Type} ::= SEQUENCE { p INTEGER (low..max-val), q Type }
Inst ::= Par {1, BOOLEAN}
Sel ::= x < Pick
CLS ::= CLASS { &id INTEGER UNIQUE, &Type OPTIONAL } WITH SYNTAX { ID &id [TYPE &Type] }
obj CLS ::= { ID 1 TYPE BOOLEAN }
ObjSet CLS ::= { obj | { ID 2 } , ... }
Fld ::= SEQUENCE { i CLS.&id ({ObjSet}), t CLS.&Type ({ObjSet}{@i}) }
rv REAL ::= { mantissa 1, base 10, exponent 2 }
Re ::= REAL (0..10)
pick-v Pick ::= x : 5
bits Flags ::= { first, last }
oid-v Oid ::= { iso standard 8571 }
hex OCTET STRING ::= 'AB12'H
name-v IA5String ::= "a""b"
seq-v Rec ::= { a 1, c green }
Rcr ::= SEQUENCE { next Rcr OPTIONAL, alt CHOICE { self Rcr, none NULL } }
END
'''

NOTATIONS = [
    'A ::= B  B ::= A  v A ::= 5',
    'A ::= B  B ::= C  C ::= A  S ::= SEQUENCE { f A DEFAULT 3 }',
    'S ::= SEQUENCE { a INTEGER, ..., [[ COMPONENTS OF X ]] }  X ::= SEQUENCE { b NULL }',
    'A ::= TIME',
    'A ::= TIME (SETTINGS "Basic=Date")  t A ::= "2020-01-01"',
    'A ::= DATE  B ::= TIME-OF-DAY  C ::= DATE-TIME  D ::= DURATION',
    'B ::= BIT STRING { x (0), y (100000000000) }  v B ::= { x }',
    'B ::= BIT STRING { x (0), y (70) }  v B ::= { y }',
    'C ::= CHOICE { ..., a NULL }',
    'C ::= CHOICE { ... }',
    'E ::= ENUMERATED { ..., a }',
    'E ::= ENUMERATED { }',
    'S ::= SEQUENCE { }  T ::= SET { ... }',
    'M MACRO ::= BEGIN TYPE NOTATION ::= "X" VALUE NOTATION ::= value (VALUE INTEGER) END  v M ::= 5',
    'OS CLS ::= { OS2 }  OS2 CLS ::= { OS }  CLS ::= CLASS { &id INTEGER }',
    'P {T} ::= SEQUENCE { x P {T} OPTIONAL }  Q ::= P {INTEGER}',
    'P {T} ::= Q {T}  Q {T} ::= P {T}  R ::= P {INTEGER}',
    'A ::= SEQUENCE { COMPONENTS OF A }',
    'A ::= SEQUENCE { COMPONENTS OF B }  B ::= SEQUENCE { COMPONENTS OF A }',
    'A ::= x < A',
    'A ::= INTEGER (A)',
    'A ::= INTEGER (0..a)  a INTEGER ::= b  b INTEGER ::= a',
    'A ::= INTEGER (a<..<b)  a INTEGER ::= 1  b INTEGER ::= 9',
    'A ::= IA5String (PATTERN "a""b")  B ::= IA5String (SIZE (1..5) ^ PATTERN "x")',
    'A ::= SEQUENCE { a INTEGER } (WITH COMPONENTS { a (1..5) })',
    'A ::= OCTET STRING (CONTAINING INTEGER)  B ::= BIT STRING (CONTAINING A ENCODED BY { 1 2 3 })',
    'A ::= EXTERNAL  B ::= EMBEDDED PDV  C ::= ANY  D ::= ANY DEFINED BY x',
    'A ::= INSTANCE OF TYPE-IDENTIFIER',
    'A ::= CHARACTER STRING  B ::= RELATIVE-OID  C ::= OID-IRI',
    'v INTEGER ::= 170141183460469231731687303715884105727  w INTEGER ::= -170141183460469231731687303715884105728',
    'v INTEGER ::= 999999999999999999999999999999999999999999',
    'A ::= INTEGER (0..999999999999999999999999999999999999999999)',
    'A ::= [99999999999999999999999] INTEGER',
    'A ::= ENUMERATED { a (999999999999999999999999999999999999999999) }',
    'A ::= SEQUENCE (SIZE (18446744073709551616)) OF INTEGER',
    "h OCTET STRING ::= 'ABC'H  b BIT STRING ::= '0102'B  o OCTET STRING ::= '010'B",
    'v IA5String ::= "unterminated',
    'A ::= INTEGER /* never closed',
    'A ::= INTEGER -- trailing',
    'A ::= INTEGER --',
    'A ::= SEQUENCE { a [0',
    'A ::= SEQUENCE { a INTEGER DEFAULT',
    'A ::= SEQUENCE { a INTEGER DEFAULT }',
    'A ::= é  B ::= SEQUENCE { é INTEGER }',
    'v UTF8String ::= "é€𝄞"  w BMPString ::= "€"  u UniversalString ::= {0,0,1,2}',
    'A ::= SEQUENCE { a A }  B ::= SEQUENCE OF B  C ::= CHOICE { c C }',
    'v A ::= { a { a { a { a { a 1 } } } } }  A ::= SEQUENCE { a A OPTIONAL }',
    'A ::= SEQUENCE { a SEQUENCE { b SEQUENCE { c SEQUENCE { d SEQUENCE { e SEQUENCE { f NULL } } } } } }',
    'v Ch ::= a : b : c : 5  Ch ::= CHOICE { a Ch2 }  Ch2 ::= CHOICE { b Ch3 }  Ch3 ::= CHOICE { c INTEGER }',
    'A ::= INTEGER { a(1), a(2) }  B ::= ENUMERATED { x, x }  C ::= SEQUENCE { f NULL, f NULL }',
    'A ::= SEQUENCE OF SEQUENCE OF SET OF CHOICE { a NULL }',
    'A ::= Unknown  v Unknown ::= 5  w INTEGER ::= unknown',
    'A ::= Mod.Type  B ::= Mod.Type (1..5)',
    'v REAL ::= 1.5  w REAL ::= 3E-2  x REAL ::= PLUS-INFINITY  y REAL ::= { mantissa 1, base 3, exponent 2 }',
    'A ::= SET { a [0] INTEGER, b [0] BOOLEAN }',
    'A ::= SEQUENCE { a INTEGER (5..1) }  B ::= INTEGER (1 ^ 2)',
    'A ::= IA5String (FROM ("z".."a"))  B ::= NumericString (FROM ("x"))',
    'A ::= BIT STRING (SIZE (0))  v A ::= \'\'B  w BIT STRING ::= {}',
    'A ::= OBJECT IDENTIFIER  v A ::= { }  w A ::= { 1 }  x A ::= { v 1 }  y A ::= { y 1 }',
]

SOUP = ['::=', 'SEQUENCE', 'SET', 'CHOICE', 'OF', '{', '}', '(', ')', '[', ']', '[[', ']]', ',', '...', '..', ':', ';', '|', '^', '<',
        'INTEGER', 'BOOLEAN', 'NULL', 'ENUMERATED', 'BIT STRING', 'OCTET STRING', 'IA5String', 'SIZE', 'FROM', 'DEFAULT', 'OPTIONAL',
        'BEGIN', 'END', 'DEFINITIONS', 'IMPORTS', 'EXPORTS', 'ALL', 'AUTOMATIC TAGS', 'EXPLICIT', 'IMPLICIT', 'CLASS', 'WITH SYNTAX',
        'MACRO', 'COMPONENTS OF', 'EXCEPT', 'MIN', 'MAX', 'TRUE', 'FALSE', 'A', 'Bb', 'c', 'd-e', 'x1', '0', '1', '-5', '65536',
        '"s"', '"', "'AB'H", "'01'B", "'", '--', '/*', '*/', '\n', '\r\n', '\t', ' ', 'é', '€', '𝄞', '\0', '&', '.', '@', '!', '*', '/', '-']


def wrap(body, header='T DEFINITIONS AUTOMATIC TAGS ::= BEGIN'):
    return '%s\n%s\nEND\n' % (header, body)


def mutate(ck, toks):
    toks = list(toks)
    k = ck.rng.choice(['delete', 'insert', 'replace', 'duplicate', 'swap', 'splice'])
    if not toks:
        return toks
    i = ck.rng.randrange(len(toks))
    if k == 'delete':
        del toks[i]
    elif k == 'insert':
        toks.insert(i, ck.rng.choice(SOUP))
    elif k == 'replace':
        toks[i] = ck.rng.choice(SOUP)
    elif k == 'duplicate':
        toks.insert(i, toks[i])
    elif k == 'swap' and len(toks) > 1:
        j = ck.rng.randrange(len(toks))
        toks[i], toks[j] = toks[j], toks[i]
    else:
        j = ck.rng.randrange(len(toks))
        a, b = min(i, j), max(i, j)
        seg = toks[a:b + 1]
        p = ck.rng.randrange(len(toks))
        toks[p:p] = seg[:20]
    return toks


def cycle_modules(ck):
    """reference chains n0 -> n1 -> .. -> nk -> nj (a cycle entered after a tail of j links) for each kind of reference, each with
    the uses that make the linker chase them"""
    out = []
    for tail, loop, rev in [(t, l, r) for r in (False, True) for t in range(0, 3) for l in range(1, 4)]:
        if True:
            n = tail + loop
            # rev: the entry of the chain sorts last, so the linker (descending name order) meets it before the cycle it leads into
            ty = ['T%d' % ((n - i) if rev else i) for i in range(n)]
            va = ['v%d' % ((n - i) if rev else i) for i in range(n)]
            nxt = [(i + 1) if i + 1 < n else tail for i in range(n)]
            tdefs = ' '.join('%s ::= %s' % (ty[i], ty[nxt[i]]) for i in range(n))
            vdefs = ' '.join('%s INTEGER ::= %s' % (va[i], va[nxt[i]]) for i in range(n))
            out += [
                tdefs + ' w %s ::= 5' % ty[0],
                tdefs + ' w %s ::= 5 u %s ::= w' % (ty[0], ty[0]),
                tdefs + ' S ::= SEQUENCE { f %s DEFAULT 3, g %s OPTIONAL }' % (ty[0], ty[0]),
                tdefs + ' C ::= %s (1..5) D ::= SEQUENCE OF %s E ::= CHOICE { a %s }' % (ty[0], ty[0], ty[0]),
                tdefs + ' w %s ::= red x %s ::= { a 1 } y %s ::= a : 5' % (ty[0], ty[0], ty[0]),
                vdefs + ' A ::= INTEGER (0..%s)' % va[0],
                vdefs + ' A ::= INTEGER (%s..%s) B ::= SEQUENCE (SIZE (%s)) OF NULL' % (va[0], va[0], va[0]),
                vdefs + ' S ::= SEQUENCE { f INTEGER DEFAULT %s }' % va[0],
                vdefs + ' o OBJECT IDENTIFIER ::= { 1 2 %s } B ::= BIT STRING { b (%s) } E ::= ENUMERATED { e (%s) } N ::= INTEGER { n (%s) }' % (va[0], va[0], va[0], va[0]),
                ' '.join('%s ::= SEQUENCE { COMPONENTS OF %s, m%d NULL }' % (ty[i], ty[nxt[i]], i) for i in range(n)) + ' w %s ::= { m0 NULL }' % ty[0],
                ' '.join('%s ::= SEQUENCE { m%d NULL, inner SEQUENCE { k%d NULL, COMPONENTS OF %s } }' % (ty[i], i, i, ty[nxt[i]]) for i in range(n)),
                ' '.join('%s ::= SEQUENCE OF %s' % (ty[i], ty[nxt[i]]) for i in range(n)) + ' w %s ::= { }' % ty[0],
                ' '.join('%s ::= SET { a %s OPTIONAL }' % (ty[i], ty[nxt[i]]) for i in range(n)) + ' w %s ::= { }' % ty[0],
                'CLS ::= CLASS { &id INTEGER UNIQUE, &Type } ' + ' '.join('Os%d CLS ::= { Os%d }' % (i, nxt[i]) for i in range(n))
                + ' S ::= SEQUENCE { id CLS.&id ({Os0}), v CLS.&Type ({Os0}{@id}) }',
                ' '.join('P%d {X} ::= P%d {X}' % (i, nxt[i]) for i in range(n)) + ' R ::= P0 {INTEGER}',
                ' '.join('o%d OBJECT IDENTIFIER ::= { o%d 1 }' % (i, nxt[i]) for i in range(n)),
                ' '.join('%s ::= x < %s' % (ty[i], ty[nxt[i]]) for i in range(n)),
            ]
    return out


BIG = [2 ** 31, 2 ** 32 - 1, 2 ** 32, 2 ** 63, 2 ** 64 - 1, 2 ** 64, 2 ** 127 - 1, 2 ** 127, 2 ** 128, 10 ** 40]
NUM_TEMPLATES = [
    'o OBJECT IDENTIFIER ::= { 1 2 %d }', 'o OBJECT IDENTIFIER ::= { joint-iso-itu-t(2) uuid(25) %d }', 'o OBJECT IDENTIFIER ::= { %d 1 }',
    'r RELATIVE-OID ::= { %d 3 }', 'A ::= [%d] INTEGER', 'A ::= [APPLICATION %d] EXPLICIT NULL', 'A ::= ENUMERATED { a (%d), b }',
    'A ::= ENUMERATED { a (-%d) }', 'A ::= INTEGER { n (%d) } v A ::= n', 'A ::= INTEGER { n (-%d) }', 'A ::= BIT STRING { b (%d) }',
    'A ::= INTEGER (0..%d)', 'A ::= INTEGER (-%d..0)', 'A ::= INTEGER (%d)', 'A ::= INTEGER (MIN..%d, ...)',
    'A ::= OCTET STRING (SIZE (%d))', 'A ::= SEQUENCE (SIZE (0..%d)) OF NULL', 'A ::= IA5String (SIZE (%d..MAX))',
    'v INTEGER ::= %d', 'v INTEGER ::= -%d', 'A ::= SEQUENCE { f INTEGER DEFAULT %d }', 'A ::= SEQUENCE { f INTEGER (0..%d) DEFAULT %d }',
    'A ::= SEQUENCE { a NULL, ..., [[ %d: b NULL ]] }', 'v REAL ::= %d.5', 'v REAL ::= { mantissa %d, base 2, exponent %d }',
    'A ::= UniversalString (FROM ({0,0,0,%d}))', 'A ::= INTEGER (1..5) (%d)', 'v SEQUENCE OF INTEGER ::= { %d, %d }',
]


H_REFS = ['A', 'a < A', 'A.&id', 'CLS.&Type', 'A {INTEGER}', 'SEQUENCE OF A', 'SET OF a < A', 'A (1..5)', 'A (SIZE (1))', 'A (FROM ("a"))', '[0] A',
          'A (WITH COMPONENTS { x })', 'a < b < A']
H_CTX = ['T ::= %s', 'T ::= SEQUENCE { f %s }', 'T ::= SEQUENCE { f %s OPTIONAL, ..., g %s }', 'T ::= SET { f %s DEFAULT 1 }', 'T ::= CHOICE { f %s }',
         'T ::= CHOICE { f %s, ..., [[ g %s ]] }', 'T ::= SEQUENCE OF %s', 'T ::= SET OF %s', 'T ::= SEQUENCE { COMPONENTS OF %s }',
         'T ::= SEQUENCE { f SEQUENCE { g %s } }', 'T ::= SEQUENCE { f CHOICE { g %s } }', 'v %s ::= 5', 'v %s ::= { }', 'v %s ::= a : 5',
         'T {X} ::= SEQUENCE { f %s, g X } U ::= T { %s }', 'T ::= INTEGER (%s)', 'T ::= IA5String (%s)', 'T ::= IA5String (FROM (%s))',
         'T ::= OCTET STRING (SIZE (%s))', 'T ::= OCTET STRING (CONTAINING %s)', 'T ::= BIT STRING (CONTAINING %s ENCODED BY { 1 2 })',
         'T ::= SEQUENCE { f INTEGER } (WITH COMPONENTS { f (%s) })', 'T ::= %s (CONSTRAINED BY { })', 'T ::= INSTANCE OF %s', 'T ::= TYPE-IDENTIFIER.&Type (%s)']
H_ENV = ['', 'A ::= CHOICE { a INTEGER, b SEQUENCE { x NULL } }', 'A ::= INTEGER', 'A ::= A', 'A ::= CHOICE { a a < A }', 'A ::= CHOICE { a CHOICE { b NULL } }',
         'CLS ::= CLASS { &id INTEGER UNIQUE, &Type } A CLS ::= { &id 1, &Type NULL }', 'A ::= SEQUENCE { x A OPTIONAL }', 'A ::= ENUMERATED { a }']
H_VALUES = ['MY-CLASS ::= CLASS { &id INTEGER UNIQUE, &Type } WITH SYNTAX { ID &id TYPE &Type } Gen{MY-CLASS : obj} ::= SEQUENCE { id MY-CLASS.&id, b BOOLEAN } Inst ::= Gen{{ID 1 TYPE INTEGER}}',
            'MY-CLASS ::= CLASS { &id INTEGER UNIQUE } Gen{MY-CLASS : obj} ::= SEQUENCE { id MY-CLASS.&id } o MY-CLASS ::= { &id 1 } Inst ::= Gen{o} Ins2 ::= Gen{{&id 2}}',
            'MY-CLASS ::= CLASS { &id INTEGER UNIQUE } Gen{MY-CLASS : Set} ::= SEQUENCE { id MY-CLASS.&id ({Set}) } Inst ::= Gen{{ {&id 1} | {&id 2} }}',
            'Ne-Ty ::= SEQUENCE { c CHOICE { one INTEGER, two BOOLEAN } } v Ne-Ty ::= { c one:4 }',
            'Ne-Ty ::= SET { c-d CHOICE { one-x INTEGER, two BOOLEAN } } v Ne-Ty ::= { c-d one-x:4 }',
            'Ne-Ty ::= SEQUENCE { s SEQUENCE { c CHOICE { one INTEGER } } } v Ne-Ty ::= { s { c one:4 } }',
            'Ne-Ty ::= CHOICE { c CHOICE { one INTEGER, two BOOLEAN } } v Ne-Ty ::= c : one : 4',
            'Ne-Ty ::= SEQUENCE { e ENUMERATED { aa, bb } DEFAULT aa, c CHOICE { one INTEGER } DEFAULT one:1 }',
            'Ne-Ty ::= SEQUENCE OF CHOICE { one INTEGER, two BOOLEAN } v Ne-Ty ::= { one:4, two:TRUE }',
            'Ne-Ty ::= SEQUENCE { b BIT STRING { f-g(0) } } v Ne-Ty ::= { b { f-g } }',
            'Ne-Ty ::= SEQUENCE { l SEQUENCE OF SEQUENCE { x-y INTEGER } } v Ne-Ty ::= { l { { x-y 1 }, { x-y 2 } } }']
H_EMPTY = ['ENUMERATED { }', 'CHOICE { }', 'SEQUENCE { }', 'SET { }', 'BIT STRING { }', 'INTEGER { }', 'ENUMERATED { ... }', 'CHOICE { ... }', 'SEQUENCE { ... }',
           'SEQUENCE { [[ ]] }', 'INTEGER ()', 'IA5String (FROM (""))', 'IA5String (FROM ("" | "a"))', 'IA5String (FROM ("".."z"))', 'IA5String (FROM ("a"..""))',
           'IA5String (SIZE (1) ^ FROM (""))', 'IA5String (SIZE (1) ^ FROM ("" .. "z"))', 'IA5String (FROM ("a".."z" ^ "0".."9"))',
           'IA5String (SIZE (1) ^ FROM ("a".."c" ^ "x"))', 'IA5String (SIZE (1) ^ FROM ("" | "z".."a"))', 'IA5String (FROM ("z".."a" | "") ^ SIZE (1))', 'IA5String (SIZE (1) ^ FROM ("a".."c" | ""))', 'NumericString (FROM ("a"))', 'IA5String (FROM (MIN..MAX))',
           'IA5String (SIZE (1) ^ FROM (MIN..MAX | "a"))', 'SEQUENCE (SIZE (0)) OF NULL', 'INTEGER (1 | 2 ^ "a")', 'INTEGER ("a".."b")', 'IA5String (1..5)',
           'IA5String (SIZE ("a"))', 'SEQUENCE { a INTEGER (1..0) }', 'INTEGER (ALL EXCEPT 1)', 'INTEGER (ALL EXCEPT (1..5))', 'INTEGER (INCLUDES E)',
           'ENUMERATED { a(0), a(0) }', 'SEQUENCE { a NULL, a NULL }', 'CHOICE { a NULL, a BOOLEAN }', 'SEQUENCE { a E }', 'SEQUENCE { a SEQUENCE OF E DEFAULT { } }']


def hazard_modules(ck):
    """every kind of type reference (plain, selection, class field, parameterized, constrained, tagged) in every position, against environments in
    which the referenced name is undefined, of the wrong kind, cyclic or a class object; and empty / degenerate bodies of every constructor"""
    out = []
    for e in H_ENV:
        for c in H_CTX:
            for r in H_REFS:
                out.append('%s\n%s' % (e, c.replace('%s', r)))
    out += H_VALUES
    for e in H_EMPTY:
        out.append('E ::= %s' % e)
        out.append('S ::= SEQUENCE { f %s OPTIONAL }' % e)
        out.append('E ::= %s e E ::= x d E ::= { }' % e)
    return out


def gen_cases(ck):
    cases = []

    def add(src, fam):
        for backend in ('rasn', 'ts'):
            cases.append({'op': 'compile', 'sources': [src], 'backend': backend, 'proj': False, 'render': True, '_fam': fam})

    quick = ck.tier == 'quick'
    for n in NOTATIONS:
        add(wrap(n), 'notation')
    add(BASE, 'base')
    for m in cycle_modules(ck):
        add(wrap(m), 'reference-cycle')
    hz = hazard_modules(ck)
    if quick:
        nfix = 3 * len(H_EMPTY) + len(H_VALUES)
        fixed = hz[-nfix:]                          # the degenerate bodies and nested values: always all of them
        rest = hz[:-nfix]
        ck.rng.shuffle(rest)
        hz = fixed + rest[:500]
    for m in hz:
        add(wrap(m), 'reference-hazard')
    for t in NUM_TEMPLATES:
        for b in (BIG if not quick else [BIG[i] for i in sorted(ck.rng.sample(range(len(BIG)), 4))]):
            add(wrap(t.replace('%d', str(b))), 'extreme-number')
    # every prefix (by characters; sampled in quick) of the base module and of the notations
    step = 7 if quick else 1
    for i in range(0, len(BASE), step):
        add(BASE[:i], 'prefix')
    for n in NOTATIONS[::(4 if quick else 1)]:
        w = wrap(n)
        for i in range(0, len(w), 5 if quick else 1):
            add(w[:i], 'prefix')
    # multi-byte characters at every position (sampled)
    for i in range(0, len(BASE), 11 if quick else 2):
        add(BASE[:i] + ck.rng.choice(['é', '€', '𝄞']) + BASE[i:], 'multibyte')
    # error excerpts cut at a fixed number of bytes: a malformed definition that nothing unindented follows (no END), with runs of
    # multi-byte characters placed so that every alignment of a 2-, 3- and 4-byte character meets byte 250..350 of the context
    for ch in ('é', '€', '𝄞'):
        for pad in range(0, 5 if quick else 12):
            run = ch * 160
            add('M DEFINITIONS ::= BEGIN\nA ::= SEQUENCE {\n  a INTEGER, -- %s%s\n  b BOOLEAN ?\n}\n' % ('x' * pad, run), 'excerpt-boundary')
            add('M DEFINITIONS ::= BEGIN\nB ::= NULL\nA ::= SEQUENCE {\n  b BOOLEAN ?\n  -- %s%s\n  c NULL }\n  END\n' % ('x' * pad, run), 'excerpt-boundary')
            add('M DEFINITIONS ::= BEGIN\n  v UTF8String ::= "%s%s" ?\n  END' % ('x' * pad, run), 'excerpt-boundary')
            add('%s%s\n' % ('y' * pad, run), 'excerpt-boundary')
    # byte soup
    for _ in range(400 if quick else 20000):
        k = ck.rng.randint(1, 40)
        sep = ck.rng.choice([' ', ' ', '', '\n'])
        add(sep.join(ck.rng.choice(SOUP) for _ in range(k)), 'soup')
    for _ in range(100 if quick else 4000):
        k = ck.rng.randint(1, 30)
        add(wrap(' '.join(ck.rng.choice(SOUP) for _ in range(k))), 'soup-in-module')
    # token-level mutations of the base module and of the notations
    btoks = TOKEN_RE.findall(BASE)
    for _ in range(500 if quick else 20000):
        t = btoks
        for _ in range(ck.rng.choice([1, 1, 2, 3])):
            t = mutate(ck, t)
        add(' '.join(t), 'mutation')
    for n in NOTATIONS:
        nt = TOKEN_RE.findall(wrap(n))
        for _ in range(3 if quick else 60):
            add(' '.join(mutate(ck, nt)), 'mutation-notation')
    # token-level mutations of real-world modules
    files = sorted(os.listdir(CORPUS))
    ck.rng.shuffle(files)
    for f in files[:(40 if quick else 892)]:
        src = open(os.path.join(CORPUS, f), encoding='utf-8', errors='replace').read()
        if len(src) > 60000 and quick:
            continue
        ctoks = TOKEN_RE.findall(src)
        add(src, 'corpus')
        for _ in range(3 if quick else 12):
            add(' '.join(mutate(ck, ctoks)), 'corpus-mutation')
    return cases


KNOWN = {
    'C08-cyclic-alias': lambda c, r: r.get('crash') == 'abort' and re.search(r'\bA ::= B\b.*\bB ::= (A|C)\b', c['sources'][0], re.S),
    'C08-huge-named-bit': lambda c, r: ('crash' in r or 'panic' in r) and re.search(r'\(\d{9,}\)', c['sources'][0]) and 'BIT STRING' in c['sources'][0],
}


def judge(ck, cases, results):
    for c, r in zip(cases, results):
        ck.note_case(c['backend'] + ':' + c['sources'][0])
        ck.count(c['_fam'])
        if 'panic' in r or 'crash' in r or 'harness_error' in r:
            slug = next((k for k, f in KNOWN.items() if ck.is_known(k) and f(c, r)), None)
            if slug:
                ck.known_hit(slug, {'backend': c['backend'], 'impl': r, 'asn1': c['sources'][0][:200]})
            else:
                ck.violation('impl-violation', {'op': 'compile', 'sources': c['sources'], 'backend': c['backend']},
                             family=c['_fam'], impl=r,
                             why='compiling or rendering the error/warnings did not return normally (panic / abort / hang)')
        elif r.get('ok'):
            ck.count('ok')
        else:
            ck.count('err')


def run(ck):
    ck.coverage['rule'] = ('every case compiled with both back ends in worker processes (panic hook, exit status, 30 s watchdog), every returned '
                           'error and warning rendered with Display and contextualize: hand-written modules using every notation the lexer accepts '
                           '(MACRO, CLASS/objects/sets, TIME, REAL, selection, parameterization, cyclic references, open comments/strings), every '
                           'prefix (sampled in quick) of them, multi-byte characters at every position, token soup, token-level mutations (delete, '
                           'insert, replace, duplicate, swap, splice) of them and of the real-world modules of the repository')
    ck.assumptions += ['theorems: the block-comment scanner and the error-excerpt arithmetic stay in range (C13_block_scanner_total, C17 invariant, '
                       'C08_excerpt_in_range); nom, proc_macro2/quote and the rest of the pipeline are covered by the search only',
                       'stack depth and wall-clock are runtime facts: observed by the worker harness (abort = stack overflow / OOM, hang = 30 s)']
    ck.prove('Props/C08.v', ['RasnV.Props.C08'])
    cases = gen_cases(ck)
    ck.sample({'asn1': cases[0]['sources'][0]})
    ck.sample({'asn1': cases[-1]['sources'][0][:300]})
    judge(ck, cases, run_harness(cases, per_case_timeout=30))


def replay(ck, data):
    ck.prove('Props/C08.v', ['RasnV.Props.C08'])
    cases = []
    for v in data.get('violations', []):
        c = v.get('case')
        if isinstance(c, dict) and c.get('op') == 'compile':
            c = dict(c)
            c.update({'proj': False, 'render': True, '_fam': v.get('family', 'replay')})
            cases.append(c)
    judge(ck, cases, run_harness(cases, per_case_timeout=30))
